#!/venv/bin/python
"""tools_mutate.py -- mutation sweep of the repository source against the registered checks (a detection audit, not a check).

  tools_mutate.py --file packages/geff/src/geff/validate/tracks.py --checks C13,C14 [--funcs f,g] [--max 60]
                  [--tests packages/geff/tests/test_validate] [--out mutation/tracks.json] [--seed 0]

For every selected single-point change (comparison flipped, and/or swapped, negation dropped, small constant changed, subscript
0/-1 swapped, +/- swapped, a raise / early return / assignment statement removed, a condition forced) the change is written into a
scratch worktree of /repo's HEAD (never into /repo), the named checks run with VERIF_REPO pointing at the worktree (quick tier), and the
outcome is recorded: killed (VIOLATION, exit 1), harness (exit 2: the change made the harness itself fail, no verdict), survived (exit 0).
Survivors are then run against the repository's own tests (--tests): a survivor the tests kill is not a realistic silent change.
What is left -- survived both -- is printed for manual triage (equivalent change? outside the property? or a gap in the generators).
"""
from __future__ import annotations

import argparse
import ast
import copy
import json
import os
import random
import subprocess
import sys
import tempfile
from pathlib import Path

V = Path(__file__).resolve().parent

CMP = {ast.Lt: ast.LtE, ast.LtE: ast.Lt, ast.Gt: ast.GtE, ast.GtE: ast.Gt, ast.Eq: ast.NotEq, ast.NotEq: ast.Eq,
       ast.In: ast.NotIn, ast.NotIn: ast.In, ast.Is: ast.IsNot, ast.IsNot: ast.Is}
CMP2 = {ast.Lt: ast.Gt, ast.Gt: ast.Lt, ast.LtE: ast.GtE, ast.GtE: ast.LtE}
BIN = {ast.Add: ast.Sub, ast.Sub: ast.Add, ast.Mult: ast.FloorDiv, ast.FloorDiv: ast.Mult, ast.Mod: ast.FloorDiv}


class Site:
    def __init__(self, path, kind, desc, lineno):
        self.path, self.kind, self.desc, self.lineno = path, kind, desc, lineno


def node_at(tree, path):
    n = tree
    for field, idx in path:
        n = getattr(n, field)
        if idx is not None:
            n = n[idx]
    return n


def set_at(tree, path, new):
    parent = node_at(tree, path[:-1])
    field, idx = path[-1]
    if idx is None:
        setattr(parent, field, new)
    else:
        getattr(parent, field)[idx] = new


def walk(node, path, in_func, funcs, out, annot=False):
    """collect mutation sites; only inside the selected functions (all functions if funcs is empty)"""
    if isinstance(node, (ast.FunctionDef, ast.AsyncFunctionDef)):
        in_func = in_func or not funcs or node.name in funcs
    for field, value in ast.iter_fields(node):
        if field in ("annotation", "returns", "decorator_list", "type_comment"):
            continue
        if isinstance(value, list):
            for i, v in enumerate(value):
                if isinstance(v, ast.AST):
                    visit(v, path + [(field, i)], in_func, funcs, out, parent=node, plist=value)
        elif isinstance(value, ast.AST):
            visit(value, path + [(field, None)], in_func, funcs, out, parent=node, plist=None)


def visit(n, path, in_func, funcs, out, parent, plist):
    ln = getattr(n, "lineno", 0)
    active = in_func
    if active and not isinstance(n, (ast.FunctionDef, ast.AsyncFunctionDef, ast.ClassDef)):
        if isinstance(n, ast.Compare) and len(n.ops) == 1:
            t = type(n.ops[0])
            if t in CMP:
                out.append(Site(path, "cmp", f"{t.__name__}->{CMP[t].__name__}", ln))
            if t in CMP2:
                out.append(Site(path, "cmp2", f"{t.__name__}->{CMP2[t].__name__}", ln))
        if isinstance(n, ast.BoolOp):
            out.append(Site(path, "boolop", "and<->or", ln))
            if len(n.values) >= 2:
                out.append(Site(path, "booldrop", "drop last operand", ln))
        if isinstance(n, ast.UnaryOp) and isinstance(n.op, ast.Not):
            out.append(Site(path, "not", "drop not", ln))
        if isinstance(n, ast.BinOp) and type(n.op) in BIN:
            out.append(Site(path, "binop", f"{type(n.op).__name__}->{BIN[type(n.op)].__name__}", ln))
        if isinstance(n, ast.Constant) and not isinstance(parent, ast.Expr):
            if isinstance(n.value, bool):
                out.append(Site(path, "const", f"{n.value}->{not n.value}", ln))
            elif isinstance(n.value, int) and abs(n.value) <= 64 and not (isinstance(parent, ast.keyword) and parent.arg == "stacklevel"):
                out.append(Site(path, "const", f"{n.value}->{n.value + 1}", ln))
                if n.value in (0, 1, -1) and isinstance(parent, (ast.Subscript, ast.UnaryOp, ast.Index if hasattr(ast, "Index") else ast.Subscript)):
                    out.append(Site(path, "index", f"{n.value}->{-1 if n.value == 0 else 0}", ln))
        if isinstance(n, (ast.If, ast.While)) and not (isinstance(n.test, ast.Name) and n.test.id == "TYPE_CHECKING"):
            out.append(Site(path, "iftrue", "condition->True", ln))
            out.append(Site(path, "iffalse", "condition->False", ln))
        if plist is not None and isinstance(n, ast.stmt) and len(plist) > 1:
            if isinstance(n, ast.Raise):
                out.append(Site(path, "delraise", "raise removed", ln))
            elif isinstance(n, (ast.Return, ast.Continue, ast.Break)) and n is not plist[-1]:
                out.append(Site(path, "delflow", f"{type(n).__name__} removed", ln))
            elif isinstance(n, ast.Expr) and isinstance(n.value, ast.Call):
                out.append(Site(path, "delcall", "call statement removed", ln))
            elif isinstance(n, (ast.Assign, ast.AugAssign)) and isinstance(n, ast.AugAssign):
                out.append(Site(path, "delaug", "augmented assignment removed", ln))
        if isinstance(n, ast.Call) and len(n.args) >= 2 and not n.keywords and all(not isinstance(a, ast.Starred) for a in n.args):
            out.append(Site(path, "swapargs", "first two arguments swapped", ln))
    walk(n, path, in_func, funcs, out)


def apply(tree, s: Site):
    t = copy.deepcopy(tree)
    n = node_at(t, s.path)
    if s.kind == "cmp":
        n.ops = [CMP[type(n.ops[0])]()]
    elif s.kind == "cmp2":
        n.ops = [CMP2[type(n.ops[0])]()]
    elif s.kind == "boolop":
        n.op = ast.Or() if isinstance(n.op, ast.And) else ast.And()
    elif s.kind == "booldrop":
        set_at(t, s.path, n.values[0] if len(n.values) == 2 else ast.BoolOp(op=n.op, values=n.values[:-1]))
    elif s.kind == "not":
        set_at(t, s.path, n.operand)
    elif s.kind == "binop":
        n.op = BIN[type(n.op)]()
    elif s.kind == "const":
        n.value = (not n.value) if isinstance(n.value, bool) else n.value + 1
    elif s.kind == "index":
        n.value = -1 if n.value == 0 else 0
    elif s.kind == "iftrue":
        n.test = ast.Constant(value=True)
    elif s.kind == "iffalse":
        n.test = ast.Constant(value=False)
    elif s.kind in ("delraise", "delflow", "delcall", "delaug"):
        set_at(t, s.path, ast.Pass())
    elif s.kind == "swapargs":
        n.args[0], n.args[1] = n.args[1], n.args[0]
    ast.fix_missing_locations(t)
    return ast.unparse(t) + "\n"


def run_check(chk, wt, tier):
    r = subprocess.run(["./check", chk, "--tier", tier], cwd=V, capture_output=True, text=True, timeout=2400,
                       env=dict(os.environ, VERIF_REPO=wt))
    lines = [l for l in r.stdout.splitlines() if l.startswith("VIOLATION")]
    nfi = bool(lines) and all("no-failing-input-found" in l for l in lines)
    return r.returncode, nfi


def main():
    ap = argparse.ArgumentParser()
    ap.add_argument("--file", required=True)
    ap.add_argument("--checks", required=True)
    ap.add_argument("--funcs", default="")
    ap.add_argument("--max", type=int, default=60)
    ap.add_argument("--tests", default="")
    ap.add_argument("--out", default="")
    ap.add_argument("--seed", type=int, default=0)
    ap.add_argument("--tier", default="quick")
    a = ap.parse_args()
    checks = a.checks.split(",")
    funcs = set(f for f in a.funcs.split(",") if f)
    wt = tempfile.mkdtemp(prefix="mut-", dir="/tmp")
    os.rmdir(wt)
    subprocess.run(["git", "-C", "/repo", "worktree", "add", "-q", "--detach", wt, "HEAD"], check=True)
    res = []
    try:
        target = Path(wt) / a.file
        orig = target.read_text()
        tree = ast.parse(orig)
        sites: list[Site] = []
        walk(tree, [], False, funcs, sites)
        rng = random.Random(a.seed)
        rng.shuffle(sites)
        # spread over kinds
        by_kind: dict[str, list[Site]] = {}
        for s in sites:
            by_kind.setdefault(s.kind, []).append(s)
        chosen: list[Site] = []
        while len(chosen) < a.max and any(by_kind.values()):
            for k in sorted(by_kind):
                if by_kind[k] and len(chosen) < a.max:
                    chosen.append(by_kind[k].pop())
        print(f"{a.file}: {len(sites)} sites, running {len(chosen)} mutants against {checks}", flush=True)
        # sanity: the unparsed original must pass (formatting-only change)
        target.write_text(ast.unparse(tree) + "\n")
        for c in checks:
            rc, _ = run_check(c, wt, a.tier)
            if rc != 0:
                print(f"BASELINE (unparsed original) gives exit {rc} on {c}: aborting")
                return 2
        for i, s in enumerate(chosen):
            src = apply(tree, s)
            try:
                compile(src, a.file, "exec")
            except SyntaxError:
                continue
            target.write_text(src)
            outcome, by, nfi = "survived", None, False
            for c in checks:
                rc, n = run_check(c, wt, a.tier)
                if rc == 1:
                    outcome, by, nfi = "killed", c, n
                    break
                if rc == 2:
                    outcome, by = "harness", c
            if outcome == "survived" and a.tests:
                env = dict(os.environ, PYTHONPATH=f"{wt}/packages/geff/src:{wt}/packages/geff-spec/src", PYTHONHASHSEED="0")
                r = subprocess.run(["/venv/bin/python", "-m", "pytest", "-q", "-x", "-p", "no:cacheprovider", "--timeout=600", *a.tests.split(",")],
                                   cwd=wt, env=env, capture_output=True, text=True, timeout=3000)
                if r.returncode != 0:
                    outcome = "killed-by-tests"
            rec = {"line": s.lineno, "kind": s.kind, "desc": s.desc, "outcome": outcome, "by": by, "no_failing_input_only": nfi,
                   "source_line": orig.splitlines()[s.lineno - 1].strip() if 0 < s.lineno <= len(orig.splitlines()) else ""}
            res.append(rec)
            print(f"[{i + 1}/{len(chosen)}] L{s.lineno} {s.kind} {s.desc}: {outcome}{' by ' + by if by else ''}{' (no failing input)' if nfi else ''}   | {rec['source_line'][:90]}", flush=True)
    finally:
        subprocess.run(["git", "-C", "/repo", "worktree", "remove", "--force", wt])
    summ = {}
    for r in res:
        summ[r["outcome"]] = summ.get(r["outcome"], 0) + 1
    print("SUMMARY", a.file, summ)
    for r in res:
        if r["outcome"] == "survived":
            print("  SURVIVOR", f"L{r['line']}", r["kind"], r["desc"], "|", r["source_line"][:100])
    if a.out:
        p = V / a.out
        p.parent.mkdir(parents=True, exist_ok=True)
        p.write_text(json.dumps({"file": a.file, "checks": checks, "funcs": sorted(funcs), "summary": summ, "mutants": res}, indent=1))
    return 0


if __name__ == "__main__":
    sys.exit(main())
