(* props/C04.v -- C04: structural validation accepts exactly the spec-conformant stores. *)
From Geff Require Import Base Dtype Vlen Tree Validate ValidateLemmas.
Open Scope string_scope.
Open Scope list_scope.

(* `conformant` (Validate.v) is the declarative reading of docs/specification.md and of the property text:
   valid metadata under "geff"; nodes and edges groups; a 1-D integer nodes/ids; an (E,2) edges/ids of the same
   dtype; the property groups present are exactly those named in the metadata (an absent props group = none),
   each with a values array whose first dimension is N resp. E and whose dtype is the stated one (uint64 offsets +
   a data array of the stated dtype exactly when variable-length), an optional 1-D boolean missing of that length;
   every axis names a 1-D node property without missing values.
   For every store (any size, any members): the validator accepts iff the store is conformant. *)
Theorem C04_sound : forall k root, validate_structure k (Some root) = Ok tt -> conformant root.
Proof. intros k root. apply validate_iff. Qed.
Print Assumptions C04_sound.

Theorem C04_complete : forall k root, conformant root -> validate_structure k (Some root) = Ok tt.
Proof. intros k root. apply validate_iff. Qed.
Print Assumptions C04_complete.

(* a rejection is ValueError -- FileNotFoundError only for a path that does not exist; never another exception *)
Theorem C04_exn : forall k s e, validate_structure k s = Err e ->
  e = ValueError \/ (e = FileNotFoundError /\ s = None /\ k = KPath).
Proof. exact validate_exn. Qed.
Print Assumptions C04_exn.

(* the two ways of having no group to look at: a path that does not exist is FileNotFoundError, a store object (or a path holding an
   array) in which no group can be opened is ValueError -- for every such target *)
Theorem C04_missing_target :
  validate_structure KPath None = Err FileNotFoundError /\
  validate_structure KObj None = Err ValueError /\
  forall k a, validate_structure k (Some (ZA a)) = Err ValueError.
Proof. split; [reflexivity | split; [reflexivity | intros k a; destruct k; reflexivity]]. Qed.
Print Assumptions C04_missing_target.

(* one property group: accepted iff declared in the metadata and conformant with its entry *)
Theorem C04_prop : forall len pmd name node,
  validate_prop len pmd (name, node) = Ok tt <-> exists pm, alookup name pmd = Some pm /\ prop_conformant len pm node.
Proof. exact validate_prop_iff. Qed.
Print Assumptions C04_prop.

(* non-vacuity: what the writer lays out for the example graph of C01 is conformant; deleting nodes/ids,
   or turning the mask into a 2-D array, makes it non-conformant (computed through the decision procedure) *)
Definition ex_root : znode :=
  ZG [("geff", AGeff (Some (mkmd true (Some [mkax "x" None None 0%Z])
                               [("x", mkpm DF64 false None None None); ("v", mkpm DI8 true None None None)] [] 0%Z)))]
     [("nodes", ZG [] [("ids", ZA (mkarr DU8 [2%nat] [1; 2]%Z));
                       ("props", ZG [] [("x", ZG [] [("values", ZA (mkarr DF64 [2%nat] [0; 1024]%Z))]);
                                        ("v", ZG [] [("values", ZA (mkarr DU64 [2%nat; 2%nat] [0; 1; 1; 0]%Z));
                                                     ("missing", ZA (mkarr DBool [2%nat] [0; 1]%Z));
                                                     ("data", ZA (mkarr DI8 [1%nat] [7]%Z))])])]);
      ("edges", ZG [] [("ids", ZA (mkarr DU8 [1%nat; 2%nat] [1; 2]%Z))]);
      ("foreign", ZG [] [])].

Example C04_nonvacuous :
  conformant ex_root /\
  ~ conformant (del_child ex_root "edges") /\
  validate_structure KObj (Some (del_child ex_root "edges")) = Err ValueError /\
  validate_structure KPath None = Err FileNotFoundError.
Proof.
  split; [apply (validate_iff KObj); vm_compute; reflexivity|].
  split; [intro H; apply (validate_iff KObj) in H; vm_compute in H; discriminate|].
  split; vm_compute; reflexivity.
Qed.
