(* props/C20.v -- C20: mock-data generators honour their parameters and emit valid geffs.
   Model: Mock.v (create_dummy_in_mem_geff, create_mock_geff = dummy + write_arrays onto a fresh
   store + validate_structure, the create_simple_* / create_empty_geff wrappers).  All statements
   are for every parameter value (no size bound); n and e range over Z.
   Vocabulary (MockLemmas.v): a property summary is (name, dtype, variable-length?, missing-bearing?);
   req_nprops / req_eprops / req_axes p are the summaries the parameters p ask for;
   names_ok p says the request is not contradictory (no two properties of one name on one side); as
   repaired (fix 42c98a8) the generators reject a contradictory request, so names_ok is a CONSEQUENCE of
   acceptance (C20_rejects_clash) and a conjunct of the acceptance condition, no longer a hypothesis.
   req_wf p, the hypothesis of the theorems, restricts nothing the interface offers: the keys of each
   extra-property dict are distinct (a Python dict; the model writes it as a list), and no extra property
   is given as an object array of arrays (modelled and run by the correspondence -- VObjArray -- but
   the statements do not speak about such requests).  Explicit arrays of every other dtype are inside:
   a float16 array is honoured as float32, a bytes array is rejected (item_ok). *)
From Geff Require Import Base Dtype GraphVal GraphValLemmas Vlen Mock MockLemmas MockTree MockTreeLemmas.
From Geff Require Tree Validate.
Open Scope Z_scope.
Open Scope list_scope.

(* ---- the edge generator: exactly min(requested, possible) edges ... *)
Theorem C20_count : forall directed n e, 0 <= n ->
  Z.of_nat (length (mock_edges directed n e)) = Z.max 0 (Z.min e (max_possible directed n)).
Proof. exact mock_edges_length. Qed.
Print Assumptions C20_count.

(* ... for 0 <= e this is min(e, possible), and possible is n(n-1) resp. n(n-1)/2, never negative *)
Theorem C20_possible : forall directed n, 0 <= n ->
  0 <= max_possible directed n /\
  max_possible directed n = Z.of_nat (length (node_pairs directed (Z.to_nat n))).
Proof. exact max_possible_spec. Qed.
Print Assumptions C20_possible.

(* ... unique node ids 0..n-1, existing endpoints, no self edge, no repeated edge (as unordered
   pairs when undirected) *)
Theorem C20_simple : forall directed n e,
  NoDup (arange_ids n) /\
  (forall x, In x (mock_edges directed n e) -> In (fst x) (arange_ids n) /\ In (snd x) (arange_ids n)) /\
  (forall x, In x (mock_edges directed n e) -> fst x <> snd x) /\
  NoDup (if directed then mock_edges directed n e else map norm_edge (mock_edges directed n e)).
Proof. exact mock_edges_valid. Qed.
Print Assumptions C20_simple.

(* these four conditions are what validate_data(graph=True) decides (C12's graph_check) *)
Theorem C20_graph_validation : forall directed ids edges,
  valid_graph directed ids edges <-> graph_check directed ids edges = None.
Proof. exact valid_graph_check. Qed.
Print Assumptions C20_graph_validation.

(* ---- create_dummy_in_mem_geff: whatever it returns carries exactly the request and is a valid graph *)
Theorem C20_dummy : forall p g, req_wf p -> 0 <= p_n p -> dummy p = Ok g ->
  let v := mem_view g in
  (* exactly the requested nodes, min(requested, possible) edges, directedness, id dtype *)
  (gv_ids v = arange_ids (p_n p) /\
   Z.of_nat (length (gv_edges v)) = Z.max 0 (Z.min (p_e p) (max_possible (p_directed p) (p_n p))) /\
   gv_directed v = p_directed p /\
   np_dtype (p_id p) = Some (gv_iddt v) /\ gv_edt v = gv_iddt v /\
   (* exactly the requested axes; exactly the requested properties with the requested dtypes, a
      variable-length / a sparse one exactly when requested (see C20_flags); declared as such in the metadata *)
   map ax_summary (gv_axes v) = req_axes p /\
   map pv_summary (gv_nprops v) = req_nprops p /\
   map pv_summary (gv_eprops v) = req_eprops p /\
   map pm_summary (gv_nmeta v) = map fst (req_nprops p) /\
   map pm_summary (gv_emeta v) = map fst (req_eprops p) /\
   (* one value (and one mask entry) per node resp. per edge *)
   Forall (fits (length (gv_ids v))) (gv_nprops v) /\
   Forall (fits (length (gv_edges v))) (gv_eprops v)) /\
  valid_graph (gv_directed v) (gv_ids v) (gv_edges v) /\
  graph_valid v = Ok tt.
Proof. exact dummy_honours. Qed.
Print Assumptions C20_dummy.

(* a contradictory request is never accepted (before the fix it was, and the returned geff and the store
   disagreed on the axis range) *)
Theorem C20_rejects_clash : forall p g, req_wf p -> dummy p = Ok g -> names_ok p.
Proof. exact dummy_rejects_clash. Qed.
Print Assumptions C20_rejects_clash.

(* ---- create_mock_geff: the store and the in-memory geff denote the same graph, and the graph carries
   exactly the request and is valid.  The second conjunct is DEFINITIONAL (the model's write_arrays ends
   by matching on the model's validate_structure, so it holds of every store the model returns) and is
   kept only because the correspondence observes the verdict of the real validate_structure under that
   name; the statement with content is C20_mock_conformant below. *)
Theorem C20_mock : forall p st g, req_wf p -> 0 <= p_n p -> mock p = Ok (st, g) ->
  store_view st = mem_view g /\
  validate_structure st = Ok tt /\
  honours p (mem_view g) /\
  valid_graph (gv_directed (mem_view g)) (gv_ids (mem_view g)) (gv_edges (mem_view g)) /\
  graph_valid (mem_view g) = Ok tt.
Proof. exact mock_honours. Qed.
Print Assumptions C20_mock.

(* ---- the store is a structurally valid geff, stated against the INDEPENDENT declarative predicate
   Validate.conformant (the reading of docs/specification.md that C04_sound / C04_complete tie to the
   validator model of C04): store_tree st (MockTree.v) is the zarr hierarchy of the store -- groups, arrays
   with dtype and shape, the metadata attribute -- and the correspondence compares it member by member
   with the real store (o_layout). *)
Theorem C20_mock_conformant : forall p st g, req_wf p -> 0 <= p_n p -> mock p = Ok (st, g) ->
  Validate.conformant (store_tree st).
Proof. exact mock_conformant. Qed.
Print Assumptions C20_mock_conformant.

(* hence C04's model of validate_structure accepts it, whether the store is designated by path or as an object *)
Theorem C20_mock_validates : forall p st g k, req_wf p -> 0 <= p_n p -> mock p = Ok (st, g) ->
  Validate.validate_structure k (Some (store_tree st)) = Ok tt.
Proof. exact mock_validates. Qed.
Print Assumptions C20_mock_validates.

(* `honours` is the conjunction spelled out in C20_dummy *)
Theorem C20_honours_unfold : forall p v, honours p v <->
  gv_ids v = arange_ids (p_n p) /\
  Z.of_nat (length (gv_edges v)) = Z.max 0 (Z.min (p_e p) (max_possible (p_directed p) (p_n p))) /\
  gv_directed v = p_directed p /\
  np_dtype (p_id p) = Some (gv_iddt v) /\ gv_edt v = gv_iddt v /\
  map ax_summary (gv_axes v) = req_axes p /\
  map pv_summary (gv_nprops v) = req_nprops p /\
  map pv_summary (gv_eprops v) = req_eprops p /\
  map pm_summary (gv_nmeta v) = map fst (req_nprops p) /\
  map pm_summary (gv_emeta v) = map fst (req_eprops p) /\
  Forall (fits (length (gv_ids v))) (gv_nprops v) /\
  Forall (fits (length (gv_edges v))) (gv_eprops v).
Proof. exact honours_unfold. Qed.
Print Assumptions C20_honours_unfold.

(* a variable-length property exactly when include_varlength, missing-bearing properties exactly:
   var_length (its first entry is flagged) when include_varlength and sparse_prop, on nodes and on
   edges, when include_missing *)
Theorem C20_flags : forall p v, honours p v ->
  map pv_name (filter pv_varlen (gv_nprops v)) = (if p_varlen p then [s_var_length] else []) /\
  map pv_name (filter pv_has_missing (gv_nprops v)) =
    (if p_varlen p then [s_var_length] else []) ++ (if p_missing p then [s_sparse_prop] else []) /\
  filter pv_varlen (gv_eprops v) = [] /\
  map pv_name (filter pv_has_missing (gv_eprops v)) = (if p_missing p then [s_sparse_prop] else []).
Proof. exact honours_flags. Qed.
Print Assumptions C20_flags.

(* ---- which parameter combinations are accepted, and what exactly is returned ---- *)
(* (0 <= num_nodes is a hypothesis: for a negative count numpy raises in linspace / zeros / the length test
   of an explicit array, which the model, counting in nat, does not reproduce; the correspondence does not
   send such requests to Coq and the oracle only watches them) *)
Theorem C20_accepted_iff : forall p g, req_wf p -> 0 <= p_n p ->
  (dummy p = Ok g <->
   exists iddt,
     ((np_dtype (p_id p) = Some iddt /\
       (is_integer iddt = true -> p_n p <= dt_max iddt + 1) /\                 (* ids 0..n-1 fit the id dtype *)
       axes_dtypes_ok p (Z.to_nat (p_n p)) /\                                  (* axis dtype names known (ordered if n > 0) *)
       extras_ok (Z.to_nat (p_n p)) (p_enp p) /\                               (* documented extra node properties *)
       extras_ok (length (mock_edges (p_directed p) (p_n p) (p_e p))) (p_eep p) /\
       (p_varlen p = true -> (0 < Z.to_nat (p_n p))%nat) /\                    (* F01a: no var-length property without nodes *)
       is_numeric iddt = true) /\                                             (* np.arange(n, dtype="str") raises *)
      names_ok p) /\                                                          (* no extra property named like a generated one *)
     g = spec_geff p iddt).
Proof. exact dummy_iff. Qed.
Print Assumptions C20_accepted_iff.

Theorem C20_mock_accepts : forall p iddt, names_ok p -> accepted_params p iddt -> is_integer iddt = true ->
  exists st, mock p = Ok (st, spec_geff p iddt).
Proof. exact mock_accepts. Qed.
Print Assumptions C20_mock_accepts.

(* create_mock_geff accepts only what create_dummy_in_mem_geff accepts with an integer id dtype, and
   returns that very in-memory geff *)
Theorem C20_mock_spec : forall p st g, req_wf p -> 0 <= p_n p -> mock p = Ok (st, g) ->
  exists iddt, accepted_params p iddt /\ names_ok p /\ is_integer iddt = true /\ g = spec_geff p iddt /\
               write_arrays g = Ok st /\ store_view st = mem_view g /\ validate_structure st = Ok tt.
Proof. exact mock_spec. Qed.
Print Assumptions C20_mock_spec.

(* ---- the wrappers: every request within the uint64 id range is accepted, is never contradictory,
   and asks for: t (+ z) (+ y, x) as float64 axes, edge properties score: float64 and color: int64.
   (The last three conjuncts are DEFINITIONAL: the model's wrappers are aliases of mock on simple_params;
   that the real wrappers forward their arguments like that is evidence of the correspondence only.) *)
Theorem C20_wrappers : forall n e d z y x,
  (req_wf (simple_params n e d z y x) /\ names_ok (simple_params n e d z y x)) /\
  (0 <= n <= 2 ^ 64 -> exists st, mock (simple_params n e d z y x) = Ok (st, spec_geff (simple_params n e d z y x) DU64)) /\
  req_eprops (simple_params n e d z y x) = [("score"%string, DF64, false, false); ("color"%string, DI64, false, false)] /\
  req_nprops (simple_params n e d z y x) =
    [(s_t, DF64, false, false)] ++ (if z then [(s_z, DF64, false, false)] else []) ++
    (if y then [(s_y, DF64, false, false)] else []) ++ (if x then [(s_x, DF64, false, false)] else []) /\
  simple_2d n e d = mock (simple_params n e d false true true) /\
  simple_3d n e d = mock (simple_params n e d true true true) /\
  simple_temporal n e d = mock (simple_params n e d false false false).
Proof. exact wrappers_spec. Qed.
Print Assumptions C20_wrappers.

Theorem C20_empty : forall d,
  (req_wf (empty_params d) /\ names_ok (empty_params d)) /\
  (exists st, empty_geff d = Ok (st, spec_geff (empty_params d) DU64)) /\
  req_nprops (empty_params d) = [] /\ req_eprops (empty_params d) = [] /\ req_axes (empty_params d) = [].
Proof. exact empty_spec. Qed.
Print Assumptions C20_empty.

(* non-vacuity: requests that the unrepaired generator got wrong are accepted and come out right:
   undirected n=3, e=3 (a duplicate before), directed n=3, e=6 (5 edges before), undirected n=4, e=5
   (4 edges before), include_missing with a different number of edges and nodes (edge mask of node
   length before); and a request that is rejected *)
Definition ex_params (directed : bool) (n e : Z) (vl ms : bool) : params :=
  {| p_id := "uint8"; p_pos := "float32"; p_time := "int16"; p_directed := directed; p_n := n; p_e := e;
     p_enp := EDict [(KStr "label", VDtype "str"); (KStr "given", VArray DI32 (Z.to_nat n) [2%nat])];
     p_eep := EDict [(KStr "w", VDtype "float64")];
     p_t := true; p_z := false; p_y := true; p_x := true; p_varlen := vl; p_missing := ms |}.

(* the same request with one more extra node property *)
Definition ex_with (name : string) (v : pval) (vl ms : bool) : params :=
  let q := ex_params false 3 3 vl ms in
  {| p_id := p_id q; p_pos := p_pos q; p_time := p_time q; p_directed := false; p_n := 3; p_e := 3;
     p_enp := EDict [(KStr "label", VDtype "str"); (KStr name, v)]; p_eep := p_eep q;
     p_t := true; p_z := false; p_y := true; p_x := true; p_varlen := vl; p_missing := ms |}.

Example C20_nonvacuous :
  (req_wf (ex_params false 3 3 true true) /\ names_ok (ex_params false 3 3 true true)) /\
  (* the store of that request passes C04's validator model on its tree *)
  (match mock (ex_params false 3 3 true true) with
   | Ok (st, _) => Validate.validate_structure Validate.KObj (Some (store_tree st)) = Ok tt /\
                   In ("nodes/props/var_length/data"%string, Some (DU64, [9%nat])) (store_listing st)
   | Err _ => False
   end) /\
  (* a clash with a generated name is rejected (accepted before fix 42c98a8), a reserved name that does not clash is not *)
  dummy (ex_with "t" (VDtype "int8") false false) = Err ValueError /\
  dummy (ex_with "var_length" (VDtype "int") true false) = Err ValueError /\
  dummy (ex_with "sparse_prop" (VArray DI8 3 []) false true) = Err ValueError /\
  map (fun x => map pv_name (gv_nprops (mem_view x)))
      (match dummy (ex_with "z" (VDtype "int8") false false) with Ok g => [g] | Err _ => [] end) = [["t"; "y"; "x"; "label"; "z"]%string] /\
  (* explicit arrays: float16 comes back as float32, bytes is rejected, an object array of arrays becomes variable-length *)
  map (fun x => map pv_summary (gv_nprops (mem_view x)))
      (match dummy (ex_with "h" (VArray DF16 3 [2%nat]) false false) with Ok g => [g] | Err _ => [] end)
    = [[("t"%string, DI16, false, false); ("y"%string, DF32, false, false); ("x"%string, DF32, false, false);
        ("label"%string, DStr, false, false); ("h"%string, DF32, false, false)]] /\
  dummy (ex_with "b" (VArray DBytes 3 []) false false) = Err ValueError /\
  map (fun x => map pv_summary (gv_nprops (mem_view x)))
      (match dummy (ex_with "o" (VObjArray [varlen_elem 1; varlen_elem 2; varlen_elem 0]) false false) with Ok g => [g] | Err _ => [] end)
    = [[("t"%string, DI16, false, false); ("y"%string, DF32, false, false); ("x"%string, DF32, false, false);
        ("label"%string, DStr, false, false); ("o"%string, DU64, true, false)]] /\
  (* a str id dtype is rejected *)
  dummy {| p_id := "str"; p_pos := "float32"; p_time := "int16"; p_directed := true; p_n := 2; p_e := 1; p_enp := ENone; p_eep := ENone;
           p_t := true; p_z := false; p_y := false; p_x := false; p_varlen := false; p_missing := false |} = Err TypeError /\
  (match mock (ex_params false 3 3 true true) with
   | Ok (st, g) =>
       gv_edges (mem_view g) = [(0, 1); (1, 2); (0, 2)] /\
       map pv_summary (gv_nprops (store_view st)) =
         [("t"%string, DI16, false, false); ("y"%string, DF32, false, false); ("x"%string, DF32, false, false);
          ("label"%string, DStr, false, false); ("given"%string, DI32, false, false);
          ("var_length"%string, DU64, true, true); ("sparse_prop"%string, DF64, false, true)] /\
       map pv_summary (gv_eprops (store_view st)) =
         [("w"%string, DF64, false, false); ("sparse_prop"%string, DF64, false, true)]
   | Err _ => False
   end) /\
  map (fun x => gv_edges (mem_view x)) (match dummy (ex_params true 3 6 false false) with Ok g => [g] | Err _ => [] end)
    = [[(0, 1); (1, 2); (0, 2); (1, 0); (2, 1); (2, 0)]] /\
  map (fun x => length (gv_edges (mem_view x))) (match dummy (ex_params false 4 5 false false) with Ok g => [g] | Err _ => [] end)
    = [5%nat] /\
  map (fun x => map pv_missing (gv_eprops (mem_view x))) (match dummy (ex_params true 5 3 false true) with Ok g => [g] | Err _ => [] end)
    = [[None; Some [true; false; true]]] /\
  dummy (ex_params true 0 0 true false) = Err IndexError /\
  dummy (ex_params true 257 0 false false) = Err ValueError.
Proof.
  split.
  - split.
    + unfold req_wf, dict_keys_ok, plain_items, plain_item. cbn. repeat split; repeat constructor; cbn; intuition discriminate.
    + unfold names_ok. cbn. split; repeat constructor; cbn; intuition discriminate.
  - vm_compute. repeat split. tauto.
Qed.
