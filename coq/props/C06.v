(* props/C06.v -- C06: existing geffs are never clobbered implicitly; overwrite replaces completely. *)
From Geff Require Import Base Dtype Vlen Tree Validate Write Read WriteLemmas ReadLemmas C01Lemmas CrashLemmas OverwriteLemmas.
From Geff.Gen Require Import Consts.
Open Scope string_scope.
Open Scope list_scope.

(* exists_geff k st is what check_for_geff answers: for a str/Path, "the path exists"; for a store object,
   "its root group carries the geff attribute". *)

(* Without overwrite, a write to a location that holds a geff raises FileExistsError and issues NO mutation:
   the store is the same state with an empty trace -- for every input, every metadata, validation on or off. *)
Theorem C06_refuse : forall k pre g md v,
  exists_geff k pre = true ->
  write_arrays k g md v false (init pre) = (init pre, Err FileExistsError).
Proof. exact refuse. Qed.
Print Assumptions C06_refuse.

(* With overwrite, writing a well-formed graph over ANY geff-holding group (whatever the old graph, its properties,
   dtypes, sizes, metadata; with or without foreign siblings) succeeds and leaves exactly the layout of the NEW graph on
   top of `cleaned` = the old group minus nodes, edges and the geff attribute (C05_reject_frame: nothing else is touched;
   for a path that held nothing else the path is recreated).  The result validates and reads back as exactly the new
   graph: no property, array or metadata field of the previous graph survives. *)
Theorem C06_replace : forall k a ch g md md' n e,
  ahas "geff" a = true -> (k = KPath \/ k = KObj) ->
  wf_input g md n e -> final_metadata g md = Ok md' ->
  let post := layout (cleaned k a ch) g (backfill (w_nids g) md (w_nprops g)) md' in
  (exists tr, write_arrays k g md true true (init (Some (ZG a ch))) = (mkst (Some post) tr, Ok tt)) /\
  validate_structure k (Some post) = Ok tt /\
  read_to_memory k (Some post) true None None
  = Ok (mkmg md' (w_nids g) (w_eids g) (up_props (backfill (w_nids g) md (w_nprops g))) (up_props (w_eprops g))).
Proof. exact overwrite_replaces. Qed.
Print Assumptions C06_replace.

(* the same layout function describes a write to an empty location (C01_layout with pre = cleaned ...): overwrite is
   indistinguishable from writing the new graph where the old geff has been removed *)
Theorem C06_as_fresh : forall k pre s g md md' v n,
  vacant pre -> s_root s = pre ->
  a_dt (w_nids g) = a_dt (w_eids g) -> is_integer (a_dt (w_nids g)) = true -> len0 (w_nids g) = Some n ->
  props_ok (backfill (w_nids g) md (w_nprops g)) -> props_ok (w_eprops g) ->
  final_metadata g md = Ok md' ->
  (v = true -> validate_structure k (Some (layout pre g (backfill (w_nids g) md (w_nprops g)) md')) = Ok tt) ->
  exists tr, write_core k g md v s = (mkst (Some (layout pre g (backfill (w_nids g) md (w_nprops g)) md')) tr, Ok tt).
Proof. exact write_core_layout. Qed.
Print Assumptions C06_as_fresh.

(* in any history, a call without overwrite that meets a geff is a no-op *)
Theorem C06_history_refuse : forall k st c,
  exists_geff k st = true -> c_ov c = false -> step k st c = (st, Err FileExistsError).
Proof. exact history_refuse. Qed.
Print Assumptions C06_history_refuse.

(* non-vacuity: write A (property "old", uint16 ids); refuse B without overwrite; overwrite with B (int8 ids, property "new"):
   nothing named "old" is left, the foreign sibling is *)
Example C06_nonvacuous :
  let A := mkwg (mkarr DU16 [2%nat] [1; 2]%Z) (mkarr DU16 [1%nat; 2%nat] [1; 2]%Z)
                (Some [("old", mkprop (PFixed (mkarr DF64 [2%nat] [0; 1024]%Z)) None)]) (Some []) in
  let B := mkwg (mkarr DI8 [1%nat] [5]%Z) (mkarr DI8 [0%nat; 2%nat] [])
                (Some [("new", mkprop (PFixed (mkarr DBool [1%nat] [1]%Z)) None)]) None in
  let md := mkmd true None [] [] 0%Z in
  let s0 := Some (ZG [("foo", AOther 1%Z)] [("other", ZG [] [])]) in
  let s1 := fst (run (write_arrays KObj A md true false) s0) in
  exists_geff KObj s1 = true /\
  run (write_arrays KObj B md true false) s1 = (s1, Err FileExistsError) /\
  match fst (run (write_arrays KObj B md true true) s1) with
  | Some root => get_path root ["nodes"; "props"; "old"] = None /\ get_path root ["nodes"; "props"; "new"] <> None /\
                 get root "other" = Some (ZG [] []) /\ get root "edges" <> None
  | None => False
  end.
Proof. cbn zeta. vm_compute. repeat split; discriminate. Qed.
