(* props/C06.v -- C06: existing geffs are never clobbered implicitly; overwrite replaces completely. *)
From Geff Require Import Base Dtype Vlen Tree Validate Write Read WriteLemmas ReadLemmas C01Lemmas CrashLemmas OverwriteLemmas.
From Geff.Gen Require Import Consts.
Open Scope string_scope.
Open Scope list_scope.

(* exists_geff k st is what check_for_geff answers: for a str/Path, "the path exists"; for a store object,
   "its root group carries the geff attribute". *)

(* Without overwrite, a write to a location that holds a geff raises FileExistsError and issues NO mutation:
   the store is the same state with an empty trace -- for every input, every metadata, validation on or off. *)
Theorem C06_refuse : forall k pre g md v,
  exists_geff k pre = true ->
  write_arrays k g md v false (init pre) = (init pre, Err FileExistsError).
Proof. exact refuse. Qed.
Print Assumptions C06_refuse.

(* With overwrite, writing a well-formed graph over ANY geff-holding group (whatever the old graph, its properties,
   dtypes, sizes, metadata; with or without foreign siblings) succeeds and leaves exactly the layout of the NEW graph on
   top of `cleaned` = the old group minus nodes, edges and the geff attribute (C05_reject_frame: nothing else is touched;
   for a path that held nothing else the path is recreated).  The result validates and reads back as exactly the new
   graph: no property, array or metadata field of the previous graph survives. *)
Theorem C06_replace : forall k a ch g md md' n e,
  ahas "geff" a = true -> (k = KPath \/ k = KObj) ->
  wf_input g md n e -> final_metadata g md = Ok md' ->
  let post := layout (cleaned k a ch) g (backfill (w_nids g) md (w_nprops g)) md' in
  (exists tr, write_arrays k g md true true (init (Some (ZG a ch))) = (mkst (Some post) tr, Ok tt)) /\
  validate_structure k (Some post) = Ok tt /\
  read_to_memory k (Some post) true None None
  = Ok (mkmg md' (w_nids g) (w_eids g) (up_props (backfill (w_nids g) md (w_nprops g))) (up_props (w_eprops g))).
Proof. exact overwrite_replaces. Qed.
Print Assumptions C06_replace.

(* the same layout function describes a write to an empty location (C01_layout with pre = cleaned ...): overwrite is
   indistinguishable from writing the new graph where the old geff has been removed *)
Theorem C06_as_fresh : forall k pre s g md md' v n,
  vacant pre -> s_root s = pre ->
  a_dt (w_nids g) = a_dt (w_eids g) -> is_integer (a_dt (w_nids g)) = true -> len0 (w_nids g) = Some n ->
  props_ok (backfill (w_nids g) md (w_nprops g)) -> props_ok (w_eprops g) ->
  final_metadata g md = Ok md' ->
  (v = true -> validate_structure k (Some (layout pre g (backfill (w_nids g) md (w_nprops g)) md')) = Ok tt) ->
  exists tr, write_core k g md v s = (mkst (Some (layout pre g (backfill (w_nids g) md (w_nprops g)) md')) tr, Ok tt).
Proof. exact write_core_layout. Qed.
Print Assumptions C06_as_fresh.

(* in any history, a call without overwrite that meets a geff is a no-op *)
Theorem C06_history_refuse : forall k st c,
  exists_geff k st = true -> c_ov c = false -> step k st c = (st, Err FileExistsError).
Proof. exact history_refuse. Qed.
Print Assumptions C06_history_refuse.

(* GRAPH-LIBRARY WRITERS.  geff.write / write_nx / write_rx / write_sg run their own guard and then reach write_arrays with
   overwrite=False (api_write, Write.v: two guards in a row).  The full statement -- "geff.write(overwrite=...) behaves as
   write_arrays(overwrite=...)" on every location -- is: *)
Definition C06_api_full : Prop := forall k g md v ov pre,
  api_write k g md v ov (init pre) = write_arrays k g md v ov (init pre).

(* refusal: same as write_arrays, no mutation *)
Theorem C06_api_refuse : forall k pre g md v,
  exists_geff k pre = true -> api_write k g md v false (init pre) = (init pre, Err FileExistsError).
Proof. exact api_refuse. Qed.
Print Assumptions C06_api_refuse.

(* nothing there yet: identical to write_arrays *)
Theorem C06_api_fresh : forall k g md v ov s,
  exists_geff k (s_root s) = false -> api_write k g md v ov s = write_arrays k g md v ov s.
Proof. exact api_fresh. Qed.
Print Assumptions C06_api_fresh.

(* overwrite over a geff: identical to write_arrays(overwrite=True) -- hence C06_replace applies -- exactly when the location does
   not count as occupied once the old geff is deleted: every store object (whatever else its root holds) ... *)
Theorem C06_api_overwrite_partial : forall k a ch g md v s,
  s_root s = Some (ZG a ch) -> ahas "geff" a = true -> exists_geff k (cleaned k a ch) = false ->
  api_write k g md v true s = write_arrays k g md v true s.
Proof. exact api_overwrite_same. Qed.
Print Assumptions C06_api_overwrite_partial.

Theorem C06_api_overwrite_store_object : forall a ch g md v s,
  s_root s = Some (ZG a ch) -> ahas "geff" a = true ->
  api_write KObj g md v true s = write_arrays KObj g md v true s.
Proof. exact api_overwrite_obj. Qed.
Print Assumptions C06_api_overwrite_store_object.

(* ... but NOT a directory that holds the geff beside other members (known finding
   graph-writer-overwrite-path-beside-foreign-members): for EVERY graph the old geff is deleted and FileExistsError is raised *)
Theorem C06_api_overwrite_beside : forall a ch g md v s,
  s_root s = Some (ZG a ch) -> ahas "geff" a = true -> adel path_EDGES (adel path_NODES ch) <> [] ->
  exists tr, api_write KPath g md v true s
             = (mkst (Some (ZG (adel "geff" a) (adel path_EDGES (adel path_NODES ch)))) tr, Err FileExistsError).
Proof. exact api_overwrite_path_beside. Qed.
Print Assumptions C06_api_overwrite_beside.

Theorem C06_api_refuted : ~ C06_api_full.
Proof.
  intros H.
  specialize (H KPath (mkwg (mkarr DU8 [1%nat] [5]%Z) (mkarr DU8 [0%nat; 2%nat] []) (Some []) (Some [])) (mkmd true None [] [] 0%Z) true true
                (Some (ZG [("geff", AGeff (Some (mkmd true None [] [] 0%Z)))]
                          [("nodes", ZG [] [("ids", ZA (mkarr DU8 [0%nat] []))]); ("edges", ZG [] [("ids", ZA (mkarr DU8 [0%nat; 2%nat] []))]);
                           ("seg", ZG [] [])]))).
  vm_compute in H. discriminate H.
Qed.
Print Assumptions C06_api_refuted.

(* "never clobbered IMPLICITLY": in the source as it is now (regenerated on every run from the AST of every function of the two
   packages, harness/translate.py), every parameter called `overwrite` that has a default defaults to False -- writers, converters,
   table export and CLI commands alike (the translator refuses to run if one of the known entry points loses the parameter) *)
Definition overwrite_default_ok (e : string * string * string) : bool :=
  match e with (_, prm, d) => negb (String.eqb prm "overwrite") || String.eqb d "False" || String.eqb d "required" end.
Theorem C06_source_overwrite_defaults_false :
  forallb overwrite_default_ok param_defaults = true /\
  existsb (fun e => match e with (f, prm, d) => String.eqb f "geff/core_io/_base_write.py:write_arrays" && String.eqb prm "overwrite" && String.eqb d "False" end)
          param_defaults = true.
Proof. vm_compute. split; reflexivity. Qed.
Print Assumptions C06_source_overwrite_defaults_false.

(* non-vacuity: write A (property "old", uint16 ids); refuse B without overwrite; overwrite with B (int8 ids, property "new"):
   nothing named "old" is left, the foreign sibling is *)
Example C06_nonvacuous :
  let A := mkwg (mkarr DU16 [2%nat] [1; 2]%Z) (mkarr DU16 [1%nat; 2%nat] [1; 2]%Z)
                (Some [("old", mkprop (PFixed (mkarr DF64 [2%nat] [0; 1024]%Z)) None)]) (Some []) in
  let B := mkwg (mkarr DI8 [1%nat] [5]%Z) (mkarr DI8 [0%nat; 2%nat] [])
                (Some [("new", mkprop (PFixed (mkarr DBool [1%nat] [1]%Z)) None)]) None in
  let md := mkmd true None [] [] 0%Z in
  let s0 := Some (ZG [("foo", AOther 1%Z)] [("other", ZG [] [])]) in
  let s1 := fst (run (write_arrays KObj A md true false) s0) in
  exists_geff KObj s1 = true /\
  run (write_arrays KObj B md true false) s1 = (s1, Err FileExistsError) /\
  match fst (run (write_arrays KObj B md true true) s1) with
  | Some root => get_path root ["nodes"; "props"; "old"] = None /\ get_path root ["nodes"; "props"; "new"] <> None /\
                 get root "other" = Some (ZG [] []) /\ get root "edges" <> None
  | None => False
  end.
Proof. cbn zeta. vm_compute. repeat split; discriminate. Qed.

(* =====================================================================================================================
   DEEPENING (c03x): refusal for write_dicts and for the backend writers behind geff.write (DictsCrash.v).
   ===================================================================================================================== *)
From Geff Require Import Dicts Backends BackendsMd DictsCrash.

(* geff.write(graph, store) without overwrite on a location that holds a geff: FileExistsError and NO mutation, whichever backend
   the graph belongs to and whatever it would have written (w is arbitrary: the backend is not even entered) *)
Theorem C06_backend_refuse : forall k pre (w : M unit),
  exists_geff k pre = true -> api_ov k false w (init pre) = (init pre, Err FileExistsError).
Proof. exact api_ov_refuse. Qed.
Print Assumptions C06_backend_refuse.

(* api_ov with overwrite=False is the api wrapper the C03 theorems are stated with *)
Theorem C06_api_ov_false : forall k w s, api_ov k false w s = Backends.api_write k w s.
Proof. exact api_ov_false. Qed.
Print Assumptions C06_api_ov_false.

(* write_dicts (it has no overwrite parameter: write_arrays is reached with its default False) on a location that holds a geff:
   no mutation for ANY dictionaries; FileExistsError, unless the dictionaries themselves are rejected first *)
Theorem C06_write_dicts_refuse : forall k pre g nn en md,
  exists_geff k pre = true ->
  write_dicts k g nn en md (init pre)
  = (init pre, Err (match dicts_wgraph g nn en with Ok _ => FileExistsError | Err e => e end)).
Proof. exact write_dicts_refuse. Qed.
Print Assumptions C06_write_dicts_refuse.

(* the backends called directly (NxBackend.write(graph, store) ... : no wrapper guard) refuse through write_arrays' own guard *)
Theorem C06_nx_direct_refuse : forall k pre d g mdc axes mdtok,
  exists_geff k pre = true ->
  exists e, nx_write_md k d g mdc axes mdtok (init pre) = (init pre, Err e).
Proof. intros k pre d g mdc axes mdtok H. unfold nx_write_md, bind, lift. destruct (dict_md mdc d axes mdtok) as [m|e]; [|eexists; reflexivity].
  rewrite (write_dicts_refuse k pre g _ _ m H). eexists. reflexivity. Qed.
Print Assumptions C06_nx_direct_refuse.

(* geff.write of a networkx graph with overwrite is Write.api_write on the arrays write_dicts builds: C06_api_overwrite_partial /
   C06_api_overwrite_store_object / C06_api_overwrite_beside (known finding) are statements about the real entry point *)
Theorem C06_api_nx_is_api_write : forall k ov d g axes mdtok axtok md w s,
  fresh_md d axes mdtok axtok = Ok md ->
  dicts_wgraph g (keys_of (map snd (d_nodes g))) (keys_of (map snd (d_edges g))) = Ok w ->
  api_ov k ov (nx_write k d g axes mdtok axtok) s = Write.api_write k w md true ov s.
Proof. exact api_nx_arrays. Qed.
Print Assumptions C06_api_nx_is_api_write.

Example C06_dicts_nonvacuous :
  let g := mkdg [(4%Z, [("t", PFloat 1024)]); (9%Z, [("t", PFloat 2048)])] [((4%Z, 9%Z), [])] in
  let h := mkdg [(1%Z, [("u", PInt 5)])] [] in
  let md := mkmd true None [] [] 0%Z in
  let s1 := fst (run (write_dicts KObj g ["t"] [] md) None) in
  exists_geff KObj s1 = true /\
  run (write_dicts KObj h ["u"] [] md) s1 = (s1, Err FileExistsError) /\
  run (api_ov KObj false (nx_write KObj true h None 0 0)) s1 = (s1, Err FileExistsError) /\
  match fst (run (api_ov KObj true (nx_write KObj true h None 0 0)) s1) with
  | Some root => get_path root ["nodes"; "props"; "t"] = None /\ get_path root ["nodes"; "props"; "u"] <> None
  | None => False
  end.
Proof. cbn zeta. vm_compute. repeat split; discriminate. Qed.
