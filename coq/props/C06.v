(* props/C06.v -- C06: existing geffs are never clobbered implicitly; overwrite replaces completely. *)
From Geff Require Import Base Dtype Vlen Tree Validate Write Read WriteLemmas ReadLemmas C01Lemmas CrashLemmas OverwriteLemmas.
From Geff.Gen Require Import Consts.
Open Scope string_scope.
Open Scope list_scope.

(* exists_geff k st is what check_for_geff answers: for a str/Path, "the path exists"; for a store object,
   "its root group carries the geff attribute". *)

(* Without overwrite, a write to a location that holds a geff raises FileExistsError and issues NO mutation:
   the store is the same state with an empty trace -- for every input, every metadata, validation on or off. *)
Theorem C06_refuse : forall k pre g md v,
  exists_geff k pre = true ->
  write_arrays k g md v false (init pre) = (init pre, Err FileExistsError).
Proof. exact refuse. Qed.
Print Assumptions C06_refuse.

(* With overwrite, writing a well-formed graph over ANY geff-holding group (whatever the old graph, its properties,
   dtypes, sizes, metadata; with or without foreign siblings) succeeds and leaves exactly the layout of the NEW graph on
   top of `cleaned` = the old group minus nodes, edges and the geff attribute (C05_reject_frame: nothing else is touched;
   for a path that held nothing else the path is recreated).  The result validates and reads back as exactly the new
   graph: no property, array or metadata field of the previous graph survives. *)
From Geff Require ModelDomain.
(* ModelDomain.in_domain: usable property names, no bytes arrays -- where the tree model is faithful (see C01_roundtrip) *)
Theorem C06_replace : forall k a ch g md md' n e,
  ahas "geff" a = true -> (k = KPath \/ k = KObj) ->
  wf_input g md n e -> ModelDomain.in_domain g md -> final_metadata g md = Ok md' ->
  let post := layout (cleaned k a ch) g (backfill (w_nids g) md (w_nprops g)) md' in
  (exists tr, write_arrays k g md true true (init (Some (ZG a ch))) = (mkst (Some post) tr, Ok tt)) /\
  validate_structure k (Some post) = Ok tt /\
  read_to_memory k (Some post) true None None
  = Ok (mkmg md' (w_nids g) (w_eids g) (up_props (backfill (w_nids g) md (w_nprops g))) (up_props (w_eprops g))).
Proof. intros k a ch g md md' n e Hg Hk Hwf _ Hfm. exact (overwrite_replaces k a ch g md md' n e Hg Hk Hwf Hfm). Qed.
Print Assumptions C06_replace.

(* the same with no success premise (WriteTotal.final_metadata_total: under wf_input the metadata computation fails only on an axis
   property whose array holds fewer values than its shape says) *)
From Geff Require WriteTotal.
Theorem C06_replace_total : forall k a ch g md n e,
  ahas "geff" a = true -> (k = KPath \/ k = KObj) ->
  wf_input g md n e -> ModelDomain.in_domain g md -> WriteTotal.axes_have_data g md ->
  exists md', final_metadata g md = Ok md' /\
  let post := layout (cleaned k a ch) g (backfill (w_nids g) md (w_nprops g)) md' in
  (exists tr, write_arrays k g md true true (init (Some (ZG a ch))) = (mkst (Some post) tr, Ok tt)) /\
  validate_structure k (Some post) = Ok tt /\
  read_to_memory k (Some post) true None None
  = Ok (mkmg md' (w_nids g) (w_eids g) (up_props (backfill (w_nids g) md (w_nprops g))) (up_props (w_eprops g))).
Proof.
  intros k a ch g md n e Hg Hk Hwf _ Hd. destruct (WriteTotal.final_metadata_total g md n e Hwf Hd) as [md' Hfm].
  exists md'. split; [exact Hfm|]. exact (overwrite_replaces k a ch g md md' n e Hg Hk Hwf Hfm).
Qed.
Print Assumptions C06_replace_total.

(* the same layout function describes a write to an empty location (C01_layout with pre = cleaned ...): overwrite is
   indistinguishable from writing the new graph where the old geff has been removed *)
Theorem C06_as_fresh : forall k pre s g md md' v n,
  vacant pre -> s_root s = pre ->
  a_dt (w_nids g) = a_dt (w_eids g) -> is_integer (a_dt (w_nids g)) = true -> len0 (w_nids g) = Some n ->
  props_ok (backfill (w_nids g) md (w_nprops g)) -> props_ok (w_eprops g) ->
  final_metadata g md = Ok md' ->
  (v = true -> validate_structure k (Some (layout pre g (backfill (w_nids g) md (w_nprops g)) md')) = Ok tt) ->
  exists tr, write_core k g md v s = (mkst (Some (layout pre g (backfill (w_nids g) md (w_nprops g)) md')) tr, Ok tt).
Proof. exact write_core_layout. Qed.
Print Assumptions C06_as_fresh.

(* in any history, a call without overwrite that meets a geff is a no-op *)
Theorem C06_history_refuse : forall k st c,
  exists_geff k st = true -> c_ov c = false -> step k st c = (st, Err FileExistsError).
Proof. exact history_refuse. Qed.
Print Assumptions C06_history_refuse.

(* GRAPH-LIBRARY WRITERS.  geff.write / write_nx / write_rx / write_sg run their own guard and then reach write_arrays with
   overwrite=False (api_write, Write.v: two guards in a row).  The full statement -- "geff.write(overwrite=...) behaves as
   write_arrays(overwrite=...)" on every location -- is: *)
Definition C06_api_full : Prop := forall k g md v ov pre,
  api_write k g md v ov (init pre) = write_arrays k g md v ov (init pre).

(* refusal: same as write_arrays, no mutation *)
Theorem C06_api_refuse : forall k pre g md v,
  exists_geff k pre = true -> api_write k g md v false (init pre) = (init pre, Err FileExistsError).
Proof. exact api_refuse. Qed.
Print Assumptions C06_api_refuse.

(* nothing there yet: identical to write_arrays *)
Theorem C06_api_fresh : forall k g md v ov s,
  exists_geff k (s_root s) = false -> api_write k g md v ov s = write_arrays k g md v ov s.
Proof. exact api_fresh. Qed.
Print Assumptions C06_api_fresh.

(* overwrite over a geff: identical to write_arrays(overwrite=True) -- hence C06_replace applies -- exactly when the location does
   not count as occupied once the old geff is deleted: every store object (whatever else its root holds) ... *)
Theorem C06_api_overwrite_partial : forall k a ch g md v s,
  s_root s = Some (ZG a ch) -> ahas "geff" a = true -> exists_geff k (cleaned k a ch) = false ->
  api_write k g md v true s = write_arrays k g md v true s.
Proof. exact api_overwrite_same. Qed.
Print Assumptions C06_api_overwrite_partial.

Theorem C06_api_overwrite_store_object : forall a ch g md v s,
  s_root s = Some (ZG a ch) -> ahas "geff" a = true ->
  api_write KObj g md v true s = write_arrays KObj g md v true s.
Proof. exact api_overwrite_obj. Qed.
Print Assumptions C06_api_overwrite_store_object.

(* ... but NOT a directory that holds the geff beside other members (known finding
   graph-writer-overwrite-path-beside-foreign-members): for EVERY graph the old geff is deleted and FileExistsError is raised *)
Theorem C06_api_overwrite_beside : forall a ch g md v s,
  s_root s = Some (ZG a ch) -> ahas "geff" a = true -> adel path_EDGES (adel path_NODES ch) <> [] ->
  exists tr, api_write KPath g md v true s
             = (mkst (Some (ZG (adel "geff" a) (adel path_EDGES (adel path_NODES ch)))) tr, Err FileExistsError).
Proof. exact api_overwrite_path_beside. Qed.
Print Assumptions C06_api_overwrite_beside.

Theorem C06_api_refuted : ~ C06_api_full.
Proof.
  intros H.
  specialize (H KPath (mkwg (mkarr DU8 [1%nat] [5]%Z) (mkarr DU8 [0%nat; 2%nat] []) (Some []) (Some [])) (mkmd true None [] [] 0%Z) true true
                (Some (ZG [("geff", AGeff (Some (mkmd true None [] [] 0%Z)))]
                          [("nodes", ZG [] [("ids", ZA (mkarr DU8 [0%nat] []))]); ("edges", ZG [] [("ids", ZA (mkarr DU8 [0%nat; 2%nat] []))]);
                           ("seg", ZG [] [])]))).
  vm_compute in H. discriminate H.
Qed.
Print Assumptions C06_api_refuted.

(* "never clobbered IMPLICITLY": in the source as it is now (regenerated on every run from the AST of every function of the two
   packages, harness/translate.py), every parameter called `overwrite` that has a default defaults to False -- writers, converters,
   table export and CLI commands alike (the translator refuses to run if one of the known entry points loses the parameter) *)
Definition overwrite_default_ok (e : string * string * string) : bool :=
  match e with (_, prm, d) => negb (String.eqb prm "overwrite") || String.eqb d "False" || String.eqb d "required" end.
Theorem C06_source_overwrite_defaults_false :
  forallb overwrite_default_ok param_defaults = true /\
  existsb (fun e => match e with (f, prm, d) => String.eqb f "geff/core_io/_base_write.py:write_arrays" && String.eqb prm "overwrite" && String.eqb d "False" end)
          param_defaults = true.
Proof. vm_compute. split; reflexivity. Qed.
Print Assumptions C06_source_overwrite_defaults_false.

(* non-vacuity: write A (property "old", uint16 ids); refuse B without overwrite; overwrite with B (int8 ids, property "new"):
   nothing named "old" is left, the foreign sibling is *)
Example C06_nonvacuous :
  let A := mkwg (mkarr DU16 [2%nat] [1; 2]%Z) (mkarr DU16 [1%nat; 2%nat] [1; 2]%Z)
                (Some [("old", mkprop (PFixed (mkarr DF64 [2%nat] [0; 1024]%Z)) None)]) (Some []) in
  let B := mkwg (mkarr DI8 [1%nat] [5]%Z) (mkarr DI8 [0%nat; 2%nat] [])
                (Some [("new", mkprop (PFixed (mkarr DBool [1%nat] [1]%Z)) None)]) None in
  let md := mkmd true None [] [] 0%Z in
  let s0 := Some (ZG [("foo", AOther 1%Z)] [("other", ZG [] [])]) in
  let s1 := fst (run (write_arrays KObj A md true false) s0) in
  exists_geff KObj s1 = true /\
  run (write_arrays KObj B md true false) s1 = (s1, Err FileExistsError) /\
  match fst (run (write_arrays KObj B md true true) s1) with
  | Some root => get_path root ["nodes"; "props"; "old"] = None /\ get_path root ["nodes"; "props"; "new"] <> None /\
                 get root "other" = Some (ZG [] []) /\ get root "edges" <> None
  | None => False
  end.
Proof. cbn zeta. vm_compute. repeat split; discriminate. Qed.

(* ===============================================================================================================
   EVERY WRITING ENTRY POINT (Entry.v).  `ecall` is one call of write_arrays (EArrays), of write_dicts or a backend writer called
   directly (EDicts: no overwrite parameter), of geff.write (EApi), of from_ctc_to_geff / `geff convert-ctc` (ECtc: own guard, the
   label-volume export -- which lands inside the target when the segmentation target lies in the geff directory --, the graph logic
   of Ctc.v, write_arrays(overwrite=False)) or of from_trackmate_xml_to_geff / `geff convert-trackmate-xml` (ETm: _preliminary_checks,
   the graph logic of TrackMate.v, NxBackend.write -> write_dicts -> write_arrays(overwrite=False)).  e_kind / e_ov / e_ready = the
   store kind, whether overwrite was requested (never for EDicts), whether the converter's input files exist.
   ====================================================================================================================== *)
From Geff Require Import Entry EntryLemmas EntryConvLemmas.
From Geff Require Ctc CtcLemmas TrackMate TrackMateLemmas TrackMateProps TrackMateValid Table TableLemmas.

(* refusal: whatever the entry point and its input, a location that holds a geff is left exactly as it is (same state, no
   mutation) unless overwrite was requested; the error is FileExistsError (FileNotFoundError when the converter's input is missing) *)
Theorem C06_entry_refuse : forall c pre,
  exists_geff (e_kind c) pre = true -> e_ov c = false ->
  e_run c (init pre) = (init pre, Err (if e_ready c then FileExistsError else FileNotFoundError)).
Proof. exact entry_refuse. Qed.
Print Assumptions C06_entry_refuse.

(* nothing there: the own guard is invisible, the overwrite flag irrelevant *)
Theorem C06_entry_vacant : forall c s,
  exists_geff (e_kind c) (s_root s) = false ->
  e_run c s = if e_ready c then e_body c s else (s, Err FileNotFoundError).
Proof. exact entry_vacant. Qed.
Print Assumptions C06_entry_vacant.

(* overwrite over a geff: delete_geff removes the old nodes, edges and geff attribute completely (`cleaned`), THEN the call
   continues -- so it is the same call made on the cleaned location whenever that location is vacant for the guards *)
Theorem C06_entry_overwrite : forall c s a ch,
  e_ready c = true -> e_ov c = true -> s_root s = Some (ZG a ch) -> ahas "geff" a = true ->
  exists tr, delete_geff (e_kind c) s = (mkst (cleaned (e_kind c) a ch) tr, Ok tt) /\
    e_run c s = e_body c (mkst (cleaned (e_kind c) a ch) tr) /\
    (exists_geff (e_kind c) (cleaned (e_kind c) a ch) = false -> e_run c s = e_run c (mkst (cleaned (e_kind c) a ch) tr)).
Proof. exact entry_overwrite. Qed.
Print Assumptions C06_entry_overwrite.

(* when IS the cleaned location vacant: always for a store object (C06_api_overwrite_store_object); for a path exactly when the
   directory held nothing beside nodes and edges -- the converters only take paths *)
Theorem C06_path_vacant_iff : forall a ch,
  exists_geff KPath (cleaned KPath a ch) = false <-> adel path_EDGES (adel path_NODES ch) = [].
Proof. exact cleaned_path_vacant_iff. Qed.
Print Assumptions C06_path_vacant_iff.

(* the full statement for the entry points that convert: "with overwrite, the call behaves as write_arrays(overwrite=True) on the
   graph it converts to" ... *)
Definition C06_entry_full : Prop := forall c a ch g md,
  e_ready c = true -> e_ov c = true -> e_conv c = Ok (g, md) -> ahas "geff" a = true ->
  e_run c (init (Some (ZG a ch))) = write_arrays (e_kind c) g md (e_v c) true (init (Some (ZG a ch))).

(* ... holds for the entry points with two guards in a row (geff.write, the TrackMate converter, the CTC converter whose label
   volume goes elsewhere) exactly where the cleaned location is vacant; then C06_replace applies: *)
Theorem C06_entry_overwrite_partial : forall c s a ch g md,
  e_two_guards c = true -> e_ready c = true -> e_ov c = true -> e_conv c = Ok (g, md) ->
  s_root s = Some (ZG a ch) -> ahas "geff" a = true -> exists_geff (e_kind c) (cleaned (e_kind c) a ch) = false ->
  e_run c s = write_arrays (e_kind c) g md (e_v c) true s.
Proof. exact entry_overwrite_as_arrays. Qed.
Print Assumptions C06_entry_overwrite_partial.

Theorem C06_entry_replaces : forall c a ch g md md' n e,
  e_two_guards c = true -> e_ready c = true -> e_ov c = true -> e_v c = true -> e_conv c = Ok (g, md) ->
  ahas "geff" a = true -> exists_geff (e_kind c) (cleaned (e_kind c) a ch) = false ->
  wf_input g md n e -> final_metadata g md = Ok md' ->
  let k := e_kind c in
  let post := layout (cleaned k a ch) g (backfill (w_nids g) md (w_nprops g)) md' in
  (exists tr, e_run c (init (Some (ZG a ch))) = (mkst (Some post) tr, Ok tt)) /\
  validate_structure k (Some post) = Ok tt /\
  read_to_memory k (Some post) true None None
  = Ok (mkmg md' (w_nids g) (w_eids g) (up_props (backfill (w_nids g) md (w_nprops g))) (up_props (w_eprops g))).
Proof. exact entry_replaces. Qed.
Print Assumptions C06_entry_replaces.

(* ... and is a refusal everywhere else: the old geff is deleted, the call raises, nothing is written -- for EVERY input *)
Theorem C06_entry_overwrite_beside : forall c s a ch,
  e_two_guards c = true -> e_ready c = true -> e_ov c = true ->
  s_root s = Some (ZG a ch) -> ahas "geff" a = true -> exists_geff (e_kind c) (cleaned (e_kind c) a ch) = true ->
  exists tr, e_run c s = (mkst (cleaned (e_kind c) a ch) tr,
                          Err (match e_conv c with Ok _ => FileExistsError | Err e => e end)).
Proof. exact entry_overwrite_beside. Qed.
Print Assumptions C06_entry_overwrite_beside.

(* the two converters, with what they are known to convert to (C15 / C16): over a directory that holds only the geff, the result
   is exactly that of the conversion onto a free target (C15_valid / C16_valid) -- nothing of the old graph survives *)
Theorem C06_ctc_overwrite_replaces : forall d vol a ch,
  CtcLemmas.consistent d -> CtcLemmas.seg_free d -> seg_rel d = None -> Ctc.d_overwrite d = true ->
  ahas "geff" a = true -> adel path_EDGES (adel path_NODES ch) = [] ->
  let ns := Ctc.nodes_of (Ctc.d_frames d) in
  exists es md' tr post,
    Ctc.graph_edges ns (CtcLemmas.table_of d) = Ok es /\
    final_metadata (Ctc.ctc_wgraph (Ctc.d_is3d d) ns es) (Ctc.ctc_md (Ctc.d_is3d d)) = Ok md' /\
    ctc_write d vol (init (Some (ZG a ch))) = (mkst (Some post) tr, Ok tt) /\
    Ctc.from_ctc_to_geff d (init (Some (ZG a ch))) = (mkst (Some post) tr, Ok tt) /\
    validate_structure KPath (Some post) = Ok tt /\
    read_to_memory KPath (Some post) true None None =
      Ok (mkmg md' (mkarr DU64 [length ns] (map Ctc.n_id ns)) (mkarr DU64 [length es; 2%nat] (Ctc.flat_edges es))
               (Ctc.ctc_props (Ctc.d_is3d d) ns) []).
Proof. exact ctc_overwrite_replaces. Qed.
Print Assumptions C06_ctc_overwrite_replaces.

Theorem C06_tm_overwrite_replaces : forall d ds dt a ch,
  TrackMateLemmas.wf_tm d -> ahas "geff" a = true -> adel path_EDGES (adel path_NODES ch) = [] ->
  exists md' tr post,
    final_metadata (TrackMateValid.wgraph_final d ds dt) (TrackMateValid.md_final d ds dt) = Ok md' /\
    TrackMate.from_trackmate d ds dt true (init (Some (ZG a ch))) = (mkst (Some post) tr, Ok tt) /\
    validate_structure KPath (Some post) = Ok tt /\
    read_to_memory KPath (Some post) true None None =
      Ok (mkmg md' (TrackMateValid.nids_arr d ds dt) (TrackMateValid.eids_arr d ds dt)
               (TrackMateValid.nps_final d ds dt) (TrackMateValid.eprops_of d ds dt)).
Proof. exact tm_overwrite_replaces. Qed.
Print Assumptions C06_tm_overwrite_replaces.

(* ... and beside anything else in the directory: geff deleted, conversion raises (FileExistsError whenever the dataset converts) *)
Theorem C06_ctc_overwrite_beside : forall d vol a ch s,
  Ctc.d_dir d = true -> Ctc.d_table d <> None -> Ctc.d_overwrite d = true -> seg_rel d = None ->
  s_root s = Some (ZG a ch) -> ahas "geff" a = true -> adel path_EDGES (adel path_NODES ch) <> [] ->
  exists tr e, ctc_write d vol s = (mkst (Some (ZG (adel "geff" a) (adel path_EDGES (adel path_NODES ch)))) tr, Err e) /\
               Ctc.from_ctc_to_geff d s = (mkst (Some (ZG (adel "geff" a) (adel path_EDGES (adel path_NODES ch)))) tr, Err e) /\
               (forall gm, Ctc.convert d = Ok gm -> e = FileExistsError).
Proof. exact ctc_overwrite_beside. Qed.
Print Assumptions C06_ctc_overwrite_beside.

Theorem C06_tm_overwrite_beside : forall d ds dt a ch s,
  TrackMate.tm_exists d = true -> s_root s = Some (ZG a ch) -> ahas "geff" a = true -> adel path_EDGES (adel path_NODES ch) <> [] ->
  exists tr e, TrackMate.from_trackmate d ds dt true s
               = (mkst (Some (ZG (adel "geff" a) (adel path_EDGES (adel path_NODES ch)))) tr, Err e) /\
               (forall gm, tm_conv d ds dt = Ok gm -> e = FileExistsError).
Proof. exact tm_overwrite_beside. Qed.
Print Assumptions C06_tm_overwrite_beside.

(* the label volume INSIDE the geff directory (segmentation_store = geff_path / "seg"): the export makes the directory exist, so
   write_arrays' guard refuses -- the conversion never succeeds, on a free target as little as with overwrite (known finding
   converter-overwrite-path-beside-foreign-members) *)
Theorem C06_ctc_seg_inside_fails : forall d vol s rel,
  seg_rel d = Some rel -> Ctc.seg_requested d = true -> Ctc.d_frames d <> [] ->
  snd (ctc_write d vol s) <> Ok tt.
Proof. exact ctc_seg_inside_fails. Qed.
Print Assumptions C06_ctc_seg_inside_fails.

(* where the label volume goes elsewhere, ctc_write is the program of Ctc.v (C15) *)
Theorem C06_ctc_write_is_ctc : forall d vol s, seg_rel d = None -> ctc_write d vol s = Ctc.from_ctc_to_geff d s.
Proof. exact ctc_write_outside. Qed.
Print Assumptions C06_ctc_write_is_ctc.

(* witnesses: a CTC dataset and a TrackMate document converted with overwrite=True onto a directory that holds a geff beside a
   foreign group *)
Definition C06_old_beside : option znode :=
  Some (ZG [("geff", AGeff (Some (mkmd true None [] [] 0%Z)))]
           [("nodes", ZG [] [("ids", ZA (mkarr DU8 [0%nat] []))]); ("edges", ZG [] [("ids", ZA (mkarr DU8 [0%nat; 2%nat] []))]);
            ("seg", ZG [] [])]).
Definition C06_ex_ctc (ov : bool) (seg : Ctc.segtarget) : Ctc.ctc :=
  Ctc.mkctc true (Some [Ctc.mkrow 1 0 1 0]) false [4%nat; 4%nat]
            [[(1%Z, Ctc.mkcent 0 1024 2048)]; [(1%Z, Ctc.mkcent 0 1536 2048)]] ["out.geff"] seg false false ov.
Definition C06_ex_vol : arr := mkarr DU16 [2%nat; 1%nat; 1%nat] [1; 1]%Z.
Definition C06_ex_tm : TrackMate.tm :=
  TrackMate.mktm true (Some "7.11.1") (Some "micron") (Some "sec")
    (Some ([TrackMate.mkdecl "POSITION_X" (Some "X") (Some false) (Some "POSITION"); TrackMate.mkdecl "POSITION_Y" (Some "Y") (Some false) (Some "POSITION");
            TrackMate.mkdecl "POSITION_Z" (Some "Z") (Some false) (Some "POSITION"); TrackMate.mkdecl "POSITION_T" (Some "T") (Some false) (Some "TIME");
            TrackMate.mkdecl "FRAME" None (Some true) (Some "NONE")],
           [TrackMate.mkdecl "SPOT_SOURCE_ID" None (Some true) (Some "NONE"); TrackMate.mkdecl "SPOT_TARGET_ID" None (Some true) (Some "NONE")],
           [TrackMate.mkdecl "TRACK_ID" None (Some true) (Some "NONE")]))
    (Some [TrackMate.mkspot [("ID", TrackMate.mkraw 0 (TrackMate.PInt 4 4096)); ("POSITION_X", TrackMate.mkraw 0 (TrackMate.PFlt 512));
                             ("POSITION_Y", TrackMate.mkraw 0 (TrackMate.PFlt 1024)); ("POSITION_Z", TrackMate.mkraw 0 (TrackMate.PFlt 0));
                             ("POSITION_T", TrackMate.mkraw 0 (TrackMate.PFlt 0)); ("FRAME", TrackMate.mkraw 0 (TrackMate.PInt 0 0))] None])
    (Some []) (Some []) (Some None) false false false.

Theorem C06_entry_refuted : ~ C06_entry_full.
Proof.
  intros H.
  specialize (H (ECtc (C06_ex_ctc true Ctc.SegNone) C06_ex_vol)
                [("geff", AGeff (Some (mkmd true None [] [] 0%Z)))]
                [("nodes", ZG [] [("ids", ZA (mkarr DU8 [0%nat] []))]); ("edges", ZG [] [("ids", ZA (mkarr DU8 [0%nat; 2%nat] []))]);
                 ("seg", ZG [] [])]).
  vm_compute in H. specialize (H _ _ eq_refl eq_refl eq_refl eq_refl). discriminate H.
Qed.
Print Assumptions C06_entry_refuted.

Theorem C06_entry_refuted_tm : ~ C06_entry_full.
Proof.
  intros H.
  specialize (H (ETm C06_ex_tm false false true)
                [("geff", AGeff (Some (mkmd true None [] [] 0%Z)))]
                [("nodes", ZG [] [("ids", ZA (mkarr DU8 [0%nat] []))]); ("edges", ZG [] [("ids", ZA (mkarr DU8 [0%nat; 2%nat] []))]);
                 ("seg", ZG [] [])]).
  vm_compute in H. specialize (H _ _ eq_refl eq_refl eq_refl eq_refl). discriminate H.
Qed.
Print Assumptions C06_entry_refuted_tm.

(* TABLE EXPORT (geff_to_csv, two-file target, as repaired: both files are checked before either is written).  Without overwrite,
   an export onto a target of which EITHER file exists raises FileExistsError and leaves both files as they were -- and it raises
   FileExistsError only then; with overwrite the result does not depend on what was there *)
Theorem C06_csv_refuse : forall s g, Table.csv_occupied s = true -> Table.geff_to_csv s g false = (s, Err FileExistsError).
Proof. exact TableLemmas.csv_refuse. Qed.
Print Assumptions C06_csv_refuse.

Theorem C06_csv_refuse_iff : forall s g, snd (Table.geff_to_csv s g false) = Err FileExistsError <-> Table.csv_occupied s = true.
Proof. exact TableLemmas.csv_refuse_iff. Qed.
Print Assumptions C06_csv_refuse_iff.

Theorem C06_csv_replace : forall s g ov, Table.geff_to_csv s g true = Table.geff_to_csv (Table.mkFs None None) g ov.
Proof. exact TableLemmas.csv_overwrite_as_fresh. Qed.
Print Assumptions C06_csv_replace.

(* "through every write entry point": the table of source functions behind these models (Entry.entry_points / modelled_calls)
   against the source as it is now.  The translator lists every call, anywhere in the two packages, of a function through which a
   geff target or another output is written or deleted, with its caller and with what it passes for overwrite / mode (write_calls),
   and every function with an `overwrite` parameter (param_defaults).  The two call lists are the same set -- so e.g.
   from_ctc_to_geff, write_dicts and SgBackend.write call write_arrays WITHOUT overwrite, both CLI commands hand their flag on,
   geff.write calls the backend without it --, every caller and every function with an `overwrite` parameter is in the table, every
   forwarding target too.  A new writing function, or a changed overwrite argument, breaks this theorem. *)
Theorem C06_source_entry_points_covered : entry_points_cover_source = true.
Proof. vm_compute. reflexivity. Qed.
Print Assumptions C06_source_entry_points_covered.

(* non-vacuity.  CTC: conversion onto nothing succeeds; a second conversion without overwrite changes nothing; with overwrite the
   nodes are those of the new dataset; beside a foreign group the old geff is deleted and FileExistsError raised; with the label
   volume inside the geff directory the conversion fails on a free target and leaves the volume.  TrackMate: the same first four.
   Table export: nodes file absent, edges file present: refused, nothing created. *)
Example C06_entry_nonvacuous :
  let d0 := C06_ex_ctc false Ctc.SegNone in
  let d1 := C06_ex_ctc true Ctc.SegNone in
  let s1 := fst (run (e_run (ECtc d0 C06_ex_vol)) None) in
  is_ok (snd (run (e_run (ECtc d0 C06_ex_vol)) None)) = true /\
  run (e_run (ECtc d0 C06_ex_vol)) s1 = (s1, Err FileExistsError) /\
  is_ok (snd (run (e_run (ECtc d1 C06_ex_vol)) s1)) = true /\
  run (e_run (ECtc d1 C06_ex_vol)) C06_old_beside = (Some (ZG [] [("seg", ZG [] [])]), Err FileExistsError) /\
  run (e_run (ECtc (C06_ex_ctc false (Ctc.SegPath ["out.geff"; "seg"])) C06_ex_vol)) None
    = (Some (ZG [] [("seg", ZA C06_ex_vol)]), Err FileExistsError) /\
  TrackMateLemmas.wf_tm C06_ex_tm /\
  let t1 := fst (run (e_run (ETm C06_ex_tm false false false)) None) in
  is_ok (snd (run (e_run (ETm C06_ex_tm false false false)) None)) = true /\
  run (e_run (ETm C06_ex_tm false false false)) t1 = (t1, Err FileExistsError) /\
  run (e_run (ETm C06_ex_tm false false true)) t1 = run (e_run (ETm C06_ex_tm false false false)) None /\
  run (e_run (ETm C06_ex_tm false false true)) C06_old_beside = (Some (ZG [] [("seg", ZG [] [])]), Err FileExistsError) /\
  Table.geff_to_csv (Table.mkFs None (Some [])) (Table.mkGraph [7]%Z [] [] []) false = (Table.mkFs None (Some []), Err FileExistsError).
Proof.
  cbn zeta. repeat (split; [vm_compute; reflexivity|]).
  split; [apply TrackMateProps.wf_tmb_sound; vm_compute; reflexivity|].
  vm_compute. repeat split.
Qed.
(* =====================================================================================================================
   DEEPENING (c03x): refusal for write_dicts and for the backend writers behind geff.write (DictsCrash.v).
   ===================================================================================================================== *)
From Geff Require Import Dicts Backends BackendsMd DictsCrash.

(* geff.write(graph, store) without overwrite on a location that holds a geff: FileExistsError and NO mutation, whichever backend
   the graph belongs to and whatever it would have written (w is arbitrary: the backend is not even entered) *)
Theorem C06_backend_refuse : forall k pre (w : M unit),
  exists_geff k pre = true -> api_ov k false w (init pre) = (init pre, Err FileExistsError).
Proof. exact api_ov_refuse. Qed.
Print Assumptions C06_backend_refuse.

(* api_ov with overwrite=False is the api wrapper the C03 theorems are stated with *)
Theorem C06_api_ov_false : forall k w s, api_ov k false w s = Backends.api_write k w s.
Proof. exact api_ov_false. Qed.
Print Assumptions C06_api_ov_false.

(* write_dicts (it has no overwrite parameter: write_arrays is reached with its default False) on a location that holds a geff:
   no mutation for ANY dictionaries; FileExistsError, unless the dictionaries themselves are rejected first *)
Theorem C06_write_dicts_refuse : forall k pre g nn en md,
  exists_geff k pre = true ->
  write_dicts k g nn en md (init pre)
  = (init pre, Err (match dicts_wgraph g nn en with Ok _ => FileExistsError | Err e => e end)).
Proof. exact write_dicts_refuse. Qed.
Print Assumptions C06_write_dicts_refuse.

(* the backends called directly (NxBackend.write(graph, store) ... : no wrapper guard) refuse through write_arrays' own guard *)
Theorem C06_nx_direct_refuse : forall k pre d g mdc axes mdtok,
  exists_geff k pre = true ->
  exists e, nx_write_md k d g mdc axes mdtok (init pre) = (init pre, Err e).
Proof. intros k pre d g mdc axes mdtok H. unfold nx_write_md, bind, lift. destruct (dict_md mdc d axes mdtok) as [m|e]; [|eexists; reflexivity].
  rewrite (write_dicts_refuse k pre g _ _ m H). eexists. reflexivity. Qed.
Print Assumptions C06_nx_direct_refuse.

(* ... with the exception class pinned: FileExistsError whenever the arguments themselves are acceptable (the metadata / axis
   arguments build a metadata object and the attribute dictionaries convert to arrays); otherwise the error of the arguments, raised
   before the store is looked at *)
Theorem C06_nx_direct_refuse_class : forall k pre d g mdc axes mdtok,
  exists_geff k pre = true ->
  nx_write_md k d g mdc axes mdtok (init pre)
  = (init pre, Err (match dict_md mdc d axes mdtok with
                    | Err e => e
                    | Ok _ => match dicts_wgraph g (keys_of (map snd (d_nodes g))) (keys_of (map snd (d_edges g))) with
                              | Ok _ => FileExistsError | Err e => e end
                    end)).
Proof. intros k pre d g mdc axes mdtok H. unfold nx_write_md, bind, lift. destruct (dict_md mdc d axes mdtok) as [m|e]; [|reflexivity].
  rewrite (write_dicts_refuse k pre g _ _ m H). reflexivity. Qed.
Print Assumptions C06_nx_direct_refuse_class.

(* geff.write of a networkx graph with overwrite is Write.api_write on the arrays write_dicts builds: C06_api_overwrite_partial /
   C06_api_overwrite_store_object / C06_api_overwrite_beside (known finding) are statements about the real entry point *)
Theorem C06_api_nx_is_api_write : forall k ov d g axes mdtok axtok md w s,
  fresh_md d axes mdtok axtok = Ok md ->
  dicts_wgraph g (keys_of (map snd (d_nodes g))) (keys_of (map snd (d_edges g))) = Ok w ->
  api_ov k ov (nx_write k d g axes mdtok axtok) s = Write.api_write k w md true ov s.
Proof. exact api_nx_arrays. Qed.
Print Assumptions C06_api_nx_is_api_write.

Example C06_dicts_nonvacuous :
  let g := mkdg [(4%Z, [("t", PFloat 1024)]); (9%Z, [("t", PFloat 2048)])] [((4%Z, 9%Z), [])] in
  let h := mkdg [(1%Z, [("u", PInt 5)])] [] in
  let md := mkmd true None [] [] 0%Z in
  let s1 := fst (run (write_dicts KObj g ["t"] [] md) None) in
  exists_geff KObj s1 = true /\
  run (write_dicts KObj h ["u"] [] md) s1 = (s1, Err FileExistsError) /\
  run (api_ov KObj false (nx_write KObj true h None 0 0)) s1 = (s1, Err FileExistsError) /\
  match fst (run (api_ov KObj true (nx_write KObj true h None 0 0)) s1) with
  | Some root => get_path root ["nodes"; "props"; "t"] = None /\ get_path root ["nodes"; "props"; "u"] <> None
  | None => False
  end.
Proof. cbn zeta. vm_compute. repeat split; discriminate. Qed.
