(* props/C01.v -- C01: write-then-read returns the same graph (ids, properties, missing masks). *)
From Geff Require Import Base Dtype Vlen VlenLemmas Tree Validate Write Read RoundTrip WriteLemmas ReadLemmas ValidateLayout C01Lemmas WriteTotal ModelDomain.
Open Scope string_scope.
Open Scope list_scope.

(* For every target that holds no geff (absent, or an existing zarr group without nodes/edges/geff),
   every well-formed input (wf_input: 1-D integer node ids, (E,2) edge ids of the same dtype, properties
   whose first dimension is N resp. E with optional 1-D boolean masks of that length, var-length elements
   of one rank and dtype, distinct names; metadata naming no absent property; axes naming 1-D unmasked node
   properties) of any size:  write_arrays succeeds, the result passes structural validation, and reading it
   back returns exactly the ids (values, order, dtype) and, for every property, the same dtype (float16
   upcast to float32), shape, missing mask and ALL values -- together with the metadata that was stored. *)
(* in_domain (ModelDomain.v): every property name is one usable zarr path segment and no property is a bytes array -- the inputs
   on which the tree model is faithful to the code (on the others the code refuses the write or nests groups; the correspondence
   and the oracle cover them).  The premise is not used by the proof; it restricts the claim to where the model was tied. *)
Theorem C01_roundtrip : forall k pre g md md' n e ov,
  clean k pre -> wf_input g md n e -> in_domain g md -> final_metadata g md = Ok md' ->
  exists tr post,
    write_arrays k g md true ov (init pre) = (mkst (Some post) tr, Ok tt) /\
    validate_structure k (Some post) = Ok tt /\
    read_to_memory k (Some post) true None None
    = Ok (mkmg md' (w_nids g) (w_eids g)
               (up_props (backfill (w_nids g) md (w_nprops g))) (up_props (w_eprops g))).
Proof. intros k pre g md md' n e ov Hc Hwf _ Hfm. exact (write_then_read k pre g md md' n e ov Hc Hwf Hfm). Qed.
Print Assumptions C01_roundtrip.

(* THE WRITE SUCCEEDS, without assuming it.  The statement above carries `final_metadata g md = Ok md'` and, inside wf_input,
   `encodable` -- both "a failing function of the model succeeds".  They are discharged here:
   C01_storable_iff -- a property can be stored under a name iff the name is not empty, its dtype (float16 read as float32) is one of
   geff's, and, when variable-length, it has at least one element and all elements have one dtype and one rank;
   C01_wf_props_declarative -- hence wf_input's property premise in declarative form;
   C01_final_metadata_total -- under wf_input the metadata computation can only fail on an axis property whose array holds fewer
   values than its shape says (axes_have_data excludes it; no numpy array is like that);
   C01_roundtrip_total -- the round trip with no success premise. *)
Theorem C01_storable_iff : forall name p, encodable (name, p) <-> storable name p.
Proof. exact encodable_iff. Qed.
Print Assumptions C01_storable_iff.

Theorem C01_wf_props_declarative : forall n ops,
  wf_props n ops <->
  forall ps, ops = Some ps -> NoDup (akeys ps) /\ Forall (fun kv => storable (fst kv) (snd kv) /\ wf_prop n (snd kv)) ps.
Proof. exact wf_props_declarative. Qed.
Print Assumptions C01_wf_props_declarative.

Theorem C01_final_metadata_total : forall g md n e,
  wf_input g md n e -> axes_have_data g md -> exists md', final_metadata g md = Ok md'.
Proof. exact final_metadata_total. Qed.
Print Assumptions C01_final_metadata_total.

Theorem C01_roundtrip_total : forall k pre g md n e ov,
  clean k pre -> wf_input g md n e -> in_domain g md -> axes_have_data g md ->
  exists md' tr post,
    final_metadata g md = Ok md' /\
    write_arrays k g md true ov (init pre) = (mkst (Some post) tr, Ok tt) /\
    validate_structure k (Some post) = Ok tt /\
    read_to_memory k (Some post) true None None
    = Ok (mkmg md' (w_nids g) (w_eids g)
               (up_props (backfill (w_nids g) md (w_nprops g))) (up_props (w_eprops g))).
Proof. intros k pre g md n e ov Hc Hwf _ Hd. exact (write_then_read_total k pre g md n e ov Hc Hwf Hd). Qed.
Print Assumptions C01_roundtrip_total.

(* what is stored is the documented layout: nodes/ids, edges/ids, props/<name>/{values,missing,data}, attrs["geff"] *)
Theorem C01_layout : forall k pre g md md' v ov n,
  clean k pre -> a_dt (w_nids g) = a_dt (w_eids g) -> is_integer (a_dt (w_nids g)) = true ->
  len0 (w_nids g) = Some n ->
  props_ok (backfill (w_nids g) md (w_nprops g)) -> props_ok (w_eprops g) ->
  final_metadata g md = Ok md' ->
  (v = true -> validate_structure k (Some (layout pre g (backfill (w_nids g) md (w_nprops g)) md')) = Ok tt) ->
  exists tr, write_arrays k g md v ov (init pre)
             = (mkst (Some (layout pre g (backfill (w_nids g) md (w_nprops g)) md')) tr, Ok tt).
Proof. exact write_arrays_layout. Qed.
Print Assumptions C01_layout.

(* one property: the three stored arrays decode to the property (after the float16 upcast) *)
Theorem C01_prop_roundtrip : forall name n p pm v m d,
  wf_prop n p -> create_props_metadata name p = Ok pm -> encode_prop p = Ok (v, m, d) ->
  load_prop (mkzprop v m d) None pm = Ok (upcast_prop p).
Proof. exact prop_roundtrip. Qed.
Print Assumptions C01_prop_roundtrip.

(* variable-length values: decode (encode l) = l for every sequence of one rank and dtype *)
Theorem C01_vlen_roundtrip : forall vals rows data,
  Forall wf_varr vals -> serialize vals = Ok (rows, data) ->
  deserialize rows data = Ok (map elem_view vals).
Proof. exact serialize_deserialize. Qed.
Print Assumptions C01_vlen_roundtrip.

(* non-vacuity: a graph with 2 nodes, 1 edge, an axis, a masked float16 matrix property and a var-length
   property meets the premises, on an absent target and beside a foreign group *)
Definition ex_g : wgraph :=
  mkwg (mkarr DU64 [2%nat] [18446744073709551615; 0]%Z) (mkarr DU64 [1%nat; 2%nat] [0; 18446744073709551615]%Z)
       (Some [("x", mkprop (PFixed (mkarr DF64 [2%nat] [1536; -512]%Z)) None);
              ("m", mkprop (PFixed (mkarr DF16 [2%nat; 2%nat] [1; 2; 3; 4]%Z)) (Some (mkarr DBool [2%nat] [0; 1]%Z)));
              ("v", mkprop (PVlen [Build_varr DI8 [2%nat; 1%nat] [7; 8]%Z; Build_varr DI8 [0%nat; 3%nat] []]) None)])
       (Some [("w", mkprop (PFixed (mkarr DStr [1%nat] [5]%Z)) None)]).
Definition ex_md : smeta := mkmd true (Some [mkax "x" (Some 0%Z) (Some 9%Z) 1%Z]) [] [] 2%Z.

Example C01_nonvacuous :
  wf_input ex_g ex_md 2 1 /\ clean KPath None /\
  clean KObj (Some (ZG [("foo", AOther 1%Z)] [("other", ZG [] [])])) /\
  exists md', final_metadata ex_g ex_md = Ok md' /\
              md_axes md' = Some [mkax "x" (Some (-512)%Z) (Some 1536%Z) 1%Z].
Proof.
  split; [|split; [exact I | split; [cbn; auto | eexists; split; [vm_compute; reflexivity | reflexivity]]]].
  constructor; try reflexivity.
  - intros ps Hps. vm_compute in Hps. inversion Hps; subst ps; clear Hps. split.
    + repeat constructor; cbn; intuition discriminate.
    + repeat constructor; try (eexists; eexists; split; vm_compute; reflexivity);
        try (cbn; eexists; reflexivity); cbn; auto.
      all: try (unfold wf_varr; reflexivity).
  - intros ps Hps. inversion Hps; subst ps; clear Hps. split.
    + repeat constructor; cbn; intuition.
    + repeat constructor; try (eexists; eexists; split; vm_compute; reflexivity); try (cbn; eexists; reflexivity); cbn; auto.
  - intros k0 H. destruct H.
  - intros k0 H. destruct H.
  - intros axes Hax. inversion Hax; subst axes; clear Hax. eexists. split; [vm_compute; reflexivity|].
    intros ax [<-|[]]. eexists; eexists. split; [left; reflexivity | reflexivity].
Qed.

(* Known finding (KNOWN_FINDINGS.txt, empty-graph-varlength): an EMPTY graph carrying a var-length property is
   outside wf_input (encodable fails) -- the faithful model raises IndexError, as the code does. *)
Theorem C01_empty_vlen_refuted :
  exists g md, snd (run (write_arrays KObj g md true false) None) = Err IndexError /\
               a_shape (w_nids g) = [0%nat] /\ w_nprops g = Some [("poly", mkprop (PVlen []) None)].
Proof.
  exists (mkwg (mkarr DU8 [0%nat] []) (mkarr DU8 [0%nat; 2%nat] []) (Some [("poly", mkprop (PVlen []) None)]) (Some [])),
         (mkmd true None [] [] 0%Z).
  vm_compute. repeat split.
Qed.
Print Assumptions C01_empty_vlen_refuted.

(* non-vacuity of the total statement: the example graph's axis property holds its values; a float16 var-length property is
   storable; a float16 element beside a float32 element, an empty name, mixed ranks and an empty var-length property are not *)
Example C01_total_nonvacuous :
  in_domain ex_g ex_md /\
  axes_have_data ex_g ex_md /\
  storable "v" (mkprop (PVlen [Build_varr DF16 [1%nat] [7]%Z; Build_varr DF16 [0%nat] []]) None) /\
  ~ storable "v" (mkprop (PVlen [Build_varr DF16 [1%nat] [7]%Z; Build_varr DF32 [0%nat] []]) None) /\
  ~ storable "" (mkprop (PFixed (mkarr DI8 [1%nat] [1]%Z)) None) /\
  ~ storable "v" (mkprop (PVlen [Build_varr DI8 [1%nat] [7]%Z; Build_varr DI8 [1%nat; 1%nat] [8]%Z]) None) /\
  ~ storable "v" (mkprop (PVlen []) None).
Proof.
  split.
  { split; intros ps Hps; vm_compute in Hps; inversion Hps; subst ps; clear Hps;
      repeat constructor; cbn; try discriminate; repeat constructor; discriminate. }
  split.
  - intros axes ps ax a Hax Hps Hin Hinp. vm_compute in Hax, Hps. inversion Hax; subst axes; clear Hax.
    inversion Hps; subst ps; clear Hps. destruct Hin as [<-|[]]. cbn [ax_name] in Hinp.
    destruct Hinp as [E|[E|[E|[]]]]; inversion E; subst; reflexivity.
  - split; [split; [discriminate | cbn; split; [reflexivity | repeat constructor]]|].
    split; [intros [_ [_ H]]; cbn in H; inversion H as [|? ? [Hd _] _]; discriminate|].
    split; [intros [H _]; apply H; reflexivity|].
    split; [intros [_ [_ H]]; cbn in H; inversion H as [|? ? [_ Hr] _]; discriminate | intros [_ []]].
Qed.
