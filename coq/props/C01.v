(* props/C01.v -- C01: write-then-read returns the same graph.  (being extended) *)
From Geff Require Import Base Dtype Vlen VlenLemmas Tree Validate Write Read.
Open Scope list_scope.

Theorem C01_vlen_roundtrip : forall vals rows data,
  Forall wf_varr vals -> serialize vals = Ok (rows, data) ->
  deserialize rows data = Ok (map (fun a => (v_shape a, v_flat a)) vals).
Proof. exact serialize_deserialize. Qed.
Print Assumptions C01_vlen_roundtrip.
