(* placeholder while the pipeline is brought up *)
From Geff Require Import Base Meta Json Schema MetaJson.
