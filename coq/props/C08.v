(* C08 -- metadata survives serialisation and matches the published JSON schema.
   Statements only; proofs are in theories/MetaJsonLemmas.v and theories/SchemaLemmas.v.
   schema_published / schema_exported / schema_model_raw are regenerated from the repository on
   every run (harness/translate_schema.py -> theories/Gen/Schema.v). *)
From Geff Require Import Dtype Vlen Tree KeyStore MetaKeys MetaKeysLemmas.
From Geff Require Import Base Meta MetaLemmas Json Schema SchemaLemmas MetaJson MetaJsonLemmas MetaDomainLemmas.
From Geff.Gen Require Import Consts.
From Geff.Gen Require Import Schema.
Open Scope string_scope.
Open Scope Z_scope.
Open Scope list_scope.

(* ---- round trip through JSON values: model_validate (model_dump (mode="json")) *)
Theorem C08_roundtrip : forall gv m, inv_md m = true -> of_json gv (to_json m) = Ok m.
Proof. exact roundtrip. Qed.
Print Assumptions C08_roundtrip.

(* ---- through JSON text (model_dump_json / model_validate_json, `geff info`): the text of an
        object of the domain is its JSON-mode dump, and it parses back to the object *)
Theorem C08_roundtrip_text : forall gv m, inv_md m = true ->
  to_json_text m = to_json m /\ of_json gv (to_json_text m) = Ok m.
Proof. exact roundtrip_text_both. Qed.
Print Assumptions C08_roundtrip_text.

(* ---- through the attributes of a zarr group, on the ATTRIBUTE MAP of the root group (gstate = the map, or no group).
        The first conjunct is the round trip; the second and third are facts about `jset` on an association list
        (true of any replace-or-append function) and do not by themselves say anything about a zarr store: the
        statement on the keys of a store, per format, is C08_attrs_keys below (MetaKeys.v), and C08_attrs_refines
        shows that the key-level write is this attribute-map write. *)
Theorem C08_attrs : forall gv m st, inv_md m = true ->
  md_read gv (md_write m st) = Ok m
  /\ attr_get "geff" (md_write m st) = Some (to_json m)
  /\ (forall k, k <> "geff" -> attr_get k (md_write m st) = attr_get k st).
Proof. exact attrs_all. Qed.
Print Assumptions C08_attrs.

(* ---- the same on the KEYS of the store (KeyStore.v: .zgroup / .zattrs documents for zarr format 2, zarr.json for
        format 3), for ANY store content: other attributes, member groups and arrays below the root, chunks,
        consolidated metadata inside a format-3 group document.  A successful write (md_write_k: root absent, or a
        group zarr accepts -- C08_attrs_keys_total) is read back as the object; the root's attribute map afterwards
        holds the dump under "geff" and every other attribute as before; and every key of the store other than
        the ONE attribute document (.zattrs for format 2, zarr.json for format 3 or a new root) is untouched. *)
Theorem C08_attrs_keys : forall gv m ks ks', inv_md m = true -> md_write_k m ks = Ok ks' ->
  md_read_k gv ks' = Ok m
  /\ (exists a', root_attrs_any ks' = Some a' /\ jget "geff" a' = Some (to_json m)
                 /\ forall k, k <> "geff" -> jget k a' = attr_get k (root_attrs_any ks))
  /\ (forall k, k <> attr_doc_key ks -> klookup k ks' = klookup k ks).
Proof. exact attrs_keys_all. Qed.
Print Assumptions C08_attrs_keys.

(* the key-level write IS the attribute-map write of C08_attrs, in the format the root group had (3 for a new one) *)
Theorem C08_attrs_refines : forall m ks ks', md_write_k m ks = Ok ks' ->
  exists f, probe_root ks' = RGroup f (match md_write m (root_attrs_any ks) with Some a => a | None => [] end)
            /\ (forall f0 a0, probe_root ks = RGroup f0 a0 -> f = f0) /\ (probe_root ks = RNone -> f = V3).
Proof. exact md_write_k_root. Qed.
Print Assumptions C08_attrs_refines.

(* zarr format 3 rewrites the whole group document: every member but `attributes` (zarr_format, node_type,
   consolidated_metadata) is kept *)
Theorem C08_attrs_keys_v3_members : forall m ks ks' a, md_write_k m ks = Ok ks' -> probe_root ks = RGroup V3 a ->
  exists d d', klookup ["zarr.json"] ks = Some (KDoc (JObj d)) /\ klookup ["zarr.json"] ks' = Some (KDoc (JObj d')) /\
               forall field, field <> "attributes" -> jget field d' = jget field d.
Proof. exact md_write_k_v3_members. Qed.
Print Assumptions C08_attrs_keys_v3_members.

Theorem C08_attrs_keys_total : forall m ks,
  (probe_root ks = RNone \/ (exists a, probe_root ks = RGroup V2 a) \/
   (exists a d, probe_root ks = RGroup V3 a /\ klookup ["zarr.json"] ks = Some (KDoc (JObj d)) /\ v3_doc_known d = true))
  <-> exists ks', md_write_k m ks = Ok ks'.
Proof. exact md_write_k_total. Qed.
Print Assumptions C08_attrs_keys_total.

(* ---- the serialised form of every object of the domain is valid under the published schema *)
Theorem C08_valid : forall m, inv_md m = true -> validates schema_published (wrap (to_json m)) = true.
Proof. exact valid_published. Qed.
Print Assumptions C08_valid.

Theorem C08_valid_text : forall m, inv_md m = true -> validates schema_published (wrap (to_json_text m)) = true.
Proof. exact valid_published_text. Qed.
Print Assumptions C08_valid_text.

(* ---- no drift: the published schema and the schema exported from the Python model give the same
        verdict on EVERY document.  How much this says TODAY: the two regenerated terms are syntactically
        equal (C08_no_drift_today), so the statement is an instance of reflexivity; it is kept because both
        terms are regenerated from the repository on every run, and then the proof goes through
        schema_equiv (C08_schema_equiv_sound, sound for all schema documents), which tolerates reordered
        members and dropped annotations; any other difference between the two files -- also one that no
        document can observe -- breaks the build (C08_no_drift_syntactic).  The statements with independent
        content are C08_no_drift_model (the adjustment "version required" re-applied in Coq to the raw
        pydantic schema) and the equivalence with the hand-written schema_ref used by C08_valid. *)
Theorem C08_no_drift : forall d, validates schema_published d = validates schema_exported d.
Proof. exact no_drift. Qed.
Print Assumptions C08_no_drift.

Theorem C08_no_drift_today : jv_eqb schema_published schema_exported = true.
Proof. vm_compute. reflexivity. Qed.
Print Assumptions C08_no_drift_today.

(* the same against the pydantic model's own schema, the "version is required" adjustment re-applied in Coq *)
Theorem C08_no_drift_model : forall d, validates schema_published d = validates (require_version schema_model_raw) d.
Proof. exact no_drift_model. Qed.
Print Assumptions C08_no_drift_model.

(* how it is decided: a syntactic equivalence (annotations dropped where a schema object is expected,
   member order and order of `required` ignored) that is sound for the validator, for ALL schema documents *)
Theorem C08_schema_equiv_sound : forall a b, schema_equiv a b = true -> forall d, validates a d = validates b d.
Proof. exact schema_equiv_sound. Qed.
Print Assumptions C08_schema_equiv_sound.

Theorem C08_no_drift_syntactic :
  schema_equiv schema_published schema_exported = true
  /\ schema_equiv schema_published (require_version schema_model_raw) = true
  /\ schema_equiv schema_published schema_ref = true.
Proof. exact equiv_all. Qed.
Print Assumptions C08_no_drift_syntactic.

(* the adjustment is not vacuous: without it the model's schema accepts a document without geff_version *)
Theorem C08_adjustment_needed :
  validates schema_published doc_without_version = false /\ validates schema_model_raw doc_without_version = true.
Proof. exact adjustment_needed. Qed.
Print Assumptions C08_adjustment_needed.

(* ---- the domain: inv_md implies the invariants of C07, and every object the constructor / parser
        accepts is in the domain as soon as its numbers are finite (JSON has no inf / nan) *)
Theorem C08_domain_sound : forall m, inv_md m = true -> InvW m.
Proof. exact inv_md_InvW. Qed.
Print Assumptions C08_domain_sound.

Theorem C08_domain_complete : forall gv v m,
  version_ok gv = true -> construct gv v = Ok m -> md_finite m = true -> inv_md m = true.
Proof. exact construct_in_domain. Qed.
Print Assumptions C08_domain_complete.

(* ---- the domain is closed under every operation of C07 (Meta.run: constructions / parses, top-level
        assignments with their roll-back, copies, update_metadata_axes, create_or_update_metadata,
        add_or_update_props_metadata): inv_md is a structural part, which every reachable object has,
        and finiteness.  So "every valid metadata object" of this property reads: every object C07 can reach
        that holds no inf / nan -- and the theorems above apply to all of them. *)
Theorem C08_domain_split : forall m, inv_md m = true <-> inv_struct m = true /\ md_finite m = true.
Proof. exact inv_md_iff. Qed.
Print Assumptions C08_domain_split.

Theorem C08_domain_reachable : forall gv ops m,
  version_ok gv = true -> In m (run gv [] ops) -> md_finite m = true -> inv_md m = true.
Proof. exact reachable_in_domain. Qed.
Print Assumptions C08_domain_reachable.

(* conversely every object of the domain is reachable (by one construction from its own dump) *)
Theorem C08_domain_is_reachable : forall gv m, inv_md m = true -> In m (run gv [] [OConstruct (to_json m)]).
Proof. exact domain_reachable. Qed.
Print Assumptions C08_domain_is_reachable.

(* the round trips and the schema verdict for every reachable finite object *)
Theorem C08_reachable : forall gv ops m,
  version_ok gv = true -> In m (run gv [] ops) -> md_finite m = true ->
  of_json gv (to_json m) = Ok m /\ to_json_text m = to_json m /\
  (forall st, md_read gv (md_write m st) = Ok m) /\
  validates schema_published (wrap (to_json m)) = true.
Proof. exact reachable_roundtrip. Qed.
Print Assumptions C08_reachable.

(* ---- why the finiteness guard: the statement for every constructible object is false on the faithful
        model (JSON text writes null for an infinite axis bound) -- outside the property's quantifier *)
Definition C08_roundtrip_text_full : Prop :=
  forall gv v m, version_ok gv = true -> construct gv v = Ok m -> of_json gv (to_json_text m) = Ok m.

Theorem C08_roundtrip_text_nonfinite_refuted : ~ C08_roundtrip_text_full.
Proof. exact roundtrip_text_full_refuted. Qed.
Print Assumptions C08_roundtrip_text_nonfinite_refuted.

(* ---- non-vacuity *)
Definition rich_md : metadata :=
  mkMD "1.3.dev6+g61d5f18" true
    (Some [mkAxis "t" (Some "time") (Some "second") (Some (Fin 0)) (Some (Fin 10240)) (Some (Fin 512)) (Some "minute") (Some (Fin 1024));
           mkAxis "y" (Some "space") (Some "micrometer") (Some (Fin (-1536))) (Some (Fin 2304)) None None None;
           mkAxis "x" None None None None None None None])
    [("t", mkPM "t" "float64" false (Some "second") (Some "time") (Some "frame time")); ("lab", mkPM "lab" "str" true None None None)]
    [("score", mkPM "score" "float32" false None None None)]
    (Some "r") (Some "cov") (Some [("lineage", "lin"); ("tracklet", "trk")])
    (Some [mkRO "labels" "seg/" (Some "lab"); mkRO "image" "raw/" None])
    (Some (mkDH "x" "y" None (Some "t")))
    [("k", JList [JInt 1; JNull; JObj [("e", JFlt (Fin 512))]]); ("axes", JInt 7)].

Example C08_nonvacuous_domain : inv_md rich_md = true.
Proof. vm_compute. reflexivity. Qed.

Example C08_nonvacuous_roundtrip :
  of_json "0.0" (to_json rich_md) = Ok rich_md
  /\ md_read "0.0" (md_write rich_md (Some [("foreign", JInt 1); ("geff", JStr "old"); ("z", JNull)])) = Ok rich_md
  /\ md_write rich_md (Some [("foreign", JInt 1); ("geff", JStr "old"); ("z", JNull)])
     = Some [("foreign", JInt 1); ("geff", to_json rich_md); ("z", JNull)].
Proof. vm_compute. repeat split. Qed.

(* the validator is not the constant `true`: single mutations of a valid document are rejected by both schemas *)
Example C08_nonvacuous_verdicts :
  validates schema_published (wrap (to_json rich_md)) = true
  /\ validates schema_published (wrap (JObj (jset "directed" (JInt 1) match to_json rich_md with JObj k => k | _ => [] end))) = false
  /\ validates schema_exported (wrap (JObj (jset "geff_version" (JStr "v1") match to_json rich_md with JObj k => k | _ => [] end))) = false
  /\ validates schema_published (JObj []) = false
  /\ validates schema_published (wrap (JObj (jset "unknown" (JInt 1) match to_json rich_md with JObj k => k | _ => [] end))) = true.
Proof. vm_compute. repeat split. Qed.

(* the equivalence check is not the constant `true` either: dropping the adjustment is seen *)
Example C08_nonvacuous_equiv : schema_equiv schema_published schema_model_raw = false.
Proof. vm_compute. reflexivity. Qed.

(* the closure theorem is not vacuous: an object built by an assignment, update_metadata_axes and
   add_or_update_props_metadata (none of them a direct `construct` output) is in the domain *)
Example C08_nonvacuous_reachable :
  let ops := [OConstruct (to_json rich_md);
              OAssign 0 FHints JNull;
              OUpdateAxes 0 (mkAL (Some [JStr "t"; JStr "y"]) None (Some [JStr "time"; JStr "space"]) (Some [JFlt (Fin 512); JNull]) None None None None);
              OAddProps 1 (JList [JObj [("identifier", JStr "lab"); ("dtype", JStr "<U5")]; JObj [("identifier", JStr "w"); ("dtype", JStr "f4")]]) (JStr "node")] in
  List.length (run "1.3" [] ops) = 3%nat /\
  forallb (fun m => inv_md m) (run "1.3" [] ops) = true /\
  forallb md_finite (run "1.3" [] ops) = true.
Proof. vm_compute. repeat split. Qed.

(* the key-level statement is exercised: a format-2 store with a member array, a foreign attribute and an older
   geff entry; a format-3 store with consolidated metadata in the group document; an empty store *)
Example C08_nonvacuous_keys :
  let v2 := [([".zgroup"], KDoc (JObj [("zarr_format", JInt 2)]));
             ([".zattrs"], KDoc (JObj [("foreign", JInt 1); ("geff", JStr "old")]));
             (["nodes"; ".zgroup"], KDoc (JObj [("zarr_format", JInt 2)]));
             (["nodes"; "ids"; ".zarray"], KDoc (JObj [("shape", JList [JInt 2])])); (["nodes"; "ids"; "0"], KChunk [1; 2])] in
  let v3 := [(["zarr.json"], KDoc (JObj [("attributes", JObj [("foreign", JInt 1)]); ("zarr_format", JInt 3);
                                          ("consolidated_metadata", JObj [("kind", JStr "inline")]); ("node_type", JStr "group")]))] in
  md_write_k rich_md v2 = Ok (kset [".zattrs"] (KDoc (JObj [("foreign", JInt 1); ("geff", to_json rich_md)])) v2)
  /\ match md_write_k rich_md v2 with Ok k => md_read_k "0.0" k | Err e => Err e end = Ok rich_md
  /\ md_write_k rich_md v3
     = Ok [(["zarr.json"], KDoc (JObj [("attributes", JObj [("foreign", JInt 1); ("geff", to_json rich_md)]); ("zarr_format", JInt 3);
                                       ("consolidated_metadata", JObj [("kind", JStr "inline")]); ("node_type", JStr "group")]))]
  /\ match md_write_k rich_md [] with Ok k => (probe_root k, md_read_k "0.0" k) | Err e => (ROther, Err e) end
     = (RGroup V3 [("geff", to_json rich_md)], Ok rich_md)
  /\ md_write_k rich_md [(["zarr.json"], KDoc (JObj [("zarr_format", JInt 3); ("node_type", JStr "group"); ("surprise", JInt 1)]))] = Err TypeError
  /\ md_write_k rich_md [(["zarr.json"], KDoc (JObj [("zarr_format", JInt 3); ("node_type", JStr "array")]))] = Err ValueError.
Proof. vm_compute. repeat split. Qed.
