(* props/C03.v -- C03: graph-library round trips are faithful and the backends agree. *)
From Geff Require Import Base Dtype Vlen Tree Validate Write Read WriteLemmas Dicts Backends BackendsLemmas DictsLemmas ListColLemmas C03Lemmas SgLemmas SgWriteLemmas.
Open Scope string_scope.
Open Scope list_scope.

(* ---- networkx: geff.write(G, fresh store) ; geff.read(store, backend="networkx") ; adapter view ----
   For every directed / undirected graph of any size with distinct node ids in [0, 2^64), edges between its nodes, no edge twice
   (as unordered pairs when undirected), usable property names (Names.name_ok: one non-empty path segment without "/" or "\", not "."
   / "..", not a reserved member name of zarr), no string value ending in NUL (strs_ok), and attributes present on ANY subset of the
   nodes / edges such that each property column (val_col) -- its values together with the fill value used where an element lacks it --
   consists of Python scalars numpy types alike (all bool, all int64-range ints, all ints of [2^63,2^64) on every element, all float,
   all str), or of nested lists of one shape, or of nested lists of one rank and different shapes (ragged), with leaves typed alike,
   or of nested lists of one shape without any leaf (the same domain read declaratively: C03_decl_dom below):
   the write succeeds, and the graph read back has the same directedness, the same node ids and the same edges in the same order,
   and on every node / edge EXACTLY the properties it had -- a property it lacked is absent (no fill value) -- with the same value,
   the same kind (bool / int / float / str) and, for arrays, the same shape and element kind (cv_of_py). *)
Theorem C03_nx_roundtrip : forall d g mdtok axtok, dom_values d g ->
  exists cg, nx_rt d g mdtok axtok = Ok cg /\ same_graph cv_of_py d g cg.
Proof. exact nx_rt_values. Qed.
Print Assumptions C03_nx_roundtrip.

(* the same, step by step and for any value class whose columns are stored faithfully (cols_ok): the store validates, read_to_memory
   succeeds, NxBackend.construct gives the written graph *)
Theorem C03_nx_roundtrip_steps : forall cvf d g mdtok axtok, dom_dicts cvf d g ->
  exists post mg cg,
    run (api_write KObj (nx_write KObj d g None mdtok axtok)) None = (Some post, Ok tt) /\
    validate_structure KObj (Some post) = Ok tt /\
    read_to_memory KObj (Some post) true None None = Ok mg /\
    nx_construct mg = Ok cg /\ same_graph cvf d g cg.
Proof. exact nx_roundtrip. Qed.
Print Assumptions C03_nx_roundtrip_steps.

(* ---- rustworkx: the written graph is identified through node_indices() / node_id_dict (rx_target: index holes, explicit id
   maps; a missing key is a KeyError), the graph read back through graph.attrs["to_rx_id_map"] (canon_rx) ---- *)
Theorem C03_rx_roundtrip : forall d g idmap g' mdtok axtok, rx_target idmap g = Ok g' -> dom_values d g' ->
  exists cg, rx_rt d g idmap mdtok axtok = Ok cg /\ same_graph cv_of_py d g' cg.
Proof. exact rx_rt_values. Qed.
Print Assumptions C03_rx_roundtrip.

Theorem C03_rx_roundtrip_steps : forall cvf d g idmap g' mdtok axtok, rx_target idmap g = Ok g' -> dom_dicts cvf d g' ->
  exists post mg r cg,
    run (api_write KObj (rx_write KObj d g idmap None mdtok axtok)) None = (Some post, Ok tt) /\
    validate_structure KObj (Some post) = Ok tt /\
    read_to_memory KObj (Some post) true None None = Ok mg /\
    rx_construct mg = Ok r /\ canon_rx r = Some cg /\ same_graph cvf d g' cg.
Proof. exact rx_roundtrip. Qed.
Print Assumptions C03_rx_roundtrip_steps.

(* node_id_dict / node_indices(): ids are translated, payloads and edge data are untouched.
   DEFINITIONAL: an unfolding of Backends.rx_translate (two mapM over the node / edge lists); kept as the readable description of
   rx_target used in the statements of C03_rx_roundtrip, not counted as covering a clause. *)
Theorem C03_rx_ids : forall idmap g g', rx_translate idmap g = Ok g' ->
  map snd (d_nodes g') = map snd (d_nodes g) /\ map snd (d_edges g') = map snd (d_edges g) /\
  map (fun nd => Some (fst nd)) (d_nodes g') = map (fun nd => tr_id idmap (fst nd)) (d_nodes g) /\
  map (fun ed => (Some (fst (fst ed)), Some (snd (fst ed)))) (d_edges g')
  = map (fun ed => (tr_id idmap (fst (fst ed)), tr_id idmap (snd (fst ed)))) (d_edges g).
Proof. exact rx_translate_spec. Qed.
Print Assumptions C03_rx_ids.

(* ---- one property column: what dict_props_to_arr stores ----
   good_col: the stored property has one value and (if any element lacks the property) one mask entry per element; the mask flags
   exactly the elements that lack it; every present value reads back as its canonical value; the property is accepted by the writer *)
Theorem C03_column : forall col, val_col col -> exists p, dict_prop col = Ok p /\ good_col cv_of_py col p.
Proof. exact val_col_good. Qed.
Print Assumptions C03_column.

Theorem C03_column_scalar : forall col d, col_dt col = Some d -> col <> [] ->
  exists p, dict_prop col = Ok p /\ good_col cv_scalar col p /\
            p_vals p = PFixed (mkarr d [length col] (map scalar_payload (filled col))).
Proof. exact scalar_column. Qed.
Print Assumptions C03_column_scalar.

(* the fill value has the Python type of the first present value: a bool property stays bool.
   DEFINITIONAL: this restates the five-line match of Dicts.default_for_value (proof: destruct v); it documents the repaired
   function and does not count as covering a clause of the property -- the clause is covered by C03_column / C03_nx_roundtrip. *)
Theorem C03_fill_kind : forall v,
  sk_of_py (default_for_value v) = sk_of_py v /\ (is_plist v = false -> scalar_payload (default_for_value v) = 0%Z).
Proof. exact default_kind. Qed.
Print Assumptions C03_fill_kind.

(* ---- the backends agree: construct from ONE in-memory geff ----
   For every well-formed geff (distinct node ids, edges between them, no edge twice, one value and one mask entry per element) whose
   canonical view cg is defined: NxBackend.construct gives cg; RxBackend.construct, seen through to_rx_id_map, gives cg; and on the
   spatial-graph domain (sg_dom: >= 1 node and axis, supported numeric dtypes, no missing values, fixed-shape properties of rank <= 2
   -- rank 2 not of an 8-bit dtype --, axis properties 1-D of one dtype that is not 8-bit, no property called like position_attr)
   SgBackend.construct seen through the SgGraphAdapter gives cg.  "No edge twice" is part of wf_geff: on a geff with a repeated edge
   networkx and rustworkx do NOT agree (C03_repeated_edge_witnesses). *)
Theorem C03_agree : forall g ids es cg,
  wf_geff g ids es -> props_fit (length ids) (g_nprops g) -> props_fit (length es) (g_eprops g) ->
  canon_geff g = Ok cg ->
  nx_construct g = Ok cg /\
  (exists r, rx_construct g = Ok r /\ canon_rx r = Some cg) /\
  (forall pos names dt, sg_dom g pos ids es names dt ->
     exists s, sg_construct g pos = Ok s /\ canon_sg s names (akeys (g_nprops g)) (akeys (g_eprops g)) = Ok cg).
Proof. exact backends_agree. Qed.
Print Assumptions C03_agree.

Theorem C03_sg_construct : forall g pos ids es names dt cg,
  sg_dom g pos ids es names dt -> canon_geff g = Ok cg ->
  exists s, sg_construct g pos = Ok s /\
            canon_sg s names (akeys (g_nprops g)) (akeys (g_eprops g)) = Ok cg /\
            sc_directed s = md_directed (g_md g) /\ sc_ndims s = length names /\ sc_nodes s = g_nids g /\ sc_edges s = g_eids g.
Proof. exact sg_construct_canon. Qed.
Print Assumptions C03_sg_construct.

(* ---- spatial-graph: geff.write(G, axis_names=names) ; geff.read(backend="spatial-graph") ----
   For every non-empty spatial graph (sgc_dom: distinct integer node ids, edges between them, no edge twice, ndims = number of axis
   names, distinct usable (name_ok) axis names that are not attribute names, usable attribute names, int8..uint64 / float32 / float64
   scalar attributes, int16..uint64 / float32 / float64 vector attributes -- hence a position that is not 8-bit):
   the write succeeds (the position attribute is stored as one property per axis), the store validates, and the graph constructed
   from it has the same nodes array, edges array, directedness and ndims, and the SAME SgGraphAdapter view (every attribute and every
   position component under its axis name, values and kinds) as the graph that was written. *)
Theorem C03_sg_roundtrip : forall s names ids es P mdtok axtok, sgc_dom s names ids es P ->
  exists post mg s' cg,
    run (api_write KObj (sg_write KObj s None (Some names) mdtok axtok)) None = (Some post, Ok tt) /\
    validate_structure KObj (Some post) = Ok tt /\
    read_to_memory KObj (Some post) true None None = Ok mg /\
    sg_construct mg (sc_pos s) = Ok s' /\
    canon_sg s' names (akeys (g_nprops mg)) (akeys (g_eprops mg)) = Ok cg /\
    canon_sg s names (akeys (g_nprops mg)) (akeys (g_eprops mg)) = Ok cg /\
    sc_directed s' = sc_directed s /\ sc_ndims s' = sc_ndims s /\ sc_nodes s' = sc_nodes s /\ sc_edges s' = sc_edges s.
Proof. exact (sg_roundtrip KObj). Qed.
Print Assumptions C03_sg_roundtrip.

(* ---- the property text without the int64 guard is false (open finding int-beyond-int64-becomes-float) ----
   C03_nx_roundtrip_full drops the dtype guard: columns whose present values are Python scalars of one type, ints anywhere in
   [-2^63, 2^64).  Witness: nodes {1: p=1, 2: p=2^63} come back as {1: p=1.0, 2: p=2^63 as float}. *)
Definition C03_nx_roundtrip_full : Prop := nx_roundtrip_full.
Theorem C03_nx_roundtrip_refuted : ~ C03_nx_roundtrip_full.
Proof. exact nx_roundtrip_refuted. Qed.
Print Assumptions C03_nx_roundtrip_refuted.

Theorem C03_int_beyond_int64_witnesses :
  nx_rt true ex_big 0 0 = Ok (mkcg true [(1%Z, [("p", CScalar SFloat 1024)]); (2%Z, [("p", CScalar SFloat (2 ^ 63 * 1024))])] []) /\
  nx_rt true ex_big_missing 0 0 = Ok (mkcg true [(1%Z, [("p", CScalar SFloat (2 ^ 63 * 1024))]); (2%Z, [])] []).
Proof. split; [exact ex_big_result | exact ex_big_missing_result]. Qed.
Print Assumptions C03_int_beyond_int64_witnesses.

(* open finding empty-list-types-array-column-float64: {1: p=[2^53+1, -128], 2: p=[]} comes back with float elements, 2^53+1 rounded *)
Theorem C03_empty_list_witness :
  nx_rt true ex_empty_list 0 0
  = Ok (mkcg true [(1%Z, [("p", CArr SFloat [2%nat] [2 ^ 53 * 1024; -128 * 1024]%Z)]); (2%Z, [("p", CArr SFloat [0%nat] [])])] []).
Proof. exact ex_empty_list_result. Qed.
Print Assumptions C03_empty_list_witness.

(* ---- non-vacuity ---- *)
(* undirected graph, ids 1 / 2^63+5 / 2^64-1, a bool property on two of three nodes, a str property on one, a float edge property
   on one of two edges: in the domain, and the computed round trip gives the graph back with bool still bool and nothing filled in *)
Definition ex_g : dgraph :=
  mkdg [(1%Z, [("b", PBool true); ("s", PStr 7)]); (9223372036854775813%Z, []); (18446744073709551615%Z, [("b", PBool false)])]
       [((9223372036854775813%Z, 1%Z), [("w", PFloat 1536)]); ((1%Z, 18446744073709551615%Z), [])].

(* list-valued attributes: a fixed-shape (2,) list on two of three nodes and a ragged list on two edges *)
Definition ex_lists : dgraph :=
  mkdg [(5%Z, [("v", PList [PInt 1; PInt 2])]); (3%Z, []); (9%Z, [("v", PList [PInt (-3); PInt 4])])]
       [((5%Z, 3%Z), [("r", PList [PFloat 512])]); ((3%Z, 9%Z), [("r", PList [PFloat 1024; PFloat 2048])])].

Ltac leaf_tac := split; [reflexivity | vm_compute; reflexivity].
Ltac lv_tac := split; [reflexivity | split; [vm_compute; reflexivity | split; [repeat (constructor; [leaf_tac|]); constructor | discriminate]]].

Example C03_lists_nonvacuous :
  dom_values true ex_lists /\
  nx_rt true ex_lists 0 0
  = Ok (mkcg true [(5%Z, [("v", CArr SInt [2%nat] [1; 2]%Z)]); (3%Z, []); (9%Z, [("v", CArr SInt [2%nat] [-3; 4]%Z)])]
                  [((5%Z, 3%Z), [("r", CArr SFloat [1%nat] [512]%Z)]); ((3%Z, 9%Z), [("r", CArr SFloat [2%nat] [1024; 2048]%Z)])]).
Proof.
  split; [|vm_compute; reflexivity].
  constructor.
  - repeat constructor; cbn; lia.
  - reflexivity.
  - reflexivity.
  - intros e He. cbn in He. destruct He as [<-|[<-|[]]]; cbn; auto.
  - intros name Hin. vm_compute in Hin. destruct Hin as [<-|[]]. split; [reflexivity|]. split; [reflexivity|]. split; [discriminate|].
    right. left. exists DI64, [2%nat]. split; [right; left; reflexivity|]. split; [discriminate|].
    replace (filled (column (map snd (d_nodes ex_lists)) "v"))
      with [PList [PInt 1; PInt 2]; PList [PInt 1; PInt 2]; PList [PInt (-3); PInt 4]] by (vm_compute; reflexivity).
    constructor; [lv_tac | constructor; [lv_tac | constructor; [lv_tac | constructor]]].
  - intros name Hin. vm_compute in Hin. destruct Hin as [<-|[]]. split; [reflexivity|]. split; [reflexivity|]. split; [discriminate|].
    right. right. left. exists DF64, 1%nat. split; [right; right; right; left; reflexivity|]. split; [vm_compute; reflexivity|].
    replace (filled (column (map snd (d_edges ex_lists)) "r"))
      with [PList [PFloat 512]; PList [PFloat 1024; PFloat 2048]] by (vm_compute; reflexivity).
    constructor; [exists [1%nat]; split; [reflexivity | lv_tac] | constructor; [exists [2%nat]; split; [reflexivity | lv_tac] | constructor]].
Qed.

Example C03_nonvacuous :
  dom_scalar false ex_g /\
  nx_rt false ex_g 0 0
  = Ok (mkcg false [(1%Z, [("b", CScalar SBool 1); ("s", CScalar SStr 7)]); (9223372036854775813%Z, []);
                    (18446744073709551615%Z, [("b", CScalar SBool 0)])]
                   [((9223372036854775813%Z, 1%Z), [("w", CScalar SFloat 1536)]); ((1%Z, 18446744073709551615%Z), [])]) /\
  rx_target (Some [(0%Z, 7%Z); (2%Z, 9223372036854775813%Z)]) (mkdg [(0%Z, [("a", PInt 5)]); (2%Z, [])] [((0%Z, 2%Z), [])])
  = Ok (mkdg [(7%Z, [("a", PInt 5)]); (9223372036854775813%Z, [])] [((7%Z, 9223372036854775813%Z), [])]).
Proof.
  split; [|split; [vm_compute; reflexivity | reflexivity]].
  constructor.
  - repeat constructor; cbn; lia.
  - reflexivity.
  - reflexivity.
  - intros e He. cbn in He. destruct He as [<-|[<-|[]]]; cbn; auto.
  - intros name Hin. vm_compute in Hin. destruct Hin as [<-|[<-|[]]]; (split; [reflexivity | split; [reflexivity | eexists; vm_compute; reflexivity]]).
  - intros name Hin. vm_compute in Hin. destruct Hin as [<-|[]]; (split; [reflexivity | split; [reflexivity | eexists; vm_compute; reflexivity]]).
Qed.

(* an in-memory geff in the spatial-graph domain (2 nodes, axes x y of float64, an int16 vector property, one edge with an int64
   property): the three constructs give the same view.  (An int8 / uint8 VECTOR is outside sg_dom: spatial_graph hands it back as a
   bytes scalar -- open finding sg-8bit-vector-read-as-bytes; the earlier version of this example was such a graph.) *)
Definition ex_geff : mgraph :=
  mkmg (mkmd true (Some [mkax "x" None None 0%Z; mkax "y" None None 0%Z]) [] [] 0%Z)
       (mkarr DU8 [2%nat] [7; 3]%Z) (mkarr DU8 [1%nat; 2%nat] [3; 7]%Z)
       [("x", mkprop (PFixed (mkarr DF64 [2%nat] [1024; 2048]%Z)) None);
        ("v", mkprop (PFixed (mkarr DI16 [2%nat; 2%nat] [1; 2; 3; 4]%Z)) None);
        ("y", mkprop (PFixed (mkarr DF64 [2%nat] [512; -512]%Z)) None)]
       [("w", mkprop (PFixed (mkarr DI64 [1%nat] [9]%Z)) None)].

Ltac sgp1 := split; [reflexivity | eexists; split; [reflexivity | split; [reflexivity | left; split; reflexivity]]].
Ltac sgp2 k := split; [reflexivity | eexists; split; [reflexivity | split; [reflexivity | right; exists k; split; [reflexivity | split; reflexivity]]]].

Example C03_agree_nonvacuous :
  exists cg, canon_geff ex_geff = Ok cg /\ sg_dom ex_geff "position" [7; 3]%Z [(3, 7)]%Z ["x"; "y"] DF64 /\
             props_fit 2 (g_nprops ex_geff) /\ props_fit 1 (g_eprops ex_geff) /\
             cg_nodes cg = [(7%Z, [("x", CScalar SFloat 1024); ("v", CArr SInt [2%nat] [1; 2]%Z); ("y", CScalar SFloat 512)]);
                            (3%Z, [("x", CScalar SFloat 2048); ("v", CArr SInt [2%nat] [3; 4]%Z); ("y", CScalar SFloat (-512))])].
Proof.
  eexists. split; [vm_compute; reflexivity|]. split; [|split; [|split; [|reflexivity]]].
  - constructor.
    + constructor; try reflexivity. intros e [<-|[]]; cbn; auto.
    + discriminate.
    + reflexivity.
    + discriminate.
    + repeat constructor; cbn; intuition discriminate.
    + reflexivity.
    + repeat constructor; cbn; intuition discriminate.
    + repeat constructor; cbn; intuition.
    + constructor; [sgp1 | constructor; [sgp2 2%nat | constructor; [sgp1 | constructor]]].
    + constructor; [sgp1 | constructor].
    + cbn. intuition discriminate.
    + intros nm [<-|[<-|[]]]; eexists; (split; [reflexivity | split; reflexivity]).
    + reflexivity.
  - repeat constructor.
  - repeat constructor.
Qed.

(* a spatial graph with 2 nodes (ids 5, 3), position float64[2], an int64 attribute, one edge with a float64 attribute: in the domain;
   the adapter view of the written graph, which C03_sg_roundtrip shows to be the view of the graph read back *)
Definition ex_pos : arr := mkarr DF64 [2%nat; 2%nat] [1024; 2048; 512; -512]%Z.
Definition ex_sg : sgc :=
  mksgc true 2 (mkarr DU64 [2%nat] [5; 3]%Z) "position" [("a", mkarr DI64 [2%nat] [7; 8]%Z); ("position", ex_pos)]
        (mkarr DU64 [1%nat; 2%nat] [5; 3]%Z) [("w", mkarr DF64 [1%nat] [1536]%Z)].

Example C03_sg_nonvacuous :
  sgc_dom ex_sg ["x"; "y"] [5; 3]%Z [(5, 3)]%Z ex_pos /\
  canon_sg ex_sg ["x"; "y"] ["a"; "x"; "y"] ["w"]
  = Ok (mkcg true [(5%Z, [("a", CScalar SInt 7); ("x", CScalar SFloat 1024); ("y", CScalar SFloat 2048)]);
                  (3%Z, [("a", CScalar SInt 8); ("x", CScalar SFloat 512); ("y", CScalar SFloat (-512))])]
                 [((5%Z, 3%Z), [("w", CScalar SFloat 1536)])]).
Proof.
  split; [|vm_compute; reflexivity].
  constructor; try reflexivity; try discriminate.
  - intros e [<-|[]]; cbn; auto.
  - repeat constructor; cbn; intuition discriminate.
  - intros nm [<-|[<-|[]]]; (split; [reflexivity | cbn; intuition discriminate]).
  - repeat constructor; cbn; intuition discriminate.
  - intros nm [<-|[<-|[]]]; reflexivity.
  - repeat constructor; cbn; intuition.
  - intros nm [<-|[]]; reflexivity.
  - constructor; [split; [reflexivity | left; split; reflexivity] | constructor; [split; [reflexivity | right; exists 2%nat; split; [reflexivity | split; reflexivity]] | constructor]].
  - constructor; [split; [reflexivity | left; split; reflexivity] | constructor].
Qed.

(* =====================================================================================================================
   DEEPENING (c03x): every metadata call shape of the dict-based backends, and the cross-library round trips as one theorem.
   ===================================================================================================================== *)
From Geff Require Import C10Lemmas BackendsMd BackendsMdLemmas C03Cross.
From Geff Require Corr.C03.

(* ---- NxBackend.write / RxBackend.write with a caller GeffMetadata and / or axis_names + axis_units / axis_types / axis_scales /
   scaled_units / axis_offset (BackendsMd.v: create_or_update_metadata, update_metadata_axes) ----
   args_dom g mdc axes: the axis names given are distinct; the caller's property entries name written properties only; every axis
   of the written geff (eff_axes: those of the lists when axis names are given -- they REPLACE the caller's -- else the caller's)
   names a node property present on EVERY node whose values are Python floats or Python ints of the int64 range with |z| < 2^53
   (axis_col).  Then, for every graph of the value domain of C03_nx_roundtrip: the write succeeds, the store validates, the graph
   read back is the graph written (same_graph: the axis properties are read back like every other property), and the metadata
   read back (md_back) has
     * `directed` of the GRAPH, whatever the caller's metadata says,
     * every data-independent caller field (one token), exactly one property entry per written property,
     * one axis per effective axis, in order, with the same name and the same token (type, unit, scale, scaled unit, offset) and
       min / max = the smallest / largest value of the column (axis_stored), whatever range the caller's axis carried. *)
Theorem C03_nx_roundtrip_md : forall d g mdc axes mdtok, dom_values d g -> args_dom g mdc axes ->
  exists post mg cg,
    run (api_write KObj (nx_write_md KObj d g mdc axes mdtok)) None = (Some post, Ok tt) /\
    validate_structure KObj (Some post) = Ok tt /\
    read_to_memory KObj (Some post) true None None = Ok mg /\
    nx_construct mg = Ok cg /\
    same_graph cv_of_py d g cg /\
    md_back g d mdc axes mdtok (g_md mg).
Proof. intros d g mdc axes mdtok H. apply nx_roundtrip_md. apply dom_values_dicts. exact H. Qed.
Print Assumptions C03_nx_roundtrip_md.

Theorem C03_rx_roundtrip_md : forall d g idmap g' mdc axes mdtok,
  rx_target idmap g = Ok g' -> dom_values d g' -> args_dom g' mdc axes ->
  exists post mg r cg,
    run (api_write KObj (rx_write_md KObj d g idmap mdc axes mdtok)) None = (Some post, Ok tt) /\
    validate_structure KObj (Some post) = Ok tt /\
    read_to_memory KObj (Some post) true None None = Ok mg /\
    rx_construct mg = Ok r /\ canon_rx r = Some cg /\
    same_graph cv_of_py d g' cg /\
    md_back g' d mdc axes mdtok (g_md mg).
Proof. intros d g idmap g' mdc axes mdtok Ht H. apply rx_roundtrip_md; [exact Ht | apply dom_values_dicts; exact H]. Qed.
Print Assumptions C03_rx_roundtrip_md.

(* the stored axis in words: name and token kept; min (max) is a value of the column that no value of the column lies below (above),
   as the float the metadata holds (integers times 2^10 in the payload encoding) *)
Theorem C03_axis_stored : forall data ax ax', axis_stored data ax ax' ->
  ax_name ax' = ax_name ax /\ ax_tok ax' = ax_tok ax /\
  exists d lo hi, col_dt (column data (ax_name ax)) = Some d /\
    let vs := map scalar_payload (somes (column data (ax_name ax))) in
    In lo vs /\ (forall v, In v vs -> (lo <= v)%Z) /\ In hi vs /\ (forall v, In v vs -> (v <= hi)%Z) /\
    ax_min ax' = Some (lo * (if is_float d then 1 else fscale))%Z /\ ax_max ax' = Some (hi * (if is_float d then 1 else fscale))%Z.
Proof. intros data ax ax' [Hn [Ht [d [lo [hi [Hd [[Hlo1 Hlo2] [[Hhi1 Hhi2] [Hmin Hmax]]]]]]]]]. split; [exact Hn|]. split; [exact Ht|].
  exists d, lo, hi. cbv zeta. auto 10. Qed.
Print Assumptions C03_axis_stored.

(* the new writer model restricted to metadata=None and bare axis names is the one of C03_nx_roundtrip / the correspondence *)
Theorem C03_md_model_extends : forall k d g idmap axes mdtok axtok,
  nx_write_md k d g None (bare_axes axes axtok) mdtok = nx_write k d g axes mdtok axtok /\
  rx_write_md k d g idmap None (bare_axes axes axtok) mdtok = rx_write k d g idmap axes mdtok axtok.
Proof. intros. split; [apply nx_write_md_bare | apply rx_write_md_bare]. Qed.
Print Assumptions C03_md_model_extends.

(* the premises of args_dom are needed: an axis property lacking on one node, a caller entry for a property that is not written,
   duplicate axis names -- each write is refused with ValueError and leaves no geff (the first two are rejected by the
   structural validation of the written result and removed again: an empty root group is left; the third fails before any mutation) *)
Definition ex_axis_gap : dgraph := mkdg [(1%Z, [("x", PFloat 1024)]); (2%Z, [])] [].
Definition ex_md_ghost : smeta := mkmd false None [("ghost", mkpm DI8 false None None None)] [] 0%Z.
Theorem C03_md_premises_needed :
  run (api_write KObj (nx_write_md KObj true ex_axis_gap None (Some [("x", 0%Z)]) 0)) None = (Some (ZG [] []), Err ValueError) /\
  run (api_write KObj (nx_write_md KObj true ex_big (Some ex_md_ghost) None 0)) None = (Some (ZG [] []), Err ValueError) /\
  run (api_write KObj (nx_write_md KObj true ex_big None (Some [("p", 0%Z); ("p", 1%Z)]) 0)) None = (None, Err ValueError).
Proof. vm_compute. repeat split. Qed.
Print Assumptions C03_md_premises_needed.

(* ---- cross-library round trips: ONE statement for the nine ordered pairs (A, B) of {networkx, rustworkx, spatial-graph} ----
   cross s r = geff.write of the graph s of library A onto a fresh store, geff.read(backend=B), B's GraphAdapter view
   (rustworkx through graph.attrs["to_rx_id_map"], spatial-graph through the axis names of the metadata read back).
   src_dom s (the domain of the WRITING library):
     networkx   dom_values + args_dom (C03_nx_roundtrip_md);   rustworkx   the same on rx_target idmap g (node_indices / node_id_dict);
     spatial-graph   sgc_dom (C03_sg_roundtrip).
   rdr_dom s r (what the READING library adds; nothing for networkx / rustworkx): for spatial-graph as reader
     of a dict graph (sg_dicts_dom): at least one axis -- hence a node --, distinct axis names, the axis columns of ONE numpy dtype,
       every node and edge property present on every element with Python ints of one of the ranges int64 / [2^63, 2^64) or floats
       (sg_col), no node property called like position_attr;
     of a spatial graph: position_attr is not the name of a stored property (sg_nnames).
   src_canon s cg (the canonical graph of the input): same_graph for dict graphs (ids, edges, directedness, exactly the properties
   each element had, values and kinds); for a spatial graph its own adapter view over the stored property names. *)
Theorem C03_cross : forall s r mdtok axtok, src_dom s -> rdr_dom s r ->
  exists cg, cross s r mdtok axtok = Ok cg /\ src_canon s cg.
Proof. exact cross_roundtrip. Qed.
Print Assumptions C03_cross.

(* the reader side alone: the three adapter views of ONE written geff are the same canonical graph *)
Theorem C03_cross_views : forall mg ids es cg r,
  wf_geff mg ids es -> props_fit (length ids) (g_nprops mg) -> props_fit (length es) (g_eprops mg) -> canon_geff mg = Ok cg ->
  match r with RdrSg pos => exists dt, sg_dom mg pos ids es (md_axis_names (g_md mg)) dt | _ => True end ->
  rdr_view r mg = Ok cg.
Proof. exact rdr_view_agree. Qed.
Print Assumptions C03_cross_views.

(* ---- non-vacuity ---- *)
(* an UNDIRECTED networkx graph with float axis x and int axis t on both nodes, a bool on one; the caller's metadata says directed,
   carries a stale range on its own axis "x" and a unit on the entry of "x"; axis_names = [t, x] with tokens 9 / 4 replace it *)
Definition ex_mdg : dgraph :=
  mkdg [(1%Z, [("x", PFloat 1024); ("t", PInt 3); ("b", PBool true)]); (9223372036854775813%Z, [("x", PFloat (-2560)); ("t", PInt 7)])]
       [((9223372036854775813%Z, 1%Z), [("w", PFloat 1536)])].
Definition ex_mdc : smeta :=
  mkmd true (Some [mkax "x" (Some 0%Z) (Some 9216%Z) 5%Z]) [("x", mkpm DI8 true (Some 11%Z) None None)] [] 77%Z.

Ltac col_tac := split; [reflexivity | split; [reflexivity | split; [discriminate | left; eexists; vm_compute; reflexivity]]].
Ltac axis_tac := constructor; [discriminate | reflexivity | eexists; split; [vm_compute; reflexivity | first [left; reflexivity | right; reflexivity]]
                               | repeat constructor; cbn; lia].

Lemma ex_mdg_values : dom_values false ex_mdg.
Proof. constructor.
  - repeat constructor; cbn; lia.
  - reflexivity.
  - reflexivity.
  - intros e He. cbn in He. destruct He as [<-|[]]; cbn; auto.
  - intros name Hin. vm_compute in Hin. destruct Hin as [<-|[<-|[<-|[]]]]; col_tac.
  - intros name Hin. vm_compute in Hin. destruct Hin as [<-|[]]; col_tac.
Qed.

Lemma ex_mdg_args : args_dom ex_mdg (Some ex_mdc) (Some [("t", 9%Z); ("x", 4%Z)]).
Proof. constructor.
  - repeat constructor; cbn; intuition discriminate.
  - intros c k0 Hc Hk. inversion Hc; subst c. cbn in Hk. destruct Hk as [<-|[]]. vm_compute. auto.
  - intros c k0 Hc Hk. inversion Hc; subst c. destruct Hk.
  - intros axs ax Hax Hin. inversion Hax; subst axs. destruct Hin as [<-|[<-|[]]]; axis_tac.
Qed.

Example C03_md_nonvacuous :
  dom_values false ex_mdg /\ args_dom ex_mdg (Some ex_mdc) (Some [("t", 9%Z); ("x", 4%Z)]) /\
  match run (api_write KObj (nx_write_md KObj false ex_mdg (Some ex_mdc) (Some [("t", 9%Z); ("x", 4%Z)]) 0)) None with
  | (Some post, Ok tt) =>
      match read_to_memory KObj (Some post) true None None with
      | Ok mg => md_directed (g_md mg) = false /\ md_tok (g_md mg) = 77%Z /\
                 md_axes (g_md mg) = Some [mkax "t" (Some 3072%Z) (Some 7168%Z) 9%Z; mkax "x" (Some (-2560)%Z) (Some 1024%Z) 4%Z] /\
                 alookup "x" (md_nprops (g_md mg)) = Some (mkpm DF64 false (Some 11%Z) None None) /\
                 nx_construct mg
                 = Ok (mkcg false [(1%Z, [("x", CScalar SFloat 1024); ("t", CScalar SInt 3); ("b", CScalar SBool 1)]);
                                   (9223372036854775813%Z, [("x", CScalar SFloat (-2560)); ("t", CScalar SInt 7)])]
                                  [((9223372036854775813%Z, 1%Z), [("w", CScalar SFloat 1536)])])
      | Err _ => False
      end
  | _ => False
  end.
Proof. split; [exact ex_mdg_values|]. split; [exact ex_mdg_args|]. vm_compute. repeat split. Qed.

(* a networkx graph spatial-graph can read: float axes x, y, an int attribute, one edge with a float attribute; all nine pairs:
   the three readers give the same canonical graph for the networkx graph, for the rustworkx graph (indices 0, 2 mapped to ids 7, 3)
   and for the spatial graph of C03_sg_nonvacuous *)
Definition ex_xg : dgraph :=
  mkdg [(7%Z, [("x", PFloat 1024); ("y", PFloat 2048); ("a", PInt 7)]); (3%Z, [("x", PFloat 512); ("y", PFloat (-512)); ("a", PInt 8)])]
       [((7%Z, 3%Z), [("w", PFloat 1536)])].
Definition ex_xr : dgraph :=
  mkdg [(0%Z, [("x", PFloat 1024); ("y", PFloat 2048); ("a", PInt 7)]); (2%Z, [("x", PFloat 512); ("y", PFloat (-512)); ("a", PInt 8)])]
       [((0%Z, 2%Z), [("w", PFloat 1536)])].
Definition ex_xaxes : option (list (string * Z)) := Some [("x", 0%Z); ("y", 0%Z)].
Definition ex_xcg : cgraph :=
  mkcg true [(7%Z, [("x", CScalar SFloat 1024); ("y", CScalar SFloat 2048); ("a", CScalar SInt 7)]);
             (3%Z, [("x", CScalar SFloat 512); ("y", CScalar SFloat (-512)); ("a", CScalar SInt 8)])]
            [((7%Z, 3%Z), [("w", CScalar SFloat 1536)])].

Ltac sgcol_tac := split; [reflexivity | eexists; split; [vm_compute; reflexivity | reflexivity]].

Lemma ex_xg_dom : src_dom (SrcNx true ex_xg None ex_xaxes) /\ rdr_dom (SrcNx true ex_xg None ex_xaxes) (RdrSg "position").
Proof. split.
  - split.
    + constructor.
      * repeat constructor; cbn; lia.
      * reflexivity.
      * reflexivity.
      * intros e He. cbn in He. destruct He as [<-|[]]; cbn; auto.
      * intros name Hin. vm_compute in Hin. destruct Hin as [<-|[<-|[<-|[]]]]; col_tac.
      * intros name Hin. vm_compute in Hin. destruct Hin as [<-|[]]; col_tac.
    + constructor.
      * repeat constructor; cbn; intuition discriminate.
      * intros c k0 Hc. discriminate.
      * intros c k0 Hc. discriminate.
      * intros axs ax Hax Hin. inversion Hax; subst axs. destruct Hin as [<-|[<-|[]]]; axis_tac.
  - cbn [rdr_dom]. constructor.
    + eexists. exists DF64. split; [reflexivity|]. split; [discriminate|]. split; [repeat constructor; cbn; intuition discriminate|].
      intros ax [<-|[<-|[]]]; vm_compute; reflexivity.
    + intros name Hin. vm_compute in Hin. destruct Hin as [<-|[<-|[<-|[]]]]; sgcol_tac.
    + intros name Hin. vm_compute in Hin. destruct Hin as [<-|[]]; sgcol_tac.
    + vm_compute. intuition discriminate.
Qed.

Example C03_cross_nonvacuous :
  (src_dom (SrcNx true ex_xg None ex_xaxes) /\ rdr_dom (SrcNx true ex_xg None ex_xaxes) (RdrSg "position")) /\
  (exists ids es P, sgc_dom ex_sg ["x"; "y"] ids es P) /\ ~ In "position" (sg_nnames ex_sg ["x"; "y"]) /\
  rx_target (Some [(0%Z, 7%Z); (2%Z, 3%Z)]) ex_xr = Ok ex_xg /\
  forallb (fun r => match cross (SrcNx true ex_xg None ex_xaxes) r 0 0, cross (SrcRx true ex_xr (Some [(0%Z, 7%Z); (2%Z, 3%Z)]) None ex_xaxes) r 0 0 with
                    | Ok a, Ok b => Corr.C03.cgraph_eqb a ex_xcg && Corr.C03.cgraph_eqb b ex_xcg
                    | _, _ => false
                    end) [RdrNx; RdrRx; RdrSg "position"] = true /\
  forallb (fun r => match cross (SrcSg ex_sg ["x"; "y"]) r 0 0 with
                    | Ok a => Corr.C03.cgraph_eqb a (mkcg true [(5%Z, [("a", CScalar SInt 7); ("x", CScalar SFloat 1024); ("y", CScalar SFloat 2048)]);
                                                                 (3%Z, [("a", CScalar SInt 8); ("x", CScalar SFloat 512); ("y", CScalar SFloat (-512))])]
                                                                [((5%Z, 3%Z), [("w", CScalar SFloat 1536)])])
                    | _ => false
                    end) [RdrNx; RdrRx; RdrSg "position"] = true.
Proof.
  split; [exact ex_xg_dom|]. split; [exists [5; 3]%Z, [(5, 3)]%Z, ex_pos; exact (proj1 C03_sg_nonvacuous)|].
  split; [vm_compute; intuition discriminate|]. split; [reflexivity|]. split; vm_compute; reflexivity.
Qed.

(* ---- the axis lists behind the tokens: the reduced helpers of BackendsMd.v against the full pydantic model (Meta.v, tied in C07 / C10) ----
   When update_metadata_axes succeeds on the caller's FULL object, the reduced upd_axes succeeds on its abstraction (any interning I) with,
   for axis k, the token of (type_k, unit_k, scale_k, scaled_unit_k, offset_k) of the axis that axes_from_lists builds from entry k of
   every list (C10_axes_from_lists) and no min / max, and gives the abstraction of the full result.  Likewise create_or_update_metadata. *)
From Geff Require BackendsMdBridge.
Theorem C03_axis_lists_refine : forall I m ls m', Meta.update_metadata_axes m ls = Ok m' ->
  exists l, Meta.axes_from_lists (BackendsMdBridge.no_roi ls) = Ok l /\
            upd_axes (MetaBridge.abs I m) (map (fun a => (Meta.ax_name a, BackendsMdBridge.axis_tok I a)) l) = Ok (MetaBridge.abs I m').
Proof. exact BackendsMdBridge.upd_axes_refines. Qed.
Print Assumptions C03_axis_lists_refine.

Theorem C03_cu_metadata_refines : forall I gv m0 d m2 mdtok,
  Meta.create_or_update_metadata gv (Some m0) (Meta.JBool d) Meta.JNull = Ok m2 ->
  Meta.md_version m2 = Meta.md_version m0 ->
  MetaBridge.abs I m2 = cu_metadata (Some (MetaBridge.abs I m0)) d mdtok.
Proof. exact BackendsMdBridge.cu_metadata_refines. Qed.
Print Assumptions C03_cu_metadata_refines.

(* =====================================================================================================================
   AUDIT REPAIRS (fx03): the domain read declaratively, names / NUL / 8-bit vectors / repeated edges made explicit,
   any store kind, exports for composition.  (DESIGN_NOTES/fx03.md)
   ===================================================================================================================== *)
From Geff Require Import Names C03Decl C03Multi C03Steps.

(* ---- the value domain, declaratively (C03Decl.v) ----
   decl_dom d g: node ids distinct and in [0, 2^64); edges between nodes, none twice ((u,v) = (v,u) when undirected); every
   property name a usable name (Names.name_ok: one non-empty path segment without "/" or "\", not "." / "..", not one of zarr's
   reserved member names .zarray / .zgroup / .zattrs / .zmetadata / zarr.json); and the PRESENT values of every property column are
     (S) scalars of one class -- all bool | all ints in [-2^63, 2^63) | all ints in [2^63, 2^64) | all floats | all strs not ending
         in NUL -- where in the class [2^63, 2^64) every element must carry the property (no_missing), or
     (F) nested lists of one shape with >= 1 leaf, leaves of one class, or
     (R) nested lists of one rank, >= 1 leaf each, at least two different shapes, leaves of one class, or
     (E) nested lists of one shape without a leaf ([] everywhere).
   Shapes (has_shape) and leaves (all_leaves) are inductive predicates on the values, not model functions.
   Then the graph is in dom_values, hence the round trip holds. *)
Theorem C03_decl_dom : forall d g, decl_dom d g -> dom_values d g.
Proof. exact decl_dom_values. Qed.
Print Assumptions C03_decl_dom.

Theorem C03_decl_col : forall col, decl_col col -> strs_ok col = true /\ val_col col.
Proof. exact decl_col_values. Qed.
Print Assumptions C03_decl_col.

Theorem C03_nx_roundtrip_decl : forall d g mdtok axtok, decl_dom d g ->
  exists cg, nx_rt d g mdtok axtok = Ok cg /\ same_graph cv_of_py d g cg.
Proof. intros d g mdtok axtok H. apply nx_rt_values. apply decl_dom_values. exact H. Qed.
Print Assumptions C03_nx_roundtrip_decl.

Theorem C03_rx_roundtrip_decl : forall d g idmap g' mdtok axtok, rx_target idmap g = Ok g' -> decl_dom d g' ->
  exists cg, rx_rt d g idmap mdtok axtok = Ok cg /\ same_graph cv_of_py d g' cg.
Proof. intros d g idmap g' mdtok axtok Ht H. apply (rx_rt_values d g idmap g' mdtok axtok Ht). apply decl_dom_values. exact H. Qed.
Print Assumptions C03_rx_roundtrip_decl.

(* ---- any store kind (store object or path), and everything C03_agree needs about the geff read back ----
   The step-by-step statements for every k : skind, exporting wf_geff mg, props_fit and canon_geff mg = Ok cg, so that C03_agree /
   C03_cross_views apply to the geff that was written (C03_written_all_views does it: one written geff, three adapter views).
   zarr_format is not a parameter of the tree model: no theorem distinguishes the formats; the correspondence runs every case
   family under both, and the reserved member names of both formats are excluded by name_ok. *)
Theorem C03_nx_roundtrip_anystore : forall cvf k d g mdtok axtok, dom_dicts cvf d g ->
  exists post mg cg,
    run (api_write k (nx_write k d g None mdtok axtok)) None = (Some post, Ok tt) /\
    validate_structure k (Some post) = Ok tt /\
    read_to_memory k (Some post) true None None = Ok mg /\
    wf_geff mg (map fst (d_nodes g)) (map fst (d_edges g)) /\
    props_fit (length (map fst (d_nodes g))) (g_nprops mg) /\ props_fit (length (map fst (d_edges g))) (g_eprops mg) /\
    canon_geff mg = Ok cg /\
    nx_construct mg = Ok cg /\ same_graph cvf d g cg.
Proof. exact nx_roundtrip_k. Qed.
Print Assumptions C03_nx_roundtrip_anystore.

Theorem C03_rx_roundtrip_anystore : forall cvf k d g idmap g' mdtok axtok, rx_target idmap g = Ok g' -> dom_dicts cvf d g' ->
  exists post mg r cg,
    run (api_write k (rx_write k d g idmap None mdtok axtok)) None = (Some post, Ok tt) /\
    validate_structure k (Some post) = Ok tt /\
    read_to_memory k (Some post) true None None = Ok mg /\
    wf_geff mg (map fst (d_nodes g')) (map fst (d_edges g')) /\
    props_fit (length (map fst (d_nodes g'))) (g_nprops mg) /\ props_fit (length (map fst (d_edges g'))) (g_eprops mg) /\
    canon_geff mg = Ok cg /\
    rx_construct mg = Ok r /\ canon_rx r = Some cg /\ same_graph cvf d g' cg.
Proof. exact rx_roundtrip_k. Qed.
Print Assumptions C03_rx_roundtrip_anystore.

Theorem C03_sg_roundtrip_anystore : forall k s names ids es P mdtok axtok, sgc_dom s names ids es P ->
  exists post mg s' cg,
    run (api_write k (sg_write k s None (Some names) mdtok axtok)) None = (Some post, Ok tt) /\
    validate_structure k (Some post) = Ok tt /\
    read_to_memory k (Some post) true None None = Ok mg /\
    sg_construct mg (sc_pos s) = Ok s' /\
    canon_sg s' names (akeys (g_nprops mg)) (akeys (g_eprops mg)) = Ok cg /\
    canon_sg s names (akeys (g_nprops mg)) (akeys (g_eprops mg)) = Ok cg /\
    sc_directed s' = sc_directed s /\ sc_ndims s' = sc_ndims s /\ sc_nodes s' = sc_nodes s /\ sc_edges s' = sc_edges s.
Proof. exact sg_roundtrip. Qed.
Print Assumptions C03_sg_roundtrip_anystore.

Theorem C03_written_all_views : forall k d g mdtok axtok, dom_values d g ->
  exists post mg cg,
    run (api_write k (nx_write k d g None mdtok axtok)) None = (Some post, Ok tt) /\
    read_to_memory k (Some post) true None None = Ok mg /\
    same_graph cv_of_py d g cg /\
    nx_construct mg = Ok cg /\
    (exists r, rx_construct mg = Ok r /\ canon_rx r = Some cg) /\
    (forall pos names dt, sg_dom mg pos (map fst (d_nodes g)) (map fst (d_edges g)) names dt ->
       exists s, sg_construct mg pos = Ok s /\ canon_sg s names (akeys (g_nprops mg)) (akeys (g_eprops mg)) = Ok cg).
Proof. exact nx_written_all_views. Qed.
Print Assumptions C03_written_all_views.

(* ---- repeated edges (C03Multi.v) ----
   "No edge twice" is a hypothesis of every agreement / networkx statement above (dv_edistinct, wg_edistinct): networkx Graph /
   DiGraph objects are simple graphs.  rustworkx graphs are multigraphs by default, geff stores their edge list as it is, and the
   rustworkx round trip needs no such hypothesis: every parallel edge comes back at its position with its own attributes. *)
Theorem C03_rx_roundtrip_multi : forall d g idmap g' mdtok axtok, rx_target idmap g = Ok g' -> dom_values_m g' ->
  exists cg, rx_rt d g idmap mdtok axtok = Ok cg /\ same_graph cv_of_py d g' cg.
Proof. exact rx_roundtrip_multi. Qed.
Print Assumptions C03_rx_roundtrip_multi.

Theorem C03_rx_construct_multi : forall g ids es cg,
  wf_mgeff g ids es -> props_fit (length ids) (g_nprops g) -> props_fit (length es) (g_eprops g) ->
  canon_geff g = Ok cg ->
  exists r, rx_construct g = Ok r /\ canon_rx r = Some cg.
Proof. exact rx_construct_canon_m. Qed.
Print Assumptions C03_rx_construct_multi.

(* what happens on a repeated edge (computed): rustworkx 0 -> 1 twice with {w: 1, u: 7} and {w: 2} -- in the domain of
   C03_rx_roundtrip_multi -- comes back from rustworkx as two edges, from networkx as ONE edge carrying w of the LAST occurrence and
   u of the only occurrence that has it; a structurally valid undirected geff (1,2), (2,1) with w = 1, 2 (written with structure
   validation on) reads as one edge w = 2 through networkx and as two edges through rustworkx: outside the distinct-edges
   hypothesis the backends do not agree. *)
Theorem C03_repeated_edge_witnesses :
  dom_values_m ex_multi /\
  rx_rt true ex_multi None 0 0
  = Ok (mkcg true [(0%Z, []); (1%Z, [])] [((0%Z, 1%Z), [("w", CScalar SInt 1); ("u", CScalar SInt 7)]); ((0%Z, 1%Z), [("w", CScalar SInt 2)])]) /\
  rx_to_nx true ex_multi None 0 0
  = Ok (mkcg true [(0%Z, []); (1%Z, [])] [((0%Z, 1%Z), [("w", CScalar SInt 2); ("u", CScalar SInt 7)])]) /\
  ex_multi_read nx_construct = Ok (mkcg false [(1%Z, []); (2%Z, [])] [((1%Z, 2%Z), [("w", CScalar SInt 2)])]) /\
  ex_multi_read (fun mg => match rx_construct mg with Ok r => match canon_rx r with Some c => Ok c | None => Err OtherExn end | Err e => Err e end)
  = Ok (mkcg false [(1%Z, []); (2%Z, [])] [((1%Z, 2%Z), [("w", CScalar SInt 1)]); ((2%Z, 1%Z), [("w", CScalar SInt 2)])]).
Proof. split; [exact ex_multi_dom|]. split; [exact ex_multi_rx|]. split; [exact ex_multi_nx|]. exact ex_multi_mg_views. Qed.
Print Assumptions C03_repeated_edge_witnesses.

(* ---- non-vacuity of the declarative domain ----
   a directed graph with: a bool on two of three nodes, a [2^63, 2^64) int on every node, a (2,) list of [2^63, 2^64) ints on two
   nodes, an all-empty-list property; edges with a ragged list of [2^63, 2^64) ints and a str on one edge.  In decl_dom, and the
   computed round trip gives it back. *)
Definition ex_decl : dgraph :=
  mkdg [(1%Z, [("b", PBool true); ("u", PInt (2 ^ 63)); ("l", PList [PInt (2 ^ 63); PInt (2 ^ 64 - 1)]); ("e", PList [])]);
        (9223372036854775813%Z, [("u", PInt (2 ^ 64 - 1)); ("e", PList [])]);
        (3%Z, [("b", PBool false); ("u", PInt (2 ^ 63 + 5)); ("l", PList [PInt (2 ^ 63 + 1); PInt (2 ^ 63 + 2)])])]
       [((1%Z, 3%Z), [("r", PList [PInt (2 ^ 63); PInt (2 ^ 63 + 1)]); ("s", PStr 7)]);
        ((3%Z, 1%Z), [("r", PList [PInt (2 ^ 64 - 1)])])].

Ltac cls_tac := cbn [in_class]; unfold nul_base; lia.
Ltac leaves_tac := repeat (constructor; [first [constructor; cls_tac | cls_tac]|]); try constructor.
Ltac shape1_tac := match goal with |- has_shape (PList (?x :: ?r)) _ => apply (hs_cons x r []); [constructor | repeat constructor] end.

Lemma ex_decl_dom : decl_dom true ex_decl.
Proof. constructor.
  - repeat constructor; cbn; lia.
  - repeat constructor; cbn; intuition lia.
  - reflexivity.
  - intros e He. cbn in He. destruct He as [<-|[<-|[]]]; cbn; auto.
  - intros name col Hin ->. vm_compute in Hin. destruct Hin as [<-|[<-|[<-|[<-|[]]]]]; (split; [reflexivity|]).
    + apply (dc_scalar _ LBool); [discriminate | | discriminate].
      replace (somes (column (map snd (d_nodes ex_decl)) "b")) with [PBool true; PBool false] by (vm_compute; reflexivity).
      repeat (constructor; [exact I|]). constructor.
    + apply (dc_scalar _ LUInt64); [discriminate | |].
      * replace (somes (column (map snd (d_nodes ex_decl)) "u")) with [PInt (2 ^ 63); PInt (2 ^ 64 - 1); PInt (2 ^ 63 + 5)] by (vm_compute; reflexivity).
        repeat (constructor; [cls_tac|]). constructor.
      * intros _ o Ho. vm_compute in Ho. destruct Ho as [<-|[<-|[<-|[]]]]; discriminate.
    + apply (dc_fixed _ LUInt64 [2%nat]); [vm_compute; discriminate | discriminate | discriminate |].
      replace (somes (column (map snd (d_nodes ex_decl)) "l"))
        with [PList [PInt (2 ^ 63); PInt (2 ^ 64 - 1)]; PList [PInt (2 ^ 63 + 1); PInt (2 ^ 63 + 2)]] by (vm_compute; reflexivity).
      repeat (constructor; [split; [shape1_tac | constructor; leaves_tac]|]). constructor.
    + apply (dc_empty _ [0%nat]); [vm_compute; discriminate | discriminate | reflexivity |].
      replace (somes (column (map snd (d_nodes ex_decl)) "e")) with [PList []; PList []] by (vm_compute; reflexivity).
      repeat (constructor; [exact hs_nil|]). constructor.
  - intros name col Hin ->. vm_compute in Hin. destruct Hin as [<-|[<-|[]]]; (split; [reflexivity|]).
    + apply (dc_ragged _ LUInt64 1%nat); [discriminate | |].
      * replace (somes (column (map snd (d_edges ex_decl)) "r"))
          with [PList [PInt (2 ^ 63); PInt (2 ^ 63 + 1)]; PList [PInt (2 ^ 64 - 1)]] by (vm_compute; reflexivity).
        constructor; [exists [2%nat]; split; [reflexivity|]; split; [discriminate|]; split; [shape1_tac | constructor; leaves_tac]|].
        constructor; [exists [1%nat]; split; [reflexivity|]; split; [discriminate|]; split; [shape1_tac | constructor; leaves_tac]|].
        constructor.
      * exists (PList [PInt (2 ^ 63); PInt (2 ^ 63 + 1)]), (PList [PInt (2 ^ 64 - 1)]), [2%nat], [1%nat].
        split; [vm_compute; auto|]. split; [vm_compute; auto|].
        split; [shape1_tac|]. split; [shape1_tac|]. discriminate.
    + apply (dc_scalar _ LStr); [discriminate | | discriminate].
      replace (somes (column (map snd (d_edges ex_decl)) "s")) with [PStr 7] by (vm_compute; reflexivity).
      repeat (constructor; [cls_tac|]). constructor.
Qed.

Example C03_decl_nonvacuous :
  decl_dom true ex_decl /\
  nx_rt true ex_decl 0 0
  = Ok (mkcg true
          [(1%Z, [("b", CScalar SBool 1); ("u", CScalar SInt (2 ^ 63)); ("l", CArr SInt [2%nat] [2 ^ 63; 2 ^ 64 - 1]%Z); ("e", CArr SFloat [0%nat] [])]);
           (9223372036854775813%Z, [("u", CScalar SInt (2 ^ 64 - 1)); ("e", CArr SFloat [0%nat] [])]);
           (3%Z, [("b", CScalar SBool 0); ("u", CScalar SInt (2 ^ 63 + 5)); ("l", CArr SInt [2%nat] [2 ^ 63 + 1; 2 ^ 63 + 2]%Z)])]
          [((1%Z, 3%Z), [("r", CArr SInt [2%nat] [2 ^ 63; 2 ^ 63 + 1]%Z); ("s", CScalar SStr 7)]);
           ((3%Z, 1%Z), [("r", CArr SInt [1%nat] [2 ^ 64 - 1]%Z)])]).
Proof. split; [exact ex_decl_dom | vm_compute; reflexivity]. Qed.

(* the rustworkx example of C03_nonvacuous completed: the translated graph is in dom_values and the round trip is computed *)
Example C03_rx_nonvacuous :
  let g := mkdg [(0%Z, [("a", PInt 5)]); (2%Z, [])] [((0%Z, 2%Z), [])] in
  let idmap := Some [(0%Z, 7%Z); (2%Z, 9223372036854775813%Z)] in
  let g' := mkdg [(7%Z, [("a", PInt 5)]); (9223372036854775813%Z, [])] [((7%Z, 9223372036854775813%Z), [])] in
  rx_target idmap g = Ok g' /\ dom_values true g' /\
  rx_rt true g idmap 0 0 = Ok (mkcg true [(7%Z, [("a", CScalar SInt 5)]); (9223372036854775813%Z, [])] [((7%Z, 9223372036854775813%Z), [])]).
Proof.
  cbv zeta. split; [reflexivity|]. split; [|vm_compute; reflexivity].
  constructor.
  - repeat constructor; cbn; lia.
  - reflexivity.
  - reflexivity.
  - intros e He. cbn in He. destruct He as [<-|[]]; cbn; auto.
  - intros name Hin. vm_compute in Hin. destruct Hin as [<-|[]]. split; [reflexivity|]. split; [reflexivity|]. split; [discriminate|]. left. eexists. vm_compute. reflexivity.
  - intros name [].
Qed.

(* ---- the EMPTY spatial graph (no theorem: one computed instance; the correspondence has the family) ----
   An empty SpatialGraph with ndims = 2, an int64 node attribute and a float32 edge attribute, written with axis_names = [x, y]:
   the write succeeds, the axes are stored with min = max = 0, the graph read back is empty, has the same directedness, keeps the
   attribute "a" and the edge attribute "w" -- and has ndims = 1 with a float64 position of shape (0, 1): SgBackend.construct cannot
   know the number of dimensions of a geff without nodes.  Without axis names (None) the write succeeds as well. *)
Definition ex_sg0 : sgc :=
  mksgc false 2 (mkarr DU64 [0%nat] []) "position" [("a", mkarr DI64 [0%nat] []); ("position", mkarr DF64 [0%nat; 2%nat] [])]
        (mkarr DU64 [0%nat; 2%nat] []) [("w", mkarr DF32 [0%nat] [])].
Definition sg_rt0 (axes : option (list string)) : res (smeta * sgc) :=
  let (post, r) := run (api_write KObj (sg_write KObj ex_sg0 None axes 0 0)) None in
  match r with
  | Err e => Err e
  | Ok _ => match read_to_memory KObj post true None None with
            | Err e => Err e
            | Ok mg => match sg_construct mg "position" with Err e => Err e | Ok s => Ok (g_md mg, s) end
            end
  end.
Example C03_sg_empty_example :
  match sg_rt0 (Some ["x"; "y"]) with
  | Ok (md, s') =>
      md_axes md = Some [mkax "x" (Some 0%Z) (Some 0%Z) 0%Z; mkax "y" (Some 0%Z) (Some 0%Z) 0%Z] /\
      sc_directed s' = false /\ sc_nodes s' = sc_nodes ex_sg0 /\ sc_edges s' = sc_edges ex_sg0 /\
      sc_ndims s' = 1%nat /\
      sc_nattrs s' = [("a", mkarr DI64 [0%nat] []); ("position", mkarr DF64 [0%nat; 1%nat] [])] /\
      sc_eattrs s' = sc_eattrs ex_sg0 /\
      canon_sg s' ["x"; "y"] ["a"; "x"; "y"] ["w"] = Ok (mkcg false [] [])
  | Err _ => False
  end /\
  match sg_rt0 None with Ok (md, s') => md_axes md = Some [] /\ sc_ndims s' = 1%nat /\ sc_nodes s' = sc_nodes ex_sg0 | Err _ => False end.
Proof. vm_compute. repeat split. Qed.
