(* props/C03.v -- placeholder while the pipeline is brought up *)
From Geff Require Import Base Dtype Vlen Tree Validate Write Read Dicts Backends.
Theorem C03_placeholder : default_for_value (PBool true) = PBool false.
Proof. reflexivity. Qed.
Print Assumptions C03_placeholder.
