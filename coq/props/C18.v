(* props/C18.v -- C18: reading and validating never modify a store; writing never alters its inputs. *)
From Geff Require Import Base Dtype Vlen Tree Validate Write Read Effects EffectsLemmas.
From Geff.Gen Require Import Consts.
Open Scope string_scope.
Open Scope list_scope.

(* READ SIDE.  The entry points are programs of the store monad built from zarr opens and pure decoding
   (Effects.v); `readonly m` = for every state (valid geff, invalid geff, non-geff group, nothing at all) m returns
   the very state it was given: same store, no mutation recorded.
   HONEST LABEL: the four *_readonly theorems below hold by the STRUCTURE of the model programs (opens in mode r followed by pure
   decoding) -- they say that such a program cannot mutate.  That the real entry points ARE such programs is not proved by them: it
   rests on (i) C18_source_opens_read_only / C18_source_every_open_accounted (every zarr open in the source is read-only or on the
   explicit write-side list) and (ii) the byte-level snapshots and the empty mutation traces the harness takes around every read-side
   call.  The theorem with content about zarr is C18_open_a_creates (an append-mode open is NOT read-only). *)
Theorem C18_validate_readonly : forall k, readonly (validate_m k).
Proof. exact validate_readonly. Qed.
Print Assumptions C18_validate_readonly.
Theorem C18_metadata_read_readonly : forall k, readonly (metadata_read_m k).
Proof. exact metadata_read_readonly. Qed.
Print Assumptions C18_metadata_read_readonly.
Theorem C18_reader_readonly : forall k v nn en nm em, readonly (reader_m k v nn en nm em).
Proof. exact reader_readonly. Qed.
Print Assumptions C18_reader_readonly.
Theorem C18_read_to_memory_readonly : forall k v, readonly (read_to_memory_m k v).
Proof. exact read_to_memory_readonly. Qed.
Print Assumptions C18_read_to_memory_readonly.

(* the two facts this rests on: a read-only open never changes anything, an append-mode open (zarr's default) creates a
   group where there is none *)
Theorem C18_open_r : forall k, readonly (open_eff k MR).
Proof. exact open_r_readonly. Qed.
Print Assumptions C18_open_r.
Theorem C18_open_a_creates : forall k s, s_root s = None -> s_root (fst (open_eff k MA s)) = Some empty_group.
Proof. exact open_a_creates. Qed.
Print Assumptions C18_open_a_creates.

(* and, in the source as it is now (regenerated on every run from the AST of _utils.py, _base_read.py, structure.py,
   _dataframe.py and _schema.py), every zarr open on the read side carries mode="r" *)
Theorem C18_source_opens_read_only : all_read_only read_side_opens = true.
Proof. vm_compute. reflexivity. Qed.
Print Assumptions C18_source_opens_read_only.

(* fail-closed version over EVERY zarr open of the two packages (regenerated table `all_opens`): an open that is not read-only must be
   one of the write-side opens listed HERE (function and mode) -- a new helper that opens a store with another mode, or a listed
   function changing its mode, stops this obligation *)
Definition write_side_opens : list (string * string) :=
  [("geff/core_io/_utils.py:setup_zarr_group", "a"); ("geff/core_io/_utils.py:delete_geff", "r+");
   ("geff_spec/_schema.py:GeffMetadata.write", "default");
   ("geff/convert/_ctc.py:from_ctc_to_geff", "expr:'w' if overwrite else 'w-'")].
Definition open_accounted (o : string * string * string) : bool :=
  match o with (fn, _, mode) =>
    String.eqb mode "r" || existsb (fun w => String.eqb (fst w) fn && String.eqb (snd w) mode) write_side_opens end.
Theorem C18_source_every_open_accounted : forallb open_accounted all_opens = true.
Proof. vm_compute. reflexivity. Qed.
Print Assumptions C18_source_every_open_accounted.

(* WRITE SIDE, metadata object.  Axis objects live in a heap and are shared by shallow copies.  The repaired
   compute_and_add_axis_min_max allocates a fresh cell for every axis it changes: every address that existed before
   still holds what it held, so whoever holds references into the old heap (the caller) sees no change. *)
Theorem C18_minmax_preserves_caller : forall h refs ranges h' refs' caller_refs,
  minmax_axes h refs ranges = (h', refs') -> Forall (fun a => a < length h) caller_refs ->
  view h' caller_refs = view h caller_refs.
Proof. exact minmax_preserves_caller. Qed.
Print Assumptions C18_minmax_preserves_caller.
(* ... which is exactly what assigning through the shared reference (the code before the repair) violates *)
Theorem C18_inplace_refuted : exists h refs ranges, view (fst (minmax_axes_inplace h refs ranges)) refs <> view h refs.
Proof. exact inplace_changes_caller. Qed.
Print Assumptions C18_inplace_refuted.

(* non-vacuity *)
Example C18_nonvacuous :
  fst (validate_m KPath (init None)) = init None /\ snd (validate_m KPath (init None)) = Err FileNotFoundError /\
  fst (metadata_read_m KObj (init None)) = init None /\
  s_root (fst (open_eff KObj MA (init None))) = Some empty_group /\
  view (fst (minmax_axes [(Some 0%Z, Some 9%Z)] [0%nat] [(Some 3%Z, Some 5%Z)])) [0%nat] = [Some (Some 0%Z, Some 9%Z)].
Proof. vm_compute. repeat split. Qed.
