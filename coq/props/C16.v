(* props/C16.v -- C16: TrackMate conversion preserves spots, links, features and tracks.

   Vocabulary (TrackMate.v, TrackMateLemmas.v, TrackMateProps.v).  A document `d : tm` is what lxml hands to the
   converter: Model units, the three lists of feature declarations, the spots (attribute texts + ROI text), the tracks
   (attribute texts + links), the FilteredTracks ids, which optional sections exist.  An attribute text is a `raw`: a token
   of the text and what Python's int() / float() make of it.
     wf_tm d        well-formed TrackMate document: complete, non-repeated declarations with one type per name; every spot has
                    a distinct integer ID >= 0, the four coordinates, values that parse as their declared type (int features in
                    int64), no key that the converter adds itself; either no spot carries a ROI or every spot carries
                    ROI_N_POINTS = n > 0 points of one dimension; every Track has an integer TRACK_ID; every link joins two
                    different existing spots and is listed once; a spot is touched by the links of one track only; the
                    FilteredTracks entries are integers.  (decidable: wf_tmb / wf_tmb_sound)
     tracks_connected d   two spots of one track are joined by links (TrackMate's tracks are connected components).
     spot_ids d, links d, track_of d s, linked d s, kept_ids d      what the document says;
     keepb d ds dt s       spot s survives the options: (not ds or s belongs to a track) and (not dt or there is no
                           FilteredTracks section or the track of s is listed in it).
     converted d ds dt back x   the conversion onto a free target succeeds, the stored geff passes validate_structure,
                           read_to_memory returns `back`, and `x` holds the metadata fields outside the property tables.
   All statements are for every document (any number of spots, tracks, features), no size bound. *)
From Coq Require Import Permutation.
From Geff Require Import Base Dtype Vlen Tree Validate Write Read GraphVal Reach Tracks TracksLemmas
  TrackMate TrackMateLemmas TrackMateCols TrackMateValid TrackMateProps.
From Geff.Gen Require Import Consts.
Open Scope string_scope.
Open Scope list_scope.
Open Scope Z_scope.

(* a well-formed document converts (both options, any combination); `converted` includes structural validation *)
Theorem C16_converts : forall d ds dt, wf_tm d -> exists back x, converted d ds dt back x.
Proof. exact c16_converts. Qed.
Print Assumptions C16_converts.

(* without options: directed, one node per spot with id = spot ID in document order, one edge per track edge source -> target
   (as a list: a rearrangement of the links, networkx lists edges by source node) *)
Theorem C16_nodes_edges : forall d back x, wf_tm d -> converted d false false back x ->
  md_directed (g_md back) = true /\
  g_nids back = mkarr DU64 [length (spot_ids d)] (spot_ids d) /\
  exists es, g_eids back = mkarr DU64 [length es; 2%nat] (eflat es) /\ Permutation es (links d).
Proof. exact c16_nodes_edges. Qed.
Print Assumptions C16_nodes_edges.

(* with any options: the nodes are the kept spots, the edges the links between kept spots *)
Theorem C16_nodes_edges_options : forall d ds dt back x, wf_tm d -> converted d ds dt back x ->
  md_directed (g_md back) = true /\
  g_nids back = mkarr DU64 [length (filter (keepb d ds dt) (spot_ids d))] (filter (keepb d ds dt) (spot_ids d)) /\
  a_flat (g_nids back) = map spot_id (kept_spots d ds dt) /\
  exists es, g_eids back = mkarr DU64 [length es; 2%nat] (eflat es) /\
             Permutation es (filter (fun e : edge => keepb d ds dt (fst e) && keepb d ds dt (snd e)) (links d)).
Proof. exact c16_nodes_edges_gen. Qed.
Print Assumptions C16_nodes_edges_options.

(* discard_filtered_spots removes exactly the spots that belong to no track *)
Theorem C16_discard_spots : forall d back x, wf_tm d -> converted d true false back x ->
  forall s, In s (a_flat (g_nids back)) <-> In s (spot_ids d) /\ track_of d s <> None.
Proof. exact c16_discard_spots. Qed.
Print Assumptions C16_discard_spots.

(* discard_filtered_tracks keeps exactly the spots whose track is listed in FilteredTracks *)
Theorem C16_discard_tracks : forall d ds back x keep, wf_tm d -> kept_ids d = Some keep -> converted d ds true back x ->
  forall s, In s (a_flat (g_nids back)) <-> In s (spot_ids d) /\ exists t, track_of d s = Some t /\ In t keep.
Proof. exact c16_discard_tracks. Qed.
Print Assumptions C16_discard_tracks.

(* ... and nothing when the document has no FilteredTracks section *)
Theorem C16_discard_tracks_nosection : forall d back x, wf_tm d -> kept_ids d = None -> converted d false true back x ->
  a_flat (g_nids back) = spot_ids d.
Proof. exact c16_discard_tracks_nosection. Qed.
Print Assumptions C16_discard_tracks_nosection.

(* a declared spot feature carried by some kept spot is the node property of that name: int64 for isint, float64 otherwise,
   the value where present, the fill value 0 and a missing flag exactly where absent (no mask when present everywhere) *)
Theorem C16_features : forall d ds dt back x dc b, wf_tm d -> converted d ds dt back x -> In dc (sdecls d) -> d_isint dc = Some b ->
  (exists sp, In sp (kept_spots d ds dt) /\ ahas (d_feat dc) (sp_attrs sp) = true) ->
  alookup (d_feat dc) (g_nprops back) = Some (feat_prop b (d_feat dc) (map sp_attrs (kept_spots d ds dt))).
Proof. exact c16_features. Qed.
Print Assumptions C16_features.

(* the same for a declared edge feature; row i belongs to edge i of the geff *)
Theorem C16_edge_features : forall d ds dt back x dc b, wf_tm d -> converted d ds dt back x -> In dc (edecls d) -> d_isint dc = Some b ->
  let es := pairs_of (a_flat (g_eids back)) in
  (exists e, In e es /\ ahas (d_feat dc) (link_attrs d e) = true) ->
  alookup (d_feat dc) (g_eprops back) = Some (feat_prop b (d_feat dc) (map (link_attrs d) es)).
Proof. exact c16_edge_features. Qed.
Print Assumptions C16_edge_features.

(* TRACK_ID: int64, the id of the track containing the node, missing exactly on the nodes of no track, declared as the
   lineage property; when no node belongs to a track there is no such property and no lineage property is declared *)
Theorem C16_track_ids : forall d ds dt back x, wf_tm d -> converted d ds dt back x ->
  let ids := a_flat (g_nids back) in
  (existsb (linked d) ids = true -> alookup "TRACK_ID" (g_nprops back) = Some (track_id_prop d ids) /\ x_lineage x = Some "TRACK_ID") /\
  (existsb (linked d) ids = false -> alookup "TRACK_ID" (g_nprops back) = None /\ x_lineage x = None).
Proof. exact c16_track_ids. Qed.
Print Assumptions C16_track_ids.

(* units: the axes carry the model's space / time units (TrackMate's defaults pixel / frame when absent); the metadata
   entry of a stored feature carries the dtype stored, the unit its dimension stands for under these units, its name *)
Theorem C16_units : forall d ds dt back x, wf_tm d -> converted d ds dt back x ->
  x_axes x = [("POSITION_X", "space", space_unit d); ("POSITION_Y", "space", space_unit d);
              ("POSITION_Z", "space", space_unit d); ("POSITION_T", "time", time_unit d)] /\
  (forall dc b, In dc (sdecls d) -> d_isint dc = Some b ->
     (exists sp, In sp (kept_spots d ds dt) /\ ahas (d_feat dc) (sp_attrs sp) = true) ->
     alookup (d_feat dc) (md_nprops (g_md back)) = Some (feature_pm d dc b)) /\
  (forall dc b, In dc (edecls d) -> d_isint dc = Some b ->
     (exists e, In e (pairs_of (a_flat (g_eids back))) /\ ahas (d_feat dc) (link_attrs d e) = true) ->
     alookup (d_feat dc) (md_eprops (g_md back)) = Some (feature_pm d dc b)).
Proof. exact c16_units. Qed.
Print Assumptions C16_units.

(* ROIs: element i of ROI_coords is the polygon of kept spot i, point for point: shape (ROI_N_POINTS, dim), the
   coordinates of the text in order; nothing is flagged missing *)
Theorem C16_roi : forall d ds dt back x, wf_tm d -> converted d ds dt back x -> has_roi d = true -> kept_spots d ds dt <> [] ->
  exists pv, alookup "ROI_coords" (g_nprops back) = Some (mkprop pv None) /\
    forall i sp, nth_error (kept_spots d ds dt) i = Some sp ->
      exists n dd coords, xint "ROI_N_POINTS" (sp_attrs sp) = Some (Z.of_nat n) /\ sp_text sp = Some coords /\
        length coords = (n * dd)%nat /\ pv_elem pv i = Some ([n; dd], coords).
Proof. exact c16_roi. Qed.
Print Assumptions C16_roi.

(* validation: beside validate_structure (part of `converted`), validate_data(graph) and validate_data(lineage) accept the
   result -- with lone spots kept, with track id 0, with every node discarded *)
Theorem C16_valid : forall d ds dt back x, wf_tm d -> tracks_connected d -> converted d ds dt back x ->
  graph_ok back = true /\ lineage_ok back (x_lineage x) = Ok true.
Proof. exact c16_valid. Qed.
Print Assumptions C16_valid.

(* the lineage part in the terms of C14: the validator model finds no invalid lineage among the nodes that carry a track id *)
Theorem C16_lineages : forall d ds dt, wf_tm d -> tracks_connected d ->
  invalid_lineages (final_edges d ds dt) (NL_of d (final_ids d ds dt)) = [].
Proof. exact final_lineages_valid. Qed.
Print Assumptions C16_lineages.

(* an occupied target is refused and left as it is; a missing XML file is reported *)
Theorem C16_occupied : forall d ds dt pre, tm_exists d = true ->
  from_trackmate d ds dt false (init (Some pre)) = (init (Some pre), Err FileExistsError).
Proof. exact occupied. Qed.
Print Assumptions C16_occupied.
Theorem C16_missing_xml : forall d ds dt ow pre, tm_exists d = false ->
  from_trackmate d ds dt ow (init pre) = (init pre, Err FileNotFoundError).
Proof. exact missing_xml. Qed.
Print Assumptions C16_missing_xml.

(* well-formedness and track connectivity are decidable *)
Theorem C16_wf_decidable : forall d, wf_tmb d = true -> wf_tm d.
Proof. exact wf_tmb_sound. Qed.
Print Assumptions C16_wf_decidable.
Theorem C16_connected_decidable : forall d, wf_tm d -> tracks_connectedb d = true -> tracks_connected d.
Proof. exact tracks_connectedb_sound. Qed.
Print Assumptions C16_connected_decidable.

(* ---------- non-vacuity: a document with a split, a second track, a lone spot, track id 0, features on subsets, ROIs ---------- *)
Definition ri (z : Z) : raw := mkraw 0 (PInt z (z * 1024)).
Definition rf (p : Z) : raw := mkraw 0 (PFlt p).
Definition rs (s : string) : raw := mkraw (stok s) PStr.
Definition DF (f dim : string) : decl := mkdecl f (Some f) (Some false) (Some dim).
Definition DI (f : string) : decl := mkdecl f None (Some true) (Some "NONE").
Definition ex_spot (id frame : Z) (extra : xattrs) (npts : Z) (coords : list Z) : spot :=
  mkspot ([("ID", ri id); ("name", rs "ID"); ("POSITION_X", rf (id * 512)); ("POSITION_Y", rf 1024); ("POSITION_Z", ri 0);
           ("POSITION_T", rf (frame * 2048)); ("FRAME", ri frame)] ++ extra ++ [("ROI_N_POINTS", ri npts)]) (Some coords).
Definition ex_link (u v : Z) (extra : xattrs) : xattrs := [("SPOT_SOURCE_ID", ri u); ("SPOT_TARGET_ID", ri v)] ++ extra.

Definition ex_tm : tm :=
  mktm true (Some "7.11.1") (Some "micron") None
    (Some ([DF "POSITION_X" "POSITION"; DF "POSITION_Y" "POSITION"; DF "POSITION_Z" "POSITION"; DF "POSITION_T" "TIME"; DI "FRAME";
            DF "QUALITY" "QUALITY"; DI "K"; DF "SPEED" "VELOCITY"],
           [DI "SPOT_SOURCE_ID"; DI "SPOT_TARGET_ID"; DF "LINK_COST" "COST"; DI "EK"],
           [DI "TRACK_ID"; DI "NUMBER_SPOTS"; DF "TRACK_DURATION" "TIME"]))
    (Some [ex_spot 1 0 [("QUALITY", rf 512); ("K", ri 3)] 3 [0; 0; 1024; 0; 1024; 1024];
           ex_spot 5 0 [] 3 [0; 0; 2048; 0; 0; 2048];
           ex_spot 2 1 [("QUALITY", rf (2 ^ 70 + 1))] 4 [0; 0; 1024; 0; 1024; 1024; 0; 1024];
           ex_spot 3 1 [("K", ri 4)] 3 [512; 512; 1024; 0; 1024; 1024];
           ex_spot 4 2 [] 1 [256; -256];
           ex_spot 9 2 [("K", ri (-7))] 3 [0; 0; 1024; 0; 1024; 1024];
           ex_spot 8 3 [("QUALITY", ri 2)] 3 [0; 0; 1024; 0; 1024; 1024]])
    (Some [mktrack [("name", rs "Track_0"); ("TRACK_ID", ri 0); ("NUMBER_SPOTS", ri 4)]
                   [ex_link 1 2 [("LINK_COST", rf 1536); ("EK", ri 2)]; ex_link 3 4 [("LINK_COST", rf 2560)]; ex_link 1 3 []];
           mktrack [("name", rs "Track_7"); ("TRACK_ID", ri 7); ("TRACK_DURATION", rf 2048)] [ex_link 9 8 [("EK", ri 5)]]])
    (Some [Some (ri 7)]) (Some (Some ("img.tif", "/data"))) true false true.

Lemma ex_wf : wf_tm ex_tm.
Proof. apply wf_tmb_sound. vm_compute. reflexivity. Qed.
Lemma ex_connected : tracks_connected ex_tm.
Proof. apply (tracks_connectedb_sound ex_tm ex_wf). vm_compute. reflexivity. Qed.

(* the premises of the theorems are inhabited, and the conclusions say something on this document *)
Example C16_nonvacuous :
  wf_tm ex_tm /\ tracks_connected ex_tm /\ has_roi ex_tm = true /\
  spot_ids ex_tm = [1; 5; 2; 3; 4; 9; 8] /\ links ex_tm = [(1, 2); (3, 4); (1, 3); (9, 8)] /\
  map (track_of ex_tm) (spot_ids ex_tm) = [Some 0; None; Some 0; Some 0; Some 0; Some 7; Some 7] /\
  kept_ids ex_tm = Some [7] /\
  (* nodes under the four option combinations *)
  final_ids ex_tm false false = [1; 5; 2; 3; 4; 9; 8] /\ final_ids ex_tm true false = [1; 2; 3; 4; 9; 8] /\
  final_ids ex_tm false true = [9; 8] /\ final_ids ex_tm true true = [9; 8] /\
  (* edges in the order of the geff *)
  final_edges ex_tm false false = [(1, 2); (1, 3); (3, 4); (9, 8)] /\ final_edges ex_tm false true = [(9, 8)] /\
  (* an int feature on a subset of the spots, a float feature with NaN, the track ids with the lone spot flagged *)
  alookup "K" (nps_final ex_tm false false)
    = Some (mkprop (PFixed (mkarr DI64 [7%nat] [3; 0; 0; 4; 0; -7; 0])) (Some (mkarr DBool [7%nat] [0; 1; 1; 0; 1; 0; 1]))) /\
  alookup "QUALITY" (nps_final ex_tm false false)
    = Some (mkprop (PFixed (mkarr DF64 [7%nat] [512; 0; 2 ^ 70 + 1; 0; 0; 0; 2048])) (Some (mkarr DBool [7%nat] [0; 1; 0; 1; 1; 1; 0]))) /\
  alookup "TRACK_ID" (nps_final ex_tm false false)
    = Some (mkprop (PFixed (mkarr DI64 [7%nat] [0; 0; 0; 0; 0; 7; 7])) (Some (mkarr DBool [7%nat] [0; 1; 0; 0; 0; 0; 0]))) /\
  alookup "LINK_COST" (eprops_of ex_tm false false)
    = Some (mkprop (PFixed (mkarr DF64 [4%nat] [1536; 0; 2560; 0])) (Some (mkarr DBool [4%nat] [0; 1; 0; 1]))) /\
  (* ROIs of differing sizes: an object array; the polygon of the fifth spot is its single point *)
  option_map (fun p => pv_elem (p_vals p) 4) (alookup "ROI_coords" (nps_final ex_tm false false)) = Some (Some ([1%nat; 2%nat], [256; -256])) /\
  (* the whole pipeline runs, for every option combination, and the validators accept *)
  forallb (fun o : bool * bool =>
    let (ds, dt) := o in
    match run (from_trackmate ex_tm ds dt false) None with
    | (Some post, Ok _) =>
        match read_to_memory KPath (Some post) true None None with
        | Ok back => graph_ok back && match lineage_ok back (x_lineage (extra_final ex_tm ds dt)) with Ok true => true | _ => false end
        | Err _ => false
        end
    | _ => false
    end) [(false, false); (true, false); (false, true); (true, true)] = true.
Proof. split; [exact ex_wf|]. split; [exact ex_connected|]. vm_compute. repeat split. Qed.

(* every node discarded: an empty geff with the four empty coordinate columns, no lineage property, still valid *)
Definition ex_none : tm :=
  mktm true None None None (tm_decls ex_tm) (tm_spots ex_tm) (tm_tracks ex_tm) (Some []) None false false false.
Example C16_nonvacuous_empty :
  wf_tm ex_none /\ tracks_connected ex_none /\ final_ids ex_none false true = [] /\
  x_lineage (extra_final ex_none false true) = None /\ akeys (nps_final ex_none false true) = ["POSITION_X"; "POSITION_Y"; "POSITION_Z"; "POSITION_T"] /\
  x_axes (extra_final ex_none false true) = [("POSITION_X", "space", "pixel"); ("POSITION_Y", "space", "pixel");
                                             ("POSITION_Z", "space", "pixel"); ("POSITION_T", "time", "frame")].
Proof.
  assert (W : wf_tm ex_none) by (apply wf_tmb_sound; vm_compute; reflexivity).
  split; [exact W|]. split; [apply (tracks_connectedb_sound ex_none W); vm_compute; reflexivity|]. vm_compute. repeat split.
Qed.

(* =====================================================================================================================
   DEEPENING (c03x): ONE write_dicts model.  TrackMate.v models the part of NxBackend.write / write_dicts / dict_props_to_arr the
   converter uses by itself (col_values, col_default, col_arr, roi_arr, missing_arr, ids_arr, wgraph_of); theories/TrackMateDicts.v
   proves that on the values the converter produces it coincides with theories/Dicts.v -- the model C03 ties to networkx /
   rustworkx / spatial-graph and C05 / C06 tie to the store -- so the statements above rest on that one model.
   tr_attrs translates the values (VInt -> PInt, VFlt -> PFloat, polygon -> nested float list, VStr r -> PStr (r_tok r - 1): the two
   files number strings differently, shift_props renames the tokens in the stored string arrays and leaves every other array alone);
   the property names are TrackMate.keys_of's enumeration of the Python set (Dicts.dict_props_to_arr takes the names as an argument).
   ===================================================================================================================== *)
From Geff Require Dicts.
From Geff Require Import TrackMateDicts.

(* elements whose values are typed by their key (ints of the int64 range, floats, strings, polygons of equally long tuples; any number
   of elements, any subset carrying each key): both models succeed and produce the same properties -- dtype, values, fill values
   (0, 0.0, "", the first polygon), missing masks, and for polygons of different sizes the same object array built by
   construct_var_len_props *)
Theorem C16_dicts_model_coincides : forall kf elts, Forall (typedk kf) elts ->
  exists ps, TrackMate.dict_props_to_arr elts = Ok ps /\
             Dicts.dict_props_to_arr (map tr_attrs elts) (keys_of elts) = Ok (shift_props ps).
Proof. exact dict_props_coincide. Qed.
Print Assumptions C16_dicts_model_coincides.

(* one column, by kind: int / float / string columns ... *)
Theorem C16_dicts_scalar_column : forall k elts name, In name (keys_of elts) -> col_kind k elts name -> k <> KR ->
  Dicts.dict_prop (Dicts.column (map tr_attrs elts) name) = Ok (shift_str (scalar_prop k name elts)).
Proof. exact scalar_bridge. Qed.
Print Assumptions C16_dicts_scalar_column.

(* ... and polygon columns: np.asarray of the whole column when all polygons have one shape, else the ValueError route into
   construct_var_len_props, element by element *)
Theorem C16_dicts_roi_column : forall elts name, In name (keys_of elts) -> col_kind KR elts name ->
  Dicts.dict_prop (Dicts.column (map tr_attrs elts) name) = Ok (mkprop (roi_pv name elts) (missing_arr (col_missing name elts))).
Proof. exact roi_bridge. Qed.
Print Assumptions C16_dicts_roi_column.

(* the arrays handed to write_arrays for a well-formed document: Dicts.dicts_wgraph (node_ids_arr, edge_ids_arr, dict_props_to_arr)
   on the dictionaries of the converted graph gives the arrays every theorem above is about; hence write_dicts of Dicts.v on them is
   the write_arrays call of from_trackmate *)
Theorem C16_dicts_wgraph : forall d ds dt, wf_tm d ->
  Dicts.dicts_wgraph (dg_final d ds dt) (keys_of (nelts d ds dt)) (keys_of (map snd (eouts d ds dt)))
  = Ok (shift_wgraph (wgraph_final d ds dt)) /\
  forall md s, Dicts.write_dicts KPath (dg_final d ds dt) (keys_of (nelts d ds dt)) (keys_of (map snd (eouts d ds dt))) md s
               = write_arrays KPath (shift_wgraph (wgraph_final d ds dt)) md true false s.
Proof. intros d ds dt W. split; [apply tm_dicts_wgraph; exact W | intros md s; apply tm_write_dicts; exact W]. Qed.
Print Assumptions C16_dicts_wgraph.

(* C16_features / C16_edge_features on the Dicts model: the property Dicts.dict_props_to_arr computes for a declared feature is the
   feat_prop of those theorems (numeric arrays: no renaming involved) *)
Theorem C16_features_dicts : forall d ds dt dc b, wf_tm d -> In dc (sdecls d) -> d_isint dc = Some b ->
  (exists sp, In sp (kept_spots d ds dt) /\ ahas (d_feat dc) (sp_attrs sp) = true) ->
  exists nps, Dicts.dict_props_to_arr (map tr_attrs (nelts d ds dt)) (keys_of (nelts d ds dt)) = Ok nps /\
              alookup (d_feat dc) nps = Some (feat_prop b (d_feat dc) (map sp_attrs (kept_spots d ds dt))).
Proof. exact tm_dicts_feature. Qed.
Print Assumptions C16_features_dicts.

Theorem C16_edge_features_dicts : forall d ds dt dc b, wf_tm d -> In dc (edecls d) -> d_isint dc = Some b ->
  (exists e, In e (final_edges d ds dt) /\ ahas (d_feat dc) (link_attrs d e) = true) ->
  exists eps, Dicts.dict_props_to_arr (map tr_attrs (map snd (eouts d ds dt))) (keys_of (map snd (eouts d ds dt))) = Ok eps /\
              alookup (d_feat dc) eps = Some (feat_prop b (d_feat dc) (map (link_attrs d) (final_edges d ds dt))).
Proof. exact tm_dicts_edge_feature. Qed.
Print Assumptions C16_edge_features_dicts.

(* non-vacuity on the example document (int / float features on subsets, the string feature "name", polygons of 3, 4 and 1 points):
   the Dicts model computes the very arrays; "name" is the one string column (tokens renamed), ROI_coords the object array *)
Example C16_dicts_nonvacuous :
  Dicts.dicts_wgraph (dg_final ex_tm false false) (keys_of (nelts ex_tm false false)) (keys_of (map snd (eouts ex_tm false false)))
  = Ok (shift_wgraph (wgraph_final ex_tm false false)) /\
  option_map (fun p => match p_vals p with PFixed a => (a_dt a, List.length (a_flat a)) | PVlen _ => (DObj, 0%nat) end)
             (alookup "name" (match w_nprops (shift_wgraph (wgraph_final ex_tm false false)) with Some ps => ps | None => [] end))
  = Some (DStr, 7%nat) /\
  option_map (fun p => match p_vals p with PVlen es => List.length es | PFixed _ => 0%nat end)
             (alookup "ROI_coords" (match w_nprops (shift_wgraph (wgraph_final ex_tm false false)) with Some ps => ps | None => [] end))
  = Some 7%nat /\
  alookup "K" (match w_nprops (shift_wgraph (wgraph_final ex_tm false false)) with Some ps => ps | None => [] end)
  = Some (mkprop (PFixed (mkarr DI64 [7%nat] [3; 0; 0; 4; 0; -7; 0])) (Some (mkarr DBool [7%nat] [0; 1; 1; 0; 1; 0; 1]))).
Proof. vm_compute. repeat split. Qed.

(* ---- appended (fx16): the premises decided fast; occupied target with overwrite=True ---- *)
From Geff Require CrashLemmas OverwriteLemmas ConvOverwrite TrackMateFast TrackMateOverwrite.

(* wf_tm /\ tracks_connected decided in |links| * |spots| steps: the harness evaluates premises_fast on EVERY generated document
   (Corr/C16.v, IConvW) and compares it with what the generator meant (well-formed classes: true; each malformation that breaks
   a clause of wf_tm / tracks_connected: false) *)
Theorem C16_premises_decidable : forall d, TrackMateFast.premises_fast d = true -> wf_tm d /\ tracks_connected d.
Proof. exact TrackMateFast.premises_fast_sound. Qed.
Print Assumptions C16_premises_decidable.

(* overwrite=True on a target that holds exactly a geff (any geff): the conversion succeeds and leaves the very tree that the
   conversion onto a free target leaves, so it reads back as the same `back` -- every statement above that starts from
   `converted d ds dt back x` therefore describes the result of overwriting too *)
Theorem C16_overwrite : forall d ds dt a ch back x, wf_tm d -> ConvOverwrite.only_geff a ch -> converted d ds dt back x ->
  exists tr post,
    from_trackmate d ds dt true (init (Some (ZG a ch))) = (mkst (Some post) tr, Ok tt) /\
    (exists tr', from_trackmate d ds dt false (init None) = (mkst (Some post) tr', Ok tt)) /\
    validate_structure KPath (Some post) = Ok tt /\
    read_to_memory KPath (Some post) true None None = Ok back.
Proof. exact TrackMateOverwrite.c16_overwrite. Qed.
Print Assumptions C16_overwrite.

(* ... and when the directory holds other members beside the geff: the old geff is deleted and NxBackend.write ->
   write_arrays(overwrite=False) refuses the directory that is left (path case of the open C06 finding; the harness assumes a target
   that holds exactly a geff, so this statement is about the model only) *)
Theorem C16_overwrite_beside : forall d ds dt a ch, wf_tm d -> ahas "geff" a = true ->
  adel path_EDGES (adel path_NODES ch) <> [] ->
  exists tr, from_trackmate d ds dt true (init (Some (ZG a ch)))
             = (mkst (Some (ZG (adel "geff" a) (adel path_EDGES (adel path_NODES ch)))) tr, Err FileExistsError).
Proof. exact TrackMateOverwrite.c16_overwrite_beside. Qed.
Print Assumptions C16_overwrite_beside.

(* non-vacuity: ex_tm converted with overwrite=True over the geff that the conversion of ex_none left *)
Example C16_overwrite_nonvacuous :
  TrackMateFast.premises_fast ex_tm = true /\ TrackMateFast.premises_fast ex_none = true /\
  match run (from_trackmate ex_none false true false) None with
  | (Some (ZG a ch), Ok _) =>
      ahas "geff" a && (match adel path_EDGES (adel path_NODES ch) with [] => true | _ => false end) &&
      otree_eqb (fst (run (from_trackmate ex_tm true false true) (Some (ZG a ch)))) (fst (run (from_trackmate ex_tm true false false) None)) &&
      is_ok (snd (run (from_trackmate ex_tm true false true) (Some (ZG a ch)))) &&
      negb (otree_eqb (fst (run (from_trackmate ex_tm true false false) None)) (Some (ZG a ch)))
  | _ => false
  end = true.
Proof. vm_compute. repeat split. Qed.
