(* props/C16.v -- placeholder while the correspondence is brought up *)
From Geff Require Import Base Dtype Vlen Tree Validate Write Read GraphVal TrackMate.
Open Scope Z_scope.
Theorem C16_stok_empty : stok "" = 1.
Proof. reflexivity. Qed.
Print Assumptions C16_stok_empty.
