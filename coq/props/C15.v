(* props/C15.v -- C15: CTC conversion produces exactly the tracked graph of the dataset.

   Vocabulary (Ctc.v, CtcLemmas.v).  A dataset `d : ctc` holds, per frame, the regionprops output (label, centroid),
   the track table rows L B E P, the frame rank/shape and the call parameters.  `consistent d` is the Cell Tracking
   Challenge consistency condition: one row per label; label L is present in frame B, in frame E and in no frame
   outside B..E (gaps inside are allowed); P is 0 or the label of a track that ended before B; a frame shows each
   label once; at least one label is present.  `nodes_of (d_frames d)` numbers the regions in frame-then-region
   order; `edge_spec` is the edge set of the property text:
     next_occ a b : b is the next appearance of a's label after a           (consecutive appearances)
     last_occ P a, first_occ L b for a row L B E P with P > 0               (last node of the parent track -> first node of the child track).
   All statements are for every dataset (any number of frames, labels, rows; 2-D and 3-D). *)
From Coq Require Import Relations.
From Geff Require Import Base Dtype Vlen Tree Validate Write Read GraphVal Reach Tracks TracksLemmas WriteLemmas Ctc CtcLemmas.
From Geff.Gen Require Import Consts.
Open Scope string_scope.
Open Scope list_scope.
Open Scope Z_scope.

(* exactly one node per (frame, label) region: ids 0..N-1; the (time, label, centroid) rows of the nodes are the frames
   flattened in order -- frame index as time, label as tracklet id, centroid as coordinates; the stored columns
   t / tracklet_id / x / y / (z) are the projections of these rows (z exactly for 3-D frames) *)
Theorem C15_nodes : forall d g md, consistent d -> convert d = Ok (g, md) ->
  let fs := d_frames d in
  let ns := nodes_of fs in
  w_nids g = mkarr DU64 [length ns] (zseq 0 (length ns)) /\
  map node_row ns = flat_map (fun tf => map (fun r => (fst tf, fst r, snd r)) (snd tf)) (combine (zseq 0 (length fs)) fs) /\
  (forall t l, occurs fs t l <-> exists n, In n ns /\ n_t n = t /\ n_lab n = l) /\
  (forall a b, In a ns -> In b ns -> n_t a = n_t b -> n_lab a = n_lab b -> a = b) /\
  exists ps, w_nprops g = Some ps /\
    akeys ps = ["tracklet_id"; "t"; "x"; "y"] ++ (if d_is3d d then ["z"] else []) /\
    alookup "t" ps = Some (col DI64 n_t ns) /\
    alookup "tracklet_id" ps = Some (col DI64 n_lab ns) /\
    alookup "x" ps = Some (col DF64 (fun n => c_x (n_c n)) ns) /\
    alookup "y" ps = Some (col DF64 (fun n => c_y (n_c n)) ns) /\
    (d_is3d d = true -> alookup "z" ps = Some (col DF64 (fun n => c_z (n_c n)) ns)).
Proof. exact ctc_nodes. Qed.
Print Assumptions C15_nodes.

(* exactly one edge between consecutive appearances of a label and one edge from the last node of each parent track to
   the first node of each child track, and nothing else: membership is edge_spec, and no edge is listed twice *)
Theorem C15_edges : forall d g md, consistent d -> convert d = Ok (g, md) ->
  exists es, w_eids g = mkarr DU64 [length es; 2%nat] (flat_edges es) /\ NoDup es /\
             forall u v, In (u, v) es <-> edge_spec (nodes_of (d_frames d)) (table_of d) u v.
Proof. exact ctc_edges. Qed.
Print Assumptions C15_edges.

(* the same description holds for the edge list of ANY table the converter accepts (consistent or not) *)
Theorem C15_edges_any : forall ns rows es, graph_edges ns rows = Ok es ->
  forall u v, In (u, v) es <-> edge_spec ns rows u v.
Proof. exact graph_edges_spec. Qed.
Print Assumptions C15_edges_any.

(* every edge points strictly forward in time: the output is acyclic, orientation parent -> child *)
Theorem C15_forward : forall d u v, consistent d -> edge_spec (nodes_of (d_frames d)) (table_of d) u v ->
  exists a b, In a (nodes_of (d_frames d)) /\ In b (nodes_of (d_frames d)) /\ u = n_id a /\ v = n_id b /\ n_t a < n_t b.
Proof. exact ctc_forward. Qed.
Print Assumptions C15_forward.

(* conversion of a consistent dataset onto a free target succeeds; the result passes structural validation; reading it
   back returns exactly the converted graph (ids, edges, columns) under the written metadata; graph validation
   (unique ids, edges between existing nodes, no self edge, no repeated edge -- the C12 model) passes *)
Theorem C15_valid : forall d, consistent d -> seg_free d ->
  let ns := nodes_of (d_frames d) in
  exists es md' tr post,
    graph_edges ns (table_of d) = Ok es /\
    convert d = Ok (ctc_wgraph (d_is3d d) ns es, ctc_md (d_is3d d)) /\
    final_metadata (ctc_wgraph (d_is3d d) ns es) (ctc_md (d_is3d d)) = Ok md' /\
    from_ctc_to_geff d (init None) = (mkst (Some post) tr, Ok tt) /\
    validate_structure KPath (Some post) = Ok tt /\
    read_to_memory KPath (Some post) true None None =
      Ok (mkmg md' (mkarr DU64 [length ns] (map n_id ns)) (mkarr DU64 [length es; 2%nat] (flat_edges es))
               (ctc_props (d_is3d d) ns) []) /\
    graph_check true (map n_id ns) es = None.
Proof. exact ctc_pipeline. Qed.
Print Assumptions C15_valid.

(* the written metadata: directed, axes t,(z),y,x of type time, space... *)
Theorem C15_axes : forall d md', consistent d -> forall es,
  final_metadata (ctc_wgraph (d_is3d d) (nodes_of (d_frames d)) es) (ctc_md (d_is3d d)) = Ok md' ->
  md_directed md' = true /\
  option_map (map ax_name) (md_axes md') = Some ("t" :: (if d_is3d d then ["z"] else []) ++ ["y"; "x"]) /\
  option_map (map ax_tok) (md_axes md') = Some (tok_time :: (if d_is3d d then [tok_space] else []) ++ [tok_space; tok_space]).
Proof. exact ctc_axes_written. Qed.
Print Assumptions C15_axes.

(* ---- the declared tracklet annotation against the tracklet definition of C13 ----
   tracklets_ok d: node ids unique, edges between nodes, (L) adjacent nodes share the tracklet id exactly when their edge is
   the only edge leaving its source and the only edge entering its target, (C) every tracklet is connected;
   by C13_iff this is `invalid_tracklets es labelling = []`. *)
Definition C15_tracklets_full : Prop := forall d, consistent d -> tracklets_ok d.

(* the full statement is false on the faithful model: a parent with a single child (a continuation under a new label)
   is a consistent CTC result whose labelling cuts a maximal unbranched path in two *)
Definition ex_single : ctc :=
  mkctc true (Some [mkrow 1 0 0 0; mkrow 2 1 1 1]) false [4%nat; 4%nat]
        [[(1, mkcent 0 1024 2048)]; [(2, mkcent 0 1536 2048)]] ["out.geff"] SegNone false false false.

Lemma ex_single_consistent : consistent ex_single.
Proof.
  constructor; cbn [ex_single d_dir d_table d_frames table_of].
  - reflexivity.
  - discriminate.
  - intros f [<-|[<-|[]]]; cbn; repeat constructor; cbn; tauto.
  - exists 0, 1. split; [lia|]. eexists. split; [reflexivity | cbn; auto].
  - cbn. repeat constructor; cbn; intuition discriminate.
  - intros t l [Ht [f [Hf Hl]]]. destruct (Z.to_nat t) as [|[|k]]; cbn in Hf; try (destruct k; discriminate);
      inversion Hf; subst f; cbn in Hl; cbn; intuition.
  - intros r [<-|[<-|[]]]; cbn [r_L r_B r_E].
    + split; [split; [lia | eexists; split; [reflexivity | cbn; auto]]|]. split; [split; [lia | eexists; split; [reflexivity | cbn; auto]]|].
      intros t [Ht [f [Hf Hl]]]. destruct (Z.to_nat t) as [|[|k]] eqn:Et; cbn in Hf; try (destruct k; discriminate);
        inversion Hf; subst f; cbn in Hl; [lia | intuition discriminate].
    + split; [split; [lia | eexists; split; [reflexivity | cbn; auto]]|]. split; [split; [lia | eexists; split; [reflexivity | cbn; auto]]|].
      intros t [Ht [f [Hf Hl]]]. destruct (Z.to_nat t) as [|[|k]] eqn:Et; cbn in Hf; try (destruct k; discriminate);
        inversion Hf; subst f; cbn in Hl; [intuition discriminate | lia].
  - intros r [<-|[<-|[]]]; cbn [r_P r_L r_B]; intros HP; [contradiction|]. split; [lia|].
    exists (mkrow 1 0 0 0). cbn. intuition lia.
Qed.

Theorem C15_tracklets_refuted :
  exists d es, consistent d /\ graph_edges (nodes_of (d_frames d)) (table_of d) = Ok es /\
               invalid_tracklets es (labelled (nodes_of (d_frames d))) = [1; 2] /\ ~ tracklets_ok d.
Proof.
  exists ex_single, [(0, 1)]. split; [exact ex_single_consistent|]. split; [vm_compute; reflexivity|]. split; [vm_compute; reflexivity|].
  intros H. apply (ctc_tracklets_exact ex_single ex_single_consistent) in H.
  destruct (H (mkrow 2 1 1 1)) as [r' [Hr' [HP HL]]]; [cbn; auto | cbn; lia|].
  cbn in Hr'. destruct Hr' as [<-|[<-|[]]]; cbn in HP, HL; [discriminate | contradiction].
Qed.
Print Assumptions C15_tracklets_refuted.

(* what holds: when every parent of the table has at least two children the annotation satisfies the definition ... *)
Theorem C15_tracklets_partial : forall d, consistent d -> no_single_child (table_of d) -> tracklets_ok d.
Proof. exact ctc_tracklets_partial. Qed.
Print Assumptions C15_tracklets_partial.

(* ... and that guard is exact: for a consistent dataset the annotation satisfies the definition iff no parent has a single
   child; in terms of the validator model of C13: no tracklet is reported iff no parent has a single child *)
Theorem C15_tracklets_exact : forall d, consistent d -> (tracklets_ok d <-> no_single_child (table_of d)).
Proof. exact ctc_tracklets_exact. Qed.
Print Assumptions C15_tracklets_exact.

Theorem C15_tracklets_validator : forall d es, consistent d -> graph_edges (nodes_of (d_frames d)) (table_of d) = Ok es ->
  (invalid_tracklets es (labelled (nodes_of (d_frames d))) = [] <-> no_single_child (table_of d)).
Proof. exact ctc_tracklets_iff. Qed.
Print Assumptions C15_tracklets_validator.

(* ---- segmentation target ---- *)
(* NOTE (audit): the two statements below are about model functions only (relpath / resolve; seg_shape unfolded) and do not
   mention the conversion; they are kept as lemmas.  The statements connected to the conversion are C15_extras / C15_observed
   at the end of this file. *)
(* the recorded related-object path, resolved against the geff directory, is the segmentation path
   (for absolute normalised paths: no "." / ".." components in the target) *)
Theorem C15_related_path : forall path start, plain path -> resolve start (relpath path start) = path.
Proof. exact relpath_resolves. Qed.
Print Assumptions C15_related_path.

(* shape of the exported label volume: the frames stacked along a new leading axis; with tczyx unit axes make it (T,1,(1),...) 5-D *)
Theorem C15_seg_shape : forall d,
  (d_tczyx d = false -> seg_shape d = length (d_frames d) :: d_fshape d) /\
  (d_tczyx d = true -> (length (d_fshape d) <= 4)%nat ->
     seg_shape d = length (d_frames d) :: repeat 1%nat (4 - length (d_fshape d)) ++ d_fshape d /\ length (seg_shape d) = 5%nat).
Proof. intros d. split; [apply seg_shape_plain | apply seg_shape_tczyx]. Qed.
Print Assumptions C15_seg_shape.

(* ---- error paths ---- *)
(* an occupied target without overwrite is left untouched (FileExistsError); a missing directory or table is FileNotFoundError *)
Theorem C15_occupied : forall d a ch, d_dir d = true -> d_table d <> None -> d_overwrite d = false ->
  from_ctc_to_geff d (init (Some (ZG a ch))) = (init (Some (ZG a ch)), Err FileExistsError).
Proof. exact ctc_exists_no_overwrite. Qed.
Print Assumptions C15_occupied.

Theorem C15_missing_input : forall d s, d_dir d = false \/ d_table d = None -> from_ctc_to_geff d s = (s, Err FileNotFoundError).
Proof. exact ctc_missing_input. Qed.
Print Assumptions C15_missing_input.

(* the table part of the converter succeeds exactly when every row with a parent names labels that have nodes;
   otherwise KeyError *)
Theorem C15_table_errors : forall ns rows,
  ((exists es, graph_edges ns rows = Ok es) <->
   forall r, In r rows -> 0 < r_P r -> occn ns (r_L r) <> [] /\ occn ns (r_P r) <> []) /\
  (forall e, graph_edges ns rows = Err e -> e = KeyError).
Proof. intros ns rows. split; [apply graph_edges_ok_iff | apply graph_edges_err]. Qed.
Print Assumptions C15_table_errors.

(* ---- non-vacuity: a 3-D dataset with a division into two children, a gap and a segmentation target ---- *)
Definition ex_div : ctc :=
  mkctc true (Some [mkrow 1 0 1 0; mkrow 2 2 2 1; mkrow 5 2 2 1; mkrow 7 0 2 0]) true [3%nat; 6%nat; 6%nat]
        [[(1, mkcent 1024 512 0); (7, mkcent 0 4096 4096)]; [(1, mkcent 1024 512 1024)];
         [(2, mkcent 1024 0 1024); (5, mkcent 1024 1024 2048); (7, mkcent 0 4096 5120)]]
        ["data"; "x.zarr"; "tracks.geff"] (SegPath ["data"; "x.zarr"; "seg"]) false true false.

Example C15_nonvacuous :
  consistent ex_div /\ seg_free ex_div /\ no_single_child (table_of ex_div) /\
  graph_edges (nodes_of (d_frames ex_div)) (table_of ex_div) = Ok [(0, 2); (1, 5); (2, 3); (2, 4)] /\
  invalid_tracklets [(0, 2); (1, 5); (2, 3); (2, 4)] (labelled (nodes_of (d_frames ex_div))) = [] /\
  related ex_div = [("labels", [".."; "seg"], Some "tracklet_id")] /\
  seg_shape ex_div = [3; 1; 3; 6; 6]%nat /\
  is_ok (snd (run (from_ctc_to_geff ex_div) None)) = true.
Proof.
  split; [|split; [|split; [|vm_compute; repeat split]]].
  - constructor; cbn [ex_div d_dir d_table d_frames table_of].
    + reflexivity.
    + discriminate.
    + intros f [<-|[<-|[<-|[]]]]; cbn; repeat constructor; cbn; intuition discriminate.
    + exists 0, 1. split; [lia|]. eexists. split; [reflexivity | cbn; auto].
    + cbn. repeat constructor; cbn; intuition discriminate.
    + intros t l [Ht [f [Hf Hl]]]. destruct (Z.to_nat t) as [|[|[|k]]]; cbn in Hf; try (destruct k; discriminate);
        inversion Hf; subst f; cbn in Hl; cbn; intuition.
    + intros r Hr. cbn in Hr.
      assert (Hocc : forall t l k f, t = Z.of_nat k -> nth_error (d_frames ex_div) k = Some f -> In l (map fst f) -> occurs (d_frames ex_div) t l).
      { intros t l k f -> Hf Hl. split; [lia|]. exists f. rewrite Nat2Z.id. auto. }
      destruct Hr as [<-|[<-|[<-|[<-|[]]]]]; cbn [r_L r_B r_E].
      * split; [apply (Hocc 0 1 0%nat _ eq_refl eq_refl); cbn; auto|]. split; [apply (Hocc 1 1 1%nat _ eq_refl eq_refl); cbn; auto|].
        intros t [Ht [f [Hf Hl]]]. destruct (Z.to_nat t) as [|[|[|k]]] eqn:Et; cbn in Hf; try (destruct k; discriminate);
          inversion Hf; subst f; cbn in Hl; try lia; intuition discriminate.
      * split; [apply (Hocc 2 2 2%nat _ eq_refl eq_refl); cbn; auto|]. split; [apply (Hocc 2 2 2%nat _ eq_refl eq_refl); cbn; auto|].
        intros t [Ht [f [Hf Hl]]]. destruct (Z.to_nat t) as [|[|[|k]]] eqn:Et; cbn in Hf; try (destruct k; discriminate);
          inversion Hf; subst f; cbn in Hl; try lia; intuition discriminate.
      * split; [apply (Hocc 2 5 2%nat _ eq_refl eq_refl); cbn; auto|]. split; [apply (Hocc 2 5 2%nat _ eq_refl eq_refl); cbn; auto|].
        intros t [Ht [f [Hf Hl]]]. destruct (Z.to_nat t) as [|[|[|k]]] eqn:Et; cbn in Hf; try (destruct k; discriminate);
          inversion Hf; subst f; cbn in Hl; try lia; intuition discriminate.
      * split; [apply (Hocc 0 7 0%nat _ eq_refl eq_refl); cbn; auto|]. split; [apply (Hocc 2 7 2%nat _ eq_refl eq_refl); cbn; auto|].
        intros t [Ht [f [Hf Hl]]]. destruct (Z.to_nat t) as [|[|[|k]]] eqn:Et; cbn in Hf; try (destruct k; discriminate);
          inversion Hf; subst f; cbn in Hl; try lia; intuition discriminate.
    + intros r Hr HP. cbn in Hr. destruct Hr as [<-|[<-|[<-|[<-|[]]]]]; cbn [r_P r_L r_B] in *; try contradiction;
        (split; [lia|]; exists (mkrow 1 0 1 0); cbn; intuition lia).
  - intros _ H. discriminate.
  - intros r Hr HP. cbn in Hr. destruct Hr as [<-|[<-|[<-|[<-|[]]]]]; cbn [r_P r_L] in *; try lia.
    + exists (mkrow 5 2 2 1). cbn. intuition discriminate.
    + exists (mkrow 2 2 2 1). cbn. intuition discriminate.
Qed.

(* ---- appended: the C13 composition for the validator WITH its cycle test (TracksCyc.v / CtcCycLemmas.v) ---- *)
From Geff Require TracksCyc TracksCycLemmas CtcCycLemmas.

(* the written graph has no directed cycle (every edge points strictly forward in time) *)
Theorem C15_graph_acyclic : forall d es, consistent d -> graph_edges (nodes_of (d_frames d)) (table_of d) = Ok es ->
  TracksCycLemmas.acyclic es.
Proof. exact CtcCycLemmas.ctc_acyclic. Qed.
Print Assumptions C15_graph_acyclic.

(* so the whole of validate_tracklets (degree, cycle, connectivity, division/merge, maximality tests, in the order of the
   code) returns (True, []) on the declared annotation iff no parent has a single child *)
Theorem C15_tracklets_full_validator : forall d es, consistent d -> graph_edges (nodes_of (d_frames d)) (table_of d) = Ok es ->
  (TracksCyc.validate_tracklets es (labelled (nodes_of (d_frames d))) = Ok (true, []) <-> no_single_child (table_of d)).
Proof. exact CtcCycLemmas.ctc_full_validator_iff. Qed.
Print Assumptions C15_tracklets_full_validator.

(* ---- appended (fx16): the premise is decidable; occupied target with overwrite=True; the recorded extras about the conversion ---- *)
From Geff Require CrashLemmas OverwriteLemmas ConvOverwrite CtcDecide CtcObserved.
From Geff.Corr Require C15.

(* `consistent` is decidable; the harness evaluates consistentb on every generated dataset and compares it with its own
   predicate consistent() (the gate of the oracle), in both directions (Corr/C15.v, IConvW) *)
Theorem C15_consistent_decidable : forall d, CtcDecide.consistentb d = true <-> consistent d.
Proof. exact CtcDecide.consistentb_iff. Qed.
Print Assumptions C15_consistent_decidable.

(* overwrite=True on a target that holds exactly a geff (whatever geff: `a`, `ch` are arbitrary beyond that): the conversion
   succeeds and leaves the very tree that the conversion onto a free target leaves -- nothing of the old geff survives -- which
   passes structural validation, reads back as the converted graph and passes graph validation.  (C15_valid is the free target.) *)
Theorem C15_overwrite : forall d a ch, consistent d -> d_overwrite d = true -> ConvOverwrite.only_geff a ch ->
  let ns := nodes_of (d_frames d) in
  exists es md' tr post,
    graph_edges ns (table_of d) = Ok es /\
    final_metadata (ctc_wgraph (d_is3d d) ns es) (ctc_md (d_is3d d)) = Ok md' /\
    from_ctc_to_geff d (init (Some (ZG a ch))) = (mkst (Some post) tr, Ok tt) /\
    (exists tr', from_ctc_to_geff d (init None) = (mkst (Some post) tr', Ok tt)) /\
    validate_structure KPath (Some post) = Ok tt /\
    read_to_memory KPath (Some post) true None None =
      Ok (mkmg md' (mkarr DU64 [length ns] (map n_id ns)) (mkarr DU64 [length es; 2%nat] (flat_edges es))
               (ctc_props (d_is3d d) ns) []) /\
    graph_check true (map n_id ns) es = None.
Proof. exact CtcDecide.ctc_overwrite. Qed.
Print Assumptions C15_overwrite.

(* ... and when the directory holds other members beside the geff: the old geff is deleted, write_arrays(overwrite=False) refuses
   the directory that is left (the path case of the open C06 finding, reached through the converter; the harness assumes a
   target that holds exactly a geff, so this statement is about the model only) *)
Theorem C15_overwrite_beside : forall d a ch, consistent d -> d_overwrite d = true -> ahas "geff" a = true ->
  adel path_EDGES (adel path_NODES ch) <> [] ->
  exists tr, from_ctc_to_geff d (init (Some (ZG a ch)))
             = (mkst (Some (ZG (adel "geff" a) (adel path_EDGES (adel path_NODES ch)))) tr, Err FileExistsError).
Proof. exact CtcDecide.ctc_overwrite_beside. Qed.
Print Assumptions C15_overwrite_beside.

(* what the conversion records beside the graph (`extra_of d` is the second component of the observation of Corr/C15.v):
   the declared tracklet property is the stored tracklet_id column, which holds the labels; the related object is recorded
   exactly for a target with a path, keyed by that column, and its recorded relative path resolves (os.path.normpath(join))
   against the geff directory to the target; the exported volume has the frames stacked along a new leading axis (5-D with
   tczyx).  The shape clauses unfold `seg_shape` (their content is the tie of that function to the array on disk, Corr/C15.v
   x_seg_shape + the oracle's comparison with the stacked frames); the path clause is relpath_resolves applied to the
   recorded object. *)
Theorem C15_extras : forall d, consistent d ->
  let ns := nodes_of (d_frames d) in
  let x := extra_of d in
  x_tracklet x = Some "tracklet_id" /\
  (forall g md, convert d = Ok (g, md) ->
     exists ps, w_nprops g = Some ps /\ alookup "tracklet_id" ps = Some (col DI64 n_lab ns)) /\
  (d_seg d = SegNone -> x_related x = [] /\ x_seg_shape x = None) /\
  (forall p, d_seg d = SegPath p \/ d_seg d = SegStore (Some p) ->
     exists r, x_related x = [("labels", r, Some "tracklet_id")] /\ (plain p -> resolve (d_geff d) r = p)) /\
  (d_seg d = SegStore None -> x_related x = []) /\
  (seg_requested d = true ->
     exists sh, x_seg_shape x = Some sh /\ hd_error sh = Some (length (d_frames d)) /\
       (d_tczyx d = false -> sh = length (d_frames d) :: d_fshape d) /\
       (d_tczyx d = true -> (length (d_fshape d) <= 4)%nat ->
          sh = length (d_frames d) :: repeat 1%nat (4 - length (d_fshape d)) ++ d_fshape d /\ length sh = 5%nat)).
Proof. exact CtcDecide.ctc_extras. Qed.
Print Assumptions C15_extras.

(* the function the correspondence evaluates, on a consistent dataset and a free target / a target holding exactly a geff
   with overwrite=True: a success whose observation is the converted graph read back and `extra_of d` *)
Theorem C15_observed : forall d pre, consistent d -> CtcObserved.target_ok d pre ->
  let ns := nodes_of (d_frames d) in
  exists es md',
    graph_edges ns (table_of d) = Ok es /\
    final_metadata (ctc_wgraph (d_is3d d) ns es) (ctc_md (d_is3d d)) = Ok md' /\
    C15.model (C15.IConv d pre)
    = C15.OOk (Ok (mkmg md' (mkarr DU64 [length ns] (map n_id ns)) (mkarr DU64 [length es; 2%nat] (flat_edges es))
                        (ctc_props (d_is3d d) ns) []))
              (extra_of d).
Proof. exact CtcObserved.ctc_observed. Qed.
Print Assumptions C15_observed.

(* non-vacuity: ex_div (3-D, division, gap, Path target) with overwrite=True, converted over the geff that ex_single left *)
Definition ex_div_ow : ctc :=
  mkctc true (d_table ex_div) true (d_fshape ex_div) (d_frames ex_div) (d_geff ex_div) (d_seg ex_div) true true true.
Example C15_overwrite_nonvacuous :
  CtcDecide.consistentb ex_div = true /\ CtcDecide.consistentb ex_div_ow = true /\ CtcDecide.consistentb ex_single = true /\
  CtcDecide.consistentb (mkctc true (Some [mkrow 1 0 0 0; mkrow 2 1 1 3]) false [4%nat; 4%nat] (d_frames ex_single) ["o"] SegNone false false false) = false /\
  match run (from_ctc_to_geff ex_single) None with
  | (Some (ZG a ch), Ok _) =>
      ahas "geff" a && (match adel path_EDGES (adel path_NODES ch) with [] => true | _ => false end) &&
      otree_eqb (fst (run (from_ctc_to_geff ex_div_ow) (Some (ZG a ch)))) (fst (run (from_ctc_to_geff ex_div_ow) None)) &&
      is_ok (snd (run (from_ctc_to_geff ex_div_ow) (Some (ZG a ch)))) &&
      negb (otree_eqb (fst (run (from_ctc_to_geff ex_div_ow) None)) (Some (ZG a ch)))
  | _ => false
  end = true /\
  x_related (extra_of ex_div_ow) = [("labels", [".."; "seg"], Some "tracklet_id")] /\
  resolve (d_geff ex_div_ow) [".."; "seg"] = ["data"; "x.zarr"; "seg"] /\
  x_seg_shape (extra_of ex_div_ow) = Some [3; 1; 3; 6; 6]%nat.
Proof. vm_compute. repeat split. Qed.
