(* props/C02.v -- C02: the on-disk layout means what the specification says, in both directions. *)
From Geff Require Import Base Dtype Vlen Tree Validate ValidateLemmas Write Read RoundTrip WriteLemmas ReadLemmas C01Lemmas SpecDecode SpecLemmas.
From Geff.Gen Require Import Consts.
Open Scope string_scope.
Open Scope list_scope.

(* SpecDecode.v decodes a store from docs/specification.md alone (hierarchy only, never the metadata) and shares no
   definition with the library's reader model.  sprop_eqb compares decoded properties: same dtype, shape, values,
   with an absent mask and an all-false mask identified. *)

(* FORWARD, whole store: for every clean target and every well-formed input (as in C01), what write_arrays leaves is
   accepted by structural validation and decodes, following the specification alone, to exactly the graph given to the
   writer (ids verbatim; every property with its dtype, shape, mask and values, float16 upcast). *)
Theorem C02_forward : forall k pre g md md' n e ov,
  clean k pre -> wf_input g md n e -> final_metadata g md = Ok md' ->
  exists tr post sg,
    write_arrays k g md true ov (init pre) = (mkst (Some post) tr, Ok tt) /\
    validate_structure k (Some post) = Ok tt /\
    spec_decode post = Some sg /\
    sgraph_eqb sg (mksg (w_nids g) (w_eids g)
                        (of_props (up_props (backfill (w_nids g) md (w_nprops g))))
                        (of_props (up_props (w_eprops g)))) = true.
Proof. exact write_then_spec_decode. Qed.
Print Assumptions C02_forward.

(* CONVERSE, whole store: whatever store the library reads successfully (with structural validation on) -- written by
   anyone, with any optional group or array absent, any foreign attribute or member beside it -- the graph it returns is
   the specification decoding of that store. *)
Theorem C02_converse : forall k root g,
  unique_members root ->
  read_to_memory k (Some root) true None None = Ok g ->
  exists sg, spec_decode root = Some sg /\ sgraph_eqb sg (of_mgraph g) = true.
Proof. exact read_is_spec_decode. Qed.
Print Assumptions C02_converse.

(* forward, per property: what the writer stores for ANY well-formed property (every dtype, rank, mask, var-length mix)
   is decoded by the specification decoder into that property (after the float16 upcast) *)
Theorem C02_forward_prop : forall name n p pm,
  wf_prop n p -> create_props_metadata name p = Ok pm -> (exists enc, encode_prop p = Ok enc) ->
  exists sp, decode_prop (snd (stored (name, p))) = Some sp /\ sprop_eqb sp (of_prop (upcast_prop p)) = true.
Proof. exact forward_prop. Qed.
Print Assumptions C02_forward_prop.

(* converse, per property: on ANY spec-conformant property group -- however it was produced -- the library's reader and
   the specification decoder succeed or fail together, and when they succeed they return the same property *)
Theorem C02_converse_prop : forall root grp name len pm a ch,
  get_path root [grp; path_PROPS; name] = Some (ZG a ch) -> prop_conformant len pm (ZG a ch) ->
  exists zp, read_prop root grp name = Ok zp /\
    match load_prop zp None pm, decode_prop (ZG a ch) with
    | Ok p, Some sp => sprop_eqb sp (of_prop p) = true
    | Err _, None => True
    | _, _ => False
    end.
Proof. exact prop_agree. Qed.
Print Assumptions C02_converse_prop.

(* the offset-plus-shape convention: the reader's decoding of the values table is the specification's slicing *)
Theorem C02_offsets : forall v d els,
  (exists n rest, a_shape v = n :: rest) ->
  deserialize (table_rows v) (a_flat d) = Ok els <->
  match a_shape v with
  | n :: rest => all_some (map (slice_elem (a_flat d)) (split_rows (product rest) n (a_flat v))) = Some els
  | [] => False
  end.
Proof. exact deserialize_slices. Qed.
Print Assumptions C02_offsets.

(* a store the library wrote is accepted by its structural validation: C01_roundtrip (second conjunct) *)

(* non-vacuity: a var-length property of two elements (2x1 and 0x3) with a mask *)
Example C02_nonvacuous :
  let p := mkprop (PVlen [Build_varr DI8 [2%nat; 1%nat] [7; 8]%Z; Build_varr DI8 [0%nat; 3%nat] []])
                  (Some (mkarr DBool [2%nat] [0; 1]%Z)) in
  wf_prop 2 p /\ create_props_metadata "v" p = Ok (mkpm DI8 true None None None) /\
  decode_prop (snd (stored ("v", p))) =
    Some (mksprop (SVar DI8 [([2%nat; 1%nat], [7; 8]%Z); ([0%nat; 3%nat], [])]) (Some [0; 1]%Z)).
Proof. cbn zeta. split; [|split; vm_compute; reflexivity].
  split; cbn; [split; [reflexivity | repeat constructor] | split; reflexivity]. Qed.
