(* props/C02.v -- C02: the on-disk layout means what the specification says, in both directions. *)
From Geff Require Import Base Dtype Vlen Tree Validate ValidateLemmas Write Read RoundTrip WriteLemmas ReadLemmas C01Lemmas SpecDecode SpecLemmas.
From Geff.Gen Require Import Consts.
Open Scope string_scope.
Open Scope list_scope.

(* SpecDecode.v decodes a store from docs/specification.md alone (hierarchy only, never the metadata) and shares no
   definition with the library's reader model.  sprop_eqb compares decoded properties: same dtype, shape, values,
   with an absent mask and an all-false mask identified. *)

(* FORWARD, whole store: for every clean target and every well-formed input (as in C01), what write_arrays leaves is
   accepted by structural validation and decodes, following the specification alone, to exactly the graph given to the
   writer (ids verbatim; every property with its dtype, shape, mask and values, float16 upcast). *)
From Geff Require Import ModelDomain.
(* in_domain: usable property names, no bytes arrays -- where the tree model is faithful (see C01_roundtrip) *)
Theorem C02_forward : forall k pre g md md' n e ov,
  clean k pre -> wf_input g md n e -> in_domain g md -> final_metadata g md = Ok md' ->
  exists tr post sg,
    write_arrays k g md true ov (init pre) = (mkst (Some post) tr, Ok tt) /\
    validate_structure k (Some post) = Ok tt /\
    spec_decode post = Some sg /\
    sgraph_eqb sg (mksg (w_nids g) (w_eids g)
                        (of_props (up_props (backfill (w_nids g) md (w_nprops g))))
                        (of_props (up_props (w_eprops g)))) = true.
Proof. intros k pre g md md' n e ov Hc Hwf _ Hfm. exact (write_then_spec_decode k pre g md md' n e ov Hc Hwf Hfm). Qed.
Print Assumptions C02_forward.

(* the same with no success premise: `final_metadata g md = Ok md'` is discharged from wf_input and "every axis property holds
   its values" (WriteTotal.v; C01_final_metadata_total) *)
From Geff Require Import WriteTotal ConverseTotal.
Theorem C02_forward_total : forall k pre g md n e ov,
  clean k pre -> wf_input g md n e -> in_domain g md -> axes_have_data g md ->
  exists md' tr post sg,
    final_metadata g md = Ok md' /\
    write_arrays k g md true ov (init pre) = (mkst (Some post) tr, Ok tt) /\
    validate_structure k (Some post) = Ok tt /\
    spec_decode post = Some sg /\
    sgraph_eqb sg (mksg (w_nids g) (w_eids g)
                        (of_props (up_props (backfill (w_nids g) md (w_nprops g))))
                        (of_props (up_props (w_eprops g)))) = true.
Proof. intros k pre g md n e ov Hc Hwf _ Hd. exact (forward_total k pre g md n e ov Hc Hwf Hd). Qed.
Print Assumptions C02_forward_total.

(* CONVERSE, whole store: whatever store the library reads successfully (with structural validation on) -- written by
   anyone, with any optional group or array absent, any foreign attribute or member beside it -- the graph it returns is
   the specification decoding of that store. *)
Theorem C02_converse : forall k root g,
  unique_members root ->
  read_to_memory k (Some root) true None None = Ok g ->
  exists sg, spec_decode root = Some sg /\ sgraph_eqb sg (of_mgraph g) = true.
Proof. exact read_is_spec_decode. Qed.
Print Assumptions C02_converse.

(* CONVERSE, totality: a conformant store IS READ -- the read of a store that structural validation accepts can fail for one
   reason only, an offset row of a variable-length property pointing outside its data array; `offsets_in_range` (SpecRange.v) is
   declarative: every row (offset, shape...) of every values table with a data array beside it has product(shape) = 0 or
   offset + product(shape) <= len(data).  With C04 (validation accepts iff conformant) and C02_converse: a conformant store with
   offsets in range is read into exactly the graph the specification says it denotes. *)
From Geff Require Import SpecRange ConverseTotal.
Theorem C02_converse_total : forall k root,
  unique_members root -> conformant root ->
  ((exists g, read_to_memory k (Some root) true None None = Ok g) <-> offsets_in_range root).
Proof. exact read_total_iff. Qed.
Print Assumptions C02_converse_total.

Theorem C02_conformant_is_read : forall k root,
  unique_members root -> conformant root -> offsets_in_range root ->
  exists g sg, read_to_memory k (Some root) true None None = Ok g /\
               spec_decode root = Some sg /\ sgraph_eqb sg (of_mgraph g) = true.
Proof. exact conformant_is_read. Qed.
Print Assumptions C02_conformant_is_read.

(* the decidable form evaluated by the correspondence check on real stores *)
Theorem C02_in_range_decidable : forall root, offsets_in_range_b root = true <-> offsets_in_range root.
Proof. exact offsets_in_range_b_iff. Qed.
Print Assumptions C02_in_range_decidable.

(* non-vacuity: a conformant store (foreign member beside the geff, a var-length property with a mask) whose rows are in range is
   read; moving one offset past the end of data keeps it conformant (validation accepts) and makes the read fail *)
Definition c02_root (off : Z) : znode :=
  ZG [("geff", AGeff (Some (mkmd true None [("v", mkpm DI8 true None None None)] [] 0%Z)))]
     [("nodes", ZG [] [("ids", ZA (mkarr DU8 [2%nat] [1; 2]%Z));
                       ("props", ZG [] [("v", ZG [] [("values", ZA (mkarr DU64 [2%nat; 2%nat] [off; 1; 1; 0]%Z));
                                                     ("missing", ZA (mkarr DBool [2%nat] [0; 1]%Z));
                                                     ("data", ZA (mkarr DI8 [1%nat] [7]%Z))])])]);
      ("edges", ZG [] [("ids", ZA (mkarr DU8 [1%nat; 2%nat] [1; 2]%Z))]);
      ("foreign", ZG [] [])].
Example C02_total_nonvacuous :
  conformant (c02_root 0) /\ offsets_in_range (c02_root 0) /\ is_ok (read_to_memory KObj (Some (c02_root 0)) true None None) = true /\
  conformant (c02_root 1) /\ ~ offsets_in_range (c02_root 1) /\ read_to_memory KObj (Some (c02_root 1)) true None None = Err ValueError.
Proof.
  split; [apply (validate_iff KObj); vm_compute; reflexivity|].
  split; [apply offsets_in_range_b_iff; vm_compute; reflexivity|].
  split; [vm_compute; reflexivity|].
  split; [apply (validate_iff KObj); vm_compute; reflexivity|].
  split; [intro H; apply offsets_in_range_b_iff in H; vm_compute in H; discriminate|].
  vm_compute; reflexivity.
Qed.

(* forward, per property: what the writer stores for ANY well-formed property (every dtype, rank, mask, var-length mix)
   is decoded by the specification decoder into that property (after the float16 upcast) *)
Theorem C02_forward_prop : forall name n p pm,
  wf_prop n p -> create_props_metadata name p = Ok pm -> (exists enc, encode_prop p = Ok enc) ->
  exists sp, decode_prop (snd (stored (name, p))) = Some sp /\ sprop_eqb sp (of_prop (upcast_prop p)) = true.
Proof. exact forward_prop. Qed.
Print Assumptions C02_forward_prop.

(* converse, per property: on ANY spec-conformant property group -- however it was produced -- the library's reader and
   the specification decoder succeed or fail together, and when they succeed they return the same property *)
Theorem C02_converse_prop : forall root grp name len pm a ch,
  get_path root [grp; path_PROPS; name] = Some (ZG a ch) -> prop_conformant len pm (ZG a ch) ->
  exists zp, read_prop root grp name = Ok zp /\
    match load_prop zp None pm, decode_prop (ZG a ch) with
    | Ok p, Some sp => sprop_eqb sp (of_prop p) = true
    | Err _, None => True
    | _, _ => False
    end.
Proof. exact prop_agree. Qed.
Print Assumptions C02_converse_prop.

(* the offset-plus-shape convention: the reader's decoding of the values table is the specification's slicing *)
Theorem C02_offsets : forall v d els,
  (exists n rest, a_shape v = n :: rest) ->
  deserialize (table_rows v) (a_flat d) = Ok els <->
  match a_shape v with
  | n :: rest => all_some (map (slice_elem (a_flat d)) (split_rows (product rest) n (a_flat v))) = Some els
  | [] => False
  end.
Proof. exact deserialize_slices. Qed.
Print Assumptions C02_offsets.

(* a store the library wrote is accepted by its structural validation: C01_roundtrip (second conjunct) *)

(* non-vacuity: a var-length property of two elements (2x1 and 0x3) with a mask *)
Example C02_nonvacuous :
  let p := mkprop (PVlen [Build_varr DI8 [2%nat; 1%nat] [7; 8]%Z; Build_varr DI8 [0%nat; 3%nat] []])
                  (Some (mkarr DBool [2%nat] [0; 1]%Z)) in
  wf_prop 2 p /\ create_props_metadata "v" p = Ok (mkpm DI8 true None None None) /\
  decode_prop (snd (stored ("v", p))) =
    Some (mksprop (SVar DI8 [([2%nat; 1%nat], [7; 8]%Z); ([0%nat; 3%nat], [])]) (Some [0; 1]%Z)).
Proof. cbn zeta. split; [|split; vm_compute; reflexivity].
  split; cbn; [split; [reflexivity | repeat constructor] | split; reflexivity]. Qed.

(* ======================================================================================================================
   KEY LEVEL (KeyStore.v).  Everything above speaks about the abstract hierarchy (groups, arrays, attributes); the theorems
   below tie that hierarchy to the KEYS of the store -- .zgroup / .zattrs / .zarray and chunk keys "0.0" for zarr format 2,
   zarr.json and chunk keys "c/0/0" for zarr format 3 -- which is what "on-disk layout" literally is.
     jtree_of_keys f ks   the hierarchy (with raw JSON attributes) that the keys ks hold, zarr format f
     keys_of_jtree f t    the keys a conformant writer lays t out as (one chunk per array)
     tree_of_keys A / keys_of_tree C   the same through an abstraction A / concretisation C of attribute documents
   A chunk value carries the decoded payload of the chunk: compressors, filters, the bytes / vlen codecs are zarr's chunk
   encoding and stay outside the model; so do sharding and the transpose codec (rejected by the document parser).
   ====================================================================================================================== *)
From Geff Require Import KeyStore KeyStoreLemmas KeyLayoutLemmas.
From Geff Require Meta.

(* the abstraction function reads back what the layout function writes: every well-formed hierarchy (arrays of size(shape)
   values of a storable dtype, distinct member names; any depth, any attributes), both zarr formats *)
Theorem C02_keys_roundtrip : forall f t, wf_jnode t = true -> jtree_of_keys f (keys_of_jtree f t) = Some t.
Proof. exact jtree_keys_roundtrip. Qed.
Print Assumptions C02_keys_roundtrip.

(* the same for the tree of Tree.v, for every attribute abstraction A that inverts the concretisation C on the tree's attributes *)
Theorem C02_keys_roundtrip_tree : forall A C f t,
  wf_tree t = true -> attrs_rt A C true t -> tree_of_keys A f (keys_of_tree C f t) = Some t.
Proof. exact tree_keys_roundtrip. Qed.
Print Assumptions C02_keys_roundtrip_tree.

(* locality: the member nm of the hierarchy held by ANY store is the hierarchy held by the keys below nm/ *)
Theorem C02_keys_member : forall f ks a ch nm,
  jtree_of_keys f ks = Some (JG a ch) -> alookup nm ch = jtree_of_keys f (strip nm ks).
Proof. exact child_of_keys. Qed.
Print Assumptions C02_keys_member.

(* frame: two stores (root a group) that agree on the keys below nodes/ and edges/ and on the root's "geff" attribute have
   the same geff part -- whatever other keys, members, attributes they hold *)
Theorem C02_keys_frame : forall f ks ks' a ch a' ch',
  jtree_of_keys f ks = Some (JG a ch) -> jtree_of_keys f ks' = Some (JG a' ch') ->
  Meta.jget "geff" a = Meta.jget "geff" a' ->
  strip "nodes" ks = strip "nodes" ks' -> strip "edges" ks = strip "edges" ks' ->
  geff_part (JG a ch) = geff_part (JG a' ch').
Proof. exact geff_part_frame. Qed.
Print Assumptions C02_keys_frame.

Theorem C02_keys_frame_tree : forall A f ks ks' a ch a' ch',
  jtree_of_keys f ks = Some (JG a ch) -> jtree_of_keys f ks' = Some (JG a' ch') ->
  Meta.jget "geff" a = Meta.jget "geff" a' ->
  strip "nodes" ks = strip "nodes" ks' -> strip "edges" ks = strip "edges" ks' ->
  exists t t', tree_of_keys A f ks = Some t /\ tree_of_keys A f ks' = Some t' /\ zgeff_part t = zgeff_part t'.
Proof. exact tree_geff_part_frame. Qed.
Print Assumptions C02_keys_frame_tree.

(* what write_arrays leaves, at the key level: exactly the root documents (with the metadata under the attribute "geff"), the
   keys of whatever was there before, and below nodes/ and edges/ the group documents, ids, props/<name>/{values,missing,data}
   -- layout_keys spells the member names as the specification does (string literals), the writer model takes them from
   geff/_path.py: the statement no longer type-checks when a path constant is renamed *)
Theorem C02_keys_written : forall C f k pre g md md' n e ov,
  clean k pre -> wf_input g md n e -> final_metadata g md = Ok md' ->
  exists tr post,
    write_arrays k g md true ov (init pre) = (mkst (Some post) tr, Ok tt) /\
    keys_of_tree C f post = layout_keys C f pre g (backfill (w_nids g) md (w_nprops g)) md'.
Proof. exact write_keys_layout. Qed.
Print Assumptions C02_keys_written.

(* the array documents of the ids: key, dtype spelling, shape -- zarr format 2 (.zarray, numpy typestr) *)
Theorem C02_keys_ids_v2 : forall C pre g nps md' k,
  clean k pre ->
  klookup ["nodes"; "ids"; ".zarray"] (layout_keys C V2 pre g nps md') = Some (KDoc (zarray_doc (w_nids g))) /\
  klookup ["edges"; "ids"; ".zarray"] (layout_keys C V2 pre g nps md') = Some (KDoc (zarray_doc (w_eids g))) /\
  forall a, jfield "dtype" (zarray_doc a) = Some (JStr (v2_dtype_str (a_dt a))) /\
            jfield "shape" (zarray_doc a) = Some (jnats_doc (a_shape a)) /\
            jfield "zarr_format" (zarray_doc a) = Some (JInt 2).
Proof. exact ids_document_v2. Qed.
Print Assumptions C02_keys_ids_v2.

(* ... and zarr format 3 (zarr.json with node_type array, data type name) *)
Theorem C02_keys_ids_v3 : forall C pre g nps md' k,
  clean k pre ->
  klookup ["nodes"; "ids"; "zarr.json"] (layout_keys C V3 pre g nps md') = Some (KDoc (v3_array_doc (w_nids g))) /\
  klookup ["edges"; "ids"; "zarr.json"] (layout_keys C V3 pre g nps md') = Some (KDoc (v3_array_doc (w_eids g))) /\
  forall a, jfield "data_type" (v3_array_doc a) = Some (JStr (v3_dtype_name (a_dt a))) /\
            jfield "shape" (v3_array_doc a) = Some (jnats_doc (a_shape a)) /\
            jfield "node_type" (v3_array_doc a) = Some (JStr "array") /\
            jfield "zarr_format" (v3_array_doc a) = Some (JInt 3).
Proof. exact ids_document_v3. Qed.
Print Assumptions C02_keys_ids_v3.

(* the metadata document sits under the key "geff" of the root's attribute document (.zattrs / "attributes" of zarr.json) *)
Theorem C02_keys_geff_attribute : forall C f pre g nps md',
  root_attrs f (layout_keys C f pre g nps md') = Some (root_attr_docs C pre md') /\
  Meta.jget "geff" (root_attr_docs C pre md') = Some (C true "geff" (AGeff (Some md'))).
Proof. exact geff_attribute_key. Qed.
Print Assumptions C02_keys_geff_attribute.

(* FORWARD at the key level, end to end: clean target (a well-formed foreign hierarchy may sit beside it), well-formed input as
   in C01 whose arrays hold size(shape) values (np_input: true of every numpy array), attributes that survive C then A:
   write_arrays, then the layout function, then the abstraction function give the written tree back, and the specification
   decoder turns it into the graph given to the writer *)
Theorem C02_keys_forward : forall A C f k pre g md md' n e ov,
  clean k pre -> wf_pre pre -> wf_input g md n e -> np_input g md -> final_metadata g md = Ok md' ->
  attrs_rt A C true (layout pre g (backfill (w_nids g) md (w_nprops g)) md') ->
  exists tr post t sg,
    write_arrays k g md true ov (init pre) = (mkst (Some post) tr, Ok tt) /\
    tree_of_keys A f (keys_of_tree C f post) = Some t /\ t = post /\
    spec_decode t = Some sg /\
    sgraph_eqb sg (mksg (w_nids g) (w_eids g)
                        (of_props (up_props (backfill (w_nids g) md (w_nprops g))))
                        (of_props (up_props (w_eprops g)))) = true.
Proof. exact write_keys_spec. Qed.
Print Assumptions C02_keys_forward.

(* non-vacuity: a hierarchy with a 2x2 array, a zero-length array, a 0-d array, a string array and a nested group; its keys in
   both formats; the round trip computed *)
Definition kx_tree : jnode :=
  JG [("geff", JObj [("directed", JBool true)]); ("ome", JInt 1)]
     [("nodes", JG [] [("ids", JA (mkarr DU64 [2%nat; 2%nat] [1; 2; 3; 4]%Z)); ("e", JA (mkarr DBool [0%nat; 3%nat] []))]);
      ("s", JA (mkarr DStr [2%nat] [7; 8]%Z)); ("z", JA (mkarr DF32 [] [1536]%Z))].
Example C02_keys_nonvacuous :
  wf_jnode kx_tree = true /\
  map fst (keys_of_jtree V2 kx_tree) =
    [[".zgroup"]; [".zattrs"]; ["nodes"; ".zgroup"]; ["nodes"; ".zattrs"];
     ["nodes"; "ids"; ".zarray"]; ["nodes"; "ids"; ".zattrs"]; ["nodes"; "ids"; "0.0"];
     ["nodes"; "e"; ".zarray"]; ["nodes"; "e"; ".zattrs"];
     ["s"; ".zarray"]; ["s"; ".zattrs"]; ["s"; "0"]; ["z"; ".zarray"]; ["z"; ".zattrs"]; ["z"; "0"]] /\
  map fst (keys_of_jtree V3 kx_tree) =
    [["zarr.json"]; ["nodes"; "zarr.json"]; ["nodes"; "ids"; "zarr.json"]; ["nodes"; "ids"; "c"; "0"; "0"];
     ["nodes"; "e"; "zarr.json"]; ["s"; "zarr.json"]; ["s"; "c"; "0"]; ["z"; "zarr.json"]; ["z"; "c"]] /\
  jtree_of_keys V2 (keys_of_jtree V2 kx_tree) = Some kx_tree /\
  jtree_of_keys V3 (keys_of_jtree V3 kx_tree) = Some kx_tree /\
  klookup ["nodes"; "ids"; ".zarray"] (keys_of_jtree V2 kx_tree) =
    Some (KDoc (JObj [("shape", JList [JInt 2; JInt 2]); ("chunks", JList [JInt 2; JInt 2]); ("dtype", JStr "<u8");
                      ("fill_value", JInt 0); ("order", JStr "C"); ("filters", JNull); ("dimension_separator", JStr ".");
                      ("compressor", JNull); ("zarr_format", JInt 2)])).
Proof. vm_compute. repeat split; reflexivity. Qed.

(* non-vacuity of the tree-level statements: an abstraction / concretisation pair, a multi-chunk store read by the
   abstraction function (5x3 array in 2x2 chunks, one chunk absent -> fill value), and a frame instance *)
Definition kx_A (root : bool) (k : string) (d : Meta.jv) : aval := match d with JInt z => AOther z | _ => AGeff None end.
Definition kx_C (root : bool) (k : string) (v : aval) : Meta.jv := match v with AOther z => JInt z | AGeff _ => JNull end.
Definition kx_ztree : znode :=
  ZG [("geff", AGeff None); ("x", AOther 5)] [("nodes", ZG [] [("ids", ZA (mkarr DI8 [3%nat] [1; 2; 3]%Z))])].
Definition kx_chunked : kstore :=
  [([".zgroup"], KDoc (JObj [("zarr_format", JInt 2)]));
   (["a"; ".zarray"], KDoc (JObj [("shape", JList [JInt 5; JInt 3]); ("chunks", JList [JInt 2; JInt 2]); ("dtype", JStr "<i4");
                                  ("fill_value", JInt 0); ("order", JStr "C"); ("filters", JNull); ("zarr_format", JInt 2)]));
   (["a"; "0.0"], KChunk [0; 1; 3; 4]%Z); (["a"; "0.1"], KChunk [2; 0; 5; 0]%Z);
   (["a"; "1.0"], KChunk [6; 7; 9; 10]%Z); (["a"; "1.1"], KChunk [8; 0; 11; 0]%Z);
   (["a"; "2.0"], KChunk [12; 13; 0; 0]%Z)].
Example C02_keys_tree_nonvacuous :
  wf_tree kx_ztree = true /\ attrs_rt kx_A kx_C true kx_ztree /\
  tree_of_keys kx_A V3 (keys_of_tree kx_C V3 kx_ztree) = Some kx_ztree /\
  jtree_of_keys V2 kx_chunked =
    Some (JG [] [("a", JA (mkarr DI32 [5%nat; 3%nat] [0; 1; 2; 3; 4; 5; 6; 7; 8; 9; 10; 11; 12; 13; 0]%Z))]) /\
  (let ks := keys_of_jtree V2 kx_tree in
   let ks' := ks ++ [(["foreign"; ".zgroup"], KDoc (JObj [("zarr_format", JInt 2)]))] in
   strip "nodes" ks = strip "nodes" ks' /\ strip "edges" ks = strip "edges" ks' /\
   option_map geff_part (jtree_of_keys V2 ks) = option_map geff_part (jtree_of_keys V2 ks') /\
   jtree_of_keys V2 ks <> jtree_of_keys V2 ks').
Proof. split; [reflexivity|]. split; [cbn; repeat constructor|]. split; [vm_compute; reflexivity|]. split; [vm_compute; reflexivity|].
  cbn zeta. split; [vm_compute; reflexivity|]. split; [vm_compute; reflexivity|]. split; [vm_compute; reflexivity|].
  vm_compute. discriminate. Qed.

(* keys as strings: the component lists of the model and the "/"-joined key strings of a real store are the same thing -- splitting
   the joined string on "/" gives the components back, for every non-empty key whose components contain no "/" *)
Theorem C02_keys_string : forall k, k <> [] -> forallb slash_free k = true -> split_slash (key_string k) = k.
Proof. exact split_join_key. Qed.
Print Assumptions C02_keys_string.
(* ... in particular for every key the layout function produces, when no member name contains "/" *)
Theorem C02_keys_strings_of_layout : forall f t, names_slash_free t = true ->
  Forall (fun kv => split_slash (key_string (fst kv)) = fst kv) (keys_of_jtree f t).
Proof. exact keys_strings_split. Qed.
Print Assumptions C02_keys_strings_of_layout.
Example C02_keys_string_nonvacuous :
  key_string ["nodes"; "props"; "t"; "values"; "0.0"] = "nodes/props/t/values/0.0" /\
  split_slash "nodes/props/t/values/0.0" = ["nodes"; "props"; "t"; "values"; "0.0"] /\
  map (fun kv => key_string (fst kv)) (keys_of_jtree V3 (JG [] [("nodes", JG [] [("ids", JA (mkarr DU8 [1%nat] [5]%Z))])]))
    = ["zarr.json"; "nodes/zarr.json"; "nodes/ids/zarr.json"; "nodes/ids/c/0"].
Proof. vm_compute. repeat split; reflexivity. Qed.
