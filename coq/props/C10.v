(* props/C10.v -- C10: written metadata truthfully describes the stored data. *)
From Geff Require Import Base Dtype Vlen Tree Validate Write Read RoundTrip WriteLemmas ReadLemmas C01Lemmas C10Lemmas.
From GeffProps Require C01.
Open Scope string_scope.
Open Scope list_scope.

(* final_metadata is the metadata write_arrays stores (C01_layout puts it under attrs["geff"]). *)

(* exactly one entry per stored property (under wf_input: the caller names no absent property), and each entry is the
   caller's with dtype/varlength replaced by those of the written data (unit, name, description kept), or a fresh one *)
Theorem C10_props : forall g md md' n e,
  wf_input g md n e -> final_metadata g md = Ok md' ->
  let nps := backfill (w_nids g) md (w_nprops g) in
  (forall k, In k (akeys (md_nprops md')) <-> In k (names_of nps)) /\
  (forall k, In k (akeys (md_eprops md')) <-> In k (names_of (w_eprops g))) /\
  (forall name p pm, In (name, p) (match nps with Some ps => ps | None => [] end) ->
     create_props_metadata name p = Ok pm ->
     alookup name (md_nprops md') =
     Some (match alookup name (md_nprops md) with
           | Some old => mkpm (pm_dtype pm) (pm_varlength pm) (pm_unit old) (pm_name old) (pm_descr old)
           | None => pm end)) /\
  (forall name p pm, In (name, p) (match w_eprops g with Some ps => ps | None => [] end) ->
     create_props_metadata name p = Ok pm ->
     alookup name (md_eprops md') =
     Some (match alookup name (md_eprops md) with
           | Some old => mkpm (pm_dtype pm) (pm_varlength pm) (pm_unit old) (pm_name old) (pm_descr old)
           | None => pm end)).
Proof. exact props_entries. Qed.
Print Assumptions C10_props.

(* the dtype stated for a property is the dtype of the stored array (values, or data when variable-length),
   and the variable-length flag is set exactly when a data array is stored *)
Theorem C10_dtype : forall name p pm v m d,
  create_props_metadata name p = Ok pm -> encode_prop p = Ok (v, m, d) ->
  (pm_varlength pm = false /\ d = None /\ a_dt v = pm_dtype pm) \/
  (pm_varlength pm = true /\ a_dt v = DU64 /\ exists da, d = Some da /\ a_dt da = pm_dtype pm).
Proof. exact meta_matches_stored. Qed.
Print Assumptions C10_dtype.

(* every axis keeps its name and its other caller-supplied fields (token); for a non-empty graph its min / max are the
   smallest / largest coordinate over the nodes not flagged missing, whatever range the caller passed in *)
Theorem C10_minmax : forall md nprops md' axes,
  compute_minmax md nprops = Ok md' -> md_axes md = Some axes ->
  exists axes', md_axes md' = Some axes' /\ Forall2 (axis_truthful nprops) axes axes'.
Proof. exact minmax_truthful. Qed.
Print Assumptions C10_minmax.

(* directed flag and every data-independent caller field (one opaque token: extra, related objects, display hints,
   sphere, ellipsoid, track properties, version) are stored unchanged *)
Theorem C10_passthrough : forall g md md',
  final_metadata g md = Ok md' ->
  let nps := backfill (w_nids g) md (w_nprops g) in
  md_nprops md' = add_or_update (md_nprops md) (metas_of nps) /\
  md_eprops md' = add_or_update (md_eprops md) (metas_of (w_eprops g)) /\
  md_directed md' = md_directed md /\ md_tok md' = md_tok md /\
  option_map (map ax_name) (md_axes md') = option_map (map ax_name) (md_axes md).
Proof. exact final_metadata_fields. Qed.
Print Assumptions C10_passthrough.

(* Known finding stale-entry-unvalidated: without wf_input's "names no absent property", and with structural
   validation switched off, the write succeeds and the stored metadata lists a property that is not stored. *)
Theorem C10_stale_refuted :
  exists g md post, run (write_arrays KObj g md false false) None = (Some post, Ok tt) /\
    exists md', geff_attr post = Some (Some md') /\ In "ghost" (akeys (md_nprops md')) /\
                get_path post ["nodes"; "props"; "ghost"] = None.
Proof.
  exists (mkwg (mkarr DU8 [1%nat] [3]%Z) (mkarr DU8 [0%nat; 2%nat] []) (Some []) (Some [])),
         (mkmd true None [("ghost", mkpm DI8 false None None None)] [] 0%Z).
  eexists. split; [vm_compute; reflexivity|]. eexists. split; [vm_compute; reflexivity|]. split; [cbn; auto | reflexivity].
Qed.
Print Assumptions C10_stale_refuted.

(* non-vacuity: the example graph of C01 (stale range 0..9 on axis x, a masked float16 matrix, a var-length property) *)
Example C10_nonvacuous :
  exists md', final_metadata C01.ex_g C01.ex_md = Ok md' /\
    md_axes md' = Some [mkax "x" (Some (-512)%Z) (Some 1536%Z) 1%Z] /\
    alookup "m" (md_nprops md') = Some (mkpm DF32 false None None None) /\
    alookup "v" (md_nprops md') = Some (mkpm DI8 true None None None).
Proof. eexists. split; [vm_compute; reflexivity|]. repeat split. Qed.

(* ---------------------------------------------------------------------------------------------------------------
   BACKEND WRITERS WITH axis_* OVERRIDE LISTS (geff.write / write_nx / write_rx / write_sg -> update_metadata_axes ->
   axes_from_lists, modelled in Meta.v with pydantic's validation order; the names below are those of Meta.v).
   The stored axes are faithful to the lists: one axis per name, in order, and axis k is built from entry k of every
   list that is given -- each field on its own (an offset does not need a scale, a unit does not need a type ...). *)
From Geff Require Import Meta MetaAxesLemmas.

Theorem C10_axes_from_lists : forall ls l,
  axes_from_lists ls = Ok l ->
  match al_names ls with
  | None => l = []
  | Some names =>
      List.length l = List.length names /\
      forall k a, nth_error l k = Some a ->
        exists nm src, nth_error names k = Some nm /\
          pick (al_types ls) k = Ok (s_type src) /\ pick (al_units ls) k = Ok (s_unit src) /\
          pick (al_scales ls) k = Ok (s_scale src) /\ pick (al_scaled_units ls) k = Ok (s_sunit src) /\
          pick (al_offset ls) k = Ok (s_offset src) /\ pick (al_roi_min ls) k = Ok (s_min src) /\
          pick (al_roi_max ls) k = Ok (s_max src) /\ axis_built_from nm src a
  end.
Proof. exact axes_from_lists_faithful. Qed.
Print Assumptions C10_axes_from_lists.

Theorem C10_axis_offset_kept : forall ls l k a off,
  axes_from_lists ls = Ok l -> nth_error l k = Some a ->
  forall offs, al_offset ls = Some offs -> nth_error offs k = Some (JFlt off) -> ax_offset a = Some off.
Proof. exact axes_from_lists_offset. Qed.
Print Assumptions C10_axis_offset_kept.

Example C10_axes_nonvacuous :
  axes_from_lists (mkAL (Some [JStr "t"; JStr "x"]) None (Some [JStr "time"; JNull]) (Some [JNull; JFlt (Fin 512)])
                        None (Some [JFlt (Fin 102400); JNull]) None None)
  = Ok [mkAxis "t" (Some "time") None None None None None (Some (Fin 102400));
        mkAxis "x" None None None None (Some (Fin 512)) None None].
Proof. vm_compute. reflexivity. Qed.
