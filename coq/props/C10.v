(* props/C10.v -- C10: written metadata truthfully describes the stored data. *)
From Geff Require Import Base Dtype Vlen Tree Validate Write Read RoundTrip WriteLemmas ReadLemmas C01Lemmas C10Lemmas.
From GeffProps Require C01.
Open Scope string_scope.
Open Scope list_scope.

(* final_metadata is the metadata write_arrays stores (C01_layout puts it under attrs["geff"]). *)

(* exactly one entry per stored property (under wf_input: the caller names no absent property), and each entry is the
   caller's with dtype/varlength replaced by those of the written data (unit, name, description kept), or a fresh one *)
Theorem C10_props : forall g md md' n e,
  wf_input g md n e -> final_metadata g md = Ok md' ->
  let nps := backfill (w_nids g) md (w_nprops g) in
  (forall k, In k (akeys (md_nprops md')) <-> In k (names_of nps)) /\
  (forall k, In k (akeys (md_eprops md')) <-> In k (names_of (w_eprops g))) /\
  (forall name p pm, In (name, p) (match nps with Some ps => ps | None => [] end) ->
     create_props_metadata name p = Ok pm ->
     alookup name (md_nprops md') =
     Some (match alookup name (md_nprops md) with
           | Some old => mkpm (pm_dtype pm) (pm_varlength pm) (pm_unit old) (pm_name old) (pm_descr old)
           | None => pm end)) /\
  (forall name p pm, In (name, p) (match w_eprops g with Some ps => ps | None => [] end) ->
     create_props_metadata name p = Ok pm ->
     alookup name (md_eprops md') =
     Some (match alookup name (md_eprops md) with
           | Some old => mkpm (pm_dtype pm) (pm_varlength pm) (pm_unit old) (pm_name old) (pm_descr old)
           | None => pm end)).
Proof. exact props_entries. Qed.
Print Assumptions C10_props.

(* the dtype stated for a property is the dtype of the stored array (values, or data when variable-length),
   and the variable-length flag is set exactly when a data array is stored *)
Theorem C10_dtype : forall name p pm v m d,
  create_props_metadata name p = Ok pm -> encode_prop p = Ok (v, m, d) ->
  (pm_varlength pm = false /\ d = None /\ a_dt v = pm_dtype pm) \/
  (pm_varlength pm = true /\ a_dt v = DU64 /\ exists da, d = Some da /\ a_dt da = pm_dtype pm).
Proof. exact meta_matches_stored. Qed.
Print Assumptions C10_dtype.

(* every axis keeps its name and its other caller-supplied fields (token); for a non-empty graph its min / max are the
   smallest / largest coordinate over the nodes not flagged missing, whatever range the caller passed in *)
Theorem C10_minmax : forall md nprops md' axes,
  compute_minmax md nprops = Ok md' -> md_axes md = Some axes ->
  exists axes', md_axes md' = Some axes' /\ Forall2 (axis_truthful nprops) axes axes'.
Proof. exact minmax_truthful. Qed.
Print Assumptions C10_minmax.

(* directed flag and every data-independent caller field (one opaque token: extra, related objects, display hints,
   sphere, ellipsoid, track properties, version) are stored unchanged *)
Theorem C10_passthrough : forall g md md',
  final_metadata g md = Ok md' ->
  let nps := backfill (w_nids g) md (w_nprops g) in
  md_nprops md' = add_or_update (md_nprops md) (metas_of nps) /\
  md_eprops md' = add_or_update (md_eprops md) (metas_of (w_eprops g)) /\
  md_directed md' = md_directed md /\ md_tok md' = md_tok md /\
  option_map (map ax_name) (md_axes md') = option_map (map ax_name) (md_axes md).
Proof. exact final_metadata_fields. Qed.
Print Assumptions C10_passthrough.

(* Known finding stale-entry-unvalidated: without wf_input's "names no absent property", and with structural
   validation switched off, the write succeeds and the stored metadata lists a property that is not stored. *)
Theorem C10_stale_refuted :
  exists g md post, run (write_arrays KObj g md false false) None = (Some post, Ok tt) /\
    exists md', geff_attr post = Some (Some md') /\ In "ghost" (akeys (md_nprops md')) /\
                get_path post ["nodes"; "props"; "ghost"] = None.
Proof.
  exists (mkwg (mkarr DU8 [1%nat] [3]%Z) (mkarr DU8 [0%nat; 2%nat] []) (Some []) (Some [])),
         (mkmd true None [("ghost", mkpm DI8 false None None None)] [] 0%Z).
  eexists. split; [vm_compute; reflexivity|]. eexists. split; [vm_compute; reflexivity|]. split; [cbn; auto | reflexivity].
Qed.
Print Assumptions C10_stale_refuted.

(* ... and with structural validation ON (the default of every entry point) a stale entry can never be stored, whatever the input:
   the committed state is not conformant (the props group does not hold the named property), validation rejects it, write_arrays
   raises ValueError and ends in `cleaned` (C05_reject_frame: nodes, edges and the geff attribute gone, nothing else touched).
   Together with C10_props (inputs without stale entries): after a SUCCESSFUL validated write the metadata has exactly one entry
   per stored property -- for all caller metadata, stale entries included. *)
From Geff Require CrashLemmas StaleLemmas.
Theorem C10_stale_rejected : forall k pre g md md' ov a ch tr1 which name,
  CrashLemmas.exists_geff k pre = false ->
  CrashLemmas.write_body g md (init pre) = (mkst (Some (ZG a ch)) tr1, Ok md') ->
  StaleLemmas.stale_entry (ZG (aset "geff" (AGeff (Some md')) a) ch) md' which name ->
  exists tr, write_arrays k g md true ov (init pre)
             = (mkst (CrashLemmas.cleaned k (aset "geff" (AGeff (Some md')) a) ch) tr, Err ValueError).
Proof. exact StaleLemmas.stale_write_rejected. Qed.
Print Assumptions C10_stale_rejected.

(* the witness of C10_stale_refuted with validation on: refused, and nothing of it is left *)
Example C10_stale_rejected_example :
  run (write_arrays KObj (mkwg (mkarr DU8 [1%nat] [3]%Z) (mkarr DU8 [0%nat; 2%nat] []) (Some []) (Some []))
                    (mkmd true None [("ghost", mkpm DI8 false None None None)] [] 0%Z) true false) None
  = (Some (ZG [] []), Err ValueError).
Proof. vm_compute. reflexivity. Qed.

(* non-vacuity: the example graph of C01 (stale range 0..9 on axis x, a masked float16 matrix, a var-length property) *)
Example C10_nonvacuous :
  exists md', final_metadata C01.ex_g C01.ex_md = Ok md' /\
    md_axes md' = Some [mkax "x" (Some (-512)%Z) (Some 1536%Z) 1%Z] /\
    alookup "m" (md_nprops md') = Some (mkpm DF32 false None None None) /\
    alookup "v" (md_nprops md') = Some (mkpm DI8 true None None None).
Proof. eexists. split; [vm_compute; reflexivity|]. repeat split. Qed.

(* ---------------------------------------------------------------------------------------------------------------
   BACKEND WRITERS WITH axis_* OVERRIDE LISTS (geff.write / write_nx / write_rx / write_sg -> update_metadata_axes ->
   axes_from_lists, modelled in Meta.v with pydantic's validation order; the names below are those of Meta.v).
   The stored axes are faithful to the lists: one axis per name, in order, and axis k is built from entry k of every
   list that is given -- each field on its own (an offset does not need a scale, a unit does not need a type ...). *)
From Geff Require Import Meta MetaAxesLemmas.

Theorem C10_axes_from_lists : forall ls l,
  axes_from_lists ls = Ok l ->
  match al_names ls with
  | None => l = []
  | Some names =>
      List.length l = List.length names /\
      forall k a, nth_error l k = Some a ->
        exists nm src, nth_error names k = Some nm /\
          pick (al_types ls) k = Ok (s_type src) /\ pick (al_units ls) k = Ok (s_unit src) /\
          pick (al_scales ls) k = Ok (s_scale src) /\ pick (al_scaled_units ls) k = Ok (s_sunit src) /\
          pick (al_offset ls) k = Ok (s_offset src) /\ pick (al_roi_min ls) k = Ok (s_min src) /\
          pick (al_roi_max ls) k = Ok (s_max src) /\ axis_built_from nm src a
  end.
Proof. exact axes_from_lists_faithful. Qed.
Print Assumptions C10_axes_from_lists.

Theorem C10_axis_offset_kept : forall ls l k a off,
  axes_from_lists ls = Ok l -> nth_error l k = Some a ->
  forall offs, al_offset ls = Some offs -> nth_error offs k = Some (JFlt off) -> ax_offset a = Some off.
Proof. exact axes_from_lists_offset. Qed.
Print Assumptions C10_axis_offset_kept.

Example C10_axes_nonvacuous :
  axes_from_lists (mkAL (Some [JStr "t"; JStr "x"]) None (Some [JStr "time"; JNull]) (Some [JNull; JFlt (Fin 512)])
                        None (Some [JFlt (Fin 102400); JNull]) None None)
  = Ok [mkAxis "t" (Some "time") None None None None None (Some (Fin 102400));
        mkAxis "x" None None None None (Some (Fin 512)) None None].
Proof. vm_compute. reflexivity. Qed.

(* ---------------------------------------------------------------------------------------------------------------
   THE FULL METADATA OBJECT (theories/MetaBridge.v): the pipeline of write_arrays on the pydantic object of Meta.v
   (stored_md : wgraph -> Meta.metadata -> res Meta.metadata), its abstraction to the smeta of the store models
   (abs, parametric in the interning of the opaque fields), and the composition with C07 (invariants), C08 (published
   schema, zarr-attribute round trip) and C01 (write, validate, read back).  From here on unqualified record fields
   are those of Meta.v; the store-side ones are written Tree.xxx / Write.xxx. *)
From Geff Require Import MetaLemmas Json Schema MetaJson MetaJsonLemmas MetaBridge MetaBridgeLemmas.
From Geff.Gen Require Import Schema.

(* the reduced pipeline (every theorem above) run on the abstraction IS the abstraction of the full pipeline: it fails
   with the same exception, or stores the abstraction of the full result -- for every interning of the opaque fields.
   Hypotheses: the caller's object passes its own model validator, its two dicts have distinct keys (python dicts),
   and the axis coordinates are inside the exact number model (numeric dtype, floats multiples of 2^-10, |int| < 2^53). *)
Theorem C10_full_simulation : forall I g m,
  md_after_ok m = true -> dict_keys_ok m = true -> coords_exact g m = true ->
  final_metadata g (abs I m) = rmap (abs I) (stored_md g m).
Proof. exact simulation. Qed.
Print Assumptions C10_full_simulation.

(* the same as a refinement: whatever smeta the harness abstracts the caller's object to (any interning), the reduced and the full
   pipeline fail together with the same exception, or their results are again related *)
Theorem C10_full_simulation_refines : forall g m s,
  refines m s -> md_after_ok m = true -> dict_keys_ok m = true -> coords_exact g m = true ->
  match final_metadata g s, stored_md g m with
  | Ok s', Ok m' => refines m' s'
  | Err e, Err e' => e = e'
  | _, _ => False
  end.
Proof. exact simulation_refines. Qed.
Print Assumptions C10_full_simulation_refines.

(* exactly one entry per stored property; each entry is the caller's entry with dtype / varlength replaced by those of
   the written data and identifier, unit, name, description KEPT, or else a fresh entry without them *)
Theorem C10_full_props : forall g m m' n e,
  wf_input g (abs I0 m) n e -> stored_md g m = Ok m' ->
  (forall k, In k (map fst (md_node_props m')) <-> In k (names_of (nps_of g m))) /\
  (forall k, In k (map fst (md_edge_props m')) <-> In k (names_of (w_eprops g))) /\
  (forall name p pm, In (name, p) (match nps_of g m with Some ps => ps | None => [] end) ->
     create_props_metadata name p = Ok pm ->
     alookup name (md_node_props m') =
     Some (match alookup name (md_node_props m) with
           | Some old => mkPM (pm_identifier old) (dtype_name (Tree.pm_dtype pm)) (Tree.pm_varlength pm)
                              (pm_unit old) (pm_name old) (pm_description old)
           | None => mkPM name (dtype_name (Tree.pm_dtype pm)) (Tree.pm_varlength pm) None None None
           end)) /\
  (forall name p pm, In (name, p) (match w_eprops g with Some ps => ps | None => [] end) ->
     create_props_metadata name p = Ok pm ->
     alookup name (md_edge_props m') =
     Some (match alookup name (md_edge_props m) with
           | Some old => mkPM (pm_identifier old) (dtype_name (Tree.pm_dtype pm)) (Tree.pm_varlength pm)
                              (pm_unit old) (pm_name old) (pm_description old)
           | None => mkPM name (dtype_name (Tree.pm_dtype pm)) (Tree.pm_varlength pm) None None None
           end)).
Proof. exact full_props. Qed.
Print Assumptions C10_full_props.

(* caller fields that do not depend on the data are stored unchanged, FIELD BY FIELD (no token): geff_version, directed,
   sphere, ellipsoid, track_node_props, related_objects, display_hints, extra; per axis name, type, unit, scale,
   scaled_unit, offset (axis_kept); per caller entry identifier, unit, name, description (entry_kept) -- for ANY input *)
Theorem C10_full_passthrough : forall g m m',
  stored_md g m = Ok m' ->
  md_version m' = md_version m /\ md_directed m' = md_directed m /\
  md_sphere m' = md_sphere m /\ md_ellipsoid m' = md_ellipsoid m /\
  md_track m' = md_track m /\ md_related m' = md_related m /\
  md_hints m' = md_hints m /\ md_extra m' = md_extra m /\
  match md_axes m with
  | None => md_axes m' = None
  | Some axes => exists axes', md_axes m' = Some axes' /\ Forall2 axis_kept axes axes'
  end /\
  (forall k old, In (k, old) (md_node_props m) -> exists new, In (k, new) (md_node_props m') /\ entry_kept old new) /\
  (forall k old, In (k, old) (md_edge_props m) -> exists new, In (k, new) (md_edge_props m') /\ entry_kept old new).
Proof. exact full_passthrough. Qed.
Print Assumptions C10_full_passthrough.

(* each axis of a non-empty graph gets (np.min, np.max) of its non-missing coordinates, whatever range the caller gave
   (extrema_spec: the least / greatest decoded coordinate; NaN for both as soon as one coordinate is NaN; the python float
   of the integer extrema for integer coordinates), an axis of an empty graph is stored as the caller gave it *)
Theorem C10_full_minmax : forall g m m' axes ps,
  stored_md g m = Ok m' -> md_axes m = Some axes -> nps_of g m = Some ps ->
  exists axes', md_axes m' = Some axes' /\ Forall2 (axis_truthful_full (up_nprops ps)) axes axes'.
Proof. exact stored_minmax. Qed.
Print Assumptions C10_full_minmax.

(* C07 across the write: the stored object satisfies the format's invariants in the form the code tests them
   (InvW: not (min > max)), for EVERY graph -- NaN and infinite coordinates included *)
Theorem C10_stored_invariants : forall g m m', InvW m -> stored_md g m = Ok m' -> InvW m'.
Proof. exact stored_InvW. Qed.
Print Assumptions C10_stored_invariants.

(* the property's own form (Inv: min <= max) is preserved when no coordinate is NaN ... *)
Theorem C10_stored_invariants_partial : forall g m m',
  Inv m -> coords_nan_free g m = true -> stored_md g m = Ok m' -> Inv m'.
Proof. exact stored_Inv. Qed.
Print Assumptions C10_stored_invariants_partial.

(* ... and not otherwise (open finding nan-axis-bound, seen from the writer): a caller object satisfying every invariant,
   one NaN coordinate; write_arrays succeeds with structure validation on and stores min = max = NaN -- min <= max fails
   and the stored document is rejected by the published schema *)
Theorem C10_stored_nan_refuted :
  Inv nan_m /\ inv_md nan_m = true /\ dict_keys_ok nan_m = true /\
  snd (Write.run (write_arrays KObj nan_g (abs I0 nan_m) true false) None) = Ok tt /\
  stored_md nan_g nan_m = Ok nan_m' /\ ~ Inv nan_m' /\
  validates schema_published (wrap (to_json nan_m')) = false.
Proof. exact stored_nan_refuted. Qed.
Print Assumptions C10_stored_nan_refuted.

(* C08 across the write: a caller object in the domain of C08 (valid, finite numbers) and finite coordinates (no NaN, no
   inf; nothing else is asked of the graph): the stored object is in that domain again, hence satisfies the invariants, its
   document model_dump(mode="json") validates against the PUBLISHED schema, and GeffMetadata.read of the group it was
   written to returns that very object, whatever else the group's attributes hold *)
Theorem C10_stored_schema_valid : forall g m m',
  inv_md m = true -> coords_finite g m = true -> stored_md g m = Ok m' ->
  InvW m' /\
  validates schema_published (wrap (to_json m')) = true /\
  (forall gv st, md_read gv (md_write m' st) = Ok m' /\ attr_get "geff" (md_write m' st) = Some (to_json m')).
Proof. exact stored_valid. Qed.
Print Assumptions C10_stored_schema_valid.

Theorem C10_stored_domain : forall g m m',
  inv_md m = true -> coords_finite g m = true -> stored_md g m = Ok m' -> inv_md m' = true.
Proof. exact stored_inv_md. Qed.
Print Assumptions C10_stored_domain.

(* C01 + C10 + C07 + C08 on one store: write_arrays succeeds, structural validation passes, read_to_memory returns the
   graph with the abstraction of m', and m' has the three properties above *)
Theorem C10_end_to_end : forall I k pre g m m' n e ov,
  clean k pre -> wf_input g (abs I m) n e ->
  inv_md m = true -> dict_keys_ok m = true -> coords_exact g m = true ->
  stored_md g m = Ok m' ->
  exists tr post,
    write_arrays k g (abs I m) true ov (init pre) = (mkst (Some post) tr, Ok tt) /\
    validate_structure k (Some post) = Ok tt /\
    read_to_memory k (Some post) true None None
      = Ok (mkmg (abs I m') (w_nids g) (w_eids g) (up_props (nps_of g m)) (up_props (w_eprops g))) /\
    inv_md m' = true /\ InvW m' /\
    validates schema_published (wrap (to_json m')) = true /\
    (forall gv st, md_read gv (md_write m' st) = Ok m').
Proof. exact end_to_end. Qed.
Print Assumptions C10_end_to_end.

(* the pieces of the pipeline are the helper models C07 ties to the code: the entries handed over pass PropMetadata's
   validators unchanged, and add_props is Meta.add_or_update_props_metadata on their dumps *)
Theorem C10_full_uses_helpers : forall m ops (node : bool),
  add_or_update_props_metadata m (JList (map pm_to_json (new_entries ops))) (JStr (if node then "node" else "edge"))
  = Ok (add_props m (new_entries ops) node).
Proof. exact add_props_is_helper. Qed.
Print Assumptions C10_full_uses_helpers.

(* non-vacuity: the example graph of C01 with a caller object that uses every field: a stale range and wrong dtype /
   varlength in the caller's entries are replaced, everything else is kept *)
Definition full_m : metadata :=
  mkMD "0.9.1" true
    (Some [mkAxis "x" (Some "space") (Some "micrometer") (Some (Fin 0)) (Some (Fin 9216)) (Some (Fin 512)) (Some "nanometer")
                  (Some (Fin (-1536)))])
    [("x", mkPM "x" "int8" true (Some "um") (Some "X pos") (Some "the x coordinate"))]
    [("w", mkPM "w" "float32" false None (Some "weight") None)]
    (Some "m") None (Some [("lineage", "v")]) (Some [mkRO "labels" "../seg" (Some "m")])
    (Some (mkDH "x" "x" None None))
    [("k", JInt 7); ("f", JFlt (Fin 512))].

Definition full_m' : metadata :=
  mkMD "0.9.1" true
    (Some [mkAxis "x" (Some "space") (Some "micrometer") (Some (Fin (-512))) (Some (Fin 1536)) (Some (Fin 512)) (Some "nanometer")
                  (Some (Fin (-1536)))])
    [("x", mkPM "x" "float64" false (Some "um") (Some "X pos") (Some "the x coordinate"));
     ("m", mkPM "m" "float32" false None None None); ("v", mkPM "v" "int8" true None None None)]
    [("w", mkPM "w" "str" false None (Some "weight") None)]
    (Some "m") None (Some [("lineage", "v")]) (Some [mkRO "labels" "../seg" (Some "m")])
    (Some (mkDH "x" "x" None None))
    [("k", JInt 7); ("f", JFlt (Fin 512))].

Example C10_full_nonvacuous :
  wf_input C01.ex_g (abs I0 full_m) 2 1 /\ inv_md full_m = true /\ md_after_ok full_m = true /\ dict_keys_ok full_m = true /\
  coords_exact C01.ex_g full_m = true /\ coords_finite C01.ex_g full_m = true /\
  stored_md C01.ex_g full_m = Ok full_m' /\
  final_metadata C01.ex_g (abs I0 full_m) = Ok (abs I0 full_m') /\
  validates schema_published (wrap (to_json full_m')) = true.
Proof.
  split; [|repeat split; vm_compute; reflexivity].
  constructor; try reflexivity.
  - intros ps Hps. vm_compute in Hps. inversion Hps; subst ps; clear Hps. split.
    + repeat constructor; cbn; intuition discriminate.
    + repeat constructor; try (eexists; eexists; split; vm_compute; reflexivity);
        try (cbn; eexists; reflexivity); cbn; auto.
      all: try (unfold wf_varr; reflexivity).
  - intros ps Hps. inversion Hps; subst ps; clear Hps. split.
    + repeat constructor; cbn; intuition.
    + repeat constructor; try (eexists; eexists; split; vm_compute; reflexivity); try (cbn; eexists; reflexivity); cbn; auto.
  - intros k0 H. vm_compute in H. destruct H as [<-|[]]. vm_compute. auto.
  - intros k0 H. vm_compute in H. destruct H as [<-|[]]. vm_compute. auto.
  - intros axes Hax. vm_compute in Hax. inversion Hax; subst axes; clear Hax. eexists. split; [vm_compute; reflexivity|].
    intros ax [<-|[]]. eexists; eexists. split; [left; reflexivity | reflexivity].
Qed.
