(* props/C13.v -- C13: tracklet validation decides the documented tracklet definition. *)
From Geff Require Import Base GraphVal Reach Tracks TracksLemmas.
Open Scope Z_scope.
Open Scope list_scope.

(* For every graph and labelling (no size bound; node ids unique, edges between listed nodes):
   the validator accepts iff
   (L) two adjacent nodes share a tracklet id exactly when the edge between them is the only edge
       leaving its source and the only edge entering its target, and
   (C) every tracklet is (weakly) connected.
   (L)/\(C) says the classes are exactly the maximal unbranched paths; the acyclicity hypothesis of
   the property is not even needed for this equivalence because the model has no cycle test. *)
Theorem C13_iff : forall E NL, wf_labelled E NL ->
  (invalid_tracklets E NL = [] <-> L_spec E NL /\ C_spec E NL).
Proof. exact tracklets_iff. Qed.
Print Assumptions C13_iff.

(* per class: the test passes iff the class is connected, all its inner edges are "linking"
   and no linking edge crosses its boundary -- i.e. it is a maximal unbranched path *)
Theorem C13_class_sound : forall E r T', NoDup (r :: T') ->
  check_class E (r :: T') = true -> class_ok E (r :: T').
Proof. exact check_class_sound. Qed.
Print Assumptions C13_class_sound.

Theorem C13_class_complete : forall E r T', NoDup (r :: T') ->
  class_ok E (r :: T') -> check_class E (r :: T') = true.
Proof. exact check_class_complete. Qed.
Print Assumptions C13_class_complete.

(* the messages name exactly the invalid tracklets *)
Theorem C13_names : forall E NL t, NoDup (nodes_of NL) ->
  (In t (invalid_tracklets E NL) <-> In t (labels_of NL) /\ ~ class_ok E (class_of NL t)).
Proof. exact tracklets_names. Qed.
Print Assumptions C13_names.

(* non-vacuity: a division 1->2, 1->3 with a chain 3->4.  {1},{2},{3,4} is valid;
   running a tracklet through the division ({1,3,4}) or cutting the chain ({3},{4}) is not. *)
Example C13_nonvacuous :
  let E := [(1, 2); (1, 3); (3, 4)] in
  wf_labelled E [(1, 10); (2, 20); (3, 30); (4, 30)] /\
  invalid_tracklets E [(1, 10); (2, 20); (3, 30); (4, 30)] = [] /\
  invalid_tracklets E [(1, 10); (2, 20); (3, 10); (4, 10)] = [10] /\
  invalid_tracklets E [(1, 10); (2, 20); (3, 30); (4, 40)] = [30; 40].
Proof.
  cbv zeta. split; [|vm_compute; repeat split].
  split.
  - repeat constructor; cbn; intuition discriminate.
  - intros e He. cbn in He. cbn. intuition (subst; cbn; auto).
Qed.

(* ===================================================================================================
   Graphs with cycles (TracksCyc.v: validate_tracklets with its cycle test, in the order of the code,
   with the message of each rejected tracklet; proofs in TracksCycLemmas.v).
   =================================================================================================== *)
From Coq Require Import Relations.
From Geff Require Import TracksCyc TracksCycLemmas.

(* has_cycle S: a non-empty directed walk from some x back to x (transitive closure of the edge relation;
   equivalently a list x, ..., x whose consecutive elements are joined by edges) *)
Theorem C13_has_cycle_walk : forall E, has_cycle E <-> has_closed_walk E.
Proof. exact has_cycle_walk. Qed.
Print Assumptions C13_has_cycle_walk.

(* the cycle test (Kahn peeling with fuel |T|) is sound on every finite digraph: no hypothesis at all *)
Theorem C13_kahn_sound : forall SE T, is_dag SE T = false -> has_cycle SE.
Proof. exact kahn_sound. Qed.
Print Assumptions C13_kahn_sound.

(* ... and complete on every digraph whose edges join nodes of T (any size, any degrees) *)
Theorem C13_kahn_complete : forall SE T,
  (forall e, In e SE -> In (fst e) T /\ In (snd e) T) -> has_cycle SE -> is_dag SE T = false.
Proof. exact kahn_complete. Qed.
Print Assumptions C13_kahn_complete.

(* as the code applies it, to the induced subgraph of a tracklet *)
Theorem C13_cycle_test : forall E T, is_dag (induced E T) T = true <-> ~ has_cycle (induced E T).
Proof. exact is_dag_induced. Qed.
Print Assumptions C13_cycle_test.

(* next(n for n, d in S.in_degree if d == 0) never raises StopIteration (nor anything else) *)
Theorem C13_never_raises : forall E NL, NoDup (nodes_of NL) -> exists v, validate_tracklets E NL = Ok v.
Proof. exact validate_never_raises. Qed.
Print Assumptions C13_never_raises.

(* the start / end node picked by next(...) does not depend on the iteration order of the subgraph view:
   once the degree and connectivity tests have passed, any node of in-degree (out-degree) 0 is THE one found *)
Theorem C13_start_node_unique : forall E r T' u, NoDup (r :: T') ->
  deg_ok (induced E (r :: T')) (r :: T') = true -> connected E (r :: T') = true ->
  In u (r :: T') -> preds (induced E (r :: T')) u = [] ->
  start_node (induced E (r :: T')) (r :: T') = Some u.
Proof. exact start_node_any. Qed.
Print Assumptions C13_start_node_unique.

Theorem C13_end_node_unique : forall E r T' u, NoDup (r :: T') ->
  deg_ok (induced E (r :: T')) (r :: T') = true -> connected E (r :: T') = true ->
  In u (r :: T') -> succs (induced E (r :: T')) u = [] ->
  end_node (induced E (r :: T')) (r :: T') = Some u.
Proof. exact end_node_any. Qed.
Print Assumptions C13_end_node_unique.

(* MAIN THEOREM, no acyclicity hypothesis: for every digraph (cycles, 2-cycles, self loops) and labelling
   (no size bound; node ids unique, edges between listed nodes) the validator returns (True, []) iff
   (L) adjacent nodes share a tracklet id exactly when their edge is the only one leaving its source and
       the only one entering its target,
   (C) every tracklet is weakly connected, and
   (P) no tracklet contains a directed cycle: there is no closed walk inside the subgraph induced by a class
       (so a class is a path, not a cycle; a cycle elsewhere in the graph is irrelevant). *)
Theorem C13_iff_all : forall E NL, wf_labelled E NL ->
  (validate_tracklets E NL = Ok (true, []) <-> spec_all E NL).
Proof. exact tracklets_iff_all. Qed.
Print Assumptions C13_iff_all.

(* on acyclic graphs the extended definition is (L)/\(C) ... *)
Theorem C13_spec_all_acyclic : forall E NL, acyclic E -> (spec_all E NL <-> L_spec E NL /\ C_spec E NL).
Proof. exact spec_all_acyclic. Qed.
Print Assumptions C13_spec_all_acyclic.

(* ... so the statement of the property (acyclic graphs) is a corollary, now for the validator with its cycle test *)
Corollary C13_iff_acyclic : forall E NL, acyclic E -> wf_labelled E NL ->
  (validate_tracklets E NL = Ok (true, []) <-> L_spec E NL /\ C_spec E NL).
Proof. exact tracklets_iff_acyclic. Qed.
Print Assumptions C13_iff_acyclic.

(* ... and the model of the first half (no cycle test) names the same tracklets *)
Theorem C13_models_agree_acyclic : forall E NL, acyclic E -> NoDup (nodes_of NL) ->
  exists l, validate_tracklets E NL = Ok (match l with [] => true | _ :: _ => false end, l) /\
            map fst l = invalid_tracklets E NL.
Proof.
  intros E NL Ha Hnd. destruct (validate_total E NL Hnd) as [l [H1 H2]]. exists l. split; [exact H1|].
  rewrite H2. apply invalid_all_acyclic. exact Ha.
Qed.
Print Assumptions C13_models_agree_acyclic.

(* the messages name exactly the invalid tracklets: those that are not a maximal unbranched path
   (class_ok: connected, inner edges linking, no linking edge across the boundary) or contain a cycle *)
Theorem C13_names_all : forall E NL b l t, NoDup (nodes_of NL) -> validate_tracklets E NL = Ok (b, l) ->
  (In t (map fst l) <-> In t (labels_of NL) /\ ~ class_ok_all E (class_of NL t)).
Proof. exact tracklets_names_all. Qed.
Print Assumptions C13_names_all.

(* "Cycle detected" is the message of t exactly when the subgraph induced by t has in/out-degrees <= 1
   (it is a disjoint union of simple paths and simple cycles) and contains a directed cycle *)
Theorem C13_cycle_message : forall E NL b l t, validate_tracklets E NL = Ok (b, l) ->
  (In (t, RCycle) l <->
   In t (labels_of NL) /\ deg_ok (induced E (class_of NL t)) (class_of NL t) = true /\
   has_cycle (induced E (class_of NL t))).
Proof. exact cycle_message. Qed.
Print Assumptions C13_cycle_message.

(* non-vacuity on cyclic graphs.  E3 = simple cycle 1->2->3->1 next to a chain 4->5.
   One label on the cycle: "Cycle detected" (and only that tracklet is named); cutting the cycle anywhere gives
   "not maximal"; so no labelling of a graph with an isolated cycle is valid, while the chain {4,5} is accepted.
   2-cycle 1->2->1 and self loop 1->1: "Cycle detected".  A cycle through a division (1->2->1, 2->3) with {1,2}:
   the degree test passes, the cycle test fires first.  A cycle outside the tracklets (1->2->1 where both nodes
   also feed the merge 3) does not hurt: {1},{2},{3} is valid although the graph is cyclic. *)
Example C13_nonvacuous_cyclic :
  let E3 := [(1, 2); (2, 3); (3, 1); (4, 5)] in
  wf_labelled E3 [(1, 7); (2, 7); (3, 7); (4, 8); (5, 8)] /\
  has_cycle E3 /\ has_cycle [(1, 2); (2, 1); (1, 3); (2, 3)] /\
  validate_tracklets E3 [(1, 7); (2, 7); (3, 7); (4, 8); (5, 8)] = Ok (false, [(7, RCycle)]) /\
  validate_tracklets E3 [(1, 7); (2, 7); (3, 9); (4, 8); (5, 8)] = Ok (false, [(7, RBack 3); (9, RBack 2)]) /\
  validate_tracklets [(1, 2); (2, 1)] [(1, 7); (2, 7)] = Ok (false, [(7, RCycle)]) /\
  validate_tracklets [(1, 1)] [(1, 7)] = Ok (false, [(7, RCycle)]) /\
  validate_tracklets [(1, 2); (2, 1); (2, 3)] [(1, 7); (2, 7); (3, 8)] = Ok (false, [(7, RCycle)]) /\
  invalid_tracklets [(1, 2); (2, 1)] [(1, 7); (2, 7)] = [] /\
  validate_tracklets [(1, 2); (2, 1); (1, 3); (2, 3)] [(1, 7); (2, 8); (3, 9)] = Ok (true, []).
Proof.
  cbv zeta. split; [|split; [|split; [|vm_compute; repeat split]]].
  - split.
    + repeat constructor; cbn; intuition discriminate.
    + intros e He. cbn in He. cbn. intuition (subst; cbn; auto).
  - exists 1. apply (t_trans _ _ 1 2 1); [apply t_step; unfold estep; cbn; tauto|].
    apply (t_trans _ _ 2 3 1); apply t_step; unfold estep; cbn; tauto.
  - exists 1. apply (t_trans _ _ 1 2 1); apply t_step; unfold estep; cbn; tauto.
Qed.

(* ---------------------------------------------------------------------------------------------------
   "maximal unbranched path", literally (TracksPathLemmas.v): is_path E T -- the nodes of T can be listed
   x1..xk without repetition so that the edges of the graph among them are exactly x1->x2, .., x(k-1)->xk.
   --------------------------------------------------------------------------------------------------- *)
From Geff Require Import TracksPathLemmas.

(* a class passes (is not named) iff it is a simple directed path whose edges are all "the only edge leaving its
   source and entering its target" and which no such edge of the graph enters or leaves *)
Theorem C13_class_path_iff : forall E r T', NoDup (r :: T') ->
  (class_ok_all E (r :: T') <-> max_unbranched_path E (r :: T')).
Proof. exact path_class_iff. Qed.
Print Assumptions C13_class_path_iff.

(* (L)/\(C)/\(P) is: every tracklet is a maximal unbranched path *)
Theorem C13_spec_all_paths : forall E NL, wf_labelled E NL -> (spec_all E NL <-> spec_paths E NL).
Proof. exact spec_all_paths. Qed.
Print Assumptions C13_spec_all_paths.

(* the validator returns (True, []) iff every tracklet is a maximal unbranched path of the graph (any digraph) *)
Theorem C13_iff_paths : forall E NL, wf_labelled E NL ->
  (validate_tracklets E NL = Ok (true, []) <-> spec_paths E NL).
Proof. exact tracklets_iff_paths. Qed.
Print Assumptions C13_iff_paths.

(* non-vacuity: in 1->2->3 with a division at 3 (3->4, 3->5) the class {1,2,3} is a maximal unbranched path
   (listing 1,2,3); the ring 1->2->3->1 is not a path *)
Example C13_paths_nonvacuous :
  max_unbranched_path [(1, 2); (2, 3); (3, 4); (3, 5)] [2; 3; 1] /\
  ~ max_unbranched_path [(1, 2); (2, 3); (3, 1)] [1; 2; 3].
Proof.
  split.
  - apply path_class_iff; [repeat constructor; cbn; intuition discriminate|].
    apply check_class_all_spec; [repeat constructor; cbn; intuition discriminate | vm_compute; reflexivity].
  - intros H. apply path_class_iff in H; [|repeat constructor; cbn; intuition discriminate].
    apply check_class_all_spec in H; [|repeat constructor; cbn; intuition discriminate]. vm_compute in H. discriminate.
Qed.

(* ---------------------------------------------------------------------------------------------------
   Nodes without a tracklet id (DataValLemmas.v).  validate_data removes the nodes whose tracklet id is flagged missing
   from the node list but passes ALL the edges, so edges mention ids that carry no label: wf_labelled fails and
   C13_iff_all / C13_iff_paths do not apply.  The path characterisation needs no such hypothesis:
   --------------------------------------------------------------------------------------------------- *)
From Geff Require Import DataValLemmas.

(* for EVERY edge list (endpoints outside the node list allowed; their degrees count, as in the networkx graph G) the
   validator returns (True, []) iff every tracklet is a maximal unbranched simple path of the graph; an unlabelled node
   joined to the end of a tracklet by an edge that is the only one leaving its source and entering its target makes the
   tracklet not maximal *)
Theorem C13_iff_paths_any : forall E NL, NoDup (nodes_of NL) ->
  (validate_tracklets E NL = Ok (true, []) <-> spec_paths E NL).
Proof. exact tracklets_iff_paths_any. Qed.
Print Assumptions C13_iff_paths_any.

(* non-vacuity: chain 1->2->3->4 with node 2 unlabelled: {1} can be extended forward to 2 and {3,4} backward to 2, both are
   named; division 1->2, 1->3 with node 1 unlabelled: {2} and {3} are maximal unbranched paths (the edges from 1 leave a
   division), accepted -- and through the theorem: they ARE maximal unbranched paths of the graph *)
Example C13_unlabelled_nonvacuous :
  validate_tracklets [(1, 2); (2, 3); (3, 4)] [(1, 7); (3, 8); (4, 8)] = Ok (false, [(7, RFwd 2); (8, RBack 2)]) /\
  validate_tracklets [(1, 2); (1, 3)] [(2, 7); (3, 8)] = Ok (true, []) /\
  spec_paths [(1, 2); (1, 3)] [(2, 7); (3, 8)] /\
  ~ spec_paths [(1, 2); (2, 3); (3, 4)] [(1, 7); (3, 8); (4, 8)].
Proof.
  split; [vm_compute; reflexivity|]. split; [vm_compute; reflexivity|]. split.
  - apply C13_iff_paths_any; [repeat constructor; cbn; intuition discriminate | vm_compute; reflexivity].
  - intros H. apply C13_iff_paths_any in H; [|repeat constructor; cbn; intuition discriminate]. vm_compute in H. discriminate.
Qed.
