(* props/C13.v -- C13: tracklet validation decides the documented tracklet definition. *)
From Geff Require Import Base GraphVal Reach Tracks TracksLemmas.
From Geff Require Import TracksCyc.
Open Scope Z_scope.
Open Scope list_scope.

(* For every graph and labelling (no size bound; node ids unique, edges between listed nodes):
   the validator accepts iff
   (L) two adjacent nodes share a tracklet id exactly when the edge between them is the only edge
       leaving its source and the only edge entering its target, and
   (C) every tracklet is (weakly) connected.
   (L)/\(C) says the classes are exactly the maximal unbranched paths; the acyclicity hypothesis of
   the property is not even needed for this equivalence because the model has no cycle test. *)
Theorem C13_iff : forall E NL, wf_labelled E NL ->
  (invalid_tracklets E NL = [] <-> L_spec E NL /\ C_spec E NL).
Proof. exact tracklets_iff. Qed.
Print Assumptions C13_iff.

(* per class: the test passes iff the class is connected, all its inner edges are "linking"
   and no linking edge crosses its boundary -- i.e. it is a maximal unbranched path *)
Theorem C13_class_sound : forall E r T', NoDup (r :: T') ->
  check_class E (r :: T') = true -> class_ok E (r :: T').
Proof. exact check_class_sound. Qed.
Print Assumptions C13_class_sound.

Theorem C13_class_complete : forall E r T', NoDup (r :: T') ->
  class_ok E (r :: T') -> check_class E (r :: T') = true.
Proof. exact check_class_complete. Qed.
Print Assumptions C13_class_complete.

(* the messages name exactly the invalid tracklets *)
Theorem C13_names : forall E NL t, NoDup (nodes_of NL) ->
  (In t (invalid_tracklets E NL) <-> In t (labels_of NL) /\ ~ class_ok E (class_of NL t)).
Proof. exact tracklets_names. Qed.
Print Assumptions C13_names.

(* non-vacuity: a division 1->2, 1->3 with a chain 3->4.  {1},{2},{3,4} is valid;
   running a tracklet through the division ({1,3,4}) or cutting the chain ({3},{4}) is not. *)
Example C13_nonvacuous :
  let E := [(1, 2); (1, 3); (3, 4)] in
  wf_labelled E [(1, 10); (2, 20); (3, 30); (4, 30)] /\
  invalid_tracklets E [(1, 10); (2, 20); (3, 30); (4, 30)] = [] /\
  invalid_tracklets E [(1, 10); (2, 20); (3, 10); (4, 10)] = [10] /\
  invalid_tracklets E [(1, 10); (2, 20); (3, 30); (4, 40)] = [30; 40].
Proof.
  cbv zeta. split; [|vm_compute; repeat split].
  split.
  - repeat constructor; cbn; intuition discriminate.
  - intros e He. cbn in He. cbn. intuition (subst; cbn; auto).
Qed.

(* ---- the code's cycle test (nx.is_directed_acyclic_graph on the tracklet's subgraph), found missing from the model by replaying the
   repository's own test inputs (DESIGN_NOTES/harvest.md).  invalid_tracklets_c = the validator with the test (the model the
   correspondence now evaluates).  On a graph without closed walks -- the graphs the property quantifies over -- the test never fires,
   so the model with the test decides the documented definition exactly as above. ---- *)
Theorem C13_cycle_test_silent_on_acyclic : forall E NL, acyclic E ->
  invalid_tracklets_c E NL = invalid_tracklets E NL.
Proof. exact invalid_tracklets_c_acyclic. Qed.
Print Assumptions C13_cycle_test_silent_on_acyclic.

Theorem C13_iff_with_cycle_test : forall E NL, wf_labelled E NL -> acyclic E ->
  (invalid_tracklets_c E NL = [] <-> L_spec E NL /\ C_spec E NL).
Proof. exact tracklets_c_iff. Qed.
Print Assumptions C13_iff_with_cycle_test.

(* the cycle test is sound and complete for what it is meant to detect: it passes on every class of a graph without closed walks, and a
   class in which every node has a predecessor inside the class (a directed cycle, a self-loop) is rejected *)
Theorem C13_cycle_test_passes : forall E T, acyclic E -> is_dag (induced E T) T = true.
Proof. exact is_dag_of_acyclic. Qed.
Print Assumptions C13_cycle_test_passes.

Theorem C13_cycle_rejected : forall E T r, In r T ->
  (forall u, In u T -> exists p, In p T /\ In (p, u) E) -> check_class_c E T = false.
Proof. exact cycle_class_rejected. Qed.
Print Assumptions C13_cycle_rejected.

(* non-vacuity: the harvested input (packages/geff/tests/test_validate/test_tracks.py, "Cycle in tracklet"): the 3-cycle 1->2->3->1
   labelled as one tracklet passes every other test (it satisfies (L) and (C)) and is rejected by the cycle test alone; the chain
   1->2->3 is acyclic and accepted by both. *)
Example C13_cycle_nonvacuous :
  invalid_tracklets [(1, 2); (2, 3); (3, 1)] [(1, 10); (2, 10); (3, 10)] = [] /\
  invalid_tracklets_c [(1, 2); (2, 3); (3, 1)] [(1, 10); (2, 10); (3, 10)] = [10] /\
  invalid_tracklets_c [(1, 2); (2, 3)] [(1, 10); (2, 10); (3, 10)] = [] /\
  acyclic [(1, 2); (2, 3)].
Proof.
  repeat split; try (vm_compute; reflexivity).
  intros u Hw.
  assert (forall a b, walk [(1, 2); (2, 3)] a b -> a < b) as Hlt.
  { intros a b H. induction H as [a b H|a w b H _ IH].
    - cbn in H. destruct H as [H|[H|[]]]; inversion H; subst; reflexivity.
    - cbn in H. destruct H as [H|[H|[]]]; inversion H; subst; eapply Z.lt_trans; try exact IH; reflexivity. }
  apply Hlt in Hw. apply Z.lt_irrefl in Hw. exact Hw.
Qed.
