(* props/C13.v -- C13: tracklet validation decides the documented tracklet definition. *)
From Geff Require Import Base GraphVal Reach Tracks TracksLemmas.
Open Scope Z_scope.
Open Scope list_scope.

(* For every graph and labelling (no size bound; node ids unique, edges between listed nodes):
   the validator accepts iff
   (L) two adjacent nodes share a tracklet id exactly when the edge between them is the only edge
       leaving its source and the only edge entering its target, and
   (C) every tracklet is (weakly) connected.
   (L)/\(C) says the classes are exactly the maximal unbranched paths; the acyclicity hypothesis of
   the property is not even needed for this equivalence because the model has no cycle test. *)
Theorem C13_iff : forall E NL, wf_labelled E NL ->
  (invalid_tracklets E NL = [] <-> L_spec E NL /\ C_spec E NL).
Proof. exact tracklets_iff. Qed.
Print Assumptions C13_iff.

(* per class: the test passes iff the class is connected, all its inner edges are "linking"
   and no linking edge crosses its boundary -- i.e. it is a maximal unbranched path *)
Theorem C13_class_sound : forall E r T', NoDup (r :: T') ->
  check_class E (r :: T') = true -> class_ok E (r :: T').
Proof. exact check_class_sound. Qed.
Print Assumptions C13_class_sound.

Theorem C13_class_complete : forall E r T', NoDup (r :: T') ->
  class_ok E (r :: T') -> check_class E (r :: T') = true.
Proof. exact check_class_complete. Qed.
Print Assumptions C13_class_complete.

(* the messages name exactly the invalid tracklets *)
Theorem C13_names : forall E NL t, NoDup (nodes_of NL) ->
  (In t (invalid_tracklets E NL) <-> In t (labels_of NL) /\ ~ class_ok E (class_of NL t)).
Proof. exact tracklets_names. Qed.
Print Assumptions C13_names.

(* non-vacuity: a division 1->2, 1->3 with a chain 3->4.  {1},{2},{3,4} is valid;
   running a tracklet through the division ({1,3,4}) or cutting the chain ({3},{4}) is not. *)
Example C13_nonvacuous :
  let E := [(1, 2); (1, 3); (3, 4)] in
  wf_labelled E [(1, 10); (2, 20); (3, 30); (4, 30)] /\
  invalid_tracklets E [(1, 10); (2, 20); (3, 30); (4, 30)] = [] /\
  invalid_tracklets E [(1, 10); (2, 20); (3, 10); (4, 10)] = [10] /\
  invalid_tracklets E [(1, 10); (2, 20); (3, 30); (4, 40)] = [30; 40].
Proof.
  cbv zeta. split; [|vm_compute; repeat split].
  split.
  - repeat constructor; cbn; intuition discriminate.
  - intros e He. cbn in He. cbn. intuition (subst; cbn; auto).
Qed.
