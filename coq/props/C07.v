(* props/C07.v -- C07: metadata objects always satisfy the format's invariants. *)
From Geff Require Import Base Meta MetaLemmas MetaDtypeLemmas Json Schema MetaJson MetaJsonLemmas MetaDomainLemmas MetaAlias MetaAliasLemmas.
From Geff.Gen Require Import Consts.
Open Scope string_scope.
Open Scope Z_scope.
Open Scope list_scope.

(* Vocabulary (MetaLemmas.v):
   run gv [] ops      the live GeffMetadata objects after any sequence of constructions / parses,
                      top-level assignments, copies and utils.py helper calls (gv = GEFF_VERSION);
   Inv m              the invariants of the property text, with  min <= max  as IEEE comparison;
   InvW m             the same with  not (min > max)  -- what the code tests; equal to Inv unless an
                      axis bound is NaN (C07_gap_is_nan);
   C07_invariants_meaning spells both out in the order of the property text. *)

(* ---------------------------------------------------------------- the invariants, spelled out *)
Theorem C07_invariants_meaning : forall ord m,
  Inv_gen ord m <->
  version_matches (md_version m) /\
  NoDup (axis_names m) /\
  (forall h, md_hints m = Some h -> forall n, In n (hint_names h) -> In n (axis_names m)) /\
  (forall k p, In (k, p) (md_node_props m ++ md_edge_props m) -> k = pm_identifier p /\ In (pm_dtype p) valid_dtypes) /\
  (forall a, In a (olist (md_axes m)) ->
     (ax_min a = None <-> ax_max a = None) /\
     (forall lo hi, ax_min a = Some lo -> ax_max a = Some hi -> ord lo hi) /\
     (has_unit (ax_scaled_unit a) -> ax_scale a <> None)) /\
  (forall r, In r (olist (md_related m)) -> ro_label_prop r <> None -> ro_type r = "labels").
Proof. exact Inv_gen_unfold. Qed.
Print Assumptions C07_invariants_meaning.

(* ---------------------------------------------------------------- the full statement *)
(* Every object reachable by any operation sequence satisfies the invariants of the property text. *)
Definition C07_full : Prop :=
  forall gv ops, version_ok gv = true -> Forall Inv (run gv [] ops).

(* Refuted on the faithful model: Axis(name="x", min=nan, max=1) is accepted (open finding nan-axis-bound). *)
Theorem C07_inv_refuted : ~ C07_full.
Proof. exact inv_full_refuted. Qed.
Print Assumptions C07_inv_refuted.

Theorem C07_inv_refuted_witness :
  exists gv ops m, version_ok gv = true /\ In m (run gv [] ops) /\ ~ Inv m.
Proof. exact inv_refuted. Qed.
Print Assumptions C07_inv_refuted_witness.

(* Strongest provable part: for ALL operation sequences (no bound), every live object satisfies every
   invariant, with  min <= max  weakened to  not (min > max) ... *)
Theorem C07_inv_partial : forall gv ops, version_ok gv = true -> Forall InvW (run gv [] ops).
Proof. exact reachable_inv. Qed.
Print Assumptions C07_inv_partial.

(* ... which is the full invariant for every object none of whose axis bounds is NaN: the only
   excluded inputs are NaN bounds. *)
Theorem C07_inv_nan_free : forall gv ops m,
  version_ok gv = true -> In m (run gv [] ops) -> nan_free m -> Inv m.
Proof. exact reachable_nan_free_inv. Qed.
Print Assumptions C07_inv_nan_free.

Theorem C07_gap_is_nan : forall m, nan_free m -> (Inv m <-> InvW m).
Proof. exact nan_gap. Qed.
Print Assumptions C07_gap_is_nan.

(* one step: whatever the pool, an operation keeps every live object valid *)
Theorem C07_step_preserves : forall gv p o,
  version_ok gv = true -> Forall InvW p -> Forall InvW (fst (step gv p o)).
Proof. exact step_inv. Qed.
Print Assumptions C07_step_preserves.

(* ---------------------------------------------------------------- failed operations change nothing *)
(* C07_atomic and C07_frame are DEFINITIONAL on the pool model of Meta.v: `assign` returns its argument on an
   error and `push` leaves the pool alone, by definition, and a copy is the identity because pool entries are
   values.  They record how the pool model is built and do not cover the clause "leaves the object as it was";
   the statements with content are C07_alias_atomic / C07_alias_frame below, on the model in which
   PropMetadata instances are shared heap cells that add_or_update_props_metadata overwrites in place and in
   which __setattr__ stores the value before the after-validator runs and then restores its snapshot. *)
Theorem C07_atomic : forall gv p o p' e, step gv p o = (p', Err e) -> p' = p.
Proof. exact step_atomic. Qed.
Print Assumptions C07_atomic.

(* A successful assignment changes its target only; every other operation only adds its result
   (helpers and copies never modify the objects they are given). *)
Theorem C07_frame : forall gv p o p', step gv p o = (p', Ok tt) -> frame p o p'.
Proof. exact step_frame. Qed.
Print Assumptions C07_frame.

(* ---------------------------------------------------------------- assignment raises exactly when it must *)
(* If the value passes the field's own validator, giving the would-be object m1, then the
   assignment succeeds and produces exactly m1 when m1 satisfies the invariants, and raises a
   validation error leaving the object unchanged when m1 breaks one. *)
(* assign_in_scope f v / construct_in_scope kvs (MetaDtypeLemmas) delimit the inputs on which the model's
   reading of the two lax parsers it depends on is claimed to be, and is tied by the correspondence to be, the
   library's: dtype strings without control characters, without , ( ) and not starting with a digit
   (Meta.dtype_in_scope: outside, numpy runs its comma-string parser, e.g. "()i4" is int32); strings offered to
   the float fields of an Axis that hold no digit and no letter n (pydantic parses "1.5", " 1", "nan", "1_0");
   ints offered to them within +-2^53; ASCII version strings (pydantic's \d is Unicode).  The hypotheses are
   not used by the proofs -- the statements hold of the MODEL for every input -- they say where the model is
   the code. *)
Theorem C07_assign_decides : forall m f v m1, assign_in_scope f v = true -> InvW m -> set_field m f v = Ok m1 ->
  (InvW m1 -> assign m f v = (m1, Ok tt)) /\ (~ InvW m1 -> assign m f v = (m, Err ValueError)).
Proof. intros m f v m1 _. exact (assign_decides m f v m1). Qed.
Print Assumptions C07_assign_decides.

Theorem C07_assign_field_error : forall m f v e, set_field m f v = Err e -> assign m f v = (m, Err e).
Proof. exact assign_field_error. Qed.
Print Assumptions C07_assign_field_error.

(* construction / parsing succeeds exactly when the fields validate and the object satisfies the invariants *)
Theorem C07_construct_decides : forall gv kvs m, construct_in_scope kvs = true -> version_ok gv = true ->
  (construct gv (JObj kvs) = Ok m <-> md_fields gv kvs = Ok m /\ InvW m).
Proof. intros gv kvs m _. exact (construct_iff gv kvs m). Qed.
Print Assumptions C07_construct_decides.

(* ---------------------------------------------------------------- the nested validators *)
Theorem C07_axis_validator : forall a a', axis_after a = Ok a' <-> a' = a /\ axis_inv_gen not_gt a.
Proof. exact axis_after_iff. Qed.
Print Assumptions C07_axis_validator.

Theorem C07_related_validator : forall r r', related_after r = Ok r' <-> r' = r /\ related_inv r.
Proof. exact related_after_iff. Qed.
Print Assumptions C07_related_validator.

Theorem C07_dtype_allowed : forall v n, convert_dtype v = Ok n -> In n valid_dtypes.
Proof. exact convert_dtype_valid. Qed.
Print Assumptions C07_dtype_allowed.

(* what _convert_dtype does to a STRING: numpy's allowed name for it (np_valid_name: byte-order character, one type
   character | kind + size read by strtol | a name of numpy's type dictionary), otherwise a validation error --
   whatever class numpy raised (as repaired: SyntaxError for "," / "i4,," included).  The finite table np_names
   never changes an outcome. *)
Theorem C07_dtype_decides : forall s,
  convert_dtype (JStr s) = match np_valid_name s with Some n => Ok n | None => Err ValueError end.
Proof. exact convert_dtype_str. Qed.
Print Assumptions C07_dtype_decides.

Theorem C07_dtype_names_allowed : forall s n, np_valid_name s = Some n -> In n valid_dtypes /\ n <> "".
Proof. exact np_valid_name_valid. Qed.
Print Assumptions C07_dtype_names_allowed.

(* pydantic's lax bool parsing of a string: the ASCII-lower-cased string is one of the six true / six false words *)
Theorem C07_bool_strings : forall s b,
  v_bool (JStr s) = Ok b <->
  (b = true /\ In (lower s) ["1"; "true"; "t"; "yes"; "y"; "on"]) \/ (b = false /\ In (lower s) ["0"; "false"; "f"; "no"; "n"; "off"]).
Proof. exact v_bool_str. Qed.
Print Assumptions C07_bool_strings.

Theorem C07_bool_case_insensitive : forall s s', lower s = lower s' -> v_bool (JStr s) = v_bool (JStr s').
Proof. exact v_bool_case_insensitive. Qed.
Print Assumptions C07_bool_case_insensitive.

Theorem C07_axes_from_lists : forall ls l, axes_from_lists ls = Ok l -> Forall (axis_inv_gen not_gt) l.
Proof. exact axes_from_lists_inv. Qed.
Print Assumptions C07_axes_from_lists.

(* ---------------------------------------------------------------- more than the listed invariants *)
(* every reachable object also satisfies what the nested validators guarantee beyond the property's list:
   axis types are among the allowed ones, identifiers are not empty, track keys are lineage / tracklet
   (inv_struct = C08's validity domain without finiteness; it implies InvW) *)
Theorem C07_reachable_struct : forall gv ops m, version_ok gv = true -> In m (run gv [] ops) -> inv_struct m = true.
Proof. exact reachable_struct. Qed.
Print Assumptions C07_reachable_struct.

Theorem C07_struct_implies_inv : forall m, inv_struct m = true -> InvW m.
Proof. exact inv_struct_InvW. Qed.
Print Assumptions C07_struct_implies_inv.

(* ---------------------------------------------------------------- shared PropMetadata instances (MetaAlias.v) *)
(* arun gv empty_state ops: the same operations on a heap of PropMetadata instances; `views` = what model_dump()
   shows of every live object.  AConstruct / AAssign say for which keys the caller passed ONE instance in both
   property dictionaries.  Whatever is shared, every live object satisfies the invariants ... *)
Theorem C07_alias_inv : forall gv ops, version_ok gv = true -> Forall InvW (views (arun gv empty_state ops)).
Proof. exact alias_reachable_inv. Qed.
Print Assumptions C07_alias_inv.

Theorem C07_alias_struct : forall gv ops m,
  version_ok gv = true -> In m (views (arun gv empty_state ops)) -> inv_struct m = true.
Proof. exact alias_reachable_struct. Qed.
Print Assumptions C07_alias_struct.

(* ... an operation that raises leaves the view of every live object as it was (a rejected assignment: the value was
   stored into NEW cells and __setattr__ restored its snapshot; a rejected helper call: only cells of its own deep
   copy were written; state_ok is the invariant of reachable states, C07_alias_state_ok) ... *)
Theorem C07_alias_atomic : forall gv s o s' e,
  version_ok gv = true -> state_ok s -> astep gv s o = (s', Err e) -> views s' = views s.
Proof. exact alias_atomic. Qed.
Print Assumptions C07_alias_atomic.

(* ... and a successful operation changes the view of no live object but the target of an assignment, although
   add_or_update_props_metadata overwrites instances in place: it does so in cells its deep copy allocated *)
Theorem C07_alias_frame : forall gv s o s',
  version_ok gv = true -> state_ok s -> astep gv s o = (s', Ok tt) -> frame (views s) (erase o) (views s').
Proof. exact alias_frame. Qed.
Print Assumptions C07_alias_frame.

Theorem C07_alias_state_ok : forall gv ops, version_ok gv = true -> state_ok (arun gv empty_state ops).
Proof. intros gv ops Hg. apply arun_state_ok; [exact Hg | exact empty_state_ok]. Qed.
Print Assumptions C07_alias_state_ok.

(* no operation writes into a cell that existed before it *)
Theorem C07_alias_heap_monotone : forall gv s o,
  version_ok gv = true -> state_ok s -> ext (as_heap s) (as_heap (fst (astep gv s o))).
Proof. exact alias_heap_monotone. Qed.
Print Assumptions C07_alias_heap_monotone.

(* the aliasing is real: with one instance under "a" in both dictionaries an update of the node entry shows in
   the edge entry (of the result, not of the original); without sharing, and in the pool model, it does not *)
Theorem C07_alias_example :
  map dtypes_of (views (arun "1.3" empty_state [AConstruct alias_kw ["a"]; AAddProps 0 alias_upd (JStr "node")]))
    = [(["int8"], ["int8"]); (["float64"], ["float64"])]
  /\ map dtypes_of (views (arun "1.3" empty_state [AConstruct alias_kw []; AAddProps 0 alias_upd (JStr "node")]))
    = [(["int8"], ["int8"]); (["float64"], ["int8"])]
  /\ map dtypes_of (run "1.3" [] [OConstruct alias_kw; OAddProps 0 alias_upd (JStr "node")])
    = [(["int8"], ["int8"]); (["float64"], ["int8"])].
Proof. exact alias_example. Qed.
Print Assumptions C07_alias_example.

(* ---------------------------------------------------------------- the version pattern *)
(* the source's VERSION_PATTERN (regenerated into Gen/Consts.v on every run) is the literal whose
   language version_re transcribes ... *)
Theorem C07_version_pattern_literal :
  version_pattern = "^\d+\.\d+(?:\.\d+)?(?:\.dev\d+)?(?:\+[a-zA-Z0-9]+)?".
Proof. reflexivity. Qed.
Print Assumptions C07_version_pattern_literal.

(* ... read by a small parser of the regular-expression syntax (^, \d, escaped characters, (?:...),
   [a-zA-Z0-9], + and ?): the source's pattern denotes version_re, so a changed pattern breaks this *)
Theorem C07_version_pattern_parses : parse_anchored version_pattern = Some version_re.
Proof. exact version_pattern_parses. Qed.
Print Assumptions C07_version_pattern_parses.

(* ... and the model's matcher accepts exactly the strings with a prefix in that language *)
Theorem C07_version_decides : forall s, version_ok s = true <-> version_matches s.
Proof. exact version_ok_iff. Qed.
Print Assumptions C07_version_decides.

(* ---------------------------------------------------------------- non-vacuity *)
Definition ex_axis (n : string) : jv := JObj [("name", JStr n)].
Definition ex_kw : jv :=
  JObj [("directed", JBool true);
        ("node_props_metadata", JObj [("a", JObj [("identifier", JStr "a"); ("dtype", JStr "<i4")])]);
        ("edge_props_metadata", JObj []);
        ("axes", JList [JObj [("name", JStr "x"); ("min", JInt 0); ("max", JFlt (Fin 1536)); ("scale", JFlt (Fin 512));
                              ("scaled_unit", JStr "micrometer")]; ex_axis "y"]);
        ("display_hints", JObj [("display_horizontal", JStr "x"); ("display_vertical", JStr "y")]);
        ("related_objects", JList [JObj [("type", JStr "labels"); ("path", JStr "seg/"); ("label_prop", JStr "seg_id")]])].
Definition ex_ops : list op :=
  [OConstruct ex_kw;
   OAssign 0 FAxes (JList [ex_axis "x"; ex_axis "x"]);                (* duplicate names: rejected *)
   OAssign 0 FAxes JNull;                                             (* orphans the display hints: rejected *)
   OAssign 0 FNodeProps (JObj [("b", JObj [("identifier", JStr "a"); ("dtype", JStr "int8")])]);  (* key <> identifier *)
   OAssign 0 FHints JNull;                                            (* accepted *)
   OAssign 0 FAxes (JList [ex_axis "z"]);                             (* accepted now *)
   OUpdateAxes 0 (mkAL (Some [JStr "t"; JStr "y"]) None (Some [JStr "time"; JStr "space"]) None None None None None);
   OAddProps 1 (JList [JObj [("identifier", JStr "a"); ("dtype", JStr "float")];
                       JObj [("identifier", JStr "w"); ("dtype", JStr "U")]]) (JStr "node");
   OAddProps 1 (JList [JObj [("identifier", JStr "h"); ("dtype", JStr "float16")]]) (JStr "node");   (* dtype not allowed *)
   OConstruct (JObj [("directed", JBool true); ("node_props_metadata", JObj []); ("edge_props_metadata", JObj []);
                     ("geff_version", JStr "v1")])].                  (* version does not match *)

Fixpoint outcomes (gv : string) (p : pool) (ops : list op) : list bool :=
  match ops with [] => [] | o :: r => is_ok (snd (step gv p o)) :: outcomes gv (fst (step gv p o)) r end.

Example C07_nonvacuous :
  version_ok "1.3" = true /\ version_ok "0.3.1.dev6+g61d5f18" = true /\ version_ok "1.2x" = true /\
  version_ok "1." = false /\ version_ok "abc.def" = false /\
  outcomes "1.3" [] ex_ops
    = [true; false; false; false; true; true; true; true; false; false] /\
  List.length (run "1.3" [] ex_ops) = 3%nat /\
  map axis_names (run "1.3" [] ex_ops) = [["z"]; ["t"; "y"]; ["t"; "y"]] /\
  map (fun m => map fst (md_node_props m)) (run "1.3" [] ex_ops) = [["a"]; ["a"]; ["a"; "w"]] /\
  map (fun m => map (fun kv => pm_dtype (snd kv)) (md_node_props m)) (run "1.3" [] ex_ops) = [["int32"]; ["int32"]; ["float64"; "str"]] /\
  Forall nan_free (run "1.3" [] ex_ops).
Proof.
  vm_compute. repeat split; repeat constructor; discriminate.
Qed.

(* the scope hypotheses of the _decides theorems are satisfiable by the example (and fail on "()i4", "1.5" for a bound) *)
Example C07_nonvacuous_scope :
  match ex_kw with JObj kvs => construct_in_scope kvs | _ => false end = true /\
  assign_in_scope FAxes (JList [ex_axis "x"; ex_axis "x"]) = true /\
  assign_in_scope FNodeProps (JObj [("b", JObj [("identifier", JStr "a"); ("dtype", JStr "=i4")])]) = true /\
  assign_in_scope FNodeProps (JObj [("b", JObj [("identifier", JStr "a"); ("dtype", JStr "()i4")])]) = false /\
  assign_in_scope FAxes (JList [JObj [("name", JStr "x"); ("min", JStr "1.5"); ("max", JInt 2)]]) = false /\
  map np_valid_name ["l"; "=i4"; "|u1"; "U0"; "i 4"; "S0"; "ulonglong"; "int8 "; "<int8"; "i3"; "f2"; ","; "i4,,"]
    = [Some "int64"; Some "int32"; Some "uint8"; Some "str"; Some "int32"; Some "bytes"; Some "uint64"; None; None; None; None; None; None] /\
  map (fun s => v_bool (JStr s)) ["TRUE"; "Yes"; "oFf"; " yes"; "1.0"] = [Ok true; Ok true; Ok false; Err ValueError; Err ValueError].
Proof. vm_compute. repeat split. Qed.

(* the heap model is exercised with sharing, a rejected assignment that had stored shared and new instances, and helpers *)
Example C07_nonvacuous_alias :
  let ops := [AConstruct alias_kw ["a"];
              AAssign 0%nat FNodeProps (JObj [("a", JObj [("identifier", JStr "a"); ("dtype", JStr "int8")]);
                                          ("q", JObj [("identifier", JStr "z"); ("dtype", JStr "int8")])]) ["a"];   (* key <> identifier: rejected *)
              ACopy 0%nat CDeep; AAddProps 1%nat alias_upd (JStr "edge"); ACopy 0%nat CRebuild; AAddProps 3%nat alias_upd (JStr "edge");
              ACreateOrUpdate (Some 0%nat) (JStr "maybe") JNull] in
  map dtypes_of (views (arun "1.3" empty_state ops))
    = [(["int8"], ["int8"]); (["int8"], ["int8"]); (["float64"], ["float64"]); (["int8"], ["int8"]); (["int8"], ["float64"])].
Proof. vm_compute. reflexivity. Qed.
