(* props/C14.v -- C14: lineage validation decides the documented lineage definition. *)
From Geff Require Import Base GraphVal Reach Tracks TracksLemmas.
Open Scope Z_scope.
Open Scope list_scope.

(* For every directed graph (cycles allowed, edges may mention ids absent from the node list) and
   every labelling with unique node ids: the validator accepts iff nodes share a lineage id exactly
   when they are weakly connected, and no listed node is connected to an id outside the node list. *)
Theorem C14_iff : forall E NL, NoDup (nodes_of NL) ->
  (invalid_lineages E NL = [] <-> lineage_spec E NL).
Proof. exact lineages_iff. Qed.
Print Assumptions C14_iff.

(* per lineage: the test passes iff the class is exactly the connected component of its first node *)
Theorem C14_class : forall E V r T', NoDup V -> In r V ->
  (check_lineage E V (r :: T') = true <-> forall x, In x (r :: T') <-> conn E V r x).
Proof. exact check_lineage_spec. Qed.
Print Assumptions C14_class.

(* the messages name exactly the lineages whose class fails the component test *)
Theorem C14_names : forall E NL t,
  In t (invalid_lineages E NL) <-> In t (labels_of NL) /\ check_lineage E (all_nodes E NL) (class_of NL t) = false.
Proof. intros E NL t. unfold invalid_lineages. rewrite filter_In, negb_true_iff. reflexivity. Qed.
Print Assumptions C14_names.

(* the reachability the model uses is sound and complete for weak connectivity *)
Theorem C14_reach_sound : forall E V r x, In r V -> In x (reach E V r) -> conn E V r x.
Proof. exact reach_sound. Qed.
Print Assumptions C14_reach_sound.
Theorem C14_reach_complete : forall E V r x, NoDup V -> In r V -> conn E V r x -> In x (reach E V r).
Proof. exact reach_complete. Qed.
Print Assumptions C14_reach_complete.

Example C14_nonvacuous :
  invalid_lineages [(1, 2); (3, 2); (4, 5); (5, 4)] [(1, 7); (2, 7); (3, 7); (4, 8); (5, 8); (6, 9)] = [] /\
  invalid_lineages [(1, 2); (3, 2)] [(1, 7); (2, 7); (3, 8)] = [7; 8] /\
  invalid_lineages [(1, 99)] [(1, 7)] = [7].
Proof. vm_compute. repeat split. Qed.
