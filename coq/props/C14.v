(* props/C14.v -- C14: lineage validation decides the documented lineage definition. *)
From Geff Require Import Base GraphVal Reach Tracks TracksLemmas.
Open Scope Z_scope.
Open Scope list_scope.

(* For every directed graph (cycles allowed, edges may mention ids absent from the node list) and
   every labelling with unique node ids: the validator accepts iff nodes share a lineage id exactly
   when they are weakly connected, and no listed node is connected to an id outside the node list. *)
Theorem C14_iff : forall E NL, NoDup (nodes_of NL) ->
  (invalid_lineages E NL = [] <-> lineage_spec E NL).
Proof. exact lineages_iff. Qed.
Print Assumptions C14_iff.

(* per lineage: the test passes iff the class is exactly the connected component of its first node *)
Theorem C14_class : forall E V r T', NoDup V -> In r V ->
  (check_lineage E V (r :: T') = true <-> forall x, In x (r :: T') <-> conn E V r x).
Proof. exact check_lineage_spec. Qed.
Print Assumptions C14_class.

(* DEFINITIONAL (an unfolding of the filter in invalid_lineages: the right-hand side is the boolean test of the model,
   not a statement about the graph); the declarative versions are C14_names_spec / C14_names_first at the end of this file.
   the messages name exactly the lineages whose class fails the component test *)
Theorem C14_names : forall E NL t,
  In t (invalid_lineages E NL) <-> In t (labels_of NL) /\ check_lineage E (all_nodes E NL) (class_of NL t) = false.
Proof. intros E NL t. unfold invalid_lineages. rewrite filter_In, negb_true_iff. reflexivity. Qed.
Print Assumptions C14_names.

(* the reachability the model uses is sound and complete for weak connectivity *)
Theorem C14_reach_sound : forall E V r x, In r V -> In x (reach E V r) -> conn E V r x.
Proof. exact reach_sound. Qed.
Print Assumptions C14_reach_sound.
Theorem C14_reach_complete : forall E V r x, NoDup V -> In r V -> conn E V r x -> In x (reach E V r).
Proof. exact reach_complete. Qed.
Print Assumptions C14_reach_complete.

Example C14_nonvacuous :
  invalid_lineages [(1, 2); (3, 2); (4, 5); (5, 4)] [(1, 7); (2, 7); (3, 7); (4, 8); (5, 8); (6, 9)] = [] /\
  invalid_lineages [(1, 2); (3, 2)] [(1, 7); (2, 7); (3, 8)] = [7; 8] /\
  invalid_lineages [(1, 99)] [(1, 7)] = [7].
Proof. vm_compute. repeat split. Qed.

(* ===================================================================================================
   Which lineages are named, stated against weak connectivity (LineageNamesLemmas.v); no hypothesis at all
   (duplicate node ids, cycles, self loops, edges mentioning ids absent from the node list -- e.g. the edges of a node
   whose lineage id is flagged missing, which validate_data removes from the node list but not from the edge list).
   =================================================================================================== *)
From Geff Require Import LineageNamesLemmas.

(* a lineage is named iff its nodes are NOT exactly one weakly connected component of the graph (node set = node list plus
   every id mentioned by an edge): lineage_class_ok = exists r in the class, forall x, x in the class <-> conn r x *)
Theorem C14_names_spec : forall E NL t,
  In t (invalid_lineages E NL) <-> In t (labels_of NL) /\ ~ lineage_class_ok E NL t.
Proof. exact lineages_names_spec. Qed.
Print Assumptions C14_names_spec.

(* the same with the reference node the code uses (the first node of the class) *)
Theorem C14_names_first : forall E NL t,
  In t (invalid_lineages E NL) <->
  In t (labels_of NL) /\
  exists r T', class_of NL t = r :: T' /\ ~ (forall x, In x (r :: T') <-> conn E (all_nodes E NL) r x).
Proof. exact lineages_names_first. Qed.
Print Assumptions C14_names_first.

(* accepted iff every lineage id labels exactly one weakly connected component (no NoDup hypothesis, unlike C14_iff) *)
Theorem C14_accepts_components : forall E NL,
  invalid_lineages E NL = [] <-> forall t, In t (labels_of NL) -> lineage_class_ok E NL t.
Proof. exact lineages_nil_classes. Qed.
Print Assumptions C14_accepts_components.

(* non-vacuity, with the node lists validate_data produces when a lineage id is flagged missing (DataVal.annotated_nodes):
   chain 1-2-3 with node 2 unlabelled: {1,3} is not a component (2 is connected to it and carries no id): named;
   node 5 unlabelled and isolated beside the chain 1-2: accepted; both facts read through the theorems *)
Example C14_names_nonvacuous :
  ~ lineage_class_ok [(1, 2); (2, 3)] [(1, 7); (3, 7)] 7 /\
  lineage_class_ok [(1, 2)] [(1, 7); (2, 7)] 7 /\
  invalid_lineages [(1, 2); (2, 3)] [(1, 7); (3, 7)] = [7].
Proof.
  split; [|split; [|vm_compute; reflexivity]].
  - apply (proj1 (C14_names_spec [(1, 2); (2, 3)] [(1, 7); (3, 7)] 7)). vm_compute. left; reflexivity.
  - apply (proj1 (C14_accepts_components [(1, 2)] [(1, 7); (2, 7)])); [vm_compute; reflexivity | vm_compute; left; reflexivity].
Qed.
