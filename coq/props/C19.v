(* props/C19.v -- C19: segmentation consistency checks report exactly their documented condition.
   Every statement is over ALL inputs of Seg.v (any rank, any sizes, any lists, any pixel function);
   `accepts r` means r is a returned pair whose verdict is True, `rejects_with_message r` a returned
   pair with verdict False and at least one message.  Numbers that are not integers (coordinates,
   scales, axis maxima) are `xnum`: `XFin z` is the rational z/U with U = 1024, and XNaN, XPInf, XNInf
   are the IEEE tokens NaN, +inf, -inf, which Python floats can hold and geff metadata can store.  So
   for finite values "xlt m (extent n s)" below compares the axis maximum m/U with n * (s/U), and a
   finite product c*s has denominator U*U.  `xmul` / `extent` / `xlt` are IEEE multiplication and
   order; C19_ieee pins them down. *)
From Geff Require Import Base Dtype Seg SegLemmas.
Open Scope Z_scope.
Open Scope list_scope.

(* what the IEEE operations of the model are: the order on extended numbers (finite values compare as
   numbers, nothing is below or above NaN, -inf is below and +inf above everything else but themselves),
   and the product (finite * finite as numbers; a product is finite only if both factors are;
   commutative; NaN absorbs; inf * 0 = NaN; otherwise the infinity with the product of the signs).
   Together with commutativity the equations determine xmul on every pair. *)
Theorem C19_ieee :
  (forall a b, xlt (XFin a) (XFin b) <-> a < b) /\
  (forall x, ~ xlt XNaN x /\ ~ xlt x XNaN /\ ~ xlt x XNInf /\ ~ xlt XPInf x) /\
  (forall a, xlt (XFin a) XPInf /\ xlt XNInf (XFin a)) /\ xlt XNInf XPInf /\
  (forall a b, xltb a b = true <-> xlt a b) /\
  (forall a b, xmul (XFin a) (XFin b) = XFin (a * b)) /\
  (forall a b p, xmul a b = XFin p -> exists x y, a = XFin x /\ b = XFin y /\ p = x * y) /\
  (forall a b, xmul a b = xmul b a) /\
  (forall a, xmul XNaN a = XNaN) /\
  (xmul XPInf (XFin 0) = XNaN /\ xmul XNInf (XFin 0) = XNaN) /\
  (forall y, y <> 0 -> xmul XPInf (XFin y) = (if 0 <? y then XPInf else XNInf) /\
                       xmul XNInf (XFin y) = (if 0 <? y then XNInf else XPInf)) /\
  (xmul XPInf XPInf = XPInf /\ xmul XNInf XNInf = XPInf /\ xmul XPInf XNInf = XNInf /\ xmul XNInf XPInf = XNInf) /\
  (forall n s, extent n s = xmul (XFin (Z.of_nat n)) s).
Proof.
  split; [exact xlt_fin_iff|]. split; [exact xlt_no_nan|]. split; [intros a; split; constructor|].
  split; [constructor|]. split; [exact xltb_iff|]. split; [reflexivity|]. split; [exact xmul_fin_inv|].
  split; [exact xmul_comm|]. split; [reflexivity|]. split; [exact xmul_inf_zero|]. split; [exact xmul_inf_fin|].
  split; [exact xmul_inf_inf|]. reflexivity.
Qed.
Print Assumptions C19_ieee.

(* has_valid_seg_id is True exactly when the property exists, has one of the eight integer dtypes,
   and no entry of its missing array (if there is one) is set *)
Theorem C19_seg_id : forall props key,
  accepts (has_valid_seg_id props key) <->
  exists dt miss, lookup key props = Some (dt, miss) /\
                  In dt [DI8; DI16; DI32; DI64; DU8; DU16; DU32; DU64] /\
                  (forall l, miss = Some l -> forall b, In b l -> b = false).
Proof. exact seg_id_iff. Qed.
Print Assumptions C19_seg_id.

(* `lookup` is dictionary lookup (node_props has unique keys) *)
Theorem C19_seg_id_lookup : forall key (props : node_props) a,
  NoDup (map fst props) -> (lookup key props = Some a <-> In (key, a) props).
Proof. exact (@lookup_dict _). Qed.
Print Assumptions C19_seg_id_lookup.

(* axes_match_seg_dims is True exactly when there are axes and as many as the segmentation has dimensions *)
Theorem C19_axes_match : forall axes shape,
  accepts (axes_match_seg_dims axes shape) <->
  exists l, axes = Some l /\ l <> [] /\ List.length l = List.length shape.
Proof. exact axes_match_iff. Qed.
Print Assumptions C19_axes_match.

(* graph_is_in_seg_bounds is True exactly when there are axes, as many as dimensions, the scale vector
   (ones when absent) has that length too, and every axis has a maximum with  max < size * scale  in the
   IEEE sense (xlt) -- in particular a maximum of 0 is a maximum, and a NaN maximum, a NaN scale factor
   or an extent 0 * inf = NaN is never inside (C19_bounds_nonfinite spells that out).
   "Inside the scaled extent" is read as this one inequality, which is all the function and its tests
   examine: the lower end is not looked at, so a negative maximum, a maximum of -inf, a negative scale
   factor with a still smaller maximum, or an axis minimum below 0 pass.  The right-hand side is the
   loop body stated pointwise, not an independent notion of containment. *)
Theorem C19_bounds : forall axes shape scale,
  accepts (graph_is_in_seg_bounds axes shape scale) <->
  let sc := scale_or_ones scale (List.length shape) in
  exists l, axes = Some l /\ l <> [] /\ List.length l = List.length shape /\
            List.length sc = List.length shape /\
            forall i ax n s, nth_error l i = Some ax -> nth_error shape i = Some n -> nth_error sc i = Some s ->
                             exists m, ax_max ax = Some m /\ xlt m (extent n s).
Proof. exact bounds_iff. Qed.
Print Assumptions C19_bounds.

(* the same for finite numbers, in integers: max < size * scale (units 1/U) *)
Theorem C19_bounds_finite : forall ax n m s,
  ax_max ax = Some (XFin m) ->
  ((exists m', ax_max ax = Some m' /\ xlt m' (extent n (XFin s))) <-> m < Z.of_nat n * s).
Proof.
  intros ax n m s Hm. rewrite <- xlt_fin_iff, <- extent_fin. split.
  - intros [m' [H1 H2]]. rewrite Hm in H1. inversion H1; subst. exact H2.
  - intros H. exists (XFin m). split; [exact Hm|exact H].
Qed.
Print Assumptions C19_bounds_finite.

(* an axis whose maximum is NaN or +inf, or whose extent size * scale is NaN (NaN scale factor, or size 0
   with an infinite one) or -inf, gives False with a message whenever the loop is reached at all *)
Theorem C19_bounds_nonfinite : forall axes shape scale,
  (exists l i ax n s, axes = Some l /\ nth_error l i = Some ax /\ nth_error shape i = Some n /\
                      nth_error (scale_or_ones scale (List.length shape)) i = Some s /\
                      (ax_max ax = Some XNaN \/ ax_max ax = Some XPInf \/ extent n s = XNaN \/ extent n s = XNInf)) ->
  rejects_with_message (graph_is_in_seg_bounds axes shape scale).
Proof. exact bounds_nonfinite_rejects. Qed.
Print Assumptions C19_bounds_nonfinite.

(* which extents are not finite: a NaN scale factor; an infinite one (NaN when the size is 0) *)
Theorem C19_extent : forall n,
  (forall s, extent n (XFin s) = XFin (Z.of_nat n * s)) /\ extent n XNaN = XNaN /\
  extent n XPInf = (if Nat.eqb n 0 then XNaN else XPInf) /\ extent n XNInf = (if Nat.eqb n 0 then XNaN else XNInf).
Proof. intros n. split; [intros s; apply extent_fin|]. split; [apply extent_nan|apply extent_inf]. Qed.
Print Assumptions C19_extent.

(* the time axis: the only axis of type "time" if there is exactly one, axis 0 in every other case
   (no metadata, no axes, none or several time axes) *)
Theorem C19_time_axis : forall md,
  (forall axes i, md = Some (Some axes) -> unique_time_axis axes i -> time_index md = i) /\
  ((forall axes, md = Some (Some axes) -> ~ exists i, unique_time_axis axes i) -> time_index md = 0%nat).
Proof.
  intros md. split; [|apply time_index_default].
  intros axes i -> H. apply time_index_unique. exact H.
Qed.
Print Assumptions C19_time_axis.

(* has_seg_ids_at_time_points is True exactly when every listed time point is a valid index of the
   time axis (0 <= t < size; so negative ones are not) and every listed label is carried by a pixel
   of the segmentation whose time index is the time point it is paired with *)
Theorem C19_time_points : forall v tps ids md,
  let k := time_index md in
  accepts (has_seg_ids_at_time_points v tps ids md) <->
  (forall t, In t tps -> exists n, nth_error (v_shape v) k = Some n /\ 0 <= t < Z.of_nat n) /\
  (forall t l, In (t, l) (combine tps ids) ->
     exists idx, Forall2 (fun i n => 0 <= i < Z.of_nat n) idx (v_shape v) /\ nth_error idx k = Some t /\ v_px v idx = l).
Proof. exact time_points_iff. Qed.
Print Assumptions C19_time_points.

(* has_seg_ids_at_coords is True exactly when the two lists have the same length, the scale vector (ones
   when absent) has one entry per dimension, and every coordinate has a pixel (pixel_of: one value per
   axis, coordinate and scale factor finite, 0 <= floor(c*s) < size on every axis -- see C19_pixel) that
   carries the label paired with it; a NaN or infinite coordinate or scale factor has no pixel *)
Theorem C19_coords : forall v coords ids scale,
  let sc := scale_or_ones scale (rank v) in
  accepts (has_seg_ids_at_coords v coords ids scale) <->
  List.length coords = List.length ids /\ List.length sc = rank v /\
  forall coord l, In (coord, l) (combine coords ids) ->
                  exists idx, pixel_of (v_shape v) sc coord idx /\ v_px v idx = l.
Proof. exact coords_iff. Qed.
Print Assumptions C19_coords.

(* consequences of pixel_of: the index is inside the volume, the coordinate has one value per axis,
   every coordinate component and scale factor is finite, and the index is unique.  (That the index is
   the floor of the scaled coordinate is not among these consequences: it is what the inductive
   definition of pixel_of in SegLemmas.v says; C19_pixel_pointwise restates that definition without the
   induction.) *)
Theorem C19_pixel : forall shape sc coord idx,
  pixel_of shape sc coord idx ->
  Forall2 (fun i n => 0 <= i < Z.of_nat n) idx shape /\
  List.length coord = List.length shape /\
  (Forall is_fin coord /\ Forall is_fin sc) /\
  (forall idx', pixel_of shape sc coord idx' -> idx = idx').
Proof.
  intros shape sc coord idx H. split; [apply (pixel_of_in_bounds _ _ _ _ H)|].
  split; [apply (pixel_of_length _ _ _ _ H)|]. split; [apply (pixel_of_finite _ _ _ _ H)|apply (pixel_of_fun _ _ _ _ H)].
Qed.
Print Assumptions C19_pixel.

(* pixel_of, axis by axis: the four lists have one entry per axis, and on every axis the coordinate c and
   the scale factor s are finite, the index i lies in 0 <= i < size, and i <= c*s < i+1 (in units 1/(U*U)),
   i.e. i is the floor of the scaled coordinate *)
Theorem C19_pixel_pointwise : forall shape sc coord idx,
  pixel_of shape sc coord idx <->
  List.length sc = List.length shape /\ List.length coord = List.length shape /\ List.length idx = List.length shape /\
  forall k n s c i, nth_error shape k = Some n -> nth_error sc k = Some s -> nth_error coord k = Some c ->
                    nth_error idx k = Some i ->
                    exists c' s', c = XFin c' /\ s = XFin s' /\ 0 <= i < Z.of_nat n /\
                                  i * (U * U) <= c' * s' < (i + 1) * (U * U).
Proof. exact pixel_of_pointwise. Qed.
Print Assumptions C19_pixel_pointwise.

(* an out-of-range time point gives False together with a message naming an out-of-range time point *)
Theorem C19_time_out_of_range : forall v tps ids md,
  let k := time_index md in
  (exists t, In t tps /\ ~ time_in_range v k t) ->
  exists errs t, has_seg_ids_at_time_points v tps ids md = Ok (false, errs) /\
                 In t tps /\ ~ time_in_range v k t /\ In (MTimeOob t) errs.
Proof. exact time_points_out_of_range. Qed.
Print Assumptions C19_time_out_of_range.

(* an out-of-range coordinate (no pixel: wrong number of values, negative, beyond the size, or NaN /
   infinite / scaled by a NaN or infinite factor) gives False together with a message *)
Theorem C19_coords_out_of_range : forall v coords ids scale,
  (exists coord, In coord coords /\ ~ exists idx, pixel_of (v_shape v) (scale_or_ones scale (rank v)) coord idx) ->
  rejects_with_message (has_seg_ids_at_coords v coords ids scale).
Proof. exact coords_out_of_range. Qed.
Print Assumptions C19_coords_out_of_range.

(* in particular: a coordinate with a NaN or infinite component, or any coordinate at all under a scale
   vector holding a NaN or infinite factor (0 * inf is NaN, so even coordinate 0), gives False with a message *)
Theorem C19_coords_nonfinite : forall v coords ids scale,
  (exists coord x, In coord coords /\ In x coord /\ ~ is_fin x) \/
  (coords <> [] /\ exists s, In s (scale_or_ones scale (rank v)) /\ ~ is_fin s) ->
  rejects_with_message (has_seg_ids_at_coords v coords ids scale).
Proof. exact coords_nonfinite. Qed.
Print Assumptions C19_coords_nonfinite.

(* when every time point is in range, the "Missing seg_id l at time t" messages name exactly the listed
   (time point, label) pairs whose label does not occur at its time point *)
Theorem C19_time_points_messages : forall v tps ids md b errs,
  let k := time_index md in
  has_seg_ids_at_time_points v tps ids md = Ok (b, errs) ->
  (forall t, In t tps -> time_in_range v k t) ->
  forall l t, In (MMissingLabel l t) errs <-> In (t, l) (combine tps ids) /\ ~ occurs v k t l.
Proof. exact time_points_messages. Qed.
Print Assumptions C19_time_points_messages.

(* a "Graph axis j is out of bounds" message names an axis whose maximum is not inside: max < size * scale
   fails in the IEEE sense, which for a finite maximum and scale factor is size * scale <= max *)
Theorem C19_bounds_message : forall axes shape scale b errs j,
  graph_is_in_seg_bounds axes shape scale = Ok (b, errs) -> In (MAxisOob j) errs ->
  exists l ax n s m, axes = Some l /\ nth_error l j = Some ax /\ nth_error shape j = Some n /\
                     nth_error (scale_or_ones scale (List.length shape)) j = Some s /\
                     ax_max ax = Some m /\ ~ xlt m (extent n s) /\
                     (forall m' s', m = XFin m' -> s = XFin s' -> Z.of_nat n * s' <= m').
Proof. exact bounds_message_fin. Qed.
Print Assumptions C19_bounds_message.

(* never an exception: each of the five checks returns a (bool, messages) pair on every input -- NaN and
   infinite coordinates, scale factors and axis maxima included (int(NaN) is never reached, int(inf) is
   caught) *)
Theorem C19_total :
  (forall props key, is_ok (has_valid_seg_id props key) = true) /\
  (forall axes shape, is_ok (axes_match_seg_dims axes shape) = true) /\
  (forall axes shape scale, is_ok (graph_is_in_seg_bounds axes shape scale) = true) /\
  (forall v tps ids md, is_ok (has_seg_ids_at_time_points v tps ids md) = true) /\
  (forall v coords ids scale, is_ok (has_seg_ids_at_coords v coords ids scale) = true).
Proof. exact never_raises. Qed.
Print Assumptions C19_total.

(* a False verdict of has_valid_seg_id / graph_is_in_seg_bounds / has_seg_ids_at_time_points always
   comes with a message (the other two return (False, []) for a plain mismatch, as documented) *)
Theorem C19_false_has_message :
  (forall props key, ~ accepts (has_valid_seg_id props key) -> rejects_with_message (has_valid_seg_id props key)) /\
  (forall axes shape scale, ~ accepts (graph_is_in_seg_bounds axes shape scale) ->
                            rejects_with_message (graph_is_in_seg_bounds axes shape scale)) /\
  (forall v tps ids md, ~ accepts (has_seg_ids_at_time_points v tps ids md) ->
                        rejects_with_message (has_seg_ids_at_time_points v tps ids md)).
Proof. exact false_has_message. Qed.
Print Assumptions C19_false_has_message.

(* non-vacuity: a (t,y,x) = (2,1,2) volume with labels 1 2 / 3 4.
   time points: label 2 at t=0 and 3 at t=1 are found; 3 at t=0 is not; t=-1 and t=2 are out of range
   (t=-1 would wrap to the last frame in numpy); with the time axis last (metadata) label 3 is at t=0.
   coordinates: (1,0,1) holds 4; with scale 1/2 coordinate (2,0,3.5) is that same pixel; -0.5 and 2 are outside.
   bounds: maxima (0, 0, 1.5) are inside a (2,1,2) extent, a maximum of 2 on the last axis is not, and
   four axes against three dimensions are reported, not raised.
   non-finite: a NaN, +inf or -inf coordinate, coordinate 0 under a NaN scale factor, an infinite
   coordinate under scale factor 0 (inf * 0 = NaN) and coordinate 0 under an infinite scale factor are
   reported as out of bounds; a NaN or +inf axis maximum, a NaN scale factor and size 0 with an infinite
   scale factor are out of bounds, while an infinite scale factor on a non-empty axis and a maximum of
   -inf are accepted (max < size * scale holds). *)
Example C19_nonvacuous :
  let v := {| v_shape := [2; 1; 2]%nat; v_px := px_of [2; 1; 2]%nat [1; 2; 3; 4] |} in
  let ax t m := {| ax_time := t; ax_max := m |} in
  let fin := map XFin in
  let fm z := Some (XFin z) in
  has_seg_ids_at_time_points v [0; 1] [2; 3] None = Ok (true, []) /\
  has_seg_ids_at_time_points v [0] [3] None = Ok (false, [MMissingLabel 3 0]) /\
  has_seg_ids_at_time_points v [-1] [3] None = Ok (false, [MTimeOob (-1)]) /\
  has_seg_ids_at_time_points v [0; 2] [1; 1] None = Ok (false, [MTimeOob 2]) /\
  has_seg_ids_at_time_points v [0] [3] (Some (Some [ax false None; ax false None; ax true None])) = Ok (true, []) /\
  has_seg_ids_at_coords v [fin [1024; 0; 1024]] [4] None = Ok (true, []) /\
  has_seg_ids_at_coords v [fin [2048; 0; 3584]] [4] (Some (fin [512; 512; 512])) = Ok (true, []) /\
  has_seg_ids_at_coords v [fin [1024; 0; 1024]] [3] None = Ok (false, []) /\
  has_seg_ids_at_coords v [fin [-512; 0; 0]] [1] None = Ok (false, [MCoordOob 0]) /\
  has_seg_ids_at_coords v [fin [0; 0; 0]; fin [2048; 0; 0]] [1; 1] None = Ok (false, [MCoordOob 1]) /\
  has_seg_ids_at_coords v [fin [0; 0]] [1] None = Ok (false, [MCoordArity 0]) /\
  has_seg_ids_at_coords v [[XNaN; XFin 0; XFin 0]] [1] None = Ok (false, [MCoordOob 0]) /\
  has_seg_ids_at_coords v [[XFin 0; XFin 0; XPInf]] [1] None = Ok (false, [MCoordOob 0]) /\
  has_seg_ids_at_coords v [fin [0; 0; 0]; [XFin 0; XNInf; XFin 0]] [1; 1] None = Ok (false, [MCoordOob 1]) /\
  has_seg_ids_at_coords v [fin [0; 0; 0]] [1] (Some [XNaN; XFin 1024; XFin 1024]) = Ok (false, [MCoordOob 0]) /\
  has_seg_ids_at_coords v [[XPInf; XFin 0; XFin 0]] [1] (Some (fin [0; 1024; 1024])) = Ok (false, [MCoordOob 0]) /\
  has_seg_ids_at_coords v [fin [0; 0; 0]] [1] (Some [XFin 1024; XPInf; XFin 1024]) = Ok (false, [MCoordOob 0]) /\
  has_seg_ids_at_coords v [fin [1024; 0; 0]] [3] (Some [XFin 1024; XPInf; XFin 1024]) = Ok (false, [MCoordOob 0]) /\
  graph_is_in_seg_bounds (Some [ax true (fm 0); ax false (fm 0); ax false (fm 1536)]) [2; 1; 2]%nat None = Ok (true, []) /\
  graph_is_in_seg_bounds (Some [ax true (fm 0); ax false (fm 0); ax false (fm 2048)]) [2; 1; 2]%nat None
    = Ok (false, [MAxisOob 2]) /\
  graph_is_in_seg_bounds (Some [ax true (fm 0); ax false (fm 0); ax false (fm 0); ax false (fm 0)]) [2; 1; 2]%nat None
    = Ok (false, [MAxesDims]) /\
  graph_is_in_seg_bounds (Some [ax true (fm 0); ax false (Some XNaN); ax false (fm 0)]) [2; 1; 2]%nat None
    = Ok (false, [MAxisOob 1]) /\
  graph_is_in_seg_bounds (Some [ax true (Some XPInf); ax false (fm 0); ax false (fm 0)]) [2; 1; 2]%nat None
    = Ok (false, [MAxisOob 0]) /\
  graph_is_in_seg_bounds (Some [ax true (fm 0); ax false (fm 0); ax false (fm 0)]) [2; 1; 2]%nat (Some [XFin 1024; XFin 1024; XNaN])
    = Ok (false, [MAxisOob 2]) /\
  graph_is_in_seg_bounds (Some [ax true (fm 0); ax false (fm 0); ax false (fm 0)]) [2; 0; 2]%nat (Some [XFin 1024; XPInf; XFin 1024])
    = Ok (false, [MAxisOob 1]) /\
  graph_is_in_seg_bounds (Some [ax true (fm 4096); ax false (Some XNInf); ax false (fm 0)]) [2; 1; 2]%nat (Some [XPInf; XFin 1024; XFin 1024])
    = Ok (true, []) /\
  axes_match_seg_dims (Some [ax true None; ax false None; ax false None]) [2; 1; 2]%nat = Ok (true, []) /\
  has_valid_seg_id [("seg_id"%string, (DU16, Some [false; false]))] "seg_id" = Ok (true, []) /\
  has_valid_seg_id [("seg_id"%string, (DF32, None))] "seg_id" = Ok (false, [MNonInteger]).
Proof. vm_compute. repeat split. Qed.
