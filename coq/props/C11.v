(* props/C11.v -- C11: variable-length values are encoded and decoded without
   loss.  Only statements, each closed by `exact <lemma>`, with Print Assumptions. *)
From Coq Require Import Permutation.
From Geff Require Import Base Dtype DtypeLemmas Vlen VlenLemmas.
Open Scope nat_scope.
Open Scope list_scope.

(* decode (encode l) = l : identical shape and contents for every element, for
   every sequence the encoder accepts (one rank, one dtype), empty and rank-0
   elements and zero inner dimensions included. *)
Theorem C11_roundtrip : forall vals rows data,
  Forall wf_varr vals -> serialize vals = Ok (rows, data) ->
  deserialize rows data = Ok (map (fun a => (v_shape a, v_flat a)) vals).
Proof. exact serialize_deserialize. Qed.
Print Assumptions C11_roundtrip.

(* the dtype of the data array is the dtype of the elements *)
Theorem C11_dtype : forall vals a, In a vals -> (exists r, serialize vals = Ok r) -> v_dt a = ser_dtype vals.
Proof. exact serialize_dtype. Qed.
Print Assumptions C11_dtype.

(* offsets are contiguous in element order, starting at 0; the row tail is the shape *)
Theorem C11_contiguous : forall vals rows data,
  serialize vals = Ok (rows, data) ->
  map (hd 0) rows = prefix_from 0 (map elem_size vals) /\
  map (@tl nat) rows = map v_shape vals /\ data = concat (map v_flat vals).
Proof. exact serialize_contiguous. Qed.
Print Assumptions C11_contiguous.

(* every slice lies inside the data array *)
Theorem C11_in_bounds : forall vals rows data,
  Forall wf_varr vals -> serialize vals = Ok (rows, data) ->
  Forall (fun row => hd 0 row + size (tl row) <= length data) rows.
Proof. exact serialize_in_bounds. Qed.
Print Assumptions C11_in_bounds.

(* the encoder accepts exactly the sequences of one rank and one dtype *)
Theorem C11_accepts_iff_uniform : forall vals, (exists r, serialize vals = Ok r) <-> uniform vals.
Proof. exact serialize_ok_iff. Qed.
Print Assumptions C11_accepts_iff_uniform.

(* normalisation of ragged input: one dtype, one rank, exactly the Nones flagged,
   contents = safe cast of the input with leading-axis padding (size preserved) *)
Theorem C11_normalise : forall l vals miss,
  construct l = Ok (vals, miss) ->
  exists dt nd,
    common_type_dims l = Ok (dt, nd) /\
    vals = map (normalise_one dt nd) l /\
    miss = (if existsb (fun b => b) (map is_none l) then Some (map is_none l) else None) /\
    Forall (fun v => v_dt v = dt /\ length (v_shape v) = nd) vals /\
    (forall i a, nth_error l i = Some (Some a) ->
       can_cast_safe (v_dt a) dt = true /\
       nth_error vals i = Some {| v_dt := dt; v_shape := pad_shape nd (v_shape a);
                                  v_flat := map (cast_payload (v_dt a) dt) (v_flat a) |} /\
       size (pad_shape nd (v_shape a)) = size (v_shape a)).
Proof. exact construct_spec. Qed.
Print Assumptions C11_normalise.

(* ... and what it produces is always accepted by the encoder *)
Theorem C11_normalised_encodable : forall l vals miss,
  construct l = Ok (vals, miss) -> exists r, serialize vals = Ok r.
Proof. exact construct_serializable. Qed.
Print Assumptions C11_normalised_encodable.

(* whether and how a sequence normalises does not depend on the order of its elements *)
Theorem C11_order_free : forall l l', Permutation l l' ->
  common_type_dims l = common_type_dims l' /\
  match construct l, construct l' with
  | Ok (vals, _), Ok (vals', _) => Permutation vals vals'
  | Err e, Err e' => e = e'
  | _, _ => False
  end.
Proof. exact order_free. Qed.
Print Assumptions C11_order_free.

(* non-vacuity: a concrete mixed sequence meets the premises and normalises *)
Example C11_nonvacuous :
  let a := {| v_dt := DI8; v_shape := [2]; v_flat := [1; 2]%Z |} in
  let b := {| v_dt := DU8; v_shape := [1; 1]; v_flat := [7]%Z |} in
  let c := {| v_dt := DF16; v_shape := []; v_flat := [512]%Z |} in
  exists vals rows data,
    construct [Some a; None; Some b; Some c] = Ok (vals, Some [false; true; false; false]) /\
    Forall wf_varr vals /\ serialize vals = Ok (rows, data) /\
    map v_dt vals = [DF16; DF16; DF16; DF16] /\
    deserialize rows data = Ok (map (fun a => (v_shape a, v_flat a)) vals).
Proof.
  cbv zeta. eexists. eexists. eexists. split; [vm_compute; reflexivity|].
  split; [repeat constructor|]. split; [vm_compute; reflexivity|]. split; reflexivity.
Qed.
