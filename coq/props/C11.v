(* props/C11.v -- C11: variable-length values are encoded and decoded without
   loss.  Only statements, each closed by `exact <lemma>`, with Print Assumptions. *)
From Coq Require Import Permutation QArith.
From Geff Require Import Base Dtype DtypeLemmas Vlen VlenLemmas VlenCast VlenCastLemmas VlenX VlenXLemmas.
Open Scope Z_scope.
Open Scope nat_scope.
Open Scope list_scope.

(* TWO MODELS.  Vlen.v speaks about dtype NAMES (v_dt : dtype; int32 is int32 whatever
   its byte order, "str" whatever its width) and has no `missing` argument.  VlenX.v
   (x-prefixed functions) is the model that is tied to the implementation: numpy dtype
   identity (byte order, string width, object dtype) and `missing` carried through.
   C11_model_refines / C11_numeric_agrees connect the two, so every statement of the
   form `serialize .. = Ok .. -> P` below also holds of the tied model. *)

(* decode (encode l) = l : identical shape and contents for every element, for
   every sequence the encoder accepts (one rank, one dtype), empty and rank-0
   elements and zero inner dimensions included. *)
Theorem C11_roundtrip : forall vals rows data,
  Forall wf_varr vals -> serialize vals = Ok (rows, data) ->
  deserialize rows data = Ok (map (fun a => (v_shape a, v_flat a)) vals).
Proof. exact serialize_deserialize. Qed.
Print Assumptions C11_roundtrip.

(* the dtype of the data array is the dtype of the elements *)
Theorem C11_dtype : forall vals a, In a vals -> (exists r, serialize vals = Ok r) -> v_dt a = ser_dtype vals.
Proof. exact serialize_dtype. Qed.
Print Assumptions C11_dtype.

(* offsets are contiguous in element order, starting at 0; the row tail is the shape *)
Theorem C11_contiguous : forall vals rows data,
  serialize vals = Ok (rows, data) ->
  map (hd 0) rows = prefix_from 0 (map elem_size vals) /\
  map (@tl nat) rows = map v_shape vals /\ data = concat (map v_flat vals).
Proof. exact serialize_contiguous. Qed.
Print Assumptions C11_contiguous.

(* every slice lies inside the data array *)
Theorem C11_in_bounds : forall vals rows data,
  Forall wf_varr vals -> serialize vals = Ok (rows, data) ->
  Forall (fun row => hd 0 row + size (tl row) <= length data) rows.
Proof. exact serialize_in_bounds. Qed.
Print Assumptions C11_in_bounds.

(* the encoder accepts exactly the sequences of one rank and one NUMPY dtype: same
   name, same byte order where the dtype has one, same width for strings (xuniform
   compares the canonical descriptors).  [>i4; <i4] and [U1; U3] are rejected.
   (Until the audit this theorem was stated on the name-level model, which accepts
   both: it over-approximated the acceptance of the code.) *)
Theorem C11_accepts_iff_uniform : forall vals miss,
  (exists r, xserialize vals miss = Ok r) <->
  (forall a b, In a vals -> In b vals ->
     length (xv_shape a) = length (xv_shape b) /\ canon (xv_dt a) = canon (xv_dt b)).
Proof. exact xserialize_ok_iff. Qed.
Print Assumptions C11_accepts_iff_uniform.

(* the name-level criterion `uniform` (one rank, one dtype NAME) is the acceptance
   criterion only under an explicit premise: numeric elements in native byte order *)
Theorem C11_accepts_native : forall vals miss,
  forallb native_numeric vals = true ->
  ((exists r, xserialize vals miss = Ok r) <-> uniform (map forget vals)).
Proof. exact xserialize_ok_native. Qed.
Print Assumptions C11_accepts_native.

(* whatever the tied model accepts, the name-level model accepts with the same table
   and data; `missing` is handed through; the data array has the dtype of the elements
   in native byte order (int64 for no element) *)
Theorem C11_model_refines : forall vals miss rows m data ddt,
  xserialize vals miss = Ok (rows, m, data, ddt) ->
  serialize (map forget vals) = Ok (rows, data) /\ m = miss /\ ddt = xser_dtype vals /\
  x_base ddt = ser_dtype (map forget vals).
Proof. exact xserialize_refines. Qed.
Print Assumptions C11_model_refines.

(* decode (encode (l, missing)) = (l, missing): identical shape and contents, the dtype
   of every element up to byte order (np.concatenate answers in native order: a >i4
   element comes back <i4 with the same values), and the missing flags untouched *)
Theorem C11_roundtrip_full : forall vals miss rows m data ddt,
  Forall xwf vals -> xserialize vals miss = Ok (rows, m, data, ddt) ->
  xdeserialize rows m ddt data =
    Ok (map (fun a => {| xv_dt := to_native (xv_dt a); xv_shape := xv_shape a; xv_flat := xv_flat a |}) vals, miss).
Proof. exact xserialize_deserialize. Qed.
Print Assumptions C11_roundtrip_full.

(* normalisation of ragged input (name-level model).  DEFINITIONAL for the most part:
   conjuncts 2, 3 and the `nth_error vals i = ...` equation are `construct` /
   `normalise_one` unfolded (proved by reflexivity) and "contents" is expressed with
   the model's own `cast_payload`.  The independent content is conjunct 4 (one dtype,
   one rank), `can_cast_safe (v_dt a) dt` and the preserved size.  What the cast does
   to the VALUES is stated by C11_cast_exact / C11_normalise_exact_* below; the flags
   declaratively by C11_flags_exact; the rank by C11_rank. *)
Theorem C11_normalise : forall l vals miss,
  construct l = Ok (vals, miss) ->
  exists dt nd,
    common_type_dims l = Ok (dt, nd) /\
    vals = map (normalise_one dt nd) l /\
    miss = (if existsb (fun b => b) (map is_none l) then Some (map is_none l) else None) /\
    Forall (fun v => v_dt v = dt /\ length (v_shape v) = nd) vals /\
    (forall i a, nth_error l i = Some (Some a) ->
       can_cast_safe (v_dt a) dt = true /\
       nth_error vals i = Some {| v_dt := dt; v_shape := pad_shape nd (v_shape a);
                                  v_flat := map (cast_payload (v_dt a) dt) (v_flat a) |} /\
       size (pad_shape nd (v_shape a)) = size (v_shape a)).
Proof. exact construct_spec. Qed.
Print Assumptions C11_normalise.

(* ... and what it produces is always accepted by the encoder *)
Theorem C11_normalised_encodable : forall l vals miss,
  construct l = Ok (vals, miss) -> exists r, serialize vals = Ok r.
Proof. exact construct_serializable. Qed.
Print Assumptions C11_normalised_encodable.

(* whether and how a sequence normalises does not depend on the order of its elements *)
Theorem C11_order_free : forall l l', Permutation l l' ->
  common_type_dims l = common_type_dims l' /\
  match construct l, construct l' with
  | Ok (vals, _), Ok (vals', _) => Permutation vals vals'
  | Err e, Err e' => e = e'
  | _, _ => False
  end.
Proof. exact order_free. Qed.
Print Assumptions C11_order_free.

(* ---- the cast preserves the value ------------------------------------------------
   denote d z is the rational denoted by payload z at dtype d (floats are scaled by
   1024 in the payload encoding).  cast_exact d d' z: the cast payload denotes the same
   rational at d'.  For every pair numpy calls safe and every payload in the range of
   the source the cast is exact, EXCEPT int64/uint64 -> float beyond 2^53. *)
Theorem C11_cast_exact : forall d d' z,
  is_numeric d = true -> is_numeric d' = true ->
  can_cast_safe d d' = true -> in_range d z = true ->
  ((is_int64 d && is_float d' = false) \/ Z.abs z <= 2 ^ 53)%Z ->
  Qeq (denote d' (cast_payload d d' z)) (denote d z).
Proof. exact cast_exact_safe. Qed.
Print Assumptions C11_cast_exact.

(* into a float the cast is exact iff rounding to the mantissa is the identity *)
Theorem C11_cast_exact_iff_round : forall d d' z,
  is_float d' = true -> is_float d = false ->
  (Qeq (denote d' (cast_payload d d' z)) (denote d z) <-> round_bits (mant_bits d') z = z).
Proof. exact cast_exact_iff_round. Qed.
Print Assumptions C11_cast_exact_iff_round.

(* lifted to the normalisation: every non-None numeric element comes back with the
   same values (Forall2 over the flattened contents), under the side condition *)
Theorem C11_normalise_exact_partial : forall l vals miss,
  construct l = Ok (vals, miss) ->
  forall i a, nth_error l i = Some (Some a) ->
    is_numeric (v_dt a) = true ->
    forallb (in_range (v_dt a)) (v_flat a) = true ->
    exists v, nth_error vals i = Some v /\
      can_cast_safe (v_dt a) (v_dt v) = true /\ is_numeric (v_dt v) = true /\
      size (v_shape v) = size (v_shape a) /\
      (Forall (fun z => (is_int64 (v_dt a) && is_float (v_dt v) = false) \/ (Z.abs z <= 2 ^ 53)%Z) (v_flat a) ->
       Forall2 (fun z z' => Qeq (denote (v_dt v) z') (denote (v_dt a) z)) (v_flat a) (v_flat v)).
Proof. exact construct_exact. Qed.
Print Assumptions C11_normalise_exact_partial.

(* ... and without it the statement "normalisation is lossless" is FALSE: [int64 [2^53+1]; float16 []] comes back as 2^53.
   This is an OBSERVATION about what numpy calls a safe cast, not a violation of C11: the property demands contents equal to the
   inputs AFTER the safe common cast, and the rounded value is that cast (the oracle compares with the cast value) *)
Theorem C11_normalise_exact_refuted :
  exists l vals miss,
    construct l = Ok (vals, miss) /\
    Forall (fun o => match o with
                     | Some a => is_numeric (v_dt a) = true /\ forallb (in_range (v_dt a)) (v_flat a) = true /\ wf_varr a
                     | None => True end) l /\
    ~ (forall i a v, nth_error l i = Some (Some a) -> nth_error vals i = Some v ->
         Forall2 (fun z z' => Qeq (denote (v_dt v) z') (denote (v_dt a) z)) (v_flat a) (v_flat v)).
Proof. exact construct_exact_refuted. Qed.
Print Assumptions C11_normalise_exact_refuted.

(* the same on the tied model, where a number may also land in an object array (it
   becomes the Python int / float / bool of the same value) *)
Theorem C11_normalise_exact_x : forall l vals miss,
  xconstruct l = Ok (vals, miss) ->
  forall i a, nth_error l i = Some (Some a) ->
    is_numeric (x_base (xv_dt a)) = true ->
    forallb (in_range (x_base (xv_dt a))) (xv_flat a) = true ->
    exists v, nth_error vals i = Some v /\
      size (xv_shape v) = size (xv_shape a) /\
      (Forall (fun z => (is_int64 (x_base (xv_dt a)) && is_float (x_base (xv_dt v)) = false) \/ (Z.abs z <= 2 ^ 53)%Z) (xv_flat a) ->
       Forall2 (fun z z' => qopt_eq (xdenote (xv_dt v) z') (xdenote (xv_dt a) z)) (xv_flat a) (xv_flat v)).
Proof. exact xconstruct_exact. Qed.
Print Assumptions C11_normalise_exact_x.

(* ---- whether a sequence normalises ------------------------------------------------ *)
(* numeric input never fails (the can_cast loop of _get_common_type_dims is dead code
   on numeric dtypes: np.result_type is an upper bound in the safe-cast order) *)
Theorem C11_numeric_never_fails : forall l,
  forallb is_numeric (map v_dt (somes l)) = true ->
  (exists dt nd, common_type_dims l = Ok (dt, nd) /\ is_numeric dt = true) /\
  (exists vals miss, construct l = Ok (vals, miss)).
Proof. intros l H. split; [exact (common_type_dims_total l H) | exact (construct_total l H)]. Qed.
Print Assumptions C11_numeric_never_fails.

(* on the tied model the failures are characterised exactly: ValueError, and only when
   two elements have different numpy kinds and one element is a str / bytes array *)
Theorem C11_fails_iff_mixes_strings : forall l e,
  xconstruct l = Err e <->
  e = ValueError /\
  ((exists a b, In a (bases l) /\ In b (bases l) /\ kcode a <> kcode b) /\
   (exists c, In c (bases l) /\ has_width c = true)).
Proof. exact xconstruct_fails_iff. Qed.
Print Assumptions C11_fails_iff_mixes_strings.

(* ---- the rank ---------------------------------------------------------------------- *)
(* nd is the largest rank of the non-None elements (an upper bound that is attained);
   (int64, 1) when there is no non-None element *)
Theorem C11_rank : forall l dt nd,
  xcommon_type_dims l = Ok (dt, nd) ->
  ((forall o, In o l -> o = None) -> dt = native DI64 /\ nd = 1) /\
  ((exists a, In (Some a) l) ->
     (forall a, In (Some a) l -> length (xv_shape a) <= nd) /\
     (exists a, In (Some a) l /\ length (xv_shape a) = nd)).
Proof. exact xcommon_rank. Qed.
Print Assumptions C11_rank.

Theorem C11_rank_names : forall l dt nd,
  common_type_dims l = Ok (dt, nd) ->
  ((forall o, In o l -> o = None) -> dt = DI64 /\ nd = 1) /\
  ((exists a, In (Some a) l) ->
     (forall a, In (Some a) l -> length (v_shape a) <= nd) /\
     (exists a, In (Some a) l /\ length (v_shape a) = nd)).
Proof. exact common_rank. Qed.
Print Assumptions C11_rank_names.

(* ---- normalisation on the tied model ------------------------------------------------ *)
(* one native dtype and one rank; every element keeps its position; a non-None element
   is padded with leading 1-axes (size preserved) and safely castable to the common
   dtype; a None becomes an all-zero-dimension element.  (The last equation,
   xv_flat v = map (xcast_payload ..), is the model read back; what it means for the
   values is C11_normalise_exact_x.) *)
Theorem C11_normalise_x : forall l vals miss,
  xconstruct l = Ok (vals, miss) ->
  exists dt nd,
    xcommon_type_dims l = Ok (dt, nd) /\ to_native dt = dt /\
    length vals = length l /\ miss = flags_of l /\
    Forall (fun v => xv_dt v = dt /\ length (xv_shape v) = nd) vals /\
    (forall i a, nth_error l i = Some (Some a) ->
       xcan_cast (xv_dt a) dt = true /\
       exists v, nth_error vals i = Some v /\ xv_dt v = dt /\
         xv_shape v = repeat 1 (nd - length (xv_shape a)) ++ xv_shape a /\
         size (xv_shape v) = size (xv_shape a) /\
         xv_flat v = map (xcast_payload (xv_dt a) dt) (xv_flat a)) /\
    (forall i, nth_error l i = Some None ->
       exists v, nth_error vals i = Some v /\ xv_shape v = repeat 0 nd).
Proof. exact xconstruct_spec. Qed.
Print Assumptions C11_normalise_x.

(* exactly the None entries are flagged (and the flag array has the length of the input) *)
Theorem C11_flags_exact : forall l,
  (forall i, nth_error l i = Some None <-> (exists m, flags_of l = Some m /\ nth_error m i = Some true)) /\
  (forall m, flags_of l = Some m -> length m = length l).
Proof. intros l. split; [intros i; exact (flags_exact l i) | exact (flags_length l)]. Qed.
Print Assumptions C11_flags_exact.

(* on numeric input (any byte order) the tied model is the name-level model: all the
   theorems about `construct` above speak about it *)
Theorem C11_numeric_agrees : forall l,
  forallb is_numeric (bases l) = true ->
  xconstruct l = match construct (map (option_map forget) l) with
                 | Ok (vals, m) => Ok (map embed vals, m)
                 | Err e => Err e
                 end.
Proof. exact xconstruct_numeric. Qed.
Print Assumptions C11_numeric_agrees.

(* ---- the whole path: construct -> serialize -> deserialize -------------------------- *)
(* whenever normalisation succeeds, encoding its result (with its missing array)
   succeeds and decoding returns exactly the normalised sequence, with exactly the
   None positions flagged *)
Theorem C11_pipeline : forall l vals miss,
  (forall a, In (Some a) l -> xwf a) ->
  xconstruct l = Ok (vals, miss) ->
  xpipeline l = Ok (vals, miss) /\ miss = flags_of l /\ length vals = length l.
Proof. exact xpipeline_spec. Qed.
Print Assumptions C11_pipeline.

(* ... and on numeric input the whole path never fails *)
Theorem C11_pipeline_total : forall l,
  forallb is_numeric (bases l) = true -> (forall a, In (Some a) l -> xwf a) ->
  exists vals, xconstruct l = Ok (vals, flags_of l) /\ xpipeline l = Ok (vals, flags_of l).
Proof. exact xpipeline_total. Qed.
Print Assumptions C11_pipeline_total.

(* order independence on the tied model, in the strong form: both orders are normalised
   by one elementwise function, so the outputs correspond under the SAME permutation *)
Theorem C11_order_free_x : forall l l', Permutation l l' ->
  xcommon_type_dims l = xcommon_type_dims l' /\
  match xconstruct l, xconstruct l' with
  | Ok (vals, _), Ok (vals', _) =>
      Permutation vals vals' /\ exists f, vals = map f l /\ vals' = map f l'
  | Err e, Err e' => e = e'
  | _, _ => False
  end.
Proof. exact xorder_free. Qed.
Print Assumptions C11_order_free_x.

(* non-vacuity: a concrete mixed sequence meets the premises and normalises *)
Example C11_nonvacuous :
  let a := {| v_dt := DI8; v_shape := [2]; v_flat := [1; 2]%Z |} in
  let b := {| v_dt := DU8; v_shape := [1; 1]; v_flat := [7]%Z |} in
  let c := {| v_dt := DF16; v_shape := []; v_flat := [512]%Z |} in
  exists vals rows data,
    construct [Some a; None; Some b; Some c] = Ok (vals, Some [false; true; false; false]) /\
    Forall wf_varr vals /\ serialize vals = Ok (rows, data) /\
    map v_dt vals = [DF16; DF16; DF16; DF16] /\
    deserialize rows data = Ok (map (fun a => (v_shape a, v_flat a)) vals).
Proof.
  cbv zeta. eexists. eexists. eexists. split; [vm_compute; reflexivity|].
  split; [repeat constructor|]. split; [vm_compute; reflexivity|]. split; reflexivity.
Qed.

(* non-vacuity of the dtype-identity statements: big-endian next to little-endian and
   U1 next to U3 are rejected, two big-endian elements are accepted and come back in
   native order with the flags; an object array absorbs numbers; a string next to a
   number fails; the pipeline returns the normalised sequence *)
Example C11_nonvacuous_x :
  let be := {| x_base := DI32; x_swap := true; x_width := 0 |} in
  let le := native DI32 in
  let u1 := {| x_base := DStr; x_swap := false; x_width := 1 |} in
  let u3 := {| x_base := DStr; x_swap := false; x_width := 3 |} in
  let arr d sh fl := {| xv_dt := d; xv_shape := sh; xv_flat := fl |} in
  forallb native_numeric [arr le [2] [1; 2]%Z; arr (native DI8) [1] [3]%Z] = true /\
  uniform (map forget [arr le [2] [1; 2]%Z; arr le [1] [3]%Z]) /\
  xserialize [arr be [2] [1; 2]%Z; arr le [1] [3]%Z] None = Err ValueError /\
  xserialize [arr u1 [1] [7]%Z; arr u3 [1] [8]%Z] None = Err ValueError /\
  xserialize [arr be [2] [1; 2]%Z; arr be [1] [3]%Z] (Some [false; true]) =
    Ok ([[0; 2]; [2; 1]], Some [false; true], [1; 2; 3]%Z, le) /\
  xdeserialize [[0; 2]; [2; 1]] (Some [false; true]) le [1; 2; 3]%Z =
    Ok ([arr le [2] [1; 2]%Z; arr le [1] [3]%Z], Some [false; true]) /\
  xconstruct [Some (arr (native DObj) [1] [8 * 5 + 3]%Z); None; Some (arr be [] [7]%Z)] =
    Ok ([arr (native DObj) [1] [43]%Z; arr (native DObj) [0] []; arr (native DObj) [1] [56]%Z], Some [false; true; false]) /\
  xconstruct [Some (arr u1 [1] [7]%Z); Some (arr le [1] [3]%Z)] = Err ValueError /\
  xconstruct [Some (arr u1 [1] [7]%Z); None; Some (arr u3 [] [8]%Z)] =
    Ok ([arr u3 [1] [7]%Z; arr u3 [0] []; arr u3 [1] [8]%Z], Some [false; true; false]) /\
  xpipeline [Some (arr be [2] [1; 2]%Z); None; Some (arr (native DF16) [] [512]%Z)] =
    Ok ([arr (native DF64) [2] [1024; 2048]%Z; arr (native DF64) [0] []; arr (native DF64) [1] [512]%Z],
        Some [false; true; false]).
Proof. cbv zeta. repeat split; try (vm_compute; reflexivity). repeat constructor. Qed.

(* non-vacuity of the exactness statements: the side condition holds for an int64 next
   to a float16 below 2^53 (exact) and fails for 2^53+1 (rounded) *)
Example C11_nonvacuous_cast :
  (exists vals miss,
     construct [Some {| v_dt := DI64; v_shape := [1]; v_flat := [2 ^ 53]%Z |};
                Some {| v_dt := DF16; v_shape := [0]; v_flat := [] |}] = Ok (vals, miss) /\
     map v_flat vals = [[2 ^ 53 * 1024]%Z; []]) /\
  (exists vals miss, construct inexact_input = Ok (vals, miss) /\ map v_flat vals = [[2 ^ 53 * 1024]%Z; []]).
Proof. split; eexists; eexists; split; vm_compute; reflexivity. Qed.
