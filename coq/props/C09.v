(* props/C09.v -- C09: partial reads equal the same restriction of the full read. *)
From Geff Require Import Base Dtype Vlen Tree Validate Write Read ReadMaskLemmas.
From Geff.Gen Require Import Consts.
Open Scope string_scope.
Open Scope list_scope.

(* For every store, every choice of property names and every node/edge mask: building with the masks gives
   exactly `restrict` of the graph built without masks -- the kept nodes in stored order, the selected edges whose
   two endpoints are both kept, every loaded property row (values, missing mask, var-length element) selected with
   its node or edge, metadata unchanged.  store_ok asks only that the offset table of a variable-length property is
   a well-formed array of rank >= 1 (true of every store whose arrays exist). *)
Theorem C09_restrict : forall rd nnames enames nm em gfull,
  store_ok rd (match nnames with Some l => l | None => rd_nnames rd end)
              (match enames with Some l => l | None => rd_enames rd end) ->
  build rd nnames enames None None = Ok gfull ->
  build rd nnames enames nm em = Ok (restrict gfull nm em).
Proof. exact build_restrict. Qed.
Print Assumptions C09_restrict.

(* no returned edge refers to a node that was not returned *)
Theorem C09_closed : forall g keep em x,
  In x (a_flat (g_eids (restrict g (Some keep) em))) -> In x (a_flat (g_nids (restrict g (Some keep) em))).
Proof. exact restrict_closed. Qed.
Print Assumptions C09_closed.

(* property subsets: exactly the requested properties are returned, the metadata describes exactly them, and each
   returned property is the decoding of its own stored group (it does not depend on which other names were asked) *)
Theorem C09_names : forall rd nn en nm em g,
  NoDup nn -> NoDup en ->
  build rd (Some nn) (Some en) nm em = Ok g ->
  akeys (g_nprops g) = nn /\ akeys (g_eprops g) = en /\
  (forall k, In k (akeys (md_nprops (g_md g))) <-> In k nn) /\
  (forall k, In k (akeys (md_eprops (g_md g))) <-> In k en) /\
  (forall name p, In (name, p) (g_nprops g) ->
     exists zp pm, read_prop (rd_root rd) path_NODES name = Ok zp /\ alookup name (md_nprops (rd_md rd)) = Some pm /\
                   load_prop zp nm pm = Ok p).
Proof. exact build_names. Qed.
Print Assumptions C09_names.

(* one property: loading under a mask = masking the full load (var-length: the offset rows are selected, data is shared) *)
Theorem C09_prop : forall zp keep pm p,
  (pm_varlength pm = true -> wf_arr (zp_values zp) = true /\ exists n rest, a_shape (zp_values zp) = n :: rest) ->
  load_prop zp None pm = Ok p ->
  load_prop zp (Some keep) pm = Ok (mask_prop (Some keep) p).
Proof. exact load_prop_mask. Qed.
Print Assumptions C09_prop.

(* non-vacuity: a stored 3-node graph with a masked var-length property; masking nodes [1;0;1] keeps nodes 5,7,
   the edge (7,5), drops (5,6), and selects the var-length elements of nodes 5 and 7 *)
Definition ex_store : znode :=
  ZG [("geff", AGeff (Some (mkmd true None [("v", mkpm DI8 true None None None)] [] 0%Z)))]
     [("nodes", ZG [] [("ids", ZA (mkarr DU8 [3%nat] [5; 6; 7]%Z));
                       ("props", ZG [] [("v", ZG [] [("values", ZA (mkarr DU64 [3%nat; 2%nat] [0; 2; 2; 0; 2; 1]%Z));
                                                     ("missing", ZA (mkarr DBool [3%nat] [0; 1; 0]%Z));
                                                     ("data", ZA (mkarr DI8 [3%nat] [1; 2; 3]%Z))])])]);
      ("edges", ZG [] [("ids", ZA (mkarr DU8 [2%nat; 2%nat] [5; 6; 7; 5]%Z))])].

Example C09_nonvacuous :
  exists rd gfull,
    reader_init KObj (Some ex_store) true = Ok rd /\ build rd None None None None = Ok gfull /\
    store_ok rd (rd_nnames rd) (rd_enames rd) /\
    let g := restrict gfull (Some [true; false; true]) None in
    a_flat (g_nids g) = [5; 7]%Z /\ a_flat (g_eids g) = [7; 5]%Z /\
    g_nprops g = [("v", mkprop (PVlen [Build_varr DI8 [2%nat] [1; 2]%Z; Build_varr DI8 [1%nat] [3]%Z])
                               (Some (mkarr DBool [2%nat] [0; 0]%Z)))].
Proof.
  eexists. eexists. split; [vm_compute; reflexivity|]. split; [vm_compute; reflexivity|]. split.
  - split.
    + intros name zp pm [<-|[]] Hr Hl Hv. vm_compute in Hr. inversion Hr; subst zp. split; [reflexivity | eexists; eexists; reflexivity].
    + intros name zp pm [].
  - vm_compute. repeat split.
Qed.
