(* props/C09.v -- C09: partial reads equal the same restriction of the full read. (being extended) *)
From Geff Require Import Base Dtype Vlen Tree Validate Write Read.
Open Scope list_scope.
Theorem C09_placeholder_select_nil : forall (A : Type) (rows : list A), select [] rows = [].
Proof. intros A rows. destruct rows; reflexivity. Qed.
Print Assumptions C09_placeholder_select_nil.
