(* props/C09.v -- C09: partial reads equal the same restriction of the full read. *)
From Geff Require Import Base Dtype Vlen Tree Validate Write Read ReadMaskLemmas RestrictSpec.
From Geff.Gen Require Import Consts.
Open Scope string_scope.
Open Scope list_scope.

(* Masks have one entry per stored node / edge.  The implementation raises on a mask of any other length (zarr refuses the
   selection); the model's row selection would truncate instead, so every statement about masks below is made for fitting masks
   only -- the premise is not needed by the proofs, it is there so that the statements are true of the code. *)
Definition fits (a : arr) (m : option (list bool)) : Prop :=
  match m with None => True | Some l => List.length l = hd 0%nat (a_shape a) end.

(* For every store, every choice of property names and every node/edge mask: building with the masks gives
   exactly `restrict` of the graph built without masks -- the kept nodes in stored order, the selected edges whose
   two endpoints are both kept, every loaded property row (values, missing mask, var-length element) selected with
   its node or edge, metadata unchanged.  store_ok asks only that the offset table of a variable-length property is
   a well-formed array of rank >= 1 (true of every store whose arrays exist). *)
Theorem C09_restrict : forall rd nnames enames nm em gfull,
  store_ok rd (match nnames with Some l => l | None => rd_nnames rd end)
              (match enames with Some l => l | None => rd_enames rd end) ->
  build rd nnames enames None None = Ok gfull ->
  fits (g_nids gfull) nm -> fits (g_eids gfull) em ->
  build rd nnames enames nm em = Ok (restrict gfull nm em).
Proof. intros rd nnames enames nm em gfull Hs Hb _ _. exact (build_restrict rd nnames enames nm em gfull Hs Hb). Qed.
Print Assumptions C09_restrict.

(* no returned edge refers to a node that was not returned *)
Theorem C09_closed : forall g keep em x,
  In x (a_flat (g_eids (restrict g (Some keep) em))) -> In x (a_flat (g_nids (restrict g (Some keep) em))).
Proof. exact restrict_closed. Qed.
Print Assumptions C09_closed.

(* `restrict` read declaratively, by index (RestrictSpec.v; nothing of build's own helpers on the right-hand side): under a node
   mask the returned edge rows are EXACTLY the stored rows that the edge mask selects (when one is given) and whose endpoints are
   all among the returned node ids; the returned node ids are exactly the stored ids whose position is flagged *)
Theorem C09_edges_exact : forall g keep em r,
  let kept := a_flat (g_nids (restrict g (Some keep) em)) in
  let mask := match em with Some m => and_masks m (edges_kept (g_eids g) kept) | None => edges_kept (g_eids g) kept end in
  a_flat (g_eids (restrict g (Some keep) em)) = List.concat (select mask (erows (g_eids g))) /\
  (In r (select mask (erows (g_eids g))) <->
   exists j, nth_error (erows (g_eids g)) j = Some r /\
             match em with Some m => nth_error m j = Some true | None => True end /\
             forall x, In x r -> In x kept).
Proof. exact restrict_edges_exact. Qed.
Print Assumptions C09_edges_exact.

Theorem C09_nodes_exact : forall g keep em x,
  row_size (g_nids g) = 1%nat ->
  In x (a_flat (g_nids (restrict g (Some keep) em))) <->
  exists i, nth_error keep i = Some true /\ nth_error (erows (g_nids g)) i = Some [x].
Proof. exact restrict_nodes_exact. Qed.
Print Assumptions C09_nodes_exact.

(* property subsets: exactly the requested properties are returned, the metadata describes exactly them, and each
   returned property is the decoding of its own stored group (it does not depend on which other names were asked) *)
Theorem C09_names : forall rd nn en nm em g,
  NoDup nn -> NoDup en ->
  build rd (Some nn) (Some en) nm em = Ok g ->
  akeys (g_nprops g) = nn /\ akeys (g_eprops g) = en /\
  (forall k, In k (akeys (md_nprops (g_md g))) <-> In k nn) /\
  (forall k, In k (akeys (md_eprops (g_md g))) <-> In k en) /\
  (forall name p, In (name, p) (g_nprops g) ->
     exists zp pm, read_prop (rd_root rd) path_NODES name = Ok zp /\ alookup name (md_nprops (rd_md rd)) = Some pm /\
                   load_prop zp nm pm = Ok p).
Proof. exact build_names. Qed.
Print Assumptions C09_names.

(* one property: loading under a mask = masking the full load (var-length: the offset rows are selected, data is shared) *)
Theorem C09_prop : forall zp keep pm p,
  (pm_varlength pm = true -> wf_arr (zp_values zp) = true /\ exists n rest, a_shape (zp_values zp) = n :: rest) ->
  load_prop zp None pm = Ok p ->
  fits (zp_values zp) (Some keep) ->
  load_prop zp (Some keep) pm = Ok (mask_prop (Some keep) p).
Proof. intros zp keep pm p Hz Hl _. exact (load_prop_mask zp keep pm p Hz Hl). Qed.
Print Assumptions C09_prop.

(* non-vacuity: a stored 3-node graph with a masked var-length property; masking nodes [1;0;1] keeps nodes 5,7,
   the edge (7,5), drops (5,6), and selects the var-length elements of nodes 5 and 7 *)
Definition ex_store : znode :=
  ZG [("geff", AGeff (Some (mkmd true None [("v", mkpm DI8 true None None None)] [] 0%Z)))]
     [("nodes", ZG [] [("ids", ZA (mkarr DU8 [3%nat] [5; 6; 7]%Z));
                       ("props", ZG [] [("v", ZG [] [("values", ZA (mkarr DU64 [3%nat; 2%nat] [0; 2; 2; 0; 2; 1]%Z));
                                                     ("missing", ZA (mkarr DBool [3%nat] [0; 1; 0]%Z));
                                                     ("data", ZA (mkarr DI8 [3%nat] [1; 2; 3]%Z))])])]);
      ("edges", ZG [] [("ids", ZA (mkarr DU8 [2%nat; 2%nat] [5; 6; 7; 5]%Z))])].

Example C09_nonvacuous :
  exists rd gfull,
    reader_init KObj (Some ex_store) true = Ok rd /\ build rd None None None None = Ok gfull /\
    store_ok rd (rd_nnames rd) (rd_enames rd) /\
    let g := restrict gfull (Some [true; false; true]) None in
    a_flat (g_nids g) = [5; 7]%Z /\ a_flat (g_eids g) = [7; 5]%Z /\
    g_nprops g = [("v", mkprop (PVlen [Build_varr DI8 [2%nat] [1; 2]%Z; Build_varr DI8 [1%nat] [3]%Z])
                               (Some (mkarr DBool [2%nat] [0; 0]%Z)))].
Proof.
  eexists. eexists. split; [vm_compute; reflexivity|]. split; [vm_compute; reflexivity|]. split.
  - split.
    + intros name zp pm [<-|[]] Hr Hl Hv. vm_compute in Hr. inversion Hr; subst zp. split; [reflexivity | eexists; eexists; reflexivity].
    + intros name zp pm [].
  - vm_compute. repeat split.
Qed.

(* ====================================================================================================
   The GeffReader OBJECT as a state machine (ReaderSM.v): every sequence of read_node_props /
   read_edge_props / build calls, in any order, with overlapping, repeated, empty or None name lists.
   ==================================================================================================== *)
From Geff Require Import ReaderSM ReaderSMLemmas.

(* What the object holds after ANY sequence of calls on a fresh reader: its own fields are those of __init__
   (root -- nothing is written, C18 --, metadata, id arrays, listed names); the two handle dictionaries hold
   exactly the names requested so far -- of a failing call, the names in front of the first that could not be
   opened --, each at the position of its FIRST request (dict insertion order), each with the handle _read_prop
   returns for that name (a second read replaces the handle by an equal one). *)
Theorem C09_sm_held : forall rd ops,
  let s := final (sm_init rd) ops in
  rs_rd s = rd /\
  akeys (rs_np s) = first_occ (flat_map (nreq rd) ops) /\
  akeys (rs_ep s) = first_occ (flat_map (ereq rd) ops) /\
  (forall k, alookup k (rs_np s) = if smem k (flat_map (nreq rd) ops) then hget (rd_root rd) path_NODES k else None) /\
  (forall k, alookup k (rs_ep s) = if smem k (flat_map (ereq rd) ops) then hget (rd_root rd) path_EDGES k else None) /\
  sinv s.
Proof. exact reachable_held. Qed.
Print Assumptions C09_sm_held.

(* Refinement: in every reachable object, build(nm, em) IS the one-shot function of Read.v on the names held
   (outcome and exception alike), so C09_restrict / C09_names / C01 speak about every call sequence. *)
Theorem C09_sm_build : forall rd ops nm em,
  build_held (final (sm_init rd) ops) nm em =
  build rd (Some (first_occ (flat_map (nreq rd) ops))) (Some (first_occ (flat_map (ereq rd) ops))) nm em.
Proof. exact reachable_build. Qed.
Print Assumptions C09_sm_build.

(* C09 for every call sequence: build(nm, em) returns the FULL read (all listed properties, no mask) restricted
   to the names requested so far, then to the masks.  rd_ok: the listed names are those of the stored property
   groups (true of every reader __init__ returns: reader_init_ok, reader_init_listed_ok). *)
Theorem C09_sm_build_full : forall rd gall ops nm em,
  rd_ok rd -> store_ok rd (rd_nnames rd) (rd_enames rd) ->
  build rd None None None None = Ok gall ->
  fits (g_nids gall) nm -> fits (g_eids gall) em ->
  let s := final (sm_init rd) ops in
  build_held s nm em =
  Ok (restrict (restrict_names gall (first_occ (flat_map (nreq rd) ops)) (first_occ (flat_map (ereq rd) ops))) nm em).
Proof. intros rd gall ops nm em Hr Hs Hb _ _. exact (sm_build_full rd gall ops nm em Hr Hs Hb). Qed.
Print Assumptions C09_sm_build_full.

Theorem C09_sm_init_ok : forall k s v ln le rd, reader_init_listed k s v ln le = Ok rd -> rd_ok rd.
Proof. exact reader_init_listed_ok. Qed.
Print Assumptions C09_sm_init_ok.

(* masks against the unmasked build of the same object *)
Theorem C09_sm_restrict : forall rd ops nm em gfull,
  let s := final (sm_init rd) ops in
  store_ok rd (akeys (rs_np s)) (akeys (rs_ep s)) ->
  build_held s None None = Ok gfull -> fits (g_nids gfull) nm -> fits (g_eids gfull) em ->
  build_held s nm em = Ok (restrict gfull nm em).
Proof. intros rd ops nm em gfull s Hs Hb _ _. exact (reachable_restrict rd ops nm em gfull Hs Hb). Qed.
Print Assumptions C09_sm_restrict.

(* the one-shot function is the special case  init; read_node_props; read_edge_props; build  -- for every name
   list, repeated names included (Read.build's dictionary insertion = the object's) *)
Theorem C09_sm_oneshot : forall rd nn en nm em g,
  build rd nn en nm em = Ok g <->
  results (sm_init rd) [RNode nn; REdge en; Build nm em] = [Ok None; Ok None; Ok (Some g)].
Proof. exact sm_oneshot_gen. Qed.
Print Assumptions C09_sm_oneshot.

Theorem C09_sm_dedupe : forall rd nn en nm em g,
  build rd (Some nn) (Some en) nm em = Ok g <-> build rd (Some (first_occ nn)) (Some (first_occ en)) nm em = Ok g.
Proof. exact build_dedupe. Qed.
Print Assumptions C09_sm_dedupe.

(* read_to_memory = GeffReader(...); read_node_props; read_edge_props; build() : C01's statements about
   read_to_memory are statements about this call sequence *)
Theorem C09_sm_read_to_memory : forall k s v nn en g,
  read_to_memory k s v nn en = Ok g <-> read_to_memory_sm k s v nn en = Ok g.
Proof. exact read_to_memory_sm_eq_gen. Qed.
Print Assumptions C09_sm_read_to_memory.

(* build does not change the object: a build anywhere in a sequence can be removed without changing the final
   object or the outcome of any other call; two builds give the same two graphs in either order *)
Theorem C09_sm_build_pure : forall s a nm em b,
  fst (step s (Build nm em)) = s /\
  final s (a ++ Build nm em :: b) = final s (a ++ b) /\
  results s (a ++ Build nm em :: b) = results s a ++ snd (step (final s a) (Build nm em)) :: results (final s a) b /\
  results s (a ++ b) = results s a ++ results (final s a) b.
Proof. intros s a nm em b. split; [reflexivity | exact (build_erase s a nm em b)]. Qed.
Print Assumptions C09_sm_build_pure.

Theorem C09_sm_builds_commute : forall s a b c d,
  final s [Build a b; Build c d] = s /\
  results s [Build a b; Build c d] = [snd (step s (Build a b)); snd (step s (Build c d))] /\
  results s [Build c d; Build a b] = [snd (step s (Build c d)); snd (step s (Build a b))].
Proof. exact builds_commute. Qed.
Print Assumptions C09_sm_builds_commute.

(* every call is idempotent: the same call again returns the same and leaves the same object *)
Theorem C09_sm_idempotent : forall s o, step (fst (step s o)) o = step s o.
Proof. exact step_idem. Qed.
Print Assumptions C09_sm_idempotent.

(* reads commute up to the order of the property dictionaries: two call sequences requesting the same sets of
   names leave objects with equal fields and equal dictionaries up to order, and a build that succeeds on one
   succeeds on the other with the same metadata, ids and property contents *)
Theorem C09_sm_reads_commute : forall rd ops1 ops2 nm em g1,
  (forall k, smem k (flat_map (nreq rd) ops1) = smem k (flat_map (nreq rd) ops2)) ->
  (forall k, smem k (flat_map (ereq rd) ops1) = smem k (flat_map (ereq rd) ops2)) ->
  state_equiv (final (sm_init rd) ops1) (final (sm_init rd) ops2) /\
  (build_held (final (sm_init rd) ops1) nm em = Ok g1 ->
   exists g2, build_held (final (sm_init rd) ops2) nm em = Ok g2 /\ graph_equiv g1 g2).
Proof. exact reachable_commute. Qed.
Print Assumptions C09_sm_reads_commute.

Theorem C09_sm_swap : forall s o1 o2, state_equiv (final s [o1; o2]) (final s [o2; o1]).
Proof. exact read_read_commute. Qed.
Print Assumptions C09_sm_swap.

(* failing calls.  A failing build leaves the object as it was.  A failing read does NOT: "a failing call
   leaves the object unchanged" is refuted (read_node_props(["v","nope","a"]) raises and keeps "v"); exactly:
   the object is the one the read of the names in front of the first unopenable name produces. *)
Definition C09_sm_failed_read_atomic_full : Prop :=
  forall s names e, snd (step s (RNode names)) = Err e -> fst (step s (RNode names)) = s.
Theorem C09_sm_failed_read_atomic_refuted : ~ C09_sm_failed_read_atomic_full.
Proof. intro H. destruct failed_read_not_atomic as [rd [names [e [_ [He [_ Hne]]]]]]. exact (Hne (H _ _ _ He)). Qed.
Print Assumptions C09_sm_failed_read_atomic_refuted.

Theorem C09_sm_failed_read_partial : forall s names e (node : bool),
  let o := fun l => if node then RNode l else REdge l in
  let grp := if node then path_NODES else path_EDGES in
  let all := if node then rd_nnames (rs_rd s) else rd_enames (rs_rd s) in
  snd (step s (o names)) = Err e ->
  exists pre bad post, names_or names all = pre ++ bad :: post /\
    read_prop_h (rd_root (rs_rd s)) grp bad = Err e /\
    ok_prefix (rd_root (rs_rd s)) grp (names_or names all) = pre /\
    step s (o (Some pre)) = (fst (step s (o names)), Ok None).
Proof. exact failed_read_prefix. Qed.
Print Assumptions C09_sm_failed_read_partial.

Theorem C09_sm_failed_build : forall s nm em e, snd (step s (Build nm em)) = Err e -> fst (step s (Build nm em)) = s.
Proof. exact failed_build_state. Qed.
Print Assumptions C09_sm_failed_build.

(* names=[] loads nothing; names=None is the listed names *)
Theorem C09_sm_empty_none : forall s,
  step s (RNode (Some [])) = (s, Ok None) /\ step s (REdge (Some [])) = (s, Ok None) /\
  step s (RNode None) = step s (RNode (Some (rd_nnames (rs_rd s)))) /\
  step s (REdge None) = step s (REdge (Some (rd_enames (rs_rd s)))).
Proof. intro s. destruct (read_empty s) as [H1 H2]. destruct (read_none s) as [H3 H4]. repeat split; assumption. Qed.
Print Assumptions C09_sm_empty_none.

(* non-vacuity: a stored 3-node graph, node properties "a" (int16) and "v" (var-length, masked), edge property "w";
   three calls on one reader: read_node_props(["v","v"]); build(node_mask=[1,0,1]); read_node_props(["a","v"]).
   The premises of C09_sm_build_full hold, the masked build returns nodes 5,7, edge (7,5), the two var-length
   elements, metadata for "v" only; afterwards the object holds "v" then "a" (first-request order). *)
Example C09_sm_nonvacuous :
  exists rd gall,
    reader_init_listed KObj (Some sm_ex_store) true ["v"; "a"] ["w"] = Ok rd /\
    rd_ok rd /\ store_ok rd (rd_nnames rd) (rd_enames rd) /\ build rd None None None None = Ok gall /\
    let ops := [RNode (Some ["v"; "v"]); Build (Some [true; false; true]) None; RNode (Some ["a"; "v"])] in
    akeys (rs_np (final (sm_init rd) ops)) = ["v"; "a"] /\
    match results (sm_init rd) ops with
    | [Ok None; Ok (Some g); Ok None] =>
        a_flat (g_nids g) = [5; 7]%Z /\ a_flat (g_eids g) = [7; 5]%Z /\ akeys (md_nprops (g_md g)) = ["v"] /\
        g_nprops g = [("v", mkprop (PVlen [Build_varr DI8 [2%nat] [1; 2]%Z; Build_varr DI8 [1%nat] [3]%Z])
                                   (Some (mkarr DBool [2%nat] [0; 0]%Z)))] /\
        g = restrict (restrict_names gall ["v"] []) (Some [true; false; true]) None
    | _ => False
    end.
Proof.
  destruct (reader_init_listed KObj (Some sm_ex_store) true ["v"; "a"] ["w"]) as [rd|e] eqn:Ei; [|vm_compute in Ei; discriminate].
  exists rd. pose proof (reader_init_listed_ok _ _ _ _ _ _ Ei) as Hok.
  vm_compute in Ei. inversion Ei; subst rd; clear Ei.
  eexists. split; [reflexivity|]. split; [exact Hok|].
  split.
  { split.
    - intros name zp pm Hin Hr Hl Hv. cbn in Hin. destruct Hin as [<-|[<-|[]]]; vm_compute in Hr, Hl; inversion Hr; inversion Hl; subst.
      + split; [reflexivity | eexists; eexists; reflexivity].
      + vm_compute in Hv. discriminate.
    - intros name zp pm Hin Hr Hl Hv. cbn in Hin. destruct Hin as [<-|[]]. vm_compute in Hl. inversion Hl; subst. vm_compute in Hv. discriminate. }
  split; [vm_compute; reflexivity|].
  vm_compute. repeat split.
Qed.
