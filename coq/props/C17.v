(* props/C17.v -- C17: table export lists every node and edge with aligned property columns.

   Vocabulary (Table.v): a graph holds ids, edges and stored properties (numpy shape, row-major
   values, optional missing array); [table_ok idcols N props (t, w)] is the property text for one
   table: every column has N cells; the id columns hold the ids in stored order; a property whose
   trailing axes are all singletons is the column "name", one with a single non-singleton trailing
   axis of size k is name_0..name_{k-1}, row i / component j holding values[i, j] (row-major
   i*k+j) or NaN where flagged missing; a property with two or more non-singleton trailing axes
   is named in a warning (and only those are); no other column exists.
   [frames_ok g] = table_ok for the node table and for the edge table.

   Reading of the text fixed by DESIGN.md section 6/C17: ranks are taken after dropping singleton
   trailing axes, and an (N,1) property is the column "name" (docstring), not "name_0".

   The full statement is FALSE for the code as it stands: the export builds a python dict keyed by
   column name, so a property called "id" (or "source"/"target", or "p_0" next to a 2-D "p")
   silently replaces another column.  Open finding C17/name-collision; hence _refuted + _partial. *)
From Geff Require Import Base Table TableLemmas.
Open Scope list_scope.

Definition C17_full : Prop := forall g, wf_graph g -> frames_ok g.

(* witness: nodes [10; 11] with a 1-D property called "id" = [5; 6]: column id holds 5, 6 *)
Theorem C17_full_refuted : ~ C17_full.
Proof. exact frames_full_refuted. Qed.
Print Assumptions C17_full_refuted.

(* for ALL stored graphs (no size bound) in which no two sources claim the same column name
   (boolean guard [graph_names_distinct]): the full property text, both tables *)
Theorem C17_partial : forall g, wf_graph g -> graph_names_distinct g = true -> frames_ok g.
Proof. exact frames_ok_distinct. Qed.
Print Assumptions C17_partial.

(* the guard can only fail ACROSS sources: the columns of one property are pairwise distinct
   (f"{name}_{i}" is injective in i) *)
Theorem C17_one_property_never_collides : forall p names, cols_of p = Some names -> NoDup names.
Proof. exact cols_of_NoDup. Qed.
Print Assumptions C17_one_property_never_collides.

(* what survives without the guard, for ALL stored graphs: one row per node / edge in every
   column, warnings exactly for the higher-rank properties, no foreign column *)
Theorem C17_rows_warnings : forall g, wf_graph g ->
  let nf := node_frame g in let ef := edge_frame g in
  (forall c, In c (fst nf) -> List.length (snd c) = List.length (g_ids g)) /\
  (forall c, In c (fst ef) -> List.length (snd c) = List.length (g_edges g)) /\
  (forall n, In n (snd nf) <-> exists p, In p (g_nprops g) /\ p_name p = n /\ cols_of p = None) /\
  (forall n, In n (snd ef) <-> exists p, In p (g_eprops g) /\ p_name p = n /\ cols_of p = None) /\
  (forall n, In n (map fst (fst nf)) -> In n (all_colnames (node_idcols g) (g_nprops g))) /\
  (forall n, In n (map fst (fst ef)) -> In n (all_colnames (edge_idcols g) (g_eprops g))).
Proof. exact frames_rows_warnings. Qed.
Print Assumptions C17_rows_warnings.

(* complete characterisation with no guard at all: a column holds the LAST source that claimed its
   name, sources taken in the order id columns, then properties in stored order *)
Theorem C17_last_source_wins : forall idcols props n,
  lookup (fst (export idcols props)) n = last_of (idcols ++ flat_map spec_columns props) n.
Proof. exact export_lookup_last. Qed.
Print Assumptions C17_last_source_wins.

(* ... and when names are distinct the table is literally: id columns, then each property's
   columns in stored order *)
Theorem C17_table_equation : forall idcols props,
  NoDup (all_colnames idcols props) ->
  export idcols props = (idcols ++ flat_map spec_columns props, flat_map warn_of props).
Proof. exact export_distinct. Qed.
Print Assumptions C17_table_equation.

(* CSV, files as tables (the CSV text layer is pandas runtime: tied on the implementation only).
   Without overwrite nothing that exists is replaced, the call succeeds iff neither file exists and
   otherwise raises FileExistsError *)
Theorem C17_csv_keeps_existing : forall s g,
  let r := geff_to_csv s g false in
  (forall t, fs_nodes s = Some t -> fs_nodes (fst r) = Some t) /\
  (forall t, fs_edges s = Some t -> fs_edges (fst r) = Some t) /\
  (snd r = Ok tt <-> fs_nodes s = None /\ fs_edges s = None) /\
  (snd r <> Ok tt -> snd r = Err FileExistsError).
Proof. exact csv_keeps_existing. Qed.
Print Assumptions C17_csv_keeps_existing.

(* a successful call leaves exactly the two exported tables (reading them back gives the same ids
   and values); with overwrite the call always succeeds *)
Theorem C17_csv_writes : forall s g ov,
  let r := geff_to_csv s g ov in
  (snd r = Ok tt -> fs_nodes (fst r) = Some (fst (node_frame g)) /\ fs_edges (fst r) = Some (fst (edge_frame g))) /\
  (ov = true -> snd r = Ok tt).
Proof. exact csv_writes. Qed.
Print Assumptions C17_csv_writes.

(* the command line has no overwrite option: it never replaces a file *)
Theorem C17_cli_keeps_existing : forall s g,
  let r := cli_convert_to_csv s g in
  (forall t, fs_nodes s = Some t -> fs_nodes (fst r) = Some t) /\
  (forall t, fs_edges s = Some t -> fs_edges (fst r) = Some t).
Proof. exact cli_keeps_existing. Qed.
Print Assumptions C17_cli_keeps_existing.

(* non-vacuity: one node (the case the repaired squeeze is about) with a (1,3) property, two edges
   with a (2,1,2) property under a mask, a 1-D property and a rank-3 property that is left out *)
Definition C17_example : graph :=
  mkGraph [7]%Z
          [mkProp "pos" [1; 3]%nat [1; 2; 3]%Z None]
          [(7, 7); (7, 7)]%Z
          [mkProp "w" [2; 1; 2]%nat [1; 2; 3; 4]%Z (Some [false; true]);
           mkProp "s" [2]%nat [8; 9]%Z (Some [false; false]);
           mkProp "cov" [2; 2; 2]%nat [0; 0; 0; 0; 0; 0; 0; 0]%Z None].

Example C17_nonvacuous :
  wf_graph C17_example /\ graph_names_distinct C17_example = true /\
  node_frame C17_example =
    ([("id", [Val 7]); ("pos_0", [Val 1]); ("pos_1", [Val 2]); ("pos_2", [Val 3])]%string%Z, []) /\
  edge_frame C17_example =
    ([("source", [Val 7; Val 7]); ("target", [Val 7; Val 7]);
      ("w_0", [Val 1; NaN]); ("w_1", [Val 2; NaN]); ("s", [Val 8; Val 9])]%string%Z, ["cov"%string]) /\
  geff_to_csv (mkFs None (Some [])) C17_example false = (mkFs None (Some []), Err FileExistsError).
Proof.
  split; [|vm_compute; repeat split].
  split; repeat constructor; try (eexists; reflexivity);
    intros m H; inversion H; subst; reflexivity.
Qed.
