(* props/C17.v -- C17: table export lists every node and edge with aligned property columns.

   Vocabulary (Table.v): a graph holds ids, edges and stored properties (numpy shape, row-major
   values, optional missing array); [table_ok idcols N props (t, w)] is the property text for one
   table: every column has N cells; the id columns hold the ids in stored order; a property whose
   trailing axes are all singletons is the column "name", one with a single non-singleton trailing
   axis of size k is name_0..name_{k-1}, row i / component j holding values[i, j] (row-major
   i*k+j) or NaN where flagged missing; a property with two or more non-singleton trailing axes
   is named in a warning (and only those are); no other column exists.
   [frames_ok g] = table_ok for the node table and for the edge table.

   Reading of the text fixed by DESIGN.md section 6/C17: ranks are taken after dropping singleton
   trailing axes, and an (N,1) property is the column "name" (docstring), not "name_0".

   The full statement is FALSE for the code as it stands: the export builds a python dict keyed by
   column name, so a property called "id" (or "source"/"target", or "p_0" next to a 2-D "p")
   silently replaces another column.  Open finding C17/name-collision; hence _refuted + _partial. *)
From Geff Require Import Base Table TableLemmas Csv CsvLemmas.
Open Scope list_scope.

Definition C17_full : Prop := forall g, wf_graph g -> frames_ok g.

(* witness: nodes [10; 11] with a 1-D property called "id" = [5; 6]: column id holds 5, 6 *)
Theorem C17_full_refuted : ~ C17_full.
Proof. exact frames_full_refuted. Qed.
Print Assumptions C17_full_refuted.

(* for ALL stored graphs (no size bound) in which no two sources claim the same column name
   (boolean guard [graph_names_distinct]): the full property text, both tables *)
Theorem C17_partial : forall g, wf_graph g -> graph_names_distinct g = true -> frames_ok g.
Proof. exact frames_ok_distinct. Qed.
Print Assumptions C17_partial.

(* the guard can only fail ACROSS sources: the columns of one property are pairwise distinct
   (f"{name}_{i}" is injective in i) *)
Theorem C17_one_property_never_collides : forall p names, cols_of p = Some names -> NoDup names.
Proof. exact cols_of_NoDup. Qed.
Print Assumptions C17_one_property_never_collides.

(* what survives without the guard, for ALL stored graphs: one row per node / edge in every
   column, warnings exactly for the higher-rank properties, no foreign column *)
Theorem C17_rows_warnings : forall g, wf_graph g ->
  let nf := node_frame g in let ef := edge_frame g in
  (forall c, In c (fst nf) -> List.length (snd c) = List.length (g_ids g)) /\
  (forall c, In c (fst ef) -> List.length (snd c) = List.length (g_edges g)) /\
  (forall n, In n (snd nf) <-> exists p, In p (g_nprops g) /\ p_name p = n /\ cols_of p = None) /\
  (forall n, In n (snd ef) <-> exists p, In p (g_eprops g) /\ p_name p = n /\ cols_of p = None) /\
  (forall n, In n (map fst (fst nf)) -> In n (all_colnames (node_idcols g) (g_nprops g))) /\
  (forall n, In n (map fst (fst ef)) -> In n (all_colnames (edge_idcols g) (g_eprops g))).
Proof. exact frames_rows_warnings. Qed.
Print Assumptions C17_rows_warnings.

(* complete characterisation with no guard at all: a column holds the LAST source that claimed its
   name, sources taken in the order id columns, then properties in stored order *)
Theorem C17_last_source_wins : forall idcols props n,
  lookup (fst (export idcols props)) n = last_of (idcols ++ flat_map spec_columns props) n.
Proof. exact export_lookup_last. Qed.
Print Assumptions C17_last_source_wins.

(* ... and when names are distinct the table is literally: id columns, then each property's
   columns in stored order *)
Theorem C17_table_equation : forall idcols props,
  NoDup (all_colnames idcols props) ->
  export idcols props = (idcols ++ flat_map spec_columns props, flat_map warn_of props).
Proof. exact export_distinct. Qed.
Print Assumptions C17_table_equation.

(* CSV, files as tables (the CSV text layer is pandas runtime: tied on the implementation only).
   Without overwrite nothing that exists is replaced, the call succeeds iff neither file exists and
   otherwise raises FileExistsError *)
Theorem C17_csv_keeps_existing : forall s g,
  let r := geff_to_csv s g false in
  (forall t, fs_nodes s = Some t -> fs_nodes (fst r) = Some t) /\
  (forall t, fs_edges s = Some t -> fs_edges (fst r) = Some t) /\
  (snd r = Ok tt <-> fs_nodes s = None /\ fs_edges s = None) /\
  (snd r <> Ok tt -> snd r = Err FileExistsError).
Proof. exact csv_keeps_existing. Qed.
Print Assumptions C17_csv_keeps_existing.

(* DEFINITIONAL (fx2011): in Table.v a file holds a table, so this only says which tables are handed to
   to_csv -- the frames of geff_to_dataframes -- and that overwrite = true cannot fail.  It says NOTHING
   about the CSV text or about reading it back: that clause of the property is the business of the
   C17_csv_* theorems over Csv.v at the end of this file. *)
Theorem C17_csv_writes : forall s g ov,
  let r := geff_to_csv s g ov in
  (snd r = Ok tt -> fs_nodes (fst r) = Some (fst (node_frame g)) /\ fs_edges (fst r) = Some (fst (edge_frame g))) /\
  (ov = true -> snd r = Ok tt).
Proof. exact csv_writes. Qed.
Print Assumptions C17_csv_writes.

(* the command line has no overwrite option: it never replaces a file *)
Theorem C17_cli_keeps_existing : forall s g,
  let r := cli_convert_to_csv s g in
  (forall t, fs_nodes s = Some t -> fs_nodes (fst r) = Some t) /\
  (forall t, fs_edges s = Some t -> fs_edges (fst r) = Some t).
Proof. exact cli_keeps_existing. Qed.
Print Assumptions C17_cli_keeps_existing.

(* non-vacuity: one node (the case the repaired squeeze is about) with a (1,3) property, two edges
   with a (2,1,2) property under a mask, a 1-D property and a rank-3 property that is left out *)
Definition C17_example : graph :=
  mkGraph [7]%Z
          [mkProp "pos" [1; 3]%nat [1; 2; 3]%Z None]
          [(7, 7); (7, 7)]%Z
          [mkProp "w" [2; 1; 2]%nat [1; 2; 3; 4]%Z (Some [false; true]);
           mkProp "s" [2]%nat [8; 9]%Z (Some [false; false]);
           mkProp "cov" [2; 2; 2]%nat [0; 0; 0; 0; 0; 0; 0; 0]%Z None].

Example C17_nonvacuous :
  wf_graph C17_example /\ graph_names_distinct C17_example = true /\
  node_frame C17_example =
    ([("id", [Val 7]); ("pos_0", [Val 1]); ("pos_1", [Val 2]); ("pos_2", [Val 3])]%string%Z, []) /\
  edge_frame C17_example =
    ([("source", [Val 7; Val 7]); ("target", [Val 7; Val 7]);
      ("w_0", [Val 1; NaN]); ("w_1", [Val 2; NaN]); ("s", [Val 8; Val 9])]%string%Z, ["cov"%string]) /\
  geff_to_csv (mkFs None (Some [])) C17_example false = (mkFs None (Some []), Err FileExistsError).
Proof.
  split; [|vm_compute; repeat split].
  split; repeat constructor; try (eexists; reflexivity);
    intros m H; inversion H; subst; reflexivity.
Qed.


(* ====================================================================================================
   fx2011 -- the CSV TEXT and pandas.read_csv WITH DEFAULT ARGUMENTS (Csv.v).

   Vocabulary.  A frame is a list of named columns of typed cells (TInt z | TBool b | TFloat literal |
   TStr s | TNA); [to_csv_text t] is the file DataFrame.to_csv(path) writes (header with an empty cell for
   the row labels, row label + rendered cells per row, csv.QUOTE_MINIMAL, LF line ends), one string.
   [tokenize] is pandas' C tokenizer for the default dialect, [read_raw] adds the header handling,
   [decide] the per-column type inference with the default NA tokens, [read_csv_default] the three in a
   row; [read_column text n] is the column n of pandas.read_csv(path).  A float cell IS the literal numpy
   prints for it, and a float read back is "the default float parser's value of this text" (RFlit): the
   two value functions (repr, strtod) are outside the model.  An integer that went through float64 is
   RFint z' with z' the exactly rounded value (round_f64).
   [frame_reads_back t] = the property's sentence: default read_csv of the written file shows every column
   under its name with the same values row by row (an integer may come back as the float of the same
   value, a missing cell as NaN).
   The sentence, read with the DEFAULT reader, is FALSE for all frames (one _refuted theorem per cause: observations about the
   default reader's type inference -- the file's text holds every value and a reader told the dtypes reproduces them; only the bare
   carriage return is an open finding of the export); it is proved
   for the frames that satisfy the boolean [frame_safe].
   ==================================================================================================== *)

(* --- the text layer --- *)
(* quoting one field and undoing it (strip the quotes, undouble) is the identity, for every string *)
Theorem C17_csv_field_quoting : forall s, unquote (quote_min s) = s.
Proof. exact unquote_quote. Qed.
Print Assumptions C17_csv_field_quoting.

(* the tokenizer inverts the writer on ANY rows of fields (all characters, any number of rows) provided no
   line starts with a line break / blank / tab and a carriage return only occurs in fields that are quoted
   for another reason *)
Theorem C17_csv_tokenizer_inverts_writer : forall rows, Forall row_ok rows -> tokenize (print_rows rows) = Some rows.
Proof. exact tokenize_print. Qed.
Print Assumptions C17_csv_tokenizer_inverts_writer.

(* an integer is written as its decimal numeral and the integer lexer reads the numeral back *)
Theorem C17_csv_decimal_reads_back : forall z, lex_int (dec_z z) = Some z /\ classify (dec_z z) = LInt z.
Proof. exact decimal_reads_back. Qed.
Print Assumptions C17_csv_decimal_reads_back.

(* for every frame with equal-length columns under distinct non-empty names whose fields hold no bare carriage
   return: the reader sees the row labels under "Unnamed: 0" and then every column under its name with the
   cell texts exactly as rendered ... *)
Theorem C17_csv_text_transparent : forall t, wf_frame t -> text_ok t = true ->
  read_raw (to_csv_text t) =
    Some (("Unnamed: 0"%string, label_column (nrows t)) :: map (fun c => (fst c, map render (snd c))) t).
Proof. exact read_raw_written. Qed.
Print Assumptions C17_csv_text_transparent.

(* ... so default read_csv is the type inference applied column by column to the rendered cells *)
Theorem C17_csv_read_back_columns : forall t, wf_frame t -> text_ok t = true ->
  read_csv_default (to_csv_text t) =
    Some (("Unnamed: 0"%string, decide (label_column (nrows t)))
          :: map (fun c => (fst c, decide (map render (snd c)))) t).
Proof. exact read_back_columns. Qed.
Print Assumptions C17_csv_read_back_columns.

(* --- what each kind of column reads back as (for columns of any length) --- *)
(* integers without a missing entry, all within int64: int64, the same integers *)
Theorem C17_csv_int_column : forall cells, cells <> [] ->
  forallb int_cell cells = true -> existsb is_TNA cells = false ->
  forallb (cell_in i64_min i64_max) cells = true ->
  decide (map render cells) = Some (DInt64, map expect_same cells).
Proof. exact kind_int. Qed.
Print Assumptions C17_csv_int_column.

(* ... within 0..2^64-1 with one beyond int64: uint64, the same integers *)
Theorem C17_csv_uint_column : forall cells,
  forallb int_cell cells = true -> existsb is_TNA cells = false ->
  forallb (cell_in 0 u64_max) cells = true -> forallb (cell_in i64_min i64_max) cells = false ->
  decide (map render cells) = Some (DUInt64, map expect_same cells).
Proof. exact kind_uint. Qed.
Print Assumptions C17_csv_uint_column.

(* integers within int64 beside a missing entry: float64; every integer goes through a C cast (rounded to 53
   bits) and -2^63 comes out as NaN; missing entries are NaN *)
Theorem C17_csv_int_missing_column : forall cells,
  forallb int_cell cells = true -> existsb is_TNA cells = true ->
  forallb (cell_in i64_min i64_max) cells = true ->
  decide (map render cells) = Some (DFloat64, map int_as_float cells).
Proof. exact kind_int_na. Qed.
Print Assumptions C17_csv_int_missing_column.

(* ... and up to 2^53 in magnitude the cast is exact *)
Theorem C17_csv_int_cast_exact : forall z, (- 2 ^ 53 <= z <= 2 ^ 53)%Z ->
  round_f64 z = z /\ Z.eqb z i64_min = false.
Proof. exact round_small. Qed.
Print Assumptions C17_csv_int_cast_exact.

(* unsigned integers with one beyond int64 beside a missing entry: the column comes back as TEXT, the missing
   cells as empty strings *)
Theorem C17_csv_uint_missing_column : forall cells,
  forallb int_cell cells = true -> existsb is_TNA cells = true ->
  forallb (cell_in 0 u64_max) cells = true -> forallb (cell_in i64_min i64_max) cells = false ->
  decide (map render cells) = Some (DStr, map (fun c => RStr (render c)) cells).
Proof. exact kind_uint_na. Qed.
Print Assumptions C17_csv_uint_missing_column.

(* booleans: bool without a missing entry, else an object column -- the values True / False / NaN either way *)
Theorem C17_csv_bool_column : forall cells,
  forallb bool_cell cells = true -> forallb is_TNA cells = false ->
  decide (map render cells) = Some (if existsb is_TNA cells then DObject else DBool, map expect_same cells).
Proof. exact kind_bool. Qed.
Print Assumptions C17_csv_bool_column.

(* floats (literals accepted by the float parser, not integers, not NA tokens): float64, every cell the parser's
   value of the literal that was written, missing entries (and stored NaNs, which ARE missing cells) NaN *)
Theorem C17_csv_float_column : forall cells,
  forallb float_cell cells = true -> forallb is_TNA cells = false -> forallb float_cell_ok cells = true ->
  decide (map render cells) = Some (DFloat64, map expect_same cells).
Proof. exact kind_float. Qed.
Print Assumptions C17_csv_float_column.

(* strings under [str_safe] (no value is an NA token -- the empty string is one --, some value does not look like
   a number, some value does not look like a boolean, no NUL, no numeral beyond int64): str, verbatim, missing
   entries NaN *)
Theorem C17_csv_str_column : forall cells,
  forallb str_cell cells = true -> str_safe cells = true ->
  decide (map render cells) = Some (DStr, map expect_same cells).
Proof. exact kind_str. Qed.
Print Assumptions C17_csv_str_column.

(* a column in which every entry is missing, whatever its dtype: float64 of NaN *)
Theorem C17_csv_all_missing_column : forall cells, cells <> [] -> forallb is_TNA cells = true ->
  decide (map render cells) = Some (DFloat64, map expect_same cells).
Proof. exact kind_all_na. Qed.
Print Assumptions C17_csv_all_missing_column.

(* --- the property's sentence --- *)
Definition C17_csv_full : Prop := csv_full.   (* forall t, wf_frame t -> frame_reads_back t = true *)

(* refuted; one witness per cause follows *)
Theorem C17_csv_full_refuted : ~ C17_csv_full.
Proof. exact csv_full_refuted. Qed.
Print Assumptions C17_csv_full_refuted.

(* for ALL frames (any number of rows and columns) that satisfy the boolean [frame_safe]: default read_csv of the
   written file shows every column under its name with the same values *)
Theorem C17_csv_partial : forall t, wf_frame t -> frame_safe t = true -> frame_reads_back t = true.
Proof. exact csv_partial. Qed.
Print Assumptions C17_csv_partial.

(* from the stored graph: for ALL typed graphs with well-shaped properties and distinct column names whose two
   frames are safe, both files read back *)
Theorem C17_csv_graph_partial : forall g, wf_graph (erase g) -> graph_names_distinct (erase g) = true ->
  frame_safe (node_tframe g) = true -> frame_safe (edge_tframe g) = true ->
  frame_reads_back (node_tframe g) = true /\ frame_reads_back (edge_tframe g) = true.
Proof. exact csv_graph_partial. Qed.
Print Assumptions C17_csv_graph_partial.

(* the ids: whatever the properties hold (as long as the text layer is transparent: no bare carriage return),
   the id column of the nodes file reads back as the stored ids -- int64, or uint64 when an id lies beyond
   2^63-1 -- ... *)
Theorem C17_csv_node_ids_read_back : forall g, wf_graph (erase g) -> graph_names_distinct (erase g) = true ->
  text_ok (node_tframe g) = true -> ids_in_range (tg_ids g) = true ->
  exists d, read_column (fst (csv_texts g)) "id" = Some (Some (d, map RInt (tg_ids g))).
Proof. exact csv_node_ids_read_back. Qed.
Print Assumptions C17_csv_node_ids_read_back.

(* ... and so do source and target of the edges file *)
Theorem C17_csv_edge_ids_read_back : forall g, wf_graph (erase g) -> graph_names_distinct (erase g) = true ->
  text_ok (edge_tframe g) = true ->
  ids_in_range (map fst (tg_edges g)) = true -> ids_in_range (map snd (tg_edges g)) = true ->
  exists d1 d2,
    read_column (snd (csv_texts g)) "source" = Some (Some (d1, map RInt (map fst (tg_edges g)))) /\
    read_column (snd (csv_texts g)) "target" = Some (Some (d2, map RInt (map snd (tg_edges g)))).
Proof. exact csv_edge_ids_read_back. Qed.
Print Assumptions C17_csv_edge_ids_read_back.

(* --- witnesses (observations about the default reader; csv-carriage-return-unquoted is the one open finding) --- *)
(* ids 1,2,3; v = [2^53+1, missing, 7]: v reads back as float64 [2^53, NaN, 7] (ids intact) *)
Theorem C17_csv_int_missing_refuted :
  wf_frame w_int_missing /\ frame_reads_back w_int_missing = false /\
  read_column (to_csv_text w_int_missing) "v" = Some (Some (DFloat64, [RFint (2 ^ 53); RNaN; RFint 7])) /\
  read_column (to_csv_text w_int_missing) "id" = Some (Some (DInt64, [RInt 1; RInt 2; RInt 3])).
Proof. exact int_missing_refuted. Qed.
Print Assumptions C17_csv_int_missing_refuted.

(* v = [-2^63, missing, 7]: [NaN, NaN, 7] *)
Theorem C17_csv_int_min_refuted :
  wf_frame w_int_min /\ frame_reads_back w_int_min = false /\
  read_column (to_csv_text w_int_min) "v" = Some (Some (DFloat64, [RNaN; RNaN; RFint 7])).
Proof. exact int_min_refuted. Qed.
Print Assumptions C17_csv_int_min_refuted.

(* u = uint64 [2^63, missing, 1]: a text column, the missing cell an empty string *)
Theorem C17_csv_uint_missing_refuted :
  wf_frame w_uint_missing /\ frame_reads_back w_uint_missing = false /\
  read_column (to_csv_text w_uint_missing) "u" =
    Some (Some (DStr, [RStr "9223372036854775808"; RStr ""; RStr "1"])).
Proof. exact uint_missing_refuted. Qed.
Print Assumptions C17_csv_uint_missing_refuted.

(* strings: "007","1","12" -> int64 7,1,12; "NA" -> NaN; "" -> NaN; "1e3","2","1.5" -> float64; "True","False","true" ->
   bool; "007", missing, "1" -> float64 7, NaN, 1 *)
Theorem C17_csv_string_refuted :
  (wf_frame w_str_007 /\ frame_reads_back w_str_007 = false /\
   read_column (to_csv_text w_str_007) "s" = Some (Some (DInt64, [RInt 7; RInt 1; RInt 12]))) /\
  (wf_frame w_str_na /\ frame_reads_back w_str_na = false /\
   read_column (to_csv_text w_str_na) "s" = Some (Some (DStr, [RNaN; RStr "a"; RStr "b"]))) /\
  (wf_frame w_str_empty /\ frame_reads_back w_str_empty = false /\
   read_column (to_csv_text w_str_empty) "s" = Some (Some (DStr, [RNaN; RStr "a"; RStr "b"]))) /\
  (wf_frame w_str_1e3 /\ frame_reads_back w_str_1e3 = false /\
   read_column (to_csv_text w_str_1e3) "s" = Some (Some (DFloat64, [RFlit "1e3"; RFlit "2"; RFlit "1.5"]))) /\
  (wf_frame w_str_true /\ frame_reads_back w_str_true = false /\
   read_column (to_csv_text w_str_true) "s" = Some (Some (DBool, [RBool true; RBool false; RBool true]))) /\
  (wf_frame w_str_masked /\ frame_reads_back w_str_masked = false /\
   read_column (to_csv_text w_str_masked) "s" = Some (Some (DFloat64, [RFint 7; RNaN; RFint 1]))).
Proof. exact str_refuted. Qed.
Print Assumptions C17_csv_string_refuted.

(* s = ["a<CR>b","k","m"]: the line is written as 0,1,a<CR>b ; four rows come back and the ids are 1, NaN, 2, 3 *)
Theorem C17_csv_carriage_return_refuted :
  wf_frame w_str_cr /\ frame_reads_back w_str_cr = false /\
  to_csv_text w_str_cr =
    String.append ",id,s" (String.append (chr 10) (String.append "0,1,a" (String.append (chr 13)
      (String.append "b" (String.append (chr 10) (String.append "1,2,k" (String.append (chr 10)
      (String.append "2,3,m" (chr 10))))))))) /\
  read_column (to_csv_text w_str_cr) "id" = Some (Some (DFloat64, [RFint 1; RNaN; RFint 2; RFint 3])) /\
  read_column (to_csv_text w_str_cr) "s" = Some (Some (DStr, [RStr "a"; RNaN; RStr "k"; RStr "m"])).
Proof. exact cr_refuted. Qed.
Print Assumptions C17_csv_carriage_return_refuted.

(* s = ["a<NUL>b","k","m"]: "a" *)
Theorem C17_csv_nul_refuted :
  wf_frame w_str_nul /\ frame_reads_back w_str_nul = false /\
  read_column (to_csv_text w_str_nul) "s" = Some (Some (DStr, [RStr "a"; RStr "k"; RStr "m"])).
Proof. exact nul_refuted. Qed.
Print Assumptions C17_csv_nul_refuted.

(* NOT a finding: a boolean column with a missing entry reads back with its values (object column) *)
Theorem C17_csv_bool_missing_keeps_values :
  frame_reads_back w_bool_missing = true /\
  read_column (to_csv_text w_bool_missing) "b" = Some (Some (DObject, [RBool true; RNaN; RBool true])).
Proof. exact bool_missing_example. Qed.
Print Assumptions C17_csv_bool_missing_keeps_values.

(* non-vacuity: a typed graph with uint64 ids beyond 2^63, a masked (3,2) integer property below 2^53, strings with
   comma / quote / line feed / CR+LF, a float32-style literal, a masked boolean, and edges with a float property:
   every premise of C17_csv_graph_partial and of the two id theorems holds, and the nodes file is the text shown *)
Definition C17_csv_example : tgraph :=
  mkTGraph [18446744073709551615; 9223372036854775808; 5]%Z
    [mkTProp "w" [3; 2]%nat [TInt 1; TInt 2; TInt 3; TInt 4; TInt (2 ^ 53); TInt (- 6)]%Z (Some [false; true; false]);
     mkTProp "s" [3]%nat [TStr "x,y"; TStr "q""t"; TStr (String.append "l1" (String.append (chr 13) (String.append (chr 10) "l2")))] None;
     mkTProp "b" [3; 1]%nat [TBool true; TBool false; TBool true] (Some [false; false; true])]
    [(5, 18446744073709551615); (9223372036854775808, 5)]%Z
    [mkTProp "f" [2]%nat [TFloat "0.1"; TFloat "-inf"] None].

Example C17_csv_nonvacuous :
  wf_graph (erase C17_csv_example) /\ graph_names_distinct (erase C17_csv_example) = true /\
  frame_safe (node_tframe C17_csv_example) = true /\ frame_safe (edge_tframe C17_csv_example) = true /\
  ids_in_range (tg_ids C17_csv_example) = true /\
  ids_in_range (map fst (tg_edges C17_csv_example)) = true /\ ids_in_range (map snd (tg_edges C17_csv_example)) = true /\
  node_tframe C17_csv_example =
    [("id", [TInt 18446744073709551615; TInt 9223372036854775808; TInt 5]);
     ("w_0", [TInt 1; TNA; TInt (2 ^ 53)]); ("w_1", [TInt 2; TNA; TInt (- 6)]);
     ("s", [TStr "x,y"; TStr "q""t"; TStr (String.append "l1" (String.append (chr 13) (String.append (chr 10) "l2")))]);
     ("b", [TBool true; TBool false; TNA])]%string%Z /\
  read_column (fst (csv_texts C17_csv_example)) "id" =
    Some (Some (DUInt64, [RInt 18446744073709551615; RInt 9223372036854775808; RInt 5]%Z)) /\
  read_column (fst (csv_texts C17_csv_example)) "w_0" = Some (Some (DFloat64, [RFint 1; RNaN; RFint (2 ^ 53)]%Z)) /\
  read_column (snd (csv_texts C17_csv_example)) "f" = Some (Some (DFloat64, [RFlit "0.1"; RFlit "-inf"])) /\
  Forall row_ok (frame_rows (node_tframe C17_csv_example)).
Proof.
  split.
  { split; repeat constructor; try (eexists; reflexivity);
      intros m H; inversion H; subst; reflexivity. }
  repeat split; try (vm_compute; reflexivity).
  apply frame_rows_ok; [discriminate | vm_compute; reflexivity].
Qed.

(* non-vacuity of the per-kind theorems: one concrete column per theorem, premises and conclusion by computation *)
Example C17_csv_kinds_nonvacuous :
  (let c := [TInt (- 2 ^ 63); TInt 0; TInt (2 ^ 63 - 1)]%Z in
   forallb int_cell c = true /\ existsb is_TNA c = false /\ forallb (cell_in i64_min i64_max) c = true /\
   decide (map render c) = Some (DInt64, [RInt (- 2 ^ 63); RInt 0; RInt (2 ^ 63 - 1)]%Z)) /\
  (let c := [TInt (2 ^ 64 - 1); TInt 0]%Z in
   forallb int_cell c = true /\ existsb is_TNA c = false /\ forallb (cell_in 0 u64_max) c = true /\
   forallb (cell_in i64_min i64_max) c = false /\
   decide (map render c) = Some (DUInt64, [RInt (2 ^ 64 - 1); RInt 0]%Z)) /\
  (let c := [TInt (2 ^ 53 + 1); TNA; TInt (- 2 ^ 53)]%Z in
   forallb int_cell c = true /\ existsb is_TNA c = true /\ forallb (cell_in i64_min i64_max) c = true /\
   decide (map render c) = Some (DFloat64, [RFint (2 ^ 53); RNaN; RFint (- 2 ^ 53)]%Z)) /\
  (let c := [TInt (2 ^ 63); TNA]%Z in
   forallb int_cell c = true /\ existsb is_TNA c = true /\ forallb (cell_in 0 u64_max) c = true /\
   forallb (cell_in i64_min i64_max) c = false /\
   decide (map render c) = Some (DStr, [RStr "9223372036854775808"; RStr ""])) /\
  (let c := [TBool true; TNA; TBool false] in
   forallb bool_cell c = true /\ forallb is_TNA c = false /\
   decide (map render c) = Some (DObject, [RBool true; RNaN; RBool false])) /\
  (let c := [TFloat "0.1"; TNA; TFloat "1e+300"; TFloat "-inf"; TFloat "3.4028235e+38"] in
   forallb float_cell c = true /\ forallb is_TNA c = false /\ forallb float_cell_ok c = true /\
   decide (map render c) = Some (DFloat64, [RFlit "0.1"; RNaN; RFlit "1e+300"; RFlit "-inf"; RFlit "3.4028235e+38"])) /\
  (let c := [TStr "007"; TStr "x,y"; TNA; TStr "True"] in
   forallb str_cell c = true /\ str_safe c = true /\
   decide (map render c) = Some (DStr, [RStr "007"; RStr "x,y"; RNaN; RStr "True"])) /\
  (let c := [TNA; TNA] in
   forallb is_TNA c = true /\ decide (map render c) = Some (DFloat64, [RNaN; RNaN])) /\
  unquote (quote_min "a,""b""") = "a,""b"""%string /\
  tokenize (print_rows [[""; "id"; "x,y"]; ["0"; "7"; "q""t"]]%string) = Some [[""; "id"; "x,y"]; ["0"; "7"; "q""t"]]%string /\
  Forall row_ok [[""; "id"; "x,y"]; ["0"; "7"; "q""t"]]%string.
Proof.
  repeat split; try (vm_compute; reflexivity); repeat constructor.
Qed.
