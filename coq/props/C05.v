(* props/C05.v -- C05: a failed or interrupted write never leaves a wrong graph that looks valid. *)
From Geff Require Import Base Dtype Vlen Tree Validate Write WriteLemmas CrashLemmas OverwriteLemmas.
From Geff.Gen Require Import Consts.
Open Scope string_scope.
Open Scope list_scope.

(* The writer model records the state of the store after every mutation it issues (s_trace, newest first):
   these are the states a crash can leave behind.  `unrecognised k st` = structural validation does not accept st
   (so reading, which validates first, rejects it too).  new_ok k r trace says: every recorded state except the
   newest is unrecognised, and the newest too unless the write returned normally. *)

(* (a) target holding no geff -- ANY input, valid or not, any size: no state before the commit is recognised; if the
       write raises (input rejected, validation failed and cleaned up, ...) the store ends unrecognised. Together with
       C01_roundtrip (the committed state of a well-formed input reads back as exactly that input) this is C05 for
       fresh targets. *)
Theorem C05_crash_fresh : forall k pre g md v ov,
  clean k pre ->
  let (s', r) := write_arrays k g md v ov (init pre) in
  new_ok k r (s_trace s') /\ (r <> Ok tt -> unrecognised k (s_root s')).
Proof. exact crash_clean. Qed.
Print Assumptions C05_crash_fresh.

(* `unrecognised` is stated through structural validation; the property says "validation AND reading reject it": a read with
   structural validation on (the default of GeffReader, read_to_memory and every backend reader) runs that validation first, so
   an unrecognised state is not read either -- whatever names are requested *)
Theorem C05_unrecognised_not_read : forall k st nn en,
  unrecognised k st -> exists e, Read.read_to_memory k st true nn en = Err e.
Proof. intros k st nn en H. unfold Read.read_to_memory, Read.reader_init.
  destruct (validate_structure k st) as [[]|e] eqn:Ev; [exfalso; apply H; exact Ev | exists e; reflexivity]. Qed.
Print Assumptions C05_unrecognised_not_read.

(* (b) overwrite=True on ANY pre-state (in particular one holding a geff): from the first mutation on (the deletion of
       the old nodes group) until the commit of the new graph every state is unrecognised; before the first mutation the
       store is still the previous graph. *)
Theorem C05_crash_overwrite : forall k pre g md v,
  let (s', r) := write_arrays k g md v true (init pre) in
  new_ok k r (s_trace s') /\ (r <> Ok tt -> s_trace s' <> [] -> unrecognised k (s_root s')).
Proof. exact crash_overwrite. Qed.
Print Assumptions C05_crash_overwrite.

(* (a2), (b2) the same two statements for the graph-library writers (geff.write / write_nx / write_rx / write_sg: model api_write,
        the wrapper's guard followed by write_arrays' guard), including the case in which the inner guard refuses after the old geff
        has been deleted (a directory holding the geff beside foreign members, C06_api_overwrite_beside): that end state is
        unrecognised, never a wrong graph *)
Theorem C05_crash_api_fresh : forall k pre g md v ov,
  clean k pre ->
  let (s', r) := api_write k g md v ov (init pre) in
  new_ok k r (s_trace s') /\ (r <> Ok tt -> unrecognised k (s_root s')).
Proof. exact crash_api_clean. Qed.
Print Assumptions C05_crash_api_fresh.

Theorem C05_crash_api_overwrite : forall k pre g md v,
  let (s', r) := api_write k g md v true (init pre) in
  new_ok k r (s_trace s') /\ (r <> Ok tt -> s_trace s' <> [] -> unrecognised k (s_root s')).
Proof. exact crash_api_overwrite. Qed.
Print Assumptions C05_crash_api_overwrite.

(* the two facts behind (a) and (b): a root without the geff attribute, or without a nodes group, is never accepted *)
Theorem C05_commit_point : forall k st, alookup "geff" (oattrs st) = None -> unrecognised k st.
Proof. exact no_geff_unrecognised. Qed.
Print Assumptions C05_commit_point.

(* the commit really is the last call of write_arrays' write phase, and delete_geff un-commits FIRST (the geff attribute is
   deleted before the node and edge groups, so that a deletion interrupted half-way -- even inside one directory removal -- leaves
   nothing that is recognised), in the source as it is now (regenerated call order, see harness/translate.py) *)
Fixpoint first_pos (x : string) (l : list string) : option nat :=
  match l with [] => None | y :: r => if String.eqb x y then Some 0%nat else option_map S (first_pos x r) end.
Definition last_pos (x : string) (l : list string) : option nat :=
  option_map (fun i => (List.length l - 1 - i)%nat) (first_pos x (rev l)).
Definition before (a b : option nat) : bool := match a, b with Some i, Some j => Nat.ltb i j | _, _ => false end.
Theorem C05_commit_last :
  before (last_pos "write_id_arrays" write_arrays_calls) (first_pos "write" write_arrays_calls) = true /\
  before (last_pos "write_props_arrays" write_arrays_calls) (first_pos "write" write_arrays_calls) = true /\
  before (first_pos "write" write_arrays_calls) (first_pos "validate_structure" write_arrays_calls) = true /\
  before (last_pos "del:root.attrs['geff']" delete_geff_calls) (first_pos "del:root[_path.NODES]" delete_geff_calls) = true /\
  before (last_pos "del:root.attrs['geff']" delete_geff_calls) (first_pos "del:root[_path.EDGES]" delete_geff_calls) = true.
Proof. vm_compute. repeat split. Qed.
Print Assumptions C05_commit_last.

(* validation is what rejects a wrong result before it is left behind and what makes readers reject torn states: in the source as it
   is now every `structure_validation` / `validate` parameter that has a default defaults to True (overload stubs excepted) *)
Definition validation_default_ok (e : string * string * string) : bool :=
  match e with (_, prm, d) => String.eqb prm "overwrite" || String.eqb d "True" || String.eqb d "required" || String.eqb d "..." end.
Theorem C05_source_validation_defaults_true : forallb validation_default_ok param_defaults = true.
Proof. vm_compute. reflexivity. Qed.
Print Assumptions C05_source_validation_defaults_true.

(* (c) a result rejected by structural validation is removed again: nodes, edges and the geff attribute are gone,
       every other member and attribute of the container is kept (for a path that held nothing else, the path is removed) *)
Theorem C05_reject : forall k s a ch,
  s_root s = Some (ZG a ch) -> ahas "geff" a = true ->
  validate_structure k (Some (ZG a ch)) = Err ValueError ->
  exists tr, write_tail k true s = (mkst (cleaned k a ch) tr, Err ValueError).
Proof. exact tail_reject. Qed.
Print Assumptions C05_reject.

(* the same as a statement about write_arrays itself (any input, any location not yet occupied): when the arrays and the metadata could
   be written and structural validation rejects the committed state, the call raises ValueError and ends in `cleaned` *)
Theorem C05_rejected_write : forall k pre g md md' ov a ch tr1,
  exists_geff k pre = false ->
  write_body g md (init pre) = (mkst (Some (ZG a ch)) tr1, Ok md') ->
  validate_structure k (Some (ZG (aset "geff" (AGeff (Some md')) a) ch)) = Err ValueError ->
  exists tr, write_arrays k g md true ov (init pre)
             = (mkst (cleaned k (aset "geff" (AGeff (Some md')) a) ch) tr, Err ValueError).
Proof. exact write_arrays_rejected. Qed.
Print Assumptions C05_rejected_write.

Theorem C05_reject_frame : forall k a ch root',
  cleaned k a ch = Some root' ->
  (forall name, name <> path_NODES -> name <> path_EDGES -> get root' name = alookup name ch) /\
  (forall key, key <> "geff" -> alookup key (attrs_of root') = alookup key a) /\
  get root' path_NODES = None /\ get root' path_EDGES = None /\ geff_attr root' = None.
Proof. exact cleaned_frame. Qed.
Print Assumptions C05_reject_frame.

(* non-vacuity: a write whose node property has the wrong length, beside a foreign group: 10 recorded states,
   all unrecognised, result ValueError, the foreign group and attribute survive *)
Example C05_nonvacuous :
  let pre := Some (ZG [("foo", AOther 1%Z)] [("other", ZG [] [])]) in
  let g := mkwg (mkarr DU8 [2%nat] [1; 2]%Z) (mkarr DU8 [0%nat; 2%nat] [])
                (Some [("bad", mkprop (PFixed (mkarr DI32 [3%nat] [7; 8; 9]%Z)) None)]) (Some []) in
  clean KObj pre /\
  let (s', r) := write_arrays KObj g (mkmd true None [] [] 0%Z) true false (init pre) in
  r = Err ValueError /\ s_root s' = pre /\ List.length (s_trace s') = 10%nat.
Proof. cbn zeta. split; [cbn; auto|]. vm_compute. repeat split. Qed.

(* ===============================================================================================================
   EVERY WRITING ENTRY POINT (Entry.v: write_arrays, write_dicts / backend writers called directly, geff.write, from_ctc_to_geff
   with its label-volume export, from_trackmate_xml_to_geff -- see props/C06.v).
   ====================================================================================================================== *)
From Geff Require Import Entry EntryLemmas.
From Geff Require Ctc TrackMate Table TableLemmas.

(* (a3)/(b3) ANY entry point, ANY pre-state (holding a geff or not, beside foreign members or not), ANY input (a dataset that does
   not convert, a label volume that lands inside the target, ...), overwrite requested or not: if the own guard refuses, nothing was
   touched (empty trace); otherwise every recorded state up to the commit of the new graph is unrecognised -- the deletion of the
   old geff, the label volume written into the directory, the ids and property arrays -- and a call that raises ends unrecognised
   (or, with an empty trace, on the untouched previous graph) *)
Theorem C05_crash_entry : forall c pre,
  let (s', r) := e_run c (init pre) in
  new_ok (e_kind c) r (s_trace s') /\ (r <> Ok tt -> s_trace s' <> [] -> unrecognised (e_kind c) (s_root s')).
Proof. exact entry_crash. Qed.
Print Assumptions C05_crash_entry.

(* the general fact behind it: whatever runs behind an overwrite guard, as long as it cannot make a root without geff attribute
   look valid before it commits (safe_from), has the crash property from every pre-state *)
Theorem C05_crash_guarded : forall k ov (m : M unit), safe_from k m -> forall pre,
  let (s', r) := (overwrite_guard k ov ;; m)%M (init pre) in
  new_ok k r (s_trace s') /\ (r <> Ok tt -> s_trace s' <> [] -> unrecognised k (s_root s')).
Proof. exact guarded_crash. Qed.
Print Assumptions C05_crash_guarded.

(* a conversion that fails AFTER its guard deleted the old geff (dataset without nodes, unknown parent label, refused label volume,
   the inner guard) leaves the cleaned location: no geff, every other member and attribute kept (C05_reject_frame) *)
Theorem C05_failed_conversion : forall c s a ch,
  e_two_guards c = true -> e_ready c = true -> e_ov c = true ->
  s_root s = Some (ZG a ch) -> ahas "geff" a = true -> exists_geff (e_kind c) (cleaned (e_kind c) a ch) = true ->
  exists tr, e_run c s = (mkst (cleaned (e_kind c) a ch) tr,
                          Err (match e_conv c with Ok _ => FileExistsError | Err e => e end)).
Proof. exact entry_overwrite_beside. Qed.
Print Assumptions C05_failed_conversion.

(* table export (two files): the pair of files is never half-written -- after any call it is the pair that was there or the
   complete export (as repaired: before, an existing edges file made the call raise after the nodes file had been created) *)
Theorem C05_csv_all_or_nothing : forall s g ov,
  let r := Table.geff_to_csv s g ov in
  (snd r <> Ok tt /\ fst r = s) \/
  (snd r = Ok tt /\ fst r = Table.mkFs (Some (fst (Table.node_frame g))) (Some (fst (Table.edge_frame g)))).
Proof. exact TableLemmas.csv_all_or_nothing. Qed.
Print Assumptions C05_csv_all_or_nothing.

(* non-vacuity: the CTC conversion of C06_entry_nonvacuous with the label volume inside the geff directory, onto a directory that
   holds a geff beside a foreign group, overwrite=True: 4 recorded states (the three deletions of delete_geff, in whatever order it makes them; the volume
   written), FileExistsError, the end state keeps the foreign group and the volume and is not a geff *)
Example C05_entry_nonvacuous :
  let d := Ctc.mkctc true (Some [Ctc.mkrow 1 0 1 0]) false [4%nat; 4%nat]
             [[(1%Z, Ctc.mkcent 0 1024 2048)]; [(1%Z, Ctc.mkcent 0 1536 2048)]] ["out.geff"] (Ctc.SegPath ["out.geff"; "lab"]) false false true in
  let vol := mkarr DU16 [2%nat; 1%nat; 1%nat] [1; 1]%Z in
  let pre := Some (ZG [("geff", AGeff (Some (mkmd true None [] [] 0%Z)))]
                      [("nodes", ZG [] [("ids", ZA (mkarr DU8 [0%nat] []))]); ("edges", ZG [] [("ids", ZA (mkarr DU8 [0%nat; 2%nat] []))]);
                       ("seg", ZG [] [])]) in
  let (s', r) := e_run (ECtc d vol) (init pre) in
  r = Err FileExistsError /\ s_root s' = Some (ZG [] [("seg", ZG [] []); ("lab", ZA vol)]) /\ List.length (s_trace s') = 4%nat.
Proof. cbn zeta. vm_compute. repeat split. Qed.
(* =====================================================================================================================
   DEEPENING (c03x): the writers above write_arrays -- write_dicts (Dicts.v) and the three graph-library backends
   (Backends.v / BackendsMd.v) under geff.write(overwrite=...) (DictsCrash.api_ov: the wrapper's guard, then the backend).
   write_dicts = dict_props_to_arr (pure) ; write_arrays(overwrite=False): the dictionaries are converted BEFORE the store is touched.
   ===================================================================================================================== *)
From Geff Require Import Read Dicts Backends BackendsMd DictsCrash.

(* dictionaries that cannot become arrays (ragged beyond var-length, mixed strings and numbers, negative ids, ...): the exception
   is raised before any mutation, on any location, whatever it holds *)
Theorem C05_write_dicts_raises_before_mutation : forall k g nn en md e s,
  dicts_wgraph g nn en = Err e -> write_dicts k g nn en md s = (s, Err e).
Proof. exact write_dicts_pure_fail. Qed.
Print Assumptions C05_write_dicts_raises_before_mutation.

(* (a3) write_dicts onto a location holding no geff: ANY dictionaries, any property names, any metadata *)
Theorem C05_crash_write_dicts_fresh : forall k pre g nn en md,
  clean k pre ->
  let (s', r) := write_dicts k g nn en md (init pre) in
  new_ok k r (s_trace s') /\ (r <> Ok tt -> unrecognised k (s_root s')).
Proof. intros k pre g nn en md Hc. apply (crash_fresh k pre _ (cs_write_dicts k g nn en md) (clean_no_geff k pre Hc)). Qed.
Print Assumptions C05_crash_write_dicts_fresh.

(* the writers geff.write dispatches to *)
Inductive backend_writer (k : skind) : M unit -> Prop :=
| BW_dicts g nn en md : backend_writer k (write_dicts k g nn en md)
| BW_nx d g axes mdtok axtok : backend_writer k (nx_write k d g axes mdtok axtok)
| BW_nx_names d g nn en axes mdtok axtok : backend_writer k (nx_write_names k d g nn en axes mdtok axtok)
| BW_rx d g idmap axes mdtok axtok : backend_writer k (rx_write k d g idmap axes mdtok axtok)
| BW_nx_md d g mdc axes mdtok : backend_writer k (nx_write_md k d g mdc axes mdtok)
| BW_rx_md d g idmap mdc axes mdtok : backend_writer k (rx_write_md k d g idmap mdc axes mdtok)
| BW_sg g md axis_names mdtok axtok : backend_writer k (sg_write k g md axis_names mdtok axtok).

Lemma backend_writer_safe k w : backend_writer k w -> crash_safe k w.
Proof. intros [ | | | | | | ]; intros; [apply cs_write_dicts | apply cs_nx_write | apply cs_nx_write_names | apply cs_rx_write | apply cs_nx_write_md | apply cs_rx_write_md | apply cs_sg_write]. Qed.

(* (b3) geff.write(graph, store, overwrite=ov) for a networkx / rustworkx / spatial-graph object (every metadata call shape) and
        write_dicts behind the same guard, from ANY pre-state: every state after the first mutation (the deletion of the old nodes
        group, or the first array of the new graph) is unrecognised until the new graph is committed; a call that raises after a
        mutation -- validation failure and clean-up, a dictionary that cannot be converted AFTER the old geff was deleted, the
        inner guard refusing -- ends unrecognised; before the first mutation the location holds what it held *)
Theorem C05_crash_backend_writers : forall k pre ov w, backend_writer k w ->
  let (s', r) := api_ov k ov w (init pre) in
  new_ok k r (s_trace s') /\ (r <> Ok tt -> s_trace s' <> [] -> unrecognised k (s_root s')).
Proof. intros k pre ov w Hw. apply crash_api_ov. apply backend_writer_safe. exact Hw. Qed.
Print Assumptions C05_crash_backend_writers.

(* (a4) the same writers on a location holding no geff: never recognised before the commit, unrecognised after any exception *)
Theorem C05_crash_backend_writers_fresh : forall k pre ov w, backend_writer k w -> clean k pre ->
  let (s', r) := api_ov k ov w (init pre) in
  new_ok k r (s_trace s') /\ (r <> Ok tt -> unrecognised k (s_root s')).
Proof. intros k pre ov w Hw Hc.
  assert (Hs : crash_safe k (api_ov k ov w)).
  { intros s Hng. unfold api_ov, bind. unfold overwrite_guard, bind. rewrite check_for_geff_spec.
    destruct (exists_geff k (s_root s)) eqn:E.
    - destruct ov.
      + (* a path that exists without a geff attribute: delete_geff runs first *)
        pose proof (delete_geff_states k s) as Hd. destruct (delete_geff k s) as [s1 [u|e]] eqn:Ed.
        * destruct Hd as [n1 [Ht1 [HF1 HP1]]].
          assert (HU1 : Forall (unrecognised k) n1) by (eapply Forall_impl; [|exact HF1]; intros st; apply nodes_gone_unrecognised).
          destruct u. pose proof (backend_writer_safe k w Hw s1 (delete_geff_ok_no_geff k _ _ Ed)) as H.
          destruct (w s1) as [s' r]. destruct H as [new [Ht [Hn Hr]]]. exists (new ++ n1). rewrite Ht, Ht1, app_assoc. split; [reflexivity|].
          split; [|exact Hr]. destruct new as [|f l]; cbn; [apply new_ok_all; exact HU1|].
          destruct Hn as [Hl Hf]. split; [apply Forall_app; auto | exact Hf].
        * destruct Hd as [n1 [Ht1 [HF1 HP1]]]. exists n1. split; [exact Ht1|].
          assert (HU1 : Forall (unrecognised k) n1) by (eapply Forall_impl; [|exact HF1]; intros st; apply nodes_gone_unrecognised).
          split; [apply new_ok_all; exact HU1 | intros _; apply nodes_gone_unrecognised; exact HP1].
      + cbn. exists []. split; [reflexivity|]. split; [exact I|]. intros _. apply no_geff_unrecognised. exact Hng.
    - unfold ret. cbn iota beta. apply (backend_writer_safe k w Hw s Hng). }
  apply (crash_fresh k pre _ Hs (clean_no_geff k pre Hc)). Qed.
Print Assumptions C05_crash_backend_writers_fresh.

(* on dictionaries that convert, write_dicts IS write_arrays on the arrays dict_props_to_arr builds (so C05_crash_fresh, C05_reject,
   C01 ... apply literally), and geff.write of a networkx graph IS api_write on them: the tie of the write_dicts / nx entries of
   the correspondence *)
Theorem C05_write_dicts_is_write_arrays : forall k g nn en md w s,
  dicts_wgraph g nn en = Ok w -> write_dicts k g nn en md s = write_arrays k w md true false s.
Proof. exact write_dicts_arrays. Qed.
Print Assumptions C05_write_dicts_is_write_arrays.

Theorem C05_api_nx_is_api_write : forall k ov d g axes mdtok axtok md w s,
  fresh_md d axes mdtok axtok = Ok md ->
  dicts_wgraph g (keys_of (map snd (d_nodes g))) (keys_of (map snd (d_edges g))) = Ok w ->
  api_ov k ov (nx_write k d g axes mdtok axtok) s = Write.api_write k w md true ov s.
Proof. exact api_nx_arrays. Qed.
Print Assumptions C05_api_nx_is_api_write.

(* non-vacuity: write_dicts of two nodes (a float on both, an int on one: a missing mask) and an edge beside a foreign group: 12 recorded
   states, success; the same with a ragged-beyond-repair property: ValueError, no recorded state, store untouched; geff.write with
   overwrite over the result of the first, with a property that cannot be converted: the old geff is deleted, the store ends unrecognised *)
Example C05_dicts_nonvacuous :
  let pre := Some (ZG [("foo", AOther 1%Z)] [("other", ZG [] [])]) in
  let g := mkdg [(4%Z, [("t", PFloat 1024); ("s", PInt 3)]); (9%Z, [("t", PFloat 2048)])] [((4%Z, 9%Z), [("w", PFloat 512)])] in
  let bad := mkdg [(4%Z, [("p", PList [PList [PInt 1]; PInt 2])])] [] in
  let md := mkmd true None [] [] 0%Z in
  clean KObj pre /\
  (let (s', r) := write_dicts KObj g ["t"; "s"] ["w"] md (init pre) in
   r = Ok tt /\ List.length (s_trace s') = 12%nat /\ validate_structure KObj (s_root s') = Ok tt) /\
  write_dicts KObj bad ["p"] [] md (init pre) = (init pre, Err ValueError) /\
  (let (s1, _) := write_dicts KObj g ["t"; "s"] ["w"] md (init pre) in
   let (s', r) := api_ov KObj true (nx_write KObj true bad None 0 0) (init (s_root s1)) in
   r = Err ValueError /\ s_trace s' <> [] /\ validate_structure KObj (s_root s') <> Ok tt).
Proof. cbn zeta. split; [cbn; auto|]. vm_compute. repeat split; discriminate. Qed.

(* the two dictionary-level entries of the correspondence (Corr/C05.v: IDictsCrash, INxCrash) run exactly the programs of the theorems above
   (INxCrash with the property names in the order of the Python set NxBackend.write builds; checked to be a reordering of keys_of) *)
From Geff Require Corr.C05.
Theorem C05_corr_entries : forall k pre g nn en md d axes mdtok axtok ov,
  Corr.C05.run_input (Corr.C05.IDictsCrash k pre g nn en md) = write_dicts k g nn en md (init pre) /\
  Corr.C05.run_input (Corr.C05.INxCrash k pre d g nn en axes mdtok axtok ov)
  = api_ov k ov (nx_write_names k d g nn en axes mdtok axtok) (init pre) /\
  nx_write k d g axes mdtok axtok
  = nx_write_names k d g (keys_of (map snd (d_nodes g))) (keys_of (map snd (d_edges g))) axes mdtok axtok.
Proof. intros. split; [reflexivity|]. split; [|reflexivity]. unfold Corr.C05.run_input, api_ov, overwrite_guard, nx_write_names, bind.
  destruct (check_for_geff k (init pre)) as [s0 [ex|e]]; [|reflexivity].
  destruct ((if ex then if ov then delete_geff k else fail FileExistsError else ret tt) s0) as [s1 [u|e]]; reflexivity. Qed.
Print Assumptions C05_corr_entries.
