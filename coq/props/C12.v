(* props/C12.v -- C12: optional data validators accept exactly the valid data. *)
From Geff Require Import Base GraphVal GraphValLemmas.
From Geff Require Import SylvesterLemmas.
Open Scope Z_scope.
Open Scope list_scope.

(* graph validation passes iff ids unique, endpoints exist, no self edge, no repeated
   edge (ordered pairs when directed, unordered pairs otherwise) -- for ids in Z, i.e.
   every integer dtype over its full range *)
Theorem C12_graph : forall directed ids edges,
  graph_check directed ids edges = None <->
  NoDup ids /\
  (forall e, In e edges -> In (fst e) ids /\ In (snd e) ids) /\
  (forall e, In e edges -> fst e <> snd e) /\
  NoDup (if directed then edges else map norm_edge edges).
Proof. exact graph_check_none_iff. Qed.
Print Assumptions C12_graph.

(* norm_edge identifies exactly the two orientations of an undirected edge *)
Theorem C12_unordered : forall a b c d,
  norm_edge (a, b) = norm_edge (c, d) <-> (a = c /\ b = d) \/ (a = d /\ b = c).
Proof. exact norm_edge_eq. Qed.
Print Assumptions C12_unordered.

(* the reported offenders are exactly the offending ids / edges, without repetition *)
Theorem C12_offenders_unique : forall ids x,
  (In x (snd (validate_unique_node_ids ids)) <-> (1 < count Z.eqb x ids)%nat) /\
  NoDup (nonunique_ids ids).
Proof.
  intros ids x. rewrite validate_unique_offenders. split; [apply nonunique_ids_spec | apply nonunique_ids_NoDup].
Qed.
Print Assumptions C12_offenders_unique.

Theorem C12_offenders_missing_nodes : forall ids edges e,
  In e (snd (validate_nodes_for_edges ids edges)) <-> In e edges /\ ~ (In (fst e) ids /\ In (snd e) ids).
Proof. exact invalid_edges_spec. Qed.
Print Assumptions C12_offenders_missing_nodes.

Theorem C12_offenders_self : forall edges x,
  In x (snd (validate_no_self_edges edges)) <-> In (x, x) edges.
Proof. exact self_nodes_spec. Qed.
Print Assumptions C12_offenders_self.

Theorem C12_offenders_repeated : forall edges e,
  (In e (snd (validate_no_repeated_edges edges)) <-> (1 < count pair_eqb e edges)%nat) /\
  NoDup (repeated_edges edges).
Proof. intros edges e. split; [apply repeated_edges_spec | apply repeated_edges_NoDup]. Qed.
Print Assumptions C12_offenders_repeated.

(* sphere: over the entries not flagged missing, 1-D and no negative radius *)
Theorem C12_sphere : forall ndim radii miss,
  sphere_ok ndim radii miss = true <-> ndim = 1%nat /\ Forall (fun r => 0 <= r) (present miss radii).
Proof. exact sphere_ok_iff. Qed.
Print Assumptions C12_sphere.

(* ellipsoid, RESTATEMENT OF THE MODEL: the right-hand side still contains the model's own
   booleans `symmetric` and `pos_def` (leading principal minors), so this theorem only unfolds
   ellipsoid_ok into its five conjuncts (shape conditions + the per-matrix test over the entries
   not flagged missing).  It does not by itself say "symmetric and positive-definite"; that is
   C12_symmetric_spec, C12_posdef_1/_2/_3 and C12_ellipsoid_spec right below, which tie the two
   booleans to m[i][j] = m[j][i] and to x^T m x > 0 for all non-zero x (Sylvester's criterion
   proved in both directions for sides 1, 2, 3; sides >= 4 are covered by this restatement only). *)
Theorem C12_ellipsoid : forall spatial ndim r c mats miss,
  ellipsoid_ok spatial ndim r c mats miss = true <->
  (0 < spatial)%nat /\ ndim = 3%nat /\ r = c /\ r = spatial /\
  Forall (fun m => symmetric r m = true /\ pos_def r m = true) (present miss mats).
Proof. exact ellipsoid_ok_iff. Qed.
Print Assumptions C12_ellipsoid.

(* the boolean symmetry test is entrywise symmetry, for every side n *)
Theorem C12_symmetric_spec : forall n m,
  symmetric n m = true <-> (forall i j, (i < n)%nat -> (j < n)%nat -> mat_get m i j = mat_get m j i).
Proof. exact symmetric_iff. Qed.
Print Assumptions C12_symmetric_spec.

(* Sylvester's criterion, both directions, against the quadratic form over the integer vectors
   (SylvesterLemmas.v: qform n m x = sum_{i,j<n} x_i m_ij x_j; pd_spec n m = forall x of length n
   with a non-zero entry, 0 < qform n m x; integer vectors suffice for an integer matrix, see the
   head of SylvesterLemmas.v).  No shape hypothesis: a short/ragged m is read as padded with zeros
   by det, leading and mat_get alike. *)
Theorem C12_posdef_1 : forall m,
  pos_def 1 m = true <->
  (forall x, length x = 1%nat -> (exists i, nth i x 0 <> 0) -> 0 < qform 1 m x).
Proof. exact sylvester_1. Qed.
Print Assumptions C12_posdef_1.

Theorem C12_posdef_2 : forall m,
  (forall i j, (i < 2)%nat -> (j < 2)%nat -> mat_get m i j = mat_get m j i) ->
  (pos_def 2 m = true <->
   (forall x, length x = 2%nat -> (exists i, nth i x 0 <> 0) -> 0 < qform 2 m x)).
Proof. exact sylvester_2. Qed.
Print Assumptions C12_posdef_2.

Theorem C12_posdef_3 : forall m,
  (forall i j, (i < 3)%nat -> (j < 3)%nat -> mat_get m i j = mat_get m j i) ->
  (pos_def 3 m = true <->
   (forall x, length x = 3%nat -> (exists i, nth i x 0 <> 0) -> 0 < qform 3 m x)).
Proof. exact sylvester_3. Qed.
Print Assumptions C12_posdef_3.

(* ellipsoid against the declarative notions, for at most three spatial axes: over the entries
   not flagged missing, a stack of square matrices whose side is the number of spatial axes, each
   entrywise symmetric with a positive quadratic form on every non-zero vector *)
Theorem C12_ellipsoid_spec : forall spatial ndim r c mats miss, (r <= 3)%nat ->
  (ellipsoid_ok spatial ndim r c mats miss = true <->
   (0 < spatial)%nat /\ ndim = 3%nat /\ r = c /\ r = spatial /\
   Forall (fun m => sym_spec r m /\ pd_spec r m) (present miss mats)).
Proof. exact ellipsoid_ok_spec. Qed.
Print Assumptions C12_ellipsoid_spec.

(* "the entries not flagged missing" (present, used by C12_sphere / C12_ellipsoid / C12_ellipsoid_spec): with one flag per
   row it is exactly the rows whose flag is false.  DOMAIN NOTE: for a mask of another length numpy raises IndexError
   (boolean index of the wrong size) while keep_present truncates (keep_present_short in SylvesterLemmas.v); the
   harness never generates such a mask and structure validation rejects it in a store, so the model is used only
   under the length hypothesis of this theorem. *)
Theorem C12_present_spec : forall (miss : list bool) (rows : list matrix) r,
  length miss = length rows ->
  (In r (present (Some miss) rows) <-> exists i, nth_error miss i = Some false /\ nth_error rows i = Some r).
Proof. intros miss rows r. exact (keep_present_In miss rows r). Qed.
Print Assumptions C12_present_spec.

(* non-vacuity of the five theorems above: the hypotheses hold for concrete matrices on which the
   booleans take both values; an explicit vector with x^T m x <= 0 for each rejected one
   (diag(1,0): e2 gives 0; [[1,2],[2,1]]: (1,-1) gives -2; diag(1,1,0): e3 gives 0), and the
   model reads a ragged matrix as padded with zeros *)
Example C12_sylvester_nonvacuous :
  symmetric 3 [[2; -1; 0]; [-1; 2; -1]; [0; -1; 2]] = true /\ symmetric 2 [[1; 2]; [3; 1]] = false /\
  pos_def 1 [[3]] = true /\ pos_def 1 [[0]] = false /\
  pos_def 2 [[2; -1]; [-1; 2]] = true /\ pos_def 2 [[1; 0]; [0; 0]] = false /\ qform 2 [[1; 0]; [0; 0]] [0; 1] = 0 /\
  pos_def 2 [[1; 2]; [2; 1]] = false /\ qform 2 [[1; 2]; [2; 1]] [1; -1] = -2 /\
  pos_def 3 [[2; -1; 0]; [-1; 2; -1]; [0; -1; 2]] = true /\ qform 3 [[2; -1; 0]; [-1; 2; -1]; [0; -1; 2]] [1; 1; 1] = 2 /\
  pos_def 3 [[1; 0; 0]; [0; 1; 0]; [0; 0; 0]] = false /\ qform 3 [[1; 0; 0]; [0; 1; 0]; [0; 0; 0]] [0; 0; 1] = 0 /\
  pos_def 2 [[1]; [0; 1]] = true /\ symmetric 2 [[1]; [0; 1]] = true /\
  ellipsoid_ok 2 3 2 2 [[[2; -1]; [-1; 2]]; [[1; 0]; [0; 0]]] (Some [false; true]) = true /\
  ellipsoid_ok 2 3 2 2 [[[2; -1]; [-1; 2]]; [[1; 0]; [0; 0]]] None = false /\
  present (Some [false; true; false]) [[[1]]; [[0]]; [[2]]] = [[[1]]; [[2]]].
Proof. vm_compute. repeat split. Qed.

(* dispatch: validate_data raises iff an enabled validator whose property is declared fails;
   in particular a validator that is not enabled, or whose property is undeclared, never raises *)
Theorem C12_dispatch : forall cfg d,
  validate_data cfg d = Ok tt <->
  (c_graph cfg = true -> graph_check (d_directed d) (d_ids d) (d_edges d) = None) /\
  (c_sphere cfg = true -> forall nd rs ms, d_sphere d = Some (nd, rs, ms) -> sphere_ok nd rs ms = true) /\
  (c_ellipsoid cfg = true -> forall nd r c ms mi, d_ellipsoid d = Some (nd, r, c, ms, mi) ->
      ellipsoid_ok (d_spatial d) nd r c ms mi = true).
Proof. intros cfg d. rewrite graph_check_none_iff. apply validate_data_ok_iff. Qed.
Print Assumptions C12_dispatch.

Theorem C12_disabled : forall d,
  validate_data {| c_graph := false; c_sphere := false; c_ellipsoid := false |} d = Ok tt.
Proof. exact validate_data_disabled. Qed.
Print Assumptions C12_disabled.

(* non-vacuity: a valid undirected triangle, and the same with a reversed duplicate *)
Example C12_nonvacuous :
  graph_check false [5; 7; 18446744073709551615] [(5, 7); (7, 18446744073709551615); (18446744073709551615, 5)] = None /\
  graph_check false [5; 7] [(5, 7); (7, 5)] = Some FRepeated /\
  graph_check true [5; 7] [(5, 7); (7, 5)] = None /\
  pos_def 3 [[2; -1; 0]; [-1; 2; -1]; [0; -1; 2]] = true /\
  pos_def 2 [[1; 2]; [2; 1]] = false.
Proof. vm_compute. repeat split. Qed.
