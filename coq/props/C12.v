(* props/C12.v -- C12: optional data validators accept exactly the valid data. *)
From Geff Require Import Base GraphVal GraphValLemmas.
From Geff Require Import SylvesterLemmas.
Open Scope Z_scope.
Open Scope list_scope.

(* graph validation passes iff ids unique, endpoints exist, no self edge, no repeated
   edge (ordered pairs when directed, unordered pairs otherwise) -- for ids in Z, i.e.
   every integer dtype over its full range *)
Theorem C12_graph : forall directed ids edges,
  graph_check directed ids edges = None <->
  NoDup ids /\
  (forall e, In e edges -> In (fst e) ids /\ In (snd e) ids) /\
  (forall e, In e edges -> fst e <> snd e) /\
  NoDup (if directed then edges else map norm_edge edges).
Proof. exact graph_check_none_iff. Qed.
Print Assumptions C12_graph.

(* norm_edge identifies exactly the two orientations of an undirected edge *)
Theorem C12_unordered : forall a b c d,
  norm_edge (a, b) = norm_edge (c, d) <-> (a = c /\ b = d) \/ (a = d /\ b = c).
Proof. exact norm_edge_eq. Qed.
Print Assumptions C12_unordered.

(* the reported offenders are exactly the offending ids / edges, without repetition *)
Theorem C12_offenders_unique : forall ids x,
  (In x (snd (validate_unique_node_ids ids)) <-> (1 < count Z.eqb x ids)%nat) /\
  NoDup (nonunique_ids ids).
Proof.
  intros ids x. rewrite validate_unique_offenders. split; [apply nonunique_ids_spec | apply nonunique_ids_NoDup].
Qed.
Print Assumptions C12_offenders_unique.

Theorem C12_offenders_missing_nodes : forall ids edges e,
  In e (snd (validate_nodes_for_edges ids edges)) <-> In e edges /\ ~ (In (fst e) ids /\ In (snd e) ids).
Proof. exact invalid_edges_spec. Qed.
Print Assumptions C12_offenders_missing_nodes.

Theorem C12_offenders_self : forall edges x,
  In x (snd (validate_no_self_edges edges)) <-> In (x, x) edges.
Proof. exact self_nodes_spec. Qed.
Print Assumptions C12_offenders_self.

Theorem C12_offenders_repeated : forall edges e,
  (In e (snd (validate_no_repeated_edges edges)) <-> (1 < count pair_eqb e edges)%nat) /\
  NoDup (repeated_edges edges).
Proof. intros edges e. split; [apply repeated_edges_spec | apply repeated_edges_NoDup]. Qed.
Print Assumptions C12_offenders_repeated.

(* sphere: over the entries not flagged missing, 1-D and no negative radius *)
Theorem C12_sphere : forall ndim radii miss,
  sphere_ok ndim radii miss = true <-> ndim = 1%nat /\ Forall (fun r => 0 <= r) (present miss radii).
Proof. exact sphere_ok_iff. Qed.
Print Assumptions C12_sphere.

(* ellipsoid, RESTATEMENT OF THE MODEL: the right-hand side still contains the model's own
   booleans `symmetric` and `pos_def` (leading principal minors), so this theorem only unfolds
   ellipsoid_ok into its five conjuncts (shape conditions + the per-matrix test over the entries
   not flagged missing).  It does not by itself say "symmetric and positive-definite"; that is
   C12_symmetric_spec, C12_posdef_1/_2/_3 and C12_ellipsoid_spec right below, which tie the two
   booleans to m[i][j] = m[j][i] and to x^T m x > 0 for all non-zero x (Sylvester's criterion
   proved in both directions for sides 1, 2, 3; sides >= 4 are covered by this restatement only). *)
Theorem C12_ellipsoid : forall spatial ndim r c mats miss,
  ellipsoid_ok spatial ndim r c mats miss = true <->
  (0 < spatial)%nat /\ ndim = 3%nat /\ r = c /\ r = spatial /\
  Forall (fun m => symmetric r m = true /\ pos_def r m = true) (present miss mats).
Proof. exact ellipsoid_ok_iff. Qed.
Print Assumptions C12_ellipsoid.

(* the boolean symmetry test is entrywise symmetry, for every side n *)
Theorem C12_symmetric_spec : forall n m,
  symmetric n m = true <-> (forall i j, (i < n)%nat -> (j < n)%nat -> mat_get m i j = mat_get m j i).
Proof. exact symmetric_iff. Qed.
Print Assumptions C12_symmetric_spec.

(* Sylvester's criterion, both directions, against the quadratic form over the integer vectors
   (SylvesterLemmas.v: qform n m x = sum_{i,j<n} x_i m_ij x_j; pd_spec n m = forall x of length n
   with a non-zero entry, 0 < qform n m x; integer vectors suffice for an integer matrix, see the
   head of SylvesterLemmas.v).  No shape hypothesis: a short/ragged m is read as padded with zeros
   by det, leading and mat_get alike. *)
Theorem C12_posdef_1 : forall m,
  pos_def 1 m = true <->
  (forall x, length x = 1%nat -> (exists i, nth i x 0 <> 0) -> 0 < qform 1 m x).
Proof. exact sylvester_1. Qed.
Print Assumptions C12_posdef_1.

Theorem C12_posdef_2 : forall m,
  (forall i j, (i < 2)%nat -> (j < 2)%nat -> mat_get m i j = mat_get m j i) ->
  (pos_def 2 m = true <->
   (forall x, length x = 2%nat -> (exists i, nth i x 0 <> 0) -> 0 < qform 2 m x)).
Proof. exact sylvester_2. Qed.
Print Assumptions C12_posdef_2.

Theorem C12_posdef_3 : forall m,
  (forall i j, (i < 3)%nat -> (j < 3)%nat -> mat_get m i j = mat_get m j i) ->
  (pos_def 3 m = true <->
   (forall x, length x = 3%nat -> (exists i, nth i x 0 <> 0) -> 0 < qform 3 m x)).
Proof. exact sylvester_3. Qed.
Print Assumptions C12_posdef_3.

(* ellipsoid against the declarative notions, for at most three spatial axes: over the entries
   not flagged missing, a stack of square matrices whose side is the number of spatial axes, each
   entrywise symmetric with a positive quadratic form on every non-zero vector *)
Theorem C12_ellipsoid_spec : forall spatial ndim r c mats miss, (r <= 3)%nat ->
  (ellipsoid_ok spatial ndim r c mats miss = true <->
   (0 < spatial)%nat /\ ndim = 3%nat /\ r = c /\ r = spatial /\
   Forall (fun m => sym_spec r m /\ pd_spec r m) (present miss mats)).
Proof. exact ellipsoid_ok_spec. Qed.
Print Assumptions C12_ellipsoid_spec.

(* "the entries not flagged missing" (present, used by C12_sphere / C12_ellipsoid / C12_ellipsoid_spec): with one flag per
   row it is exactly the rows whose flag is false.  DOMAIN NOTE: for a mask of another length numpy raises IndexError
   (boolean index of the wrong size) while keep_present truncates (keep_present_short in SylvesterLemmas.v); the
   harness never generates such a mask and structure validation rejects it in a store, so the model is used only
   under the length hypothesis of this theorem. *)
Theorem C12_present_spec : forall (miss : list bool) (rows : list matrix) r,
  length miss = length rows ->
  (In r (present (Some miss) rows) <-> exists i, nth_error miss i = Some false /\ nth_error rows i = Some r).
Proof. intros miss rows r. exact (keep_present_In miss rows r). Qed.
Print Assumptions C12_present_spec.

(* non-vacuity of the five theorems above: the hypotheses hold for concrete matrices on which the
   booleans take both values; an explicit vector with x^T m x <= 0 for each rejected one
   (diag(1,0): e2 gives 0; [[1,2],[2,1]]: (1,-1) gives -2; diag(1,1,0): e3 gives 0), and the
   model reads a ragged matrix as padded with zeros *)
Example C12_sylvester_nonvacuous :
  symmetric 3 [[2; -1; 0]; [-1; 2; -1]; [0; -1; 2]] = true /\ symmetric 2 [[1; 2]; [3; 1]] = false /\
  pos_def 1 [[3]] = true /\ pos_def 1 [[0]] = false /\
  pos_def 2 [[2; -1]; [-1; 2]] = true /\ pos_def 2 [[1; 0]; [0; 0]] = false /\ qform 2 [[1; 0]; [0; 0]] [0; 1] = 0 /\
  pos_def 2 [[1; 2]; [2; 1]] = false /\ qform 2 [[1; 2]; [2; 1]] [1; -1] = -2 /\
  pos_def 3 [[2; -1; 0]; [-1; 2; -1]; [0; -1; 2]] = true /\ qform 3 [[2; -1; 0]; [-1; 2; -1]; [0; -1; 2]] [1; 1; 1] = 2 /\
  pos_def 3 [[1; 0; 0]; [0; 1; 0]; [0; 0; 0]] = false /\ qform 3 [[1; 0; 0]; [0; 1; 0]; [0; 0; 0]] [0; 0; 1] = 0 /\
  pos_def 2 [[1]; [0; 1]] = true /\ symmetric 2 [[1]; [0; 1]] = true /\
  ellipsoid_ok 2 3 2 2 [[[2; -1]; [-1; 2]]; [[1; 0]; [0; 0]]] (Some [false; true]) = true /\
  ellipsoid_ok 2 3 2 2 [[[2; -1]; [-1; 2]]; [[1; 0]; [0; 0]]] None = false /\
  present (Some [false; true; false]) [[[1]]; [[0]]; [[2]]] = [[[1]]; [[2]]].
Proof. vm_compute. repeat split. Qed.

(* READ-BACK of the if-chain of GraphVal.validate_data (three flags, no lookup failure, masks zipped silently): the
   right-hand side is the model's own booleans guarded by its own flags.  It is kept for the old model; the statement
   about the WHOLE of validate_data (five flags, tracklet / lineage, missing masks, KeyError / IndexError) is
   C12_dispatch5 / C12_dispatch5_spec at the end of this file, and C12_dispatch5_extends relates the two models.
   dispatch: validate_data raises iff an enabled validator whose property is declared fails;
   in particular a validator that is not enabled, or whose property is undeclared, never raises *)
Theorem C12_dispatch : forall cfg d,
  validate_data cfg d = Ok tt <->
  (c_graph cfg = true -> graph_check (d_directed d) (d_ids d) (d_edges d) = None) /\
  (c_sphere cfg = true -> forall nd rs ms, d_sphere d = Some (nd, rs, ms) -> sphere_ok nd rs ms = true) /\
  (c_ellipsoid cfg = true -> forall nd r c ms mi, d_ellipsoid d = Some (nd, r, c, ms, mi) ->
      ellipsoid_ok (d_spatial d) nd r c ms mi = true).
Proof. intros cfg d. rewrite graph_check_none_iff. apply validate_data_ok_iff. Qed.
Print Assumptions C12_dispatch.

Theorem C12_disabled : forall d,
  validate_data {| c_graph := false; c_sphere := false; c_ellipsoid := false |} d = Ok tt.
Proof. exact validate_data_disabled. Qed.
Print Assumptions C12_disabled.

(* ===================================================================================================
   The whole of validate_data (DataVal.v; proofs in DataValLemmas.v): five flags, the tracklet / lineage branches,
   _annotated_nodes / _non_missing_values with the REAL missing masks, a declared property that node_props does not
   hold (KeyError), a mask of the wrong length (IndexError), in the order in which the Python evaluates them.
   =================================================================================================== *)
From Geff Require Import Reach Tracks TracksLemmas TracksCyc TracksCycLemmas TracksPathLemmas DataVal DataValLemmas.

(* validate_data returns (raises nothing) iff EVERY ENABLED validator whose property is DECLARED finds the property in
   node_props, can apply the missing mask, and accepts the entries not flagged missing
   (accepts p P: True when p is undeclared, False when it is declared but absent from node_props -- the subscript raises
   KeyError --, P a when it is found; fits: the mask has the length of the array -- otherwise IndexError):
   graph: C12_graph's right-hand side (graph_valid); sphere / ellipsoid: as in C12_sphere / C12_ellipsoid;
   tracklet: validate_tracklets returns (True, []) on the annotated nodes and ALL the edges; lineage likewise *)
Theorem C12_dispatch5 : forall cfg d,
  validate_data5 cfg d = Ok tt <->
  (c5_graph cfg = true -> graph_valid (e_directed d) (e_ids d) (e_edges d)) /\
  (c5_sphere cfg = true ->
     accepts (e_sphere d) (fun '(nd, rs, ms) => fits ms rs = true /\ sphere_ok nd rs ms = true)) /\
  (c5_ellipsoid cfg = true ->
     accepts (e_ellipsoid d) (fun '(nd, r, c, ms, mi) =>
       fits mi ms = true /\ ellipsoid_ok (e_spatial d) nd r c ms mi = true)) /\
  (c5_tracklet cfg = true -> accepts (tracklet_decl d) (tracklets_accept d)) /\
  (c5_lineage cfg = true -> accepts (lineage_decl d) (lineages_accept d)).
Proof. exact validate_data5_ok_iff. Qed.
Print Assumptions C12_dispatch5.

(* ... with the declarative characterisations on the right-hand side, for unique node ids:
   tracklets_spec: the annotated nodes exist (masks fit) and every tracklet of theirs is a maximal unbranched simple path
   of the graph with ALL its edges (spec_paths of C13_iff_paths: no directed cycle inside, every inner edge the only edge
   leaving its source and entering its target, no such edge of the graph with exactly one end in the tracklet -- an
   unannotated neighbour on such an edge makes the tracklet not maximal);
   lineages_spec: lineage_spec of C14_iff on the annotated nodes (same id iff weakly connected in the graph on node list +
   mentioned ids, and no annotated node connected to an id that is not annotated) *)
Theorem C12_dispatch5_spec : forall cfg d, NoDup (e_ids d) ->
  (validate_data5 cfg d = Ok tt <->
   (c5_graph cfg = true -> graph_valid (e_directed d) (e_ids d) (e_edges d)) /\
   (c5_sphere cfg = true ->
      accepts (e_sphere d) (fun '(nd, rs, ms) =>
        fits ms rs = true /\ nd = 1%nat /\ Forall (fun r => 0 <= r) (present ms rs))) /\
   (c5_ellipsoid cfg = true ->
      accepts (e_ellipsoid d) (fun '(nd, r, c, ms, mi) =>
        fits mi ms = true /\ (0 < e_spatial d)%nat /\ nd = 3%nat /\ r = c /\ r = e_spatial d /\
        Forall (fun m => symmetric r m = true /\ pos_def r m = true) (present mi ms))) /\
   (c5_tracklet cfg = true -> accepts (tracklet_decl d) (tracklets_spec d)) /\
   (c5_lineage cfg = true -> accepts (lineage_decl d) (lineages_spec d))).
Proof. exact validate_data5_spec. Qed.
Print Assumptions C12_dispatch5_spec.

(* what _annotated_nodes keeps: it succeeds iff the mask fits both arrays, and then holds exactly the pairs
   (node id, track id) stored at the positions not flagged missing *)
Theorem C12_annotated : forall ids p,
  ((exists NL, annotated_nodes ids p = Some NL) <->
   fits (tp_missing p) ids = true /\ fits (tp_missing p) (tp_values p) = true) /\
  (forall NL, annotated_nodes ids p = Some NL ->
     forall u t, In (u, t) NL <->
       exists i, nth_error ids i = Some u /\ nth_error (tp_values p) i = Some t /\ missing_at (tp_missing p) i = false).
Proof. intros ids p. split; [apply annotated_some_iff | intros NL H; apply (annotated_nodes_spec ids p NL H)]. Qed.
Print Assumptions C12_annotated.

(* a node whose track id is flagged missing is not among the annotated nodes and belongs to no tracklet / lineage *)
Theorem C12_missing_no_class : forall ids p NL i u,
  NoDup ids -> annotated_nodes ids p = Some NL ->
  nth_error ids i = Some u -> missing_at (tp_missing p) i = true ->
  ~ In u (nodes_of NL) /\ forall t, ~ In u (class_of NL t).
Proof. exact missing_not_annotated. Qed.
Print Assumptions C12_missing_no_class.

(* the fill value stored under a missing flag is never read: replacing it by any v changes nothing *)
Theorem C12_fill_irrelevant : forall cfg d vals m other i v, nth i m false = true ->
  (e_track d = Some (Present {| tp_values := vals; tp_missing := Some m |}, other) ->
   validate_data5 cfg (set_track d (Some (Present {| tp_values := upd_nth i v vals; tp_missing := Some m |}, other))) =
   validate_data5 cfg d) /\
  (e_track d = Some (other, Present {| tp_values := vals; tp_missing := Some m |}) ->
   validate_data5 cfg (set_track d (Some (other, Present {| tp_values := upd_nth i v vals; tp_missing := Some m |}))) =
   validate_data5 cfg d).
Proof.
  intros cfg d vals m other i v Hm. split; intros Ht.
  - apply validate_data5_fill_tracklet; assumption.
  - apply validate_data5_fill_lineage; assumption.
Qed.
Print Assumptions C12_fill_irrelevant.

(* all five flags off: nothing is raised, whatever the data *)
Theorem C12_disabled5 : forall d,
  validate_data5 {| c5_graph := false; c5_sphere := false; c5_ellipsoid := false;
                    c5_lineage := false; c5_tracklet := false |} d = Ok tt.
Proof. exact validate_data5_disabled. Qed.
Print Assumptions C12_disabled5.

(* a flag whose property is not declared is as good as switched off (relevant: each flag and-ed with "declared") ... *)
Theorem C12_undeclared5 : forall cfg d, validate_data5 cfg d = validate_data5 (relevant cfg d) d.
Proof. exact validate_data5_relevant. Qed.
Print Assumptions C12_undeclared5.

(* ... in particular track_node_props = None makes the lineage and tracklet flags irrelevant ... *)
Theorem C12_no_track5 : forall cfg d, e_track d = None ->
  validate_data5 cfg d = validate_data5 (with_flags cfg (c5_sphere cfg) (c5_ellipsoid cfg) false false) d.
Proof. exact validate_data5_no_track. Qed.
Print Assumptions C12_no_track5.

(* ... and when every enabled flag concerns an undeclared property (graph validation off) nothing is raised *)
Theorem C12_all_undeclared5 : forall cfg d,
  c5_graph cfg = false ->
  (c5_sphere cfg = true -> e_sphere d = Undeclared) -> (c5_ellipsoid cfg = true -> e_ellipsoid d = Undeclared) ->
  (c5_tracklet cfg = true -> tracklet_decl d = Undeclared) -> (c5_lineage cfg = true -> lineage_decl d = Undeclared) ->
  validate_data5 cfg d = Ok tt.
Proof. exact validate_data5_all_undeclared. Qed.
Print Assumptions C12_all_undeclared5.

(* on the states of the old model (no track declaration, nothing absent, masks of the right length) the five-flag model
   is the old one, whatever the two new flags: C12_dispatch / C12_disabled stay true of the code there *)
Theorem C12_dispatch5_extends : forall cfg l t d, masks_fit d = true ->
  validate_data5 (lift_cfg cfg l t) (lift_data d) = validate_data cfg d.
Proof. exact validate_data5_extends. Qed.
Print Assumptions C12_dispatch5_extends.

(* non-vacuity.  Chain 1->2->3 and an isolated node 9; every property stores one value per node.
   dA: node 9 carries no tracklet / lineage id and no radius: flagged missing, with adversarial fill values (tracklet fill 5 = the
       id of the chain, lineage fill 7 = the lineage of the chain, radius fill -4): accepted by all five validators;
   the same without the masks: the fills are read: tracklet 5 is disconnected (FTracklets, raised before the lineage check);
   only the lineage flag: FLineages; the sphere flag in front: FSphereNeg first;
   dM: node 2 (middle of the chain) flagged missing in the tracklet property: its edges stay, 1 and 3 can be extended: rejected;
   declared but absent from node_props: KeyError; mask of the wrong length: IndexError; graph fault first. *)
Definition c12_all : vconfig5 :=
  {| c5_graph := true; c5_sphere := true; c5_ellipsoid := true; c5_lineage := true; c5_tracklet := true |}.
Definition c12_d (sph_mask : option (list bool)) (tk ln : decl tprop) : vdata5 :=
  {| e_directed := true; e_ids := [1; 2; 3; 9]; e_edges := [(1, 2); (2, 3)]; e_spatial := 2;
     e_sphere := Present (1%nat, [1; 2; 3; -4], sph_mask); e_ellipsoid := Undeclared;
     e_track := Some (tk, ln) |}.
Definition c12_m9 := Some [false; false; false; true].
Definition c12_tp (vals : list Z) (m : option (list bool)) : decl tprop := Present {| tp_values := vals; tp_missing := m |}.

Example C12_dispatch5_nonvacuous :
  let dA := c12_d c12_m9 (c12_tp [5; 5; 5; 5] c12_m9) (c12_tp [7; 7; 7; 7] c12_m9) in
  let dM := c12_d c12_m9 (c12_tp [5; 5; 5; 6] (Some [false; true; false; false])) (c12_tp [7; 7; 7; 8] None) in
  NoDup (e_ids dA) /\
  validate_data5 c12_all dA = Ok tt /\
  tracklets_spec dA {| tp_values := [5; 5; 5; 5]; tp_missing := c12_m9 |} /\
  lineages_spec dA {| tp_values := [7; 7; 7; 7]; tp_missing := c12_m9 |} /\
  annotated_nodes [1; 2; 3; 9] {| tp_values := [5; 5; 5; 5]; tp_missing := c12_m9 |} = Some [(1, 5); (2, 5); (3, 5)] /\
  data_fault c12_all (c12_d c12_m9 (c12_tp [5; 5; 5; 5] None) (c12_tp [7; 7; 7; 7] None)) = Some FTracklets /\
  data_fault (with_flags c12_all true true true false) (c12_d c12_m9 (c12_tp [5; 5; 5; 5] None) (c12_tp [7; 7; 7; 7] None))
    = Some FLineages /\
  data_fault c12_all (c12_d None (c12_tp [5; 5; 5; 5] None) (c12_tp [7; 7; 7; 7] None)) = Some FSphereNeg /\
  validate_data5 c12_all dM = Err ValueError /\ data_fault c12_all dM = Some FTracklets /\
  validate_data5 (with_flags c12_all true true true false) dM = Ok tt /\
  validate_data5 c12_all (c12_d c12_m9 Absent Undeclared) = Err KeyError /\
  validate_data5 (with_flags c12_all true true true false) (c12_d c12_m9 Absent Undeclared) = Ok tt /\
  validate_data5 c12_all (c12_d c12_m9 (c12_tp [5; 5; 5; 5] (Some [false; true])) Undeclared) = Err IndexError /\
  data_fault c12_all (set_track (c12_d c12_m9 Absent Absent) None) = None /\
  data_fault c12_all {| e_directed := true; e_ids := [1; 1]; e_edges := [(1, 1)]; e_spatial := 0;
                        e_sphere := Absent; e_ellipsoid := Absent; e_track := Some (Absent, Absent) |}
    = Some (FGraph FNonUnique).
Proof.
  cbv zeta.
  assert (Hn : NoDup [1; 2; 3; 9]) by (repeat constructor; cbn; intuition discriminate).
  assert (Hok : validate_data5 c12_all (c12_d c12_m9 (c12_tp [5; 5; 5; 5] c12_m9) (c12_tp [7; 7; 7; 7] c12_m9)) = Ok tt)
    by (vm_compute; reflexivity).
  pose proof (proj1 (C12_dispatch5_spec c12_all (c12_d c12_m9 (c12_tp [5; 5; 5; 5] c12_m9) (c12_tp [7; 7; 7; 7] c12_m9)) Hn) Hok)
    as [_ [_ [_ [Ht Hl]]]].
  split; [exact Hn|]. split; [exact Hok|]. split; [exact (Ht eq_refl)|]. split; [exact (Hl eq_refl)|].
  vm_compute. repeat split.
Qed.

(* non-vacuity: a valid undirected triangle, and the same with a reversed duplicate *)
Example C12_nonvacuous :
  graph_check false [5; 7; 18446744073709551615] [(5, 7); (7, 18446744073709551615); (18446744073709551615, 5)] = None /\
  graph_check false [5; 7] [(5, 7); (7, 5)] = Some FRepeated /\
  graph_check true [5; 7] [(5, 7); (7, 5)] = None /\
  pos_def 3 [[2; -1; 0]; [-1; 2; -1]; [0; -1; 2]] = true /\
  pos_def 2 [[1; 2]; [2; 1]] = false.
Proof. vm_compute. repeat split. Qed.
