(* Seg.v -- model of geff.validate.segmentation (the five segmentation consistency
   checks), function by function, in the order the Python evaluates things.

   Conventions
   * A label volume is its shape (list of dimension sizes, any rank) and a pixel
     function  index tuple -> label  (`px_of shape data` reads a row-major flat
     list, which is what the correspondence passes in).
   * Coordinates, scale factors and axis maxima are `xnum`: a rational with
     denominator U = 1024, stored as the numerator (`XFin 1024` is 1.0; exact for
     every finite value the generators emit), or one of the three IEEE tokens NaN,
     +inf, -inf.  A finite product coordinate*scale therefore has denominator U*U.
     `xmul` is IEEE multiplication (inf * 0 = NaN, signs), `xltb` / `xleb` the IEEE
     comparisons (every comparison with NaN is False), `xint` is Python's int()
     (ValueError for NaN, OverflowError for an infinity).
   * Python exceptions are `res`; `try ... except (IndexError, OverflowError)` is
     modelled by a match that handles `Err IndexError` and lets every other
     exception through.  numpy raises OverflowError instead of IndexError for an
     index that does not fit a C long, and int(inf) raises OverflowError; both are
     out-of-bounds signals caught by the same handlers, and the model writes
     `Err IndexError` for both.
   * Messages are modelled by their kind and the values they name.
   Model only -- the proofs are in SegLemmas.v. *)
From Geff Require Import Base Dtype.
Open Scope Z_scope.
Open Scope list_scope.

Definition U : Z := 1024.

(* ---------- numbers: finite (numerator over U, or over U*U for a product) or an IEEE token ---------- *)
Inductive xnum := XFin (z : Z) | XNaN | XPInf | XNInf.

Definition xinf (positive : bool) : xnum := if positive then XPInf else XNInf.
(* (+-inf) * b *)
Definition xmul_inf (positive : bool) (b : xnum) : xnum :=
  match b with
  | XNaN => XNaN
  | XFin y => if y =? 0 then XNaN else xinf (Bool.eqb positive (0 <? y))
  | XPInf => xinf positive
  | XNInf => xinf (negb positive)
  end.
(* a * b for Python ints / floats: int * float is float; NaN absorbs; inf * 0 is NaN *)
Definition xmul (a b : xnum) : xnum :=
  match a with
  | XNaN => XNaN
  | XPInf => xmul_inf true b
  | XNInf => xmul_inf false b
  | XFin x =>
      match b with
      | XFin y => XFin (x * y)
      | XNaN => XNaN
      | XPInf => xmul_inf true a
      | XNInf => xmul_inf false a
      end
  end.
(* a < b and a <= b: False as soon as one side is NaN *)
Definition xltb (a b : xnum) : bool :=
  match a, b with
  | XNaN, _ | _, XNaN => false
  | XFin x, XFin y => x <? y
  | XNInf, XNInf => false
  | XNInf, _ => true
  | _, XNInf => false
  | XPInf, _ => false
  | XFin _, XPInf => true
  end.
Definition xleb (a b : xnum) : bool :=
  match a, b with
  | XNaN, _ | _, XNaN => false
  | XFin x, XFin y => x <=? y
  | XNInf, _ => true
  | _, XNInf => false
  | _, XPInf => true
  | XPInf, XFin _ => false
  end.

Inductive msg :=
| MMissingProp                      (* "Missing seg_id property in Zarr store" *)
| MNonInteger                       (* "'seg_id' array has non-integer dtype: ..." *)
| MMissingEntries                   (* "Mismatch in number of node IDs and seg_ids." *)
| MNoAxes                           (* "No axes metadata found in this geff." *)
| MScaleLen                         (* "Length of scale factor list (..." *)
| MAxesDims                         (* "Number of axes in the geff metadata (..." *)
| MNoMax                            (* "No axis 'max' value found in this geff metadata." *)
| MAxisOob (i : nat)                (* "Graph axis i is out of bounds with value ..." *)
| MTimeOob (t : Z)                  (* "Time point t is out of bounds: ..." *)
| MMissingLabel (l t : Z)           (* "Missing seg_id l at time t" *)
| MCoordLen                         (* "Coordinate list must have the same length as ..." *)
| MCoordArity (k : nat)             (* "Coords <k-th coord> do not have one value for each ..." *)
| MCoordOob (k : nat)               (* "Coords <k-th coord> are out of bounds ..." *)
| MUnknown.                         (* never produced by the model: an unrecognised message *)

Definition msg_eqb (a b : msg) : bool :=
  match a, b with
  | MMissingProp, MMissingProp | MNonInteger, MNonInteger | MMissingEntries, MMissingEntries
  | MNoAxes, MNoAxes | MScaleLen, MScaleLen | MAxesDims, MAxesDims | MNoMax, MNoMax
  | MCoordLen, MCoordLen => true
  | MAxisOob i, MAxisOob j => Nat.eqb i j
  | MTimeOob t, MTimeOob u => t =? u
  | MMissingLabel l t, MMissingLabel m u => (l =? m) && (t =? u)
  | MCoordArity i, MCoordArity j => Nat.eqb i j
  | MCoordOob i, MCoordOob j => Nat.eqb i j
  | _, _ => false
  end.

(* what every check returns: (verdict, error messages) *)
Definition result := (bool * list msg)%type.

(* an axis of the geff metadata: is its type "time"; its `max` (None when absent) *)
Record axis := { ax_time : bool; ax_max : option xnum }.

Record vol := { v_shape : list nat; v_px : list Z -> Z }.
Definition rank (v : vol) : nat := List.length (v_shape v).

(* row-major flat storage *)
Definition flat_offset (shape : list nat) (idx : list Z) : Z :=
  fold_left (fun acc p => acc * Z.of_nat (fst p) + snd p) (combine shape idx) 0.
Definition px_of (shape : list nat) (data : list Z) (idx : list Z) : Z :=
  nth (Z.to_nat (flat_offset shape idx)) data 0.

(* ---------- numpy primitives ---------- *)
Definition zrange (n : nat) : list Z := map Z.of_nat (seq 0 n).
(* every index tuple of an array of the given shape (np.ndindex order) *)
Fixpoint all_indices (shape : list nat) : list (list Z) :=
  match shape with
  | [] => [[]]
  | n :: r => flat_map (fun i => map (cons i) (all_indices r)) (zrange n)
  end.

Definition at_axis (k : nat) (t : Z) (idx : list Z) : bool :=
  match nth_error idx k with Some i => i =? t | None => false end.

(* one index along an axis of size n: numpy accepts -n <= i < n and wraps negatives *)
Definition norm_axis_index (n : nat) (i : Z) : res Z :=
  if (i <? - Z.of_nat n) || (Z.of_nat n <=? i) then Err IndexError
  else Ok (if i <? 0 then i + Z.of_nat n else i).

(* np.take(seg, indices=t, axis=k), flattened: the labels of the hyperplane.
   axis k past the rank is numpy's AxisError, a subclass of IndexError.
   (numpy skips the range test when the hyperplane is empty; the repaired code only calls
   np.take with 0 <= t < size, where this makes no difference.) *)
Definition np_take (v : vol) (k : nat) (t : Z) : res (list Z) :=
  match nth_error (v_shape v) k with
  | None => Err IndexError
  | Some n =>
      match norm_axis_index n t with
      | Err e => Err e
      | Ok t' => Ok (map (v_px v) (filter (at_axis k t') (all_indices (v_shape v))))
      end
  end.

(* seg[tuple(idx)]: too many indices is IndexError; too few would give a sub-array,
   and `if value != seg_id` on it raises ValueError (ambiguous truth value) *)
Fixpoint norm_index (shape : list nat) (idx : list Z) : res (list Z) :=
  match shape, idx with
  | [], [] => Ok []
  | n :: sr, i :: ir =>
      match norm_axis_index n i with
      | Err e => Err e
      | Ok i' => match norm_index sr ir with Err e => Err e | Ok r => Ok (i' :: r) end
      end
  | [], _ :: _ => Err IndexError
  | _ :: _, [] => Err ValueError
  end.
Definition np_getitem (v : vol) (idx : list Z) : res Z :=
  match norm_index (v_shape v) idx with Err e => Err e | Ok i => Ok (v_px v i) end.

(* zip(a, b, strict=True) *)
Fixpoint zip_strict {A B} (a : list A) (b : list B) : res (list (A * B)) :=
  match a, b with
  | [], [] => Ok []
  | x :: a', y :: b' => match zip_strict a' b' with Err e => Err e | Ok r => Ok ((x, y) :: r) end
  | _, _ => Err ValueError
  end.

Fixpoint lookup {A} (key : string) (l : list (string * A)) : option A :=
  match l with
  | [] => None
  | (k, a) :: r => if String.eqb k key then Some a else lookup key r
  end.

(* ---------- has_valid_seg_id ---------- *)
(* node_props as name -> (dtype of "values", the "missing" array or None) *)
Definition node_props := list (string * (dtype * option (list bool))).

Definition has_valid_seg_id (props : node_props) (seg_id : string) : res result :=
  match lookup seg_id props with
  | None => Ok (false, [MMissingProp])
  | Some (dt, missing) =>
      if negb (is_integer dt) then Ok (false, [MNonInteger])
      else match missing with
           | Some m => if existsb (fun b => b) m then Ok (false, [MMissingEntries]) else Ok (true, [])
           | None => Ok (true, [])
           end
  end.

(* ---------- axes_match_seg_dims ---------- *)
(* `if axes:` -- None and the empty list are both falsy *)
Definition axes_match_seg_dims (axes : option (list axis)) (shape : list nat) : res result :=
  match axes with
  | None | Some [] => Ok (false, [MNoAxes])
  | Some l => Ok (Nat.eqb (List.length shape) (List.length l), [])
  end.

(* ---------- graph_is_in_seg_bounds ---------- *)
(* `scale = [1.0] * ndim` when no scale is given *)
Definition scale_or_ones (scale : option (list xnum)) (ndim : nat) : list xnum :=
  match scale with Some s => s | None => repeat (XFin U) ndim end.

(* seg_shape[i] * scale[i]: a Python int times the scale factor *)
Definition extent (n : nat) (s : xnum) : xnum := xmul (XFin (Z.of_nat n)) s.

(* for i, ax in enumerate(axes): seg_shape[i] and scale[i] are Python indexing;
   the test is `if not max_bound < seg_shape[i] * scale[i]`, so a NaN on either side is reported *)
Fixpoint bounds_loop (axes : list axis) (shape : list nat) (sc : list xnum) (i : nat) : res result :=
  match axes with
  | [] => Ok (true, [])
  | ax :: r =>
      match ax_max ax with
      | None => Ok (false, [MNoMax])
      | Some m =>
          match nth_error shape i, nth_error sc i with
          | Some n, Some s =>
              if negb (xltb m (extent n s)) then Ok (false, [MAxisOob i])
              else bounds_loop r shape sc (S i)
          | _, _ => Err IndexError
          end
      end
  end.

Definition graph_is_in_seg_bounds (axes : option (list axis)) (shape : list nat)
    (scale : option (list xnum)) : res result :=
  let ndim := List.length shape in
  let sc := scale_or_ones scale ndim in
  if negb (Nat.eqb (List.length sc) ndim) then Ok (false, [MScaleLen])
  else match axes with
       | None | Some [] => Ok (false, [MNoAxes])
       | Some l =>
           if negb (Nat.eqb (List.length l) ndim) then Ok (false, [MAxesDims])
           else bounds_loop l shape sc 0
       end.

(* ---------- has_seg_ids_at_time_points ---------- *)
(* [axes.index(ax) for ax in axes if ax.type == "time"]; axis names are unique in a
   GeffMetadata, so axes.index(ax) is the position of ax itself *)
Fixpoint time_positions_from (i : nat) (axes : list axis) : list nat :=
  match axes with
  | [] => []
  | a :: r => if ax_time a then i :: time_positions_from (S i) r else time_positions_from (S i) r
  end.
(* metadata: None = no metadata given; Some None = metadata without axes *)
Definition time_index (metadata : option (option (list axis))) : nat :=
  match metadata with
  | Some (Some axes) => match time_positions_from 0 axes with [i] => i | _ => 0%nat end
  | _ => 0%nat
  end.

(* seg_id_group[t]: labels zipped (non-strict) with a time point equal to t, in order *)
Definition group_of (tps ids : list Z) (t : Z) : list Z :=
  map snd (filter (fun p => fst p =? t) (combine tps ids)).

Definition is_nil {A} (l : list A) : bool := match l with [] => true | _ => false end.

(* the body of the try block: `seg_shape[time_index]` is tuple indexing (IndexError past
   the rank), then the explicit range test, then np.unique(np.take(...)) -- only the set of
   values is used afterwards, so the sorting / deduplication of np.unique is not modelled *)
Definition time_labels (v : vol) (k : nat) (t : Z) : res (list Z) :=
  match nth_error (v_shape v) k with
  | None => Err IndexError
  | Some n => if (0 <=? t) && (t <? Z.of_nat n) then np_take v k t else Err IndexError
  end.

Fixpoint tp_loop (v : vol) (k : nat) (all_tps ids : list Z) (tps : list Z)
    (errors : list msg) (missing : bool) : res result :=
  match tps with
  | [] => Ok (negb missing, errors)
  | t :: r =>
      match time_labels v k t with
      | Err IndexError => Ok (false, errors ++ [MTimeOob t])
      | Err e => Err e
      | Ok labels =>
          let absent := filter (fun l => negb (zmem l labels)) (group_of all_tps ids t) in
          tp_loop v k all_tps ids r (errors ++ map (fun l => MMissingLabel l t) absent)
                  (missing || negb (is_nil absent))
      end
  end.

Definition has_seg_ids_at_time_points (v : vol) (tps ids : list Z)
    (metadata : option (option (list axis))) : res result :=
  tp_loop v (time_index metadata) tps ids tps [] false.

(* ---------- has_seg_ids_at_coords ---------- *)
(* int(x) for a finite x = p / (U*U): truncation toward zero *)
Definition trunc (p : Z) : Z := Z.quot p (U * U).

(* int(c): ValueError for NaN; OverflowError for an infinity, written Err IndexError (see above) *)
Definition xint (c : xnum) : res Z :=
  match c with
  | XFin p => Ok (trunc p)
  | XNaN => Err ValueError
  | XPInf | XNInf => Err IndexError
  end.

(* the body of the try block: the scaled coordinate, `if any(not c >= 0 for c in scaled_coord): raise
   IndexError`, then tuple(int(c) for c in scaled_coord) -- built completely, first failure wins --
   and only then the indexing *)
Definition coord_value (v : vol) (coord sc : list xnum) : res Z :=
  match zip_strict coord sc with
  | Err e => Err e
  | Ok ps =>
      let scaled := map (fun p => xmul (fst p) (snd p)) ps in
      if existsb (fun c => negb (xleb (XFin 0) c)) scaled then Err IndexError
      else match mapM xint scaled with
           | Err e => Err e
           | Ok idx => np_getitem v idx
           end
  end.

Fixpoint coords_loop (v : vol) (sc : list xnum) (pairs : list (list xnum * Z)) (k : nat)
    (missing : bool) : res result :=
  match pairs with
  | [] => Ok (negb missing, [])
  | (coord, l) :: r =>
      if negb (Nat.eqb (List.length coord) (rank v)) then Ok (false, [MCoordArity k])
      else match coord_value v coord sc with
           | Err IndexError => Ok (false, [MCoordOob k])
           | Err e => Err e
           | Ok value => coords_loop v sc r (S k) (missing || negb (value =? l))
           end
  end.

Definition has_seg_ids_at_coords (v : vol) (coords : list (list xnum)) (ids : list Z)
    (scale : option (list xnum)) : res result :=
  if negb (Nat.eqb (List.length coords) (List.length ids)) then Ok (false, [MCoordLen])
  else
    let sc := scale_or_ones scale (rank v) in
    if negb (Nat.eqb (List.length sc) (rank v)) then Ok (false, [MScaleLen])
    else coords_loop v sc (combine coords ids) 0 false.

(* ---------- reading a result ---------- *)
Definition accepts (r : res result) : Prop :=
  match r with Ok (true, _) => True | _ => False end.
(* a false verdict that comes with at least one message *)
Definition rejects_with_message (r : res result) : Prop :=
  match r with Ok (false, _ :: _) => True | _ => False end.
