(* WriteLemmas.v -- what the writer model leaves in the tree: the layout lemma for
   write_props_arrays / write_arrays on a clean target, used by C01, C02, C05, C06, C10. *)
From Geff Require Import Base Dtype DtypeLemmas Vlen VlenLemmas Tree TreeLemmas Validate Write.
From Geff.Gen Require Import Consts.
Open Scope string_scope.
Open Scope list_scope.

(* ---------- more path algebra ---------- *)
Lemma aset_aset {V} k (v1 v2 : V) l : aset k v2 (aset k v1 l) = aset k v2 l.
Proof. induction l as [|[k' v'] r IH]; cbn; [rewrite seqb_refl; reflexivity|].
  destruct (String.eqb k k') eqn:E; cbn; [rewrite seqb_refl; reflexivity | rewrite E, IH; reflexivity]. Qed.

Lemma put_put_same p : forall n c c' n', put_path n p c = Some n' -> put_path n' p c' = put_path n p c'.
Proof. induction p as [|k r IH]; intros n c c' n' H; cbn in *; [reflexivity|].
  destruct n as [a|a ch]; [discriminate|].
  destruct (put_path (match alookup k ch with Some x => x | None => empty_group end) r c) as [sub'|] eqn:E; [|discriminate].
  inversion H; subst; clear H. cbn. rewrite alookup_aset_same.
  rewrite (IH _ _ c' _ E). destruct (put_path _ r c'); [|reflexivity]. rewrite aset_aset. reflexivity. Qed.

(* an update below the focus F of a tree obtained by installing G at F *)
Lemma focus_step root F G r q c G' :
  put_path root F G = Some r -> is_group G = true -> put_path G q c = Some G' ->
  put_path r (F ++ q) c = put_path root F G'.
Proof. intros Hr Hg Hq.
  rewrite (put_path_app F r q c G (get_put_same _ _ _ _ Hr) (or_introl Hg)), Hq.
  apply (put_put_same _ _ _ _ _ Hr). Qed.

Lemma focus_get root F G r q : put_path root F G = Some r -> get_path r (F ++ q) = get_path G q.
Proof. intros Hr. rewrite get_path_app, (get_put_same _ _ _ _ Hr). reflexivity. Qed.

(* ---------- monadic plumbing ---------- *)
Lemma setup_group_ok s a ch : s_root s = Some (ZG a ch) -> setup_group s = (s, Ok (ZG a ch)).
Proof. intros H. unfold setup_group, bind, get_root. rewrite H. reflexivity. Qed.

Lemma set_item_ok s a ch p x r' :
  s_root s = Some (ZG a ch) -> put_path (ZG a ch) p (ZA x) = Some r' ->
  set_item p x s = (mkst (Some r') (Some r' :: s_trace s), Ok tt).
Proof. intros H Hp. unfold set_item, bind. rewrite (setup_group_ok _ _ _ H), Hp. reflexivity. Qed.

Lemma create_group_ok s a ch p name r' :
  s_root s = Some (ZG a ch) -> get_path (ZG a ch) (p ++ [name]) = None ->
  put_path (ZG a ch) (p ++ [name]) empty_group = Some r' ->
  create_group p name s = (mkst (Some r') (Some r' :: s_trace s), Ok tt).
Proof. intros H Hg Hp. unfold create_group, bind. rewrite (setup_group_ok _ _ _ H), Hg, Hp. reflexivity. Qed.

(* the stored form of one property *)
Definition prop_members (v : arr) (m d : option arr) : list (string * znode) :=
  [(path_VALUES, ZA v)] ++ (match m with Some x => [(path_MISSING, ZA x)] | None => [] end)
                        ++ (match d with Some x => [(path_DATA, ZA x)] | None => [] end).
Definition prop_group (v : arr) (m d : option arr) : znode := ZG [] (prop_members v m d).

Lemma is_group_put n p c n' : p <> [] -> put_path n p c = Some n' -> exists a ch, n' = ZG a ch.
Proof. intros Hp H. destruct p as [|k r]; [contradiction|]. cbn in H.
  destruct n as [x|a ch]; [discriminate|]. destruct (put_path _ r c); [|discriminate]. inversion H. eauto. Qed.

Lemma put_path_some_irrel p : forall n c c' n', put_path n p c = Some n' -> exists n'', put_path n p c' = Some n''.
Proof. induction p as [|k r IH]; intros n c c' n' H; cbn in *; [eauto|].
  destruct n as [a|a ch]; [discriminate|].
  destruct (put_path (match alookup k ch with Some x => x | None => empty_group end) r c) as [sub'|] eqn:E; [|discriminate].
  destruct (IH _ _ c' _ E) as [s'' Hs]. rewrite Hs. eauto. Qed.

Lemma set_item_focus s root F G r q x G' :
  s_root s = Some r -> F <> [] -> put_path root F G = Some r -> is_group G = true ->
  put_path G q (ZA x) = Some G' ->
  exists r', set_item (F ++ q) x s = (mkst (Some r') (Some r' :: s_trace s), Ok tt)
             /\ put_path root F G' = Some r'.
Proof. intros Hs HF Hr Hg Hq.
  destruct (is_group_put _ _ _ _ HF Hr) as [a [ch ->]].
  destruct (put_path_some_irrel _ _ _ G' _ Hr) as [r' Hr'].
  exists r'. split; [|exact Hr'].
  apply (set_item_ok _ _ _ _ _ _ Hs). rewrite (focus_step _ _ _ _ _ _ _ Hr Hg Hq). exact Hr'. Qed.

Lemma put_in_prop pa ch name pgch key x :
  alookup name ch = Some (ZG [] pgch) ->
  put_path (ZG pa ch) [name; key] (ZA x) = Some (ZG pa (aset name (ZG [] (aset key (ZA x) pgch)) ch)).
Proof. intros H. cbn. rewrite H. reflexivity. Qed.

Lemma write_one_prop_ok s root grp pa pch r name p pm v m d :
  s_root s = Some r ->
  put_path root [grp; path_PROPS] (ZG pa pch) = Some r ->
  alookup name pch = None ->
  create_props_metadata name p = Ok pm -> encode_prop p = Ok (v, m, d) ->
  exists r' tr, write_one_prop grp (name, p) s = (mkst (Some r') tr, Ok tt) /\
     put_path root [grp; path_PROPS] (ZG pa (pch ++ [(name, prop_group v m d)])) = Some r'.
Proof.
  intros Hs Hr Hfresh Hpm Henc.
  assert (HF : [grp; path_PROPS] <> []) by discriminate.
  unfold write_one_prop. unfold bind at 1. unfold lift at 1. rewrite Hpm.
  unfold bind at 1. unfold lift at 1. rewrite Henc.
  (* create_group *)
  destruct (is_group_put _ _ _ _ HF Hr) as [a [ch Hrg]]. subst r.
  set (G0 := ZG pa pch) in *.
  set (G1 := ZG pa (aset name empty_group pch)).
  assert (HG1 : put_path G0 [name] empty_group = Some G1) by reflexivity.
  destruct (put_path_some_irrel _ _ _ G1 _ Hr) as [r1 Hr1].
  assert (Hcg : create_group [grp; path_PROPS] name s = (mkst (Some r1) (Some r1 :: s_trace s), Ok tt)).
  { apply (create_group_ok _ _ _ _ _ _ Hs).
    - rewrite (focus_get _ _ _ _ [name] Hr). unfold G0. cbn. unfold get. cbn. rewrite Hfresh. reflexivity.
    - rewrite (focus_step _ _ _ _ _ _ _ Hr eq_refl HG1). exact Hr1. }
  unfold bind at 1. rewrite Hcg.
  (* values *)
  set (s1 := mkst (Some r1) (Some r1 :: s_trace s)).
  set (ch2 := aset name (ZG [] (aset path_VALUES (ZA v) [])) pch).
  assert (HG2 : put_path G1 [name; path_VALUES] (ZA v) = Some (ZG pa ch2)).
  { unfold G1. rewrite (put_in_prop pa _ name [] path_VALUES v (alookup_aset_same _ _ _)).
    unfold ch2. rewrite aset_aset. reflexivity. }
  destruct (set_item_focus s1 root [grp; path_PROPS] G1 r1 [name; path_VALUES] v _ eq_refl HF Hr1 eq_refl HG2)
    as [r2 [Hset2 Hr2]].
  change ([grp; path_PROPS; name; path_VALUES]) with ([grp; path_PROPS] ++ [name; path_VALUES]).
  unfold bind at 1. rewrite Hset2.
  set (s2 := mkst (Some r2) (Some r2 :: s_trace s1)).
  (* missing *)
  set (pg3 := match m with Some ma => aset path_MISSING (ZA ma) (aset path_VALUES (ZA v) []) | None => aset path_VALUES (ZA v) [] end).
  set (ch3 := aset name (ZG [] pg3) pch).
  assert (Hstep3 : exists r3 tr3,
            (match m with Some ma => set_item [grp; path_PROPS; name; path_MISSING] ma | None => ret tt end) s2
            = (mkst (Some r3) tr3, Ok tt) /\ put_path root [grp; path_PROPS] (ZG pa ch3) = Some r3).
  { destruct m as [ma|].
    - assert (HG3 : put_path (ZG pa ch2) [name; path_MISSING] (ZA ma) = Some (ZG pa ch3)).
      { unfold ch2. rewrite (put_in_prop pa _ name _ path_MISSING ma (alookup_aset_same _ _ _)).
        unfold ch3, pg3. rewrite aset_aset. reflexivity. }
      destruct (set_item_focus s2 root [grp; path_PROPS] (ZG pa ch2) r2 [name; path_MISSING] ma _ eq_refl HF Hr2 eq_refl HG3)
        as [r3 [Hset3 Hr3]].
      exists r3, (Some r3 :: s_trace s2). split; [exact Hset3 | exact Hr3].
    - exists r2, (s_trace s2). split; [reflexivity | exact Hr2]. }
  destruct Hstep3 as [r3 [tr3 [Hset3 Hr3]]].
  unfold bind at 1. rewrite Hset3.
  set (s3 := mkst (Some r3) tr3).
  (* data *)
  set (pg4 := match d with Some da => aset path_DATA (ZA da) pg3 | None => pg3 end).
  assert (Hstep4 : exists r4 tr4,
            (match d with Some da => set_item [grp; path_PROPS; name; path_DATA] da | None => ret tt end) s3
            = (mkst (Some r4) tr4, Ok tt) /\ put_path root [grp; path_PROPS] (ZG pa (aset name (ZG [] pg4) pch)) = Some r4).
  { destruct d as [da|].
    - assert (HG4 : put_path (ZG pa ch3) [name; path_DATA] (ZA da) = Some (ZG pa (aset name (ZG [] pg4) pch))).
      { unfold ch3. rewrite (put_in_prop pa _ name _ path_DATA da (alookup_aset_same _ _ _)).
        unfold pg4. rewrite aset_aset. reflexivity. }
      destruct (set_item_focus s3 root [grp; path_PROPS] (ZG pa ch3) r3 [name; path_DATA] da _ eq_refl HF Hr3 eq_refl HG4)
        as [r4 [Hset4 Hr4]].
      exists r4, (Some r4 :: s_trace s3). split; [exact Hset4 | exact Hr4].
    - exists r3, tr3. split; [reflexivity | exact Hr3]. }
  destruct Hstep4 as [r4 [tr4 [Hset4 Hr4]]].
  exists r4, tr4. split; [exact Hset4|].
  rewrite <- Hr4. f_equal. f_equal. rewrite (aset_fresh _ _ _ Hfresh). f_equal. f_equal.
  unfold prop_group, prop_members, pg4, pg3. destruct m, d; reflexivity.
Qed.

(* ---------- the whole props group ---------- *)
Definition encodable (kv : string * prop) : Prop :=
  exists pm enc, create_props_metadata (fst kv) (snd kv) = Ok pm /\ encode_prop (snd kv) = Ok enc.
Definition stored (kv : string * prop) : string * znode :=
  (fst kv, match encode_prop (snd kv) with Ok (v, m, d) => prop_group v m d | Err _ => empty_group end).

Lemma akeys_stored ps : akeys (map stored ps) = akeys ps.
Proof. unfold akeys. rewrite map_map. reflexivity. Qed.

Lemma forM_write_props ps : forall s root grp pa pch r,
  s_root s = Some r -> put_path root [grp; path_PROPS] (ZG pa pch) = Some r ->
  NoDup (akeys ps) -> (forall k, In k (akeys ps) -> alookup k pch = None) ->
  Forall encodable ps ->
  exists r' tr, forM (write_one_prop grp) ps s = (mkst (Some r') tr, Ok tt) /\
     put_path root [grp; path_PROPS] (ZG pa (pch ++ map stored ps)) = Some r'.
Proof.
  induction ps as [|[name p] ps IH]; intros s root grp pa pch r Hs Hr Hnd Hfresh Henc.
  - exists r, (s_trace s). cbn [forM map]. rewrite app_nil_r. split; [|exact Hr].
    unfold ret. destruct s; cbn in *; subst; reflexivity.
  - cbn [akeys map fst] in Hnd. inversion Hnd as [|? ? Hnotin Hnd']; subst.
    apply Forall_cons_iff in Henc. destruct Henc as [[pm [[[v m] d] [Hpm He]]] Henc'].
    cbn [fst snd] in Hpm, He.
    assert (Hf1 : alookup name pch = None) by (apply Hfresh; cbn; auto).
    destruct (write_one_prop_ok s root grp pa pch r name p pm v m d Hs Hr Hf1 Hpm He) as [r1 [tr1 [Hw Hr1]]].
    cbn [forM]. unfold bind at 1. rewrite Hw.
    destruct (IH (mkst (Some r1) tr1) root grp pa (pch ++ [(name, prop_group v m d)]) r1 eq_refl Hr1 Hnd') as [r' [tr [Hf Hr']]].
    + intros k Hk. rewrite alookup_app, (Hfresh k (or_intror Hk)). cbn.
      rewrite seqb_neq; [reflexivity|]. intro; subst. contradiction.
    + exact Henc'.
    + exists r', tr. split; [exact Hf|]. rewrite <- Hr'. cbn [map]. rewrite <- app_assoc. cbn [app]. unfold stored at 1. cbn [fst snd]. rewrite He. reflexivity.
Qed.

(* ---------- write_props_arrays below an existing nodes/edges group ---------- *)
Lemma require_group_new s a ch p r' :
  s_root s = Some (ZG a ch) -> get_path (ZG a ch) p = None -> put_path (ZG a ch) p empty_group = Some r' ->
  require_group p s = (mkst (Some r') (Some r' :: s_trace s), Ok tt).
Proof. intros H Hg Hp. unfold require_group, bind. rewrite (setup_group_ok _ _ _ H), Hg, Hp. reflexivity. Qed.

Lemma write_props_arrays_ok s a ch grp ga gch ps :
  s_root s = Some (ZG a ch) -> alookup grp ch = Some (ZG ga gch) -> alookup path_PROPS gch = None ->
  NoDup (akeys ps) -> Forall encodable ps ->
  exists tr, write_props_arrays grp ps s =
    (mkst (Some (ZG a (aset grp (ZG ga (gch ++ [(path_PROPS, ZG [] (map stored ps))])) ch))) tr, Ok tt).
Proof.
  intros Hs Hg Hp Hnd Henc. unfold write_props_arrays.
  assert (Hput : forall X, put_path (ZG a ch) [grp; path_PROPS] X
                           = Some (ZG a (aset grp (ZG ga (gch ++ [(path_PROPS, X)])) ch))).
  { intros X. cbn. rewrite Hg. cbn. rewrite (aset_fresh _ _ _ Hp). reflexivity. }
  assert (Hreq : require_group [grp; path_PROPS] s =
                 (mkst (Some (ZG a (aset grp (ZG ga (gch ++ [(path_PROPS, empty_group)])) ch)))
                       (Some (ZG a (aset grp (ZG ga (gch ++ [(path_PROPS, empty_group)])) ch)) :: s_trace s), Ok tt)).
  { apply (require_group_new _ _ _ _ _ Hs); [|apply Hput].
    cbn. unfold get. cbn. rewrite Hg. cbn. unfold get. cbn. rewrite Hp. reflexivity. }
  unfold bind at 1. rewrite Hreq.
  set (r1 := ZG a (aset grp (ZG ga (gch ++ [(path_PROPS, empty_group)])) ch)).
  destruct (forM_write_props ps (mkst (Some r1) (Some r1 :: s_trace s)) (ZG a ch) grp [] [] r1 eq_refl (Hput (ZG [] [])) Hnd (fun _ _ => eq_refl) Henc)
    as [r' [tr [Hf Hr']]].
  rewrite Hput in Hr'. inversion Hr'; subst r'. cbn [app] in Hf. exists tr. exact Hf.
Qed.

(* ---------- write_id_arrays on a clean target ---------- *)
Definition ids_group (ids : arr) : znode := ZG [] [(path_IDS, ZA ids)].

(* the root group a write starts from: the existing (geff-free) group, or a new empty one *)
Definition base_attrs (pre : option znode) : list (string * aval) := match pre with Some n => attrs_of n | None => [] end.
Definition base_children (pre : option znode) : list (string * znode) := match pre with Some n => children n | None => [] end.

Definition clean (k : skind) (pre : option znode) : Prop :=
  match pre with
  | None => True
  | Some (ZG a ch) => k = KObj /\ alookup "geff" a = None /\ alookup path_NODES ch = None /\ alookup path_EDGES ch = None
  | Some (ZA _) => False
  end.

Lemma write_id_arrays_ok k pre nids eids :
  clean k pre -> a_dt nids = a_dt eids -> is_integer (a_dt nids) = true ->
  exists tr, write_id_arrays nids eids (init pre) =
    (mkst (Some (ZG (base_attrs pre) (base_children pre ++ [(path_NODES, ids_group nids); (path_EDGES, ids_group eids)]))) tr, Ok tt).
Proof.
  intros Hc Hdt Hint. unfold write_id_arrays. rewrite Hdt, dtype_eqb_refl. cbn [negb].
  rewrite <- Hdt, Hint. cbn [negb].
  assert (Hgen : forall s a ch, s_root s = Some (ZG a ch) -> alookup path_NODES ch = None -> alookup path_EDGES ch = None ->
            exists tr, (set_item [path_NODES; path_IDS] nids ;; set_item [path_EDGES; path_IDS] eids)%M s =
              (mkst (Some (ZG a (ch ++ [(path_NODES, ids_group nids); (path_EDGES, ids_group eids)]))) tr, Ok tt)).
  { intros s a ch Hs Hn He.
    assert (H1 : put_path (ZG a ch) [path_NODES; path_IDS] (ZA nids) = Some (ZG a (ch ++ [(path_NODES, ids_group nids)]))).
    { cbn. rewrite Hn. cbn. rewrite (aset_fresh _ _ _ Hn). reflexivity. }
    unfold bind at 1. rewrite (set_item_ok _ _ _ _ _ _ Hs H1).
    assert (He' : alookup path_EDGES (ch ++ [(path_NODES, ids_group nids)]) = None).
    { rewrite alookup_app, He. reflexivity. }
    assert (H2 : put_path (ZG a (ch ++ [(path_NODES, ids_group nids)])) [path_EDGES; path_IDS] (ZA eids)
                 = Some (ZG a (ch ++ [(path_NODES, ids_group nids); (path_EDGES, ids_group eids)]))).
    { cbn [put_path]. rewrite He'. cbn. rewrite (aset_fresh _ _ _ He'). rewrite <- app_assoc. reflexivity. }
    eexists. apply (set_item_ok (mkst _ _) _ _ _ _ _ eq_refl H2). }
  destruct pre as [[x|a ch]|]; cbn [clean] in Hc.
  - contradiction.
  - destruct Hc as [_ [_ [Hn He]]]. unfold bind at 1. rewrite (setup_group_ok (init (Some (ZG a ch))) a ch eq_refl).
    apply (Hgen (init (Some (ZG a ch))) a ch eq_refl Hn He).
  - (* no root yet: setup_group creates it *)
    unfold bind at 1.
    change (setup_group (init None)) with (mkst (Some empty_group) [Some empty_group], Ok empty_group).
    apply (Hgen (mkst (Some empty_group) [Some empty_group]) [] [] eq_refl eq_refl eq_refl).
Qed.

(* ---------- write_arrays on a clean target: the layout ---------- *)
Lemma aset_app_fresh {V} k (v : V) l l' : alookup k l = None -> aset k v (l ++ l') = l ++ aset k v l'.
Proof. induction l as [|[k' v'] r IH]; cbn; [reflexivity|].
  destruct (String.eqb k k') eqn:E; [discriminate|]. intro H. rewrite IH; auto. Qed.
Lemma aset_same_value {V} k (v : V) l : alookup k l = Some v -> aset k v l = l.
Proof. induction l as [|[k' v'] r IH]; cbn; [discriminate|].
  destruct (String.eqb k k') eqn:E; intro H.
  - apply String.eqb_eq in E. inversion H; subst. reflexivity.
  - rewrite IH; auto. Qed.

Definition grp_node (ids : arr) (ps : option props) : znode :=
  ZG [] ((path_IDS, ZA ids) :: match ps with Some l => [(path_PROPS, ZG [] (map stored l))] | None => [] end).

Definition props_ok (ops : option props) : Prop :=
  forall ps, ops = Some ps -> NoDup (akeys ps) /\ Forall encodable ps.

Lemma opt_props_ok s a ch grp ids ops :
  s_root s = Some (ZG a ch) -> alookup grp ch = Some (ids_group ids) -> props_ok ops ->
  exists tr, (match ops with Some ps => write_props_arrays grp ps | None => ret tt end) s
             = (mkst (Some (ZG a (aset grp (grp_node ids ops) ch))) tr, Ok tt).
Proof.
  intros Hs Hg Hok. destruct ops as [ps|].
  - destruct (Hok ps eq_refl) as [Hnd Henc].
    destruct (write_props_arrays_ok s a ch grp [] [(path_IDS, ZA ids)] ps Hs Hg eq_refl Hnd Henc) as [tr Htr].
    exists tr. exact Htr.
  - exists (s_trace s). unfold ret, grp_node. cbn [app].
    change (ZG [] [(path_IDS, ZA ids)]) with (ids_group ids). rewrite (aset_same_value _ _ _ Hg).
    destruct s; cbn in *; subst; reflexivity.
Qed.

Definition layout (pre : option znode) (g : wgraph) (nps : option props) (md' : smeta) : znode :=
  ZG (aset "geff" (AGeff (Some md')) (base_attrs pre))
     (base_children pre ++ [(path_NODES, grp_node (w_nids g) nps); (path_EDGES, grp_node (w_eids g) (w_eprops g))]).

Lemma check_for_geff_clean k pre : clean k pre -> check_for_geff k (init pre) = (init pre, Ok false).
Proof. intros Hc. unfold check_for_geff, bind, get_root, init. cbn [s_root].
  destruct pre as [[x|a ch]|]; cbn [clean] in Hc.
  - contradiction.
  - destruct Hc as [-> [Hg _]]. unfold ret. f_equal. f_equal. apply ahas_false. exact Hg.
  - destruct k; reflexivity. Qed.

Theorem write_arrays_layout k pre g md md' v ov n :
  clean k pre -> a_dt (w_nids g) = a_dt (w_eids g) -> is_integer (a_dt (w_nids g)) = true ->
  len0 (w_nids g) = Some n ->
  props_ok (backfill (w_nids g) md (w_nprops g)) -> props_ok (w_eprops g) ->
  final_metadata g md = Ok md' ->
  (v = true -> validate_structure k (Some (layout pre g (backfill (w_nids g) md (w_nprops g)) md')) = Ok tt) ->
  exists tr, write_arrays k g md v ov (init pre)
             = (mkst (Some (layout pre g (backfill (w_nids g) md (w_nprops g)) md')) tr, Ok tt).
Proof.
  intros Hc Hdt Hint Hlen Hnp Hep Hmd Hval. unfold write_arrays.
  unfold bind at 1. rewrite (check_for_geff_clean _ _ Hc).
  unfold bind at 1. unfold ret at 1.
  destruct (write_id_arrays_ok k pre _ _ Hc Hdt Hint) as [tr1 H1].
  unfold bind at 1. rewrite H1.
  unfold bind at 1. rewrite Hlen. unfold ret at 1.
  set (a := base_attrs pre) in *. set (ch := base_children pre) in *.
  assert (Hn : alookup path_NODES ch = None /\ alookup path_EDGES ch = None).
  { subst ch. destruct pre as [[x|a0 ch0]|]; cbn [clean] in Hc; cbn; [contradiction | tauto | auto]. }
  destruct Hn as [Hn He].
  (* node properties *)
  set (nps := backfill (w_nids g) md (w_nprops g)) in *.
  set (ch1 := ch ++ [(path_NODES, ids_group (w_nids g)); (path_EDGES, ids_group (w_eids g))]).
  assert (Hg1 : alookup path_NODES ch1 = Some (ids_group (w_nids g))).
  { subst ch1. rewrite alookup_app, Hn. reflexivity. }
  destruct (opt_props_ok (mkst (Some (ZG a ch1)) tr1) a ch1 path_NODES (w_nids g) nps eq_refl Hg1 Hnp) as [tr2 H2].
  unfold bind at 1. rewrite H2.
  set (ch2 := aset path_NODES (grp_node (w_nids g) nps) ch1).
  assert (Hch2 : ch2 = ch ++ [(path_NODES, grp_node (w_nids g) nps); (path_EDGES, ids_group (w_eids g))]).
  { subst ch2 ch1. rewrite (aset_app_fresh _ _ _ _ Hn). reflexivity. }
  assert (Hg2 : alookup path_EDGES ch2 = Some (ids_group (w_eids g))).
  { rewrite Hch2, alookup_app, He. reflexivity. }
  destruct (opt_props_ok (mkst (Some (ZG a ch2)) tr2) a ch2 path_EDGES (w_eids g) (w_eprops g) eq_refl Hg2 Hep) as [tr3 H3].
  unfold bind at 1. rewrite H3.
  unfold bind at 1. unfold lift at 1. rewrite Hmd.
  assert (Hfinal : ZG (aset "geff" (AGeff (Some md')) a) (aset path_EDGES (grp_node (w_eids g) (w_eprops g)) ch2)
                   = layout pre g nps md').
  { unfold layout. f_equal. rewrite Hch2. rewrite (aset_app_fresh _ _ _ _ He). reflexivity. }
  unfold write_metadata. unfold bind at 1. unfold bind at 1. unfold bind at 1.
  rewrite (setup_group_ok (mkst _ _) a _ eq_refl).
  unfold set_root. cbn [s_trace s_root set_attr]. rewrite Hfinal.
  destruct v.
  - unfold bind at 1. unfold get_root. cbn [s_root]. rewrite (Hval eq_refl). unfold ret. eexists. reflexivity.
  - unfold ret. eexists. reflexivity.
Qed.

(* ---------- the float16 upcast of variable-length elements is the identity when no element is float16 ---------- *)
Lemma map_upcast_varr_id l : Forall (fun x => v_dt x <> DF16) l -> map upcast_varr l = l.
Proof. induction l as [|x r IH]; intros H; [reflexivity|]. apply Forall_cons_iff in H. destruct H as [Hx Hr].
  cbn [map]. rewrite (IH Hr). f_equal. unfold upcast_varr. destruct (dtype_eqb (v_dt x) DF16) eqn:E; [|reflexivity].
  apply dtype_eqb_eq in E. contradiction. Qed.
Lemma upcast_prop_vlen_id l m : Forall (fun x => v_dt x <> DF16) l -> upcast_prop (mkprop (PVlen l) m) = mkprop (PVlen l) m.
Proof. intros H. unfold upcast_prop. cbn [p_vals p_missing]. rewrite (map_upcast_varr_id l H). reflexivity. Qed.
