(* DictsCrash.v -- C05 / C06 for the writers that sit above write_arrays:
     write_dicts                       = dict_props_to_arr (pure: may raise, mutates nothing) ; write_arrays(overwrite=False)
     NxBackend / RxBackend / SgBackend.write  (Backends.v: nx_write, rx_write, sg_write; BackendsMd.v: nx_write_md, rx_write_md)
     geff.write(overwrite=...)         = the wrapper's guard (check_for_geff, delete_geff) ; the backend writer        (api_ov)
   One notion carries every statement: crash_safe k m -- started on a location whose root carries no geff attribute, every state m
   passes through is unrecognised until m's commit, and if m raises the location ends unrecognised (CrashLemmas.write_core_crash
   is this statement for the core of write_arrays).  It is closed under the pure prefixes (metadata helpers, dictionary-to-array
   conversion, axis bookkeeping) the writers put in front of write_arrays. *)
From Geff Require Import Base Dtype DtypeLemmas Vlen Tree TreeLemmas Validate ValidateLemmas Write WriteLemmas CrashLemmas OverwriteLemmas
     Read Dicts Backends BackendsMd.
From Geff.Gen Require Import Consts.
Open Scope string_scope.
Open Scope list_scope.

Definition no_geff (s : st) : Prop := alookup "geff" (oattrs (s_root s)) = None.

Definition crash_safe (k : skind) (m : M unit) : Prop :=
  forall s, no_geff s ->
    let (s', r) := m s in
    exists new, s_trace s' = new ++ s_trace s /\ new_ok k r new /\ (r <> Ok tt -> unrecognised k (s_root s')).

(* ---------- closure ---------- *)
Lemma cs_fail k e : crash_safe k (fail e).
Proof. intros s Hs. cbn. exists []. split; [reflexivity|]. split; [exact I|]. intros _. apply no_geff_unrecognised. exact Hs. Qed.

(* a pure step in front (lift: no state change): dict_props_to_arr, create_or_update_metadata, axis resolution ... *)
Lemma cs_lift_bind {A} k (r : res A) (f : A -> M unit) : (forall a, crash_safe k (f a)) -> crash_safe k (bind (lift r) f).
Proof. intros Hf s Hs. unfold bind, lift. destruct r as [a|e]; [apply Hf; exact Hs | apply (cs_fail k e s Hs)]. Qed.

Lemma cs_ret_then k (m : M unit) : crash_safe k m -> crash_safe k (bind (ret tt) (fun _ => m)).
Proof. intros H s Hs. unfold bind, ret. apply H. exact Hs. Qed.

(* ---------- the generic core: attribute-stable body ; GeffMetadata.write ; validate-or-clean-up ---------- *)
Definition core_of (k : skind) (body : M smeta) (validate : bool) : M unit :=
  (do md' <- body; write_metadata md' ;; write_tail k validate)%M.

Theorem core_crash k (body : M smeta) v : attrs_stable body -> crash_safe k (core_of k body v).
Proof.
  intros Hbody s Hng. unfold no_geff in Hng. unfold core_of, bind.
  pose proof (Hbody s) as Hb. destruct (body s) as [s1 [md'|e]].
  2:{ destruct Hb as [n1 [Ht1 [HF1 Ha1]]]. exists n1. split; [exact Ht1|].
      assert (HU : Forall (unrecognised k) n1).
      { eapply Forall_impl; [|exact HF1]. cbn. intros st Hst. apply no_geff_unrecognised. rewrite Hst. exact Hng. }
      split; [apply new_ok_all; exact HU | intros _; apply no_geff_unrecognised; rewrite Ha1; exact Hng]. }
  destruct Hb as [n1 [Ht1 [HF1 Ha1]]].
  assert (HU1 : Forall (unrecognised k) n1).
  { eapply Forall_impl; [|exact HF1]. cbn. intros st Hst. apply no_geff_unrecognised. rewrite Hst. exact Hng. }
  unfold write_metadata, bind.
  pose proof (as_setup_group s1) as Hsg. destruct (setup_group s1) as [s2 [g2|e]].
  2:{ destruct Hsg as [n2 [Ht2 [HF2 Ha2]]]. exists (n2 ++ n1). rewrite Ht2, Ht1, app_assoc. split; [reflexivity|].
      assert (HU2 : Forall (unrecognised k) n2).
      { eapply Forall_impl; [|exact HF2]. cbn. intros st Hst. apply no_geff_unrecognised. rewrite Hst, Ha1. exact Hng. }
      split; [apply new_ok_all; apply Forall_app; auto | intros _; apply no_geff_unrecognised; rewrite Ha2, Ha1; exact Hng]. }
  destruct Hsg as [n2 [Ht2 [HF2 Ha2]]].
  assert (HU2 : Forall (unrecognised k) n2).
  { eapply Forall_impl; [|exact HF2]. cbn. intros st Hst. apply no_geff_unrecognised. rewrite Hst, Ha1. exact Hng. }
  assert (HU21 : Forall (unrecognised k) (n2 ++ n1)) by (apply Forall_app; auto).
  cbn [set_root]. set (C := Some (set_attr g2 "geff" (AGeff (Some md')))).
  set (s3 := mkst C (C :: s_trace s2)).
  assert (Htr3 : s_trace s3 = (C :: n2 ++ n1) ++ s_trace s).
  { unfold s3. cbn. rewrite Ht2, Ht1, app_assoc. reflexivity. }
  assert (Hcommit : forall r, (r = Ok tt \/ unrecognised k C) ->
            exists new, s_trace s3 = new ++ s_trace s /\ new_ok k r new /\ (r <> Ok tt -> unrecognised k (s_root s3))).
  { intros r Hr. exists (C :: n2 ++ n1). split; [exact Htr3|]. cbn [new_ok s_root s3].
    split; [split; [exact HU21|] |]; intros Hne; destruct Hr as [->|Hr]; try exact Hr; exfalso; apply Hne; reflexivity. }
  unfold write_tail. destruct v; [|apply Hcommit; left; reflexivity].
  unfold bind, get_root. cbn [s_root s3].
  destruct (validate_structure k C) as [[]|e] eqn:Ev; [apply Hcommit; left; reflexivity|].
  assert (HC : unrecognised k C) by (unfold unrecognised; rewrite Ev; discriminate).
  destruct e; try (apply Hcommit; right; exact HC).
  pose proof (try_any_delete_states k s3) as Hd. unfold bind.
  destruct (try_any (delete_geff k) (ret tt) s3) as [s4 r4].
  destruct Hd as [n4 [Ht4 [HF4 HP4]]].
  assert (HU4 : Forall (unrecognised k) n4) by (eapply Forall_impl; [|exact HF4]; intros st; apply nodes_gone_unrecognised).
  assert (Hall : Forall (unrecognised k) (n4 ++ C :: n2 ++ n1)).
  { apply Forall_app. split; [exact HU4|]. constructor; [exact HC | exact HU21]. }
  assert (Htr4 : s_trace s4 = (n4 ++ C :: n2 ++ n1) ++ s_trace s).
  { rewrite Ht4, Htr3, <- app_assoc. reflexivity. }
  destruct r4 as [u|e4]; cbn; exists (n4 ++ C :: n2 ++ n1);
    (split; [exact Htr4|]; split; [apply new_ok_all; exact Hall | intros _; apply nodes_gone_unrecognised; exact HP4]).
Qed.

(* the overwrite=False guard in front of a crash-safe program: on a location without geff attribute it either refuses
   (a path that exists) without any mutation, or lets the program run *)
Lemma cs_guard_false k (m : M unit) : crash_safe k m -> crash_safe k (overwrite_guard k false ;; m)%M.
Proof. intros Hm s Hs. unfold bind at 1. unfold overwrite_guard, bind at 1. rewrite check_for_geff_spec.
  destruct (exists_geff k (s_root s)).
  - cbn. exists []. split; [reflexivity|]. split; [exact I|]. intros _. apply no_geff_unrecognised. exact Hs.
  - unfold ret at 1. cbn iota beta. apply Hm. exact Hs. Qed.

(* ---------- write_arrays, write_arrays_u (overwrite=False) ---------- *)
Lemma write_arrays_core k g md v ov s :
  write_arrays k g md v ov s = (overwrite_guard k ov ;; core_of k (write_body g md) v)%M s.
Proof. rewrite write_arrays_eq. reflexivity. Qed.

Theorem cs_write_arrays k g md v : crash_safe k (write_arrays k g md v false).
Proof. intros s Hs. rewrite write_arrays_core. apply (cs_guard_false k _ (core_crash k _ v (as_write_body g md)) s Hs). Qed.

(* write_arrays with node_props_unsquish: the unsquish step is pure *)
Definition write_body_u (g : wgraph) (md : smeta) (u : option (string * list string)) : M smeta :=
  (write_id_arrays (w_nids g) (w_eids g) ;;
   (match len0 (w_nids g) with None => fail TypeError | Some _ => ret tt end) ;;
   let nps0 := backfill (w_nids g) md (w_nprops g) in
   do nps <- lift (match nps0, u with
                   | Some ps, Some (pos, names) => rmap Some (unsquish pos names ps)
                   | _, _ => Ok nps0
                   end);
   (match nps with Some ps => write_props_arrays path_NODES ps | None => ret tt end) ;;
   (match w_eprops g with Some ps => write_props_arrays path_EDGES ps | None => ret tt end) ;;
   lift (final_metadata_of nps (w_eprops g) md))%M.

Lemma as_write_body_u g md u : attrs_stable (write_body_u g md u).
Proof. unfold write_body_u. apply as_bind; [apply as_write_id_arrays|]. intros _.
  apply as_bind; [destruct (len0 _); [apply as_ret | apply as_fail]|]. intros _.
  apply as_bind; [apply as_lift|]. intros nps.
  apply as_bind; [destruct nps; [apply as_write_props_arrays | apply as_ret]|]. intros _.
  apply as_bind; [destruct (w_eprops g); [apply as_write_props_arrays | apply as_ret]|]. intros _.
  apply as_lift. Qed.

Lemma write_arrays_u_core k g md u v ov s :
  write_arrays_u k g md u v ov s = (overwrite_guard k ov ;; core_of k (write_body_u g md u) v)%M s.
Proof.
  unfold write_arrays_u, overwrite_guard, core_of, write_body_u, write_tail, bind.
  destruct (check_for_geff k s) as [s0 [ex|e]]; [|reflexivity].
  destruct ((if ex then if ov then delete_geff k else fail FileExistsError else ret tt) s0) as [s1 [u1|e]]; [|reflexivity].
  destruct (write_id_arrays (w_nids g) (w_eids g) s1) as [s2 [u2|e]]; [|reflexivity].
  destruct ((match len0 (w_nids g) with Some _ => ret tt | None => fail TypeError end) s2) as [s3 [u3|e]]; [|reflexivity].
  match goal with |- context [lift ?x s3] => destruct (lift x s3) as [s4 [nps|e]]; [|reflexivity] end.
  destruct ((match nps with Some ps => write_props_arrays path_NODES ps | None => ret tt end) s4) as [s5 [u5|e]]; [|reflexivity].
  destruct ((match w_eprops g with Some ps => write_props_arrays path_EDGES ps | None => ret tt end) s5) as [s6 [u6|e]]; [|reflexivity].
  destruct (lift (final_metadata_of nps (w_eprops g) md) s6) as [s7 [md'|e]]; [|reflexivity].
  destruct (write_metadata md' s7) as [s8 [u8|e]]; [|reflexivity].
  destruct v; reflexivity.
Qed.

Theorem cs_write_arrays_u k g md u v : crash_safe k (write_arrays_u k g md u v false).
Proof. intros s Hs. rewrite write_arrays_u_core. apply (cs_guard_false k _ (core_crash k _ v (as_write_body_u g md u)) s Hs). Qed.

(* ---------- write_dicts and the three backends ---------- *)
Theorem cs_write_dicts k g nn en md : crash_safe k (write_dicts k g nn en md).
Proof. unfold write_dicts. apply cs_lift_bind. intros w. apply cs_write_arrays. Qed.

Theorem cs_nx_write k d g axes mdtok axtok : crash_safe k (nx_write k d g axes mdtok axtok).
Proof. unfold nx_write. apply cs_lift_bind. intros md. apply cs_write_dicts. Qed.

(* NxBackend.write with the collected property names in a given order (a Python set: any order of Dicts.keys_of) *)
Definition nx_write_names (k : skind) (d : bool) (g : dgraph) (nn en : list string) (axes : option (list string)) (mdtok axtok : Z) : M unit :=
  bind (lift (fresh_md d axes mdtok axtok)) (fun md => write_dicts k g nn en md).
Lemma nx_write_names_keys k d g axes mdtok axtok :
  nx_write k d g axes mdtok axtok = nx_write_names k d g (keys_of (map snd (d_nodes g))) (keys_of (map snd (d_edges g))) axes mdtok axtok.
Proof. reflexivity. Qed.
Theorem cs_nx_write_names k d g nn en axes mdtok axtok : crash_safe k (nx_write_names k d g nn en axes mdtok axtok).
Proof. unfold nx_write_names. apply cs_lift_bind. intros md. apply cs_write_dicts. Qed.

Theorem cs_rx_write k d g idmap axes mdtok axtok : crash_safe k (rx_write k d g idmap axes mdtok axtok).
Proof. unfold rx_write. apply cs_lift_bind. intros md. apply cs_lift_bind. intros g'. apply cs_write_dicts. Qed.

Theorem cs_nx_write_md k d g mdc axes mdtok : crash_safe k (nx_write_md k d g mdc axes mdtok).
Proof. unfold nx_write_md. apply cs_lift_bind. intros md. apply cs_write_dicts. Qed.

Theorem cs_rx_write_md k d g idmap mdc axes mdtok : crash_safe k (rx_write_md k d g idmap mdc axes mdtok).
Proof. unfold rx_write_md. apply cs_lift_bind. intros md. apply cs_lift_bind. intros g'. apply cs_write_dicts. Qed.

Theorem cs_sg_write k g md axis_names mdtok axtok : crash_safe k (sg_write k g md axis_names mdtok axtok).
Proof. unfold sg_write. apply cs_lift_bind. intros names. apply cs_lift_bind. intros position. apply cs_lift_bind. intros axes.
  apply cs_lift_bind. intros md0.
  match goal with |- crash_safe _ (bind (if ?c then _ else _) _) => destruct c end.
  - intros s Hs. unfold bind, fail. cbn. exists []. split; [reflexivity|]. split; [exact I|]. intros _. apply no_geff_unrecognised. exact Hs.
  - apply cs_ret_then. apply cs_write_arrays_u. Qed.

(* ---------- geff.write(graph, store, overwrite=...): the wrapper's guard in front of ANY crash-safe backend writer ---------- *)
Definition api_ov (k : skind) (overwrite : bool) (w : M unit) : M unit := (overwrite_guard k overwrite ;; w)%M.

Lemma api_ov_false k w s : api_ov k false w s = Backends.api_write k w s.
Proof. unfold api_ov, Backends.api_write, overwrite_guard, bind. destruct (check_for_geff k s) as [s0 [[|]|e]]; reflexivity. Qed.

(* C05 (b): from ANY pre-state, with or without overwrite: every state after the first mutation is unrecognised until the commit
   of the new graph; if the call raises after a mutation the location ends unrecognised (before the first mutation it still
   holds what it held) *)
Theorem crash_api_ov k pre ov w : crash_safe k w ->
  let (s', r) := api_ov k ov w (init pre) in
  new_ok k r (s_trace s') /\ (r <> Ok tt -> s_trace s' <> [] -> unrecognised k (s_root s')).
Proof.
  intros Hw. unfold api_ov. unfold bind at 1. unfold overwrite_guard, bind at 1.
  rewrite check_for_geff_spec. cbn [s_root init].
  destruct (exists_geff k pre) eqn:Eex.
  - destruct ov.
    + pose proof (delete_geff_states k (init pre)) as Hd.
      destruct (delete_geff k (init pre)) as [s1 [u|e]] eqn:Ed.
      * destruct Hd as [n1 [Ht1 [HF1 HP1]]]. cbn in Ht1. rewrite app_nil_r in Ht1.
        assert (HU1 : Forall (unrecognised k) n1) by (eapply Forall_impl; [|exact HF1]; intros st; apply nodes_gone_unrecognised).
        destruct u. pose proof (delete_geff_ok_no_geff k _ _ Ed) as Hng.
        pose proof (Hw s1 Hng) as H. destruct (w s1) as [s' r]. destruct H as [new [Ht [Hn Hr]]].
        rewrite Ht, Ht1. split.
        -- destruct new as [|f l]; cbn.
           ++ apply new_ok_all. exact HU1.
           ++ destruct Hn as [Hl Hf]. split; [apply Forall_app; auto | exact Hf].
        -- intros Hne _. apply Hr. exact Hne.
      * destruct Hd as [n1 [Ht1 [HF1 HP1]]]. cbn in Ht1. rewrite app_nil_r in Ht1. rewrite Ht1.
        assert (HU1 : Forall (unrecognised k) n1) by (eapply Forall_impl; [|exact HF1]; intros st; apply nodes_gone_unrecognised).
        split; [apply new_ok_all; exact HU1 | intros _ _; apply nodes_gone_unrecognised; exact HP1].
    + cbn. split; [exact I | intros _ H; contradiction].
  - unfold ret at 1. cbn iota beta.
    pose proof (Hw (init pre) (exists_geff_false _ _ Eex)) as H.
    destruct (w (init pre)) as [s' r]. destruct H as [new [Ht [Hn Hr]]].
    cbn in Ht. rewrite app_nil_r in Ht. rewrite Ht. split; [exact Hn | intros Hne _; apply Hr; exact Hne].
Qed.

(* C05 (a): a location that holds no geff (the root carries no geff attribute) *)
Theorem crash_fresh k pre (w : M unit) : crash_safe k w -> alookup "geff" (oattrs pre) = None ->
  let (s', r) := w (init pre) in
  new_ok k r (s_trace s') /\ (r <> Ok tt -> unrecognised k (s_root s')).
Proof. intros Hw Hng. pose proof (Hw (init pre) Hng) as H. destruct (w (init pre)) as [s' r]. destruct H as [new [Ht [Hn Hr]]].
  cbn in Ht. rewrite app_nil_r in Ht. rewrite Ht. split; assumption. Qed.

Lemma clean_no_geff k pre : clean k pre -> alookup "geff" (oattrs pre) = None.
Proof. destruct pre as [[x|a ch]|]; cbn; tauto. Qed.

(* ---------- C06: refusal ---------- *)
(* geff.write without overwrite on a location that holds a geff: FileExistsError, no mutation, whatever the backend would do *)
Theorem api_ov_refuse k pre w : exists_geff k pre = true -> api_ov k false w (init pre) = (init pre, Err FileExistsError).
Proof. intros H. unfold api_ov. unfold bind at 1. unfold overwrite_guard, bind at 1. rewrite check_for_geff_spec. cbn [s_root init]. rewrite H. reflexivity. Qed.

(* write_dicts on a location that holds a geff: never a mutation; FileExistsError unless the dictionaries themselves are rejected
   first (dict_props_to_arr runs before write_arrays looks at the store) *)
Theorem write_dicts_refuse k pre g nn en md : exists_geff k pre = true ->
  write_dicts k g nn en md (init pre)
  = (init pre, Err (match dicts_wgraph g nn en with Ok _ => FileExistsError | Err e => e end)).
Proof. intros H. unfold write_dicts, bind, lift. destruct (dicts_wgraph g nn en) as [w|e]; [|reflexivity].
  apply (refuse k pre w md true H). Qed.

(* dictionaries that cannot be turned into arrays: the exception leaves the store as it was, on ANY location *)
Theorem write_dicts_pure_fail k g nn en md e s : dicts_wgraph g nn en = Err e -> write_dicts k g nn en md s = (s, Err e).
Proof. intros H. unfold write_dicts, bind, lift. rewrite H. reflexivity. Qed.

(* ---------- the tie used by the correspondence: on convertible dictionaries write_dicts IS write_arrays on the arrays ---------- *)
Theorem write_dicts_arrays k g nn en md w s : dicts_wgraph g nn en = Ok w ->
  write_dicts k g nn en md s = write_arrays k w md true false s.
Proof. intros H. unfold write_dicts, bind, lift. rewrite H. reflexivity. Qed.

(* geff.write of a networkx graph = Write.api_write (the C05_crash_api and C06_api theorems) on the arrays write_dicts builds *)
Theorem api_nx_arrays k ov d g axes mdtok axtok md w s :
  fresh_md d axes mdtok axtok = Ok md ->
  dicts_wgraph g (keys_of (map snd (d_nodes g))) (keys_of (map snd (d_edges g))) = Ok w ->
  api_ov k ov (nx_write k d g axes mdtok axtok) s = Write.api_write k w md true ov s.
Proof. intros Hmd Hw. rewrite api_write_eq.
  assert (E : forall s1, nx_write k d g axes mdtok axtok s1 = write_arrays k w md true false s1).
  { intro s1. unfold nx_write, bind, lift. rewrite Hmd. apply write_dicts_arrays. exact Hw. }
  unfold api_ov, bind. destruct (overwrite_guard k ov s) as [s1 [u|e]]; [apply E | reflexivity]. Qed.
