(* Corr/C06.v -- correspondence interface for histories of writes to one location:
   write(A); write(B, overwrite=o1); write(C, overwrite=o2) ... : result class and abstract dump after every call. *)
From Geff Require Export Base Dtype Vlen Tree Validate Write Read.
Open Scope list_scope.

Record call := mkcall { c_g : wgraph; c_md : smeta; c_validate : bool; c_ov : bool }.
(* IApiHist: the same history through geff.write (graph-library writers): the wrapper's guard in front of write_arrays' guard;
   each call carries the arrays and metadata the backend handed to write_arrays (captured by the harness) *)
Inductive input := IHist (k : skind) (pre : option znode) (calls : list call)
                 | IApiHist (k : skind) (pre : option znode) (calls : list call).
Inductive obs := OHist (steps : list (res unit * option znode)).

Fixpoint play (k : skind) (st : option znode) (cs : list call) : list (res unit * option znode) :=
  match cs with
  | [] => []
  | c :: r => let (st', x) := run (write_arrays k (c_g c) (c_md c) (c_validate c) (c_ov c)) st in
              (x, st') :: play k st' r
  end.
Fixpoint play_api (k : skind) (st : option znode) (cs : list call) : list (res unit * option znode) :=
  match cs with
  | [] => []
  | c :: r => let (st', x) := run (api_write k (c_g c) (c_md c) (c_validate c) (c_ov c)) st in
              (x, st') :: play_api k st' r
  end.
Definition model (i : input) : obs :=
  match i with IHist k pre cs => OHist (play k pre cs) | IApiHist k pre cs => OHist (play_api k pre cs) end.
Definition unit_eqb (a b : unit) : bool := true.
Definition step_eqb (a b : res unit * option znode) : bool :=
  res_eqb unit_eqb (fst a) (fst b) && otree_eqb (snd a) (snd b).
Definition obs_eqb (a b : obs) : bool := match a, b with OHist x, OHist y => list_eqb step_eqb x y end.
Definition check (c : input * obs) : bool := obs_eqb (model (fst c)) (snd c).
Definition diag (c : input * obs) : list bool :=
  match model (fst c), snd c with OHist x, OHist y => map (fun p => step_eqb (fst p) (snd p)) (combine x y) end.
