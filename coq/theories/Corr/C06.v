(* Corr/C06.v -- correspondence interface for histories of writes to one location:
   write(A); write(B, overwrite=o1); write(C, overwrite=o2) ... : result class and abstract dump after every call. *)
From Geff Require Export Base Dtype Vlen Tree Validate Write Read.
Open Scope list_scope.
(* entry-point histories (IEntryHist): every call is an `ecall` of Entry.v -- write_arrays, write_dicts / a backend writer called
   directly, geff.write, from_ctc_to_geff (dataset + label volume), from_trackmate_xml_to_geff (document) *)
From Geff Require Export GraphVal Ctc TrackMate Entry.

Record call := mkcall { c_g : wgraph; c_md : smeta; c_validate : bool; c_ov : bool }.
(* IApiHist: the same history through geff.write (graph-library writers): the wrapper's guard in front of write_arrays' guard;
   each call carries the arrays and metadata the backend handed to write_arrays (captured by the harness) *)
Inductive input := IHist (k : skind) (pre : option znode) (calls : list call)
                 | IApiHist (k : skind) (pre : option znode) (calls : list call)
                 | IEntryHist (pre : option znode) (ecalls : list ecall).
(* the target after a call of an entry-point history: its abstract dump, or -- for a directory that exists without being a zarr
   group (the label volume of a CTC conversion written into a geff directory that does not exist yet) -- its entries *)
Inductive eobs := ETree (t : option znode) | EDir (names : list string).
Inductive obs := OHist (steps : list (res unit * option znode))
               | OEntry (esteps : list (res unit * eobs)).

Fixpoint play (k : skind) (st : option znode) (cs : list call) : list (res unit * option znode) :=
  match cs with
  | [] => []
  | c :: r => let (st', x) := run (write_arrays k (c_g c) (c_md c) (c_validate c) (c_ov c)) st in
              (x, st') :: play k st' r
  end.
Fixpoint play_api (k : skind) (st : option znode) (cs : list call) : list (res unit * option znode) :=
  match cs with
  | [] => []
  | c :: r => let (st', x) := run (api_write k (c_g c) (c_md c) (c_validate c) (c_ov c)) st in
              (x, st') :: play_api k st' r
  end.
Fixpoint play_entry (st : option znode) (cs : list ecall) : list (res unit * eobs) :=
  match cs with
  | [] => []
  | c :: r => let (st', x) := run (e_run c) st in (x, ETree st') :: play_entry st' r
  end.
Definition model (i : input) : obs :=
  match i with
  | IHist k pre cs => OHist (play k pre cs)
  | IApiHist k pre cs => OHist (play_api k pre cs)
  | IEntryHist pre cs => OEntry (play_entry pre cs)
  end.
Definition unit_eqb (a b : unit) : bool := true.
Definition step_eqb (a b : res unit * option znode) : bool :=
  res_eqb unit_eqb (fst a) (fst b) && otree_eqb (snd a) (snd b).
(* trees are compared with the opaque metadata tokens blanked on both sides (Entry.zero_tok) *)
Definition estate_eqb (m o : eobs) : bool :=
  match m, o with
  | ETree t, ETree t' => otree_eqb (zero_tok t) (zero_tok t')
  | ETree (Some (ZG [] ch)), EDir names =>
      Nat.eqb (length ch) (length names) && forallb (fun kv => smem (fst kv) names) ch
  | _, _ => false
  end.
Definition estep_eqb (a b : res unit * eobs) : bool := res_eqb unit_eqb (fst a) (fst b) && estate_eqb (snd a) (snd b).
Definition obs_eqb (a b : obs) : bool :=
  match a, b with
  | OHist x, OHist y => list_eqb step_eqb x y
  | OEntry x, OEntry y => list_eqb estep_eqb x y
  | _, _ => false
  end.
Definition check (c : input * obs) : bool := obs_eqb (model (fst c)) (snd c).
Definition diag (c : input * obs) : list bool :=
  match model (fst c), snd c with
  | OHist x, OHist y => map (fun p => step_eqb (fst p) (snd p)) (combine x y)
  | OEntry x, OEntry y => map (fun p => estep_eqb (fst p) (snd p)) (combine x y)
  | _, _ => [false]
  end.
