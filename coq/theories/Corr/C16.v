(* Corr/C16.v -- correspondence interface for C16: from_trackmate_xml_to_geff on a (possibly occupied)
   target, observed through its exception class or, on success, read_to_memory of the result, the
   verdicts of validate_data(graph) / validate_data(lineage) on it, and the parts of the metadata that
   smeta does not hold (lineage property, axis types and units, related image, TrackMate extras). *)
From Geff Require Export Base Dtype Vlen Tree Validate Write Read GraphVal TrackMate.
From Geff Require TrackMateLemmas TrackMateProps TrackMateFast.
Open Scope list_scope.

(* IConvW: the same call, with what the generator meant the document to be -- Some true: a well-formed document with
   connected tracks (the premises wf_tm / tracks_connected of the theorems of props/C16.v), Some false: a document that
   violates them, None: no claim.  `check` evaluates the Coq decision procedures wf_tmb / tracks_connectedb on it. *)
Inductive input :=
| IConv (d : tm) (dspots dtracks overwrite : bool) (pre : option znode)
| IConvW (intent : option bool) (d : tm) (dspots dtracks overwrite : bool) (pre : option znode).
Inductive obs :=
| OErr (e : exn)
| OOk (back : res (mgraph * bool * res bool)) (x : tmextra).

Definition model (i : input) : obs :=
  match i with
  | IConv d ds dt ow pre | IConvW _ d ds dt ow pre =>
      let (post, r) := run (from_trackmate d ds dt ow) pre in
      match r with
      | Err e => OErr e
      | Ok _ =>
          match convert d ds dt with
          | Err e => OErr e
          | Ok (_, _, x) =>
              OOk (match read_to_memory KPath post true None None with
                   | Ok g => Ok (g, graph_ok g, lineage_ok g (x_lineage x))
                   | Err e => Err e
                   end) x
          end
      end
  end.

Definition ostr_eqb := option_eqb String.eqb.
Definition str3_eqb (a b : string * string * string) : bool :=
  String.eqb (fst (fst a)) (fst (fst b)) && String.eqb (snd (fst a)) (snd (fst b)) && String.eqb (snd a) (snd b).
Definition str2_eqb (a b : string * string) : bool := String.eqb (fst a) (fst b) && String.eqb (snd a) (snd b).
Definition lmd_eqb (a b : string * (bool * string * string)) : bool :=
  String.eqb (fst a) (fst b) && Bool.eqb (fst (fst (snd a))) (fst (fst (snd b)))
  && String.eqb (snd (fst (snd a))) (snd (fst (snd b))) && String.eqb (snd (snd a)) (snd (snd b)).
Definition tmextra_eqb (a b : tmextra) : bool :=
  ostr_eqb (x_lineage a) (x_lineage b) && list_eqb str3_eqb (x_axes a) (x_axes b)
  && list_eqb str2_eqb (x_related a) (x_related b) && String.eqb (x_version a) (x_version b)
  && list_eqb lmd_eqb (x_lineage_md a) (x_lineage_md b) && strlist_eqb (x_tags a) (x_tags b).

Definition back_eqb (a b : mgraph * bool * res bool) : bool :=
  mgraph_eqb (fst (fst a)) (fst (fst b)) && Bool.eqb (snd (fst a)) (snd (fst b)) && res_eqb Bool.eqb (snd a) (snd b).

Definition obs_eqb (a b : obs) : bool :=
  match a, b with
  | OErr e, OErr f => exn_eqb e f
  | OOk b1 x1, OOk b2 x2 => res_eqb back_eqb b1 b2 && tmextra_eqb x1 x2
  | _, _ => false
  end.
(* the premises of the theorems, decided on the document the model was given, against the generator's intent *)
(* TrackMateFast.premises_fast_sound : premises_fast d = true -> wf_tm d /\ tracks_connected d *)
Definition premises_hold (d : tm) : bool := TrackMateFast.premises_fast d.
Definition intent_ok (i : input) : bool :=
  match i with
  | IConvW (Some b) d _ _ _ _ => Bool.eqb (premises_hold d) b
  | _ => true
  end.
Definition check (c : input * obs) : bool := obs_eqb (model (fst c)) (snd c) && intent_ok (fst c).
