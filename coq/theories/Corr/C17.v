(* Corr/C17.v -- correspondence interface for C17 (geff_to_dataframes / geff_to_csv / CLI). *)
From Geff Require Export Base Table.
Open Scope list_scope.

Inductive input :=
| IFrames (g : graph)
(* which of the two output files exist beforehand, the overwrite flag, through the CLI or not *)
| ICsv (pre_nodes pre_edges overwrite cli : bool) (g : graph).

(* a file afterwards: absent, still the bytes that were there, or a CSV that parses to a table *)
Inductive fileobs := FAbsent | FOld | FNew (t : table).

Inductive obs :=
| OFrames (r : res ((table * list string) * (table * list string)))
| OCsv (r : res unit) (fnodes fedges : fileobs).

Definition table_eqb : table -> table -> bool :=
  list_eqb (prod_eqb String.eqb (list_eqb cell_eqb)).
Definition frame_eqb (a b : table * list string) : bool :=
  table_eqb (fst a) (fst b) && strlist_eqb (snd a) (snd b).

(* the pre-existing file: a table no export can produce (no id column) *)
Definition old_table : table := [("old"%string, [])].

Definition file_obs (f : option table) : fileobs :=
  match f with
  | None => FAbsent
  | Some t => if table_eqb t old_table then FOld else FNew t
  end.

Definition model (i : input) : obs :=
  match i with
  | IFrames g => OFrames (Ok (geff_to_dataframes g))
  | ICsv pn pe ov cli g =>
      let s := mkFs (if pn then Some old_table else None) (if pe then Some old_table else None) in
      let r := if cli then cli_convert_to_csv s g else geff_to_csv s g ov in
      OCsv (snd r) (file_obs (fs_nodes (fst r))) (file_obs (fs_edges (fst r)))
  end.

Definition fileobs_eqb (a b : fileobs) : bool :=
  match a, b with
  | FAbsent, FAbsent | FOld, FOld => true
  | FNew x, FNew y => table_eqb x y
  | _, _ => false
  end.

Definition obs_eqb (a b : obs) : bool :=
  match a, b with
  | OFrames x, OFrames y => res_eqb (prod_eqb frame_eqb frame_eqb) x y
  | OCsv r f1 f2, OCsv r' f1' f2' => res_eqb (fun _ _ => true) r r' && fileobs_eqb f1 f1' && fileobs_eqb f2 f2'
  | _, _ => false
  end.

Definition check (c : input * obs) : bool := obs_eqb (model (fst c)) (snd c).
