(* Corr/C17.v -- correspondence interface for C17 (geff_to_dataframes / geff_to_csv / CLI). *)
From Geff Require Export Base Table Csv.
Open Scope list_scope.

Inductive input :=
| IFrames (g : graph)
(* which of the two output files exist beforehand, the overwrite flag, through the CLI or not *)
| ICsv (pre_nodes pre_edges overwrite cli : bool) (g : graph)
(* fx2011: the CSV TEXT layer.  A typed graph exported by geff_to_csv into an empty directory: the bytes of
   both files and what pandas.read_csv(path) with default arguments makes of them.  [den] samples the value
   function of pandas' default float parser (text -> float64 bits), which the model leaves abstract *)
| ICsvText (g : tgraph) (den : list (string * Z))
(* pandas.read_csv with default arguments on an arbitrary text (reader model alone) *)
| IRead (text : string) (den : list (string * Z))
(* constants of the running pandas: the default NA tokens *)
| IConsts.

(* a file afterwards: absent, still the bytes that were there, or a CSV that parses to a table *)
Inductive fileobs := FAbsent | FOld | FNew (t : table).

(* a DataFrame as read by pandas: per column its name, dtype and cells (floats by their bits) *)
Inductive ocell := OInt (z : Z) | OFloat (bits : Z) | ONaN | OBool (b : bool) | OStr (s : string).
Definition oframe := list (string * (rdtype * list ocell)).

Inductive obs :=
| OFrames (r : res ((table * list string) * (table * list string)))
| OCsv (r : res unit) (fnodes fedges : fileobs)
| OCsvText (r : res unit) (ntext etext : string) (nread eread : option oframe)
| ORead (f : option oframe)
| OConsts (na : list string).

Definition table_eqb : table -> table -> bool :=
  list_eqb (prod_eqb String.eqb (list_eqb cell_eqb)).
Definition frame_eqb (a b : table * list string) : bool :=
  table_eqb (fst a) (fst b) && strlist_eqb (snd a) (snd b).

(* the pre-existing file: a table no export can produce (no id column) *)
Definition old_table : table := [("old"%string, [])].

Definition file_obs (f : option table) : fileobs :=
  match f with
  | None => FAbsent
  | Some t => if table_eqb t old_table then FOld else FNew t
  end.

(* the model's frame in the vocabulary of the observation: an integer-valued float by its bits, a parsed
   float through the sampled parser; None when a column is outside the model or a literal was not sampled *)
Fixpoint assoc_s {A} (l : list (string * A)) (k : string) : option A :=
  match l with [] => None | (k', v) :: r => if String.eqb k' k then Some v else assoc_s r k end.

Definition to_ocell (den : list (string * Z)) (c : rcell) : option ocell :=
  match c with
  | RInt z => Some (OInt z)
  | RFint z => Some (OFloat (f64_bits_of_int z))
  | RFlit s => option_map OFloat (assoc_s den s)
  | RNaN => Some ONaN
  | RBool b => Some (OBool b)
  | RStr s => Some (OStr s)
  end.

Fixpoint all_some {A} (l : list (option A)) : option (list A) :=
  match l with
  | [] => Some []
  | None :: _ => None
  | Some x :: r => match all_some r with Some xs => Some (x :: xs) | None => None end
  end.

Definition to_ocol (den : list (string * Z)) (c : string * option (rdtype * list rcell))
  : option (string * (rdtype * list ocell)) :=
  match snd c with
  | None => None
  | Some (d, cells) => match all_some (map (to_ocell den) cells) with
                       | Some cs => Some (fst c, (d, cs))
                       | None => None
                       end
  end.

Definition to_oframe (den : list (string * Z)) (f : option rframe) : option oframe :=
  match f with None => None | Some cols => all_some (map (to_ocol den) cols) end.

Definition model (i : input) : obs :=
  match i with
  | IFrames g => OFrames (Ok (geff_to_dataframes g))
  | ICsv pn pe ov cli g =>
      let s := mkFs (if pn then Some old_table else None) (if pe then Some old_table else None) in
      let r := if cli then cli_convert_to_csv s g else geff_to_csv s g ov in
      OCsv (snd r) (file_obs (fs_nodes (fst r))) (file_obs (fs_edges (fst r)))
  | ICsvText g den =>
      let (nt, et) := csv_texts g in
      OCsvText (Ok tt) nt et (to_oframe den (read_csv_default nt)) (to_oframe den (read_csv_default et))
  | IRead text den => ORead (to_oframe den (read_csv_default text))
  | IConsts => OConsts na_values
  end.

Definition fileobs_eqb (a b : fileobs) : bool :=
  match a, b with
  | FAbsent, FAbsent | FOld, FOld => true
  | FNew x, FNew y => table_eqb x y
  | _, _ => false
  end.

Definition rdtype_eqb (a b : rdtype) : bool :=
  match a, b with
  | DInt64, DInt64 | DUInt64, DUInt64 | DFloat64, DFloat64 | DBool, DBool | DStr, DStr | DObject, DObject => true
  | _, _ => false
  end.
Definition ocell_eqb (a b : ocell) : bool :=
  match a, b with
  | OInt x, OInt y | OFloat x, OFloat y => Z.eqb x y
  | ONaN, ONaN => true
  | OBool x, OBool y => Bool.eqb x y
  | OStr x, OStr y => String.eqb x y
  | _, _ => false
  end.
Definition oframe_eqb : oframe -> oframe -> bool :=
  list_eqb (prod_eqb String.eqb (prod_eqb rdtype_eqb (list_eqb ocell_eqb))).

Definition obs_eqb (a b : obs) : bool :=
  match a, b with
  | OFrames x, OFrames y => res_eqb (prod_eqb frame_eqb frame_eqb) x y
  | OCsv r f1 f2, OCsv r' f1' f2' => res_eqb (fun _ _ => true) r r' && fileobs_eqb f1 f1' && fileobs_eqb f2 f2'
  (* the model must cover every written file: a frame outside the model equals nothing *)
  | OCsvText r n e fn fe, OCsvText r' n' e' fn' fe' =>
      res_eqb (fun _ _ => true) r r' && String.eqb n n' && String.eqb e e' &&
      match fn, fn', fe, fe' with
      | Some a, Some a', Some b, Some b' => oframe_eqb a a' && oframe_eqb b b'
      | _, _, _, _ => false
      end
  (* arbitrary text: no claim where the model is silent *)
  | ORead None, ORead _ => true
  | ORead (Some a), ORead (Some b) => oframe_eqb a b
  | OConsts a, OConsts b => strlist_eqb a b
  | _, _ => false
  end.

Definition check (c : input * obs) : bool := obs_eqb (model (fst c)) (snd c).
