(* Corr/C04.v -- correspondence interface for validate_structure on an abstract store dump.
   IValidate: the verdict on the abstract tree.  IValidateJ: additionally the RAW metadata document (attrs["geff"] as JSON) is judged
   by the metadata model of Meta.v (`construct`, the model of GeffMetadata.model_validate proved about in C07/C08): its verdict must be
   the validity bit carried by the tree (which the harness computes with an independent reading of the specification) -- so the bit the
   validator model consumes is tied to the Coq metadata model, to the specification predicate and, through the oracle, to the library. *)
From Geff Require Export Base Dtype Vlen Tree Validate.
From Geff Require Meta.
Open Scope list_scope.
Open Scope string_scope.

Notation JNull := Meta.JNull.
Notation JBool := Meta.JBool.
Notation JInt := Meta.JInt.
Notation JFlt := Meta.JFlt.
Notation JStr := Meta.JStr.
Notation JList := Meta.JList.
Notation JObj := Meta.JObj.
Notation Fin := Meta.Fin.
Notation PInf := Meta.PInf.
Notation NInf := Meta.NInf.
Notation NaN := Meta.NaN.

Inductive input := IValidate (k : skind) (s : option znode)
                 | IValidateJ (k : skind) (s : option znode) (gv : string) (doc : Meta.jv).
Inductive obs := OVal (r : res unit).
Definition tree_of (i : input) : skind * option znode := match i with IValidate k s | IValidateJ k s _ _ => (k, s) end.
Definition model (i : input) : obs := let (k, s) := tree_of i in OVal (validate_structure k s).
Definition unit_eqb (a b : unit) : bool := true.
Definition obs_eqb (a b : obs) : bool := match a, b with OVal x, OVal y => res_eqb unit_eqb x y end.

(* the validity bit of the root's geff attribute: Some true = valid document, Some false = present but invalid *)
Definition geff_bit (s : option znode) : option bool :=
  match s with
  | Some (ZG a _) => match alookup "geff" a with
                     | Some (AGeff (Some _)) => Some true
                     | Some (AGeff None) => Some false
                     | _ => None
                     end
  | _ => None
  end.
(* what the stored smeta says, against the metadata object Meta.construct builds from the raw document *)
Definition names_agree (m : smeta) (mm : Meta.metadata) : bool :=
  Bool.eqb (md_directed m) (Meta.md_directed mm) &&
  list_eqb String.eqb (map fst (md_nprops m)) (map fst (Meta.md_node_props mm)) &&
  list_eqb String.eqb (map fst (md_eprops m)) (map fst (Meta.md_edge_props mm)) &&
  list_eqb Bool.eqb (map (fun kv => pm_varlength (snd kv)) (md_nprops m)) (map (fun kv => Meta.pm_varlength (snd kv)) (Meta.md_node_props mm)) &&
  list_eqb Bool.eqb (map (fun kv => pm_varlength (snd kv)) (md_eprops m)) (map (fun kv => Meta.pm_varlength (snd kv)) (Meta.md_edge_props mm)) &&
  match md_axes m, Meta.md_axes mm with
  | None, None => true
  | Some a, Some b => list_eqb String.eqb (map ax_name a) (map Meta.ax_name b)
  | _, _ => false
  end.
Definition doc_agrees (s : option znode) (gv : string) (doc : Meta.jv) : bool :=
  match s with
  | Some (ZG a _) =>
      match alookup "geff" a, Meta.construct gv doc with
      | Some (AGeff (Some m)), Ok mm => names_agree m mm
      | Some (AGeff None), Err _ => true
      | _, _ => false
      end
  | _ => false
  end.
Definition diag (c : input * obs) : list bool :=
  match fst c with
  | IValidate _ _ => [obs_eqb (model (fst c)) (snd c)]
  | IValidateJ k s gv doc => [obs_eqb (model (fst c)) (snd c); doc_agrees s gv doc]
  end.
Definition check (c : input * obs) : bool := forallb (fun b => b) (diag c).
