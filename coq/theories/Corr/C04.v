(* Corr/C04.v -- correspondence interface for validate_structure on an abstract store dump. *)
From Geff Require Export Base Dtype Vlen Tree Validate.
Open Scope list_scope.

Inductive input := IValidate (k : skind) (s : option znode).
Inductive obs := OVal (r : res unit).
Definition model (i : input) : obs := match i with IValidate k s => OVal (validate_structure k s) end.
Definition unit_eqb (a b : unit) : bool := true.
Definition obs_eqb (a b : obs) : bool := match a, b with OVal x, OVal y => res_eqb unit_eqb x y end.
Definition check (c : input * obs) : bool := obs_eqb (model (fst c)) (snd c).
Definition diag (c : input * obs) : list bool := [check c].
