(* Corr/C07.v -- correspondence interface for C07 (metadata objects and their helpers).
   A case is a sequence of operations on a pool of GeffMetadata objects, started from the
   empty pool.  After every operation the harness dumps every live object (model_dump());
   the observation of a step is the outcome (ok / exception class), the objects whose dump
   changed (index, new dump; index = old pool size means "appended"), and for
   axes_from_lists the returned Axis list. *)
From Geff Require Export Base Meta MetaAlias.
Open Scope list_scope.

Inductive input :=
| IRun (gv : string) (ops : list op)
| IRunA (gv : string) (ops : list aop).   (* the same with PropMetadata instances explicit (MetaAlias.v) *)

Definition step_obs := (res unit * list (nat * metadata) * option (list axis))%type.
Inductive obs := ORun (steps : list step_obs).

Fixpoint diff_from (i : nat) (p p' : pool) : list (nat * metadata) :=
  match p, p' with
  | x :: r, y :: s => if md_eqb x y then diff_from (S i) r s else (i, y) :: diff_from (S i) r s
  | [], y :: s => (i, y) :: diff_from (S i) [] s
  | _, [] => []
  end.

Definition returned_axes (o : op) : option (list axis) :=
  match o with
  | OAxesFromLists ls => match axes_from_lists ls with Ok l => Some l | Err _ => None end
  | _ => None
  end.

Fixpoint trace (gv : string) (p : pool) (ops : list op) : list step_obs :=
  match ops with
  | [] => []
  | o :: r => let s := step gv p o in
              (snd s, diff_from 0 p (fst s), returned_axes o) :: trace gv (fst s) r
  end.

Fixpoint atrace (gv : string) (s : astate) (ops : list aop) : list step_obs :=
  match ops with
  | [] => []
  | o :: r => let s' := astep gv s o in
              (snd s', diff_from 0 (views s) (views (fst s')), returned_axes (erase o)) :: atrace gv (fst s') r
  end.

Definition model (i : input) : obs :=
  match i with
  | IRun gv ops => ORun (trace gv [] ops)
  | IRunA gv ops => ORun (atrace gv empty_state ops)
  end.

Definition change_eqb (a b : nat * metadata) : bool := Nat.eqb (fst a) (fst b) && md_eqb (snd a) (snd b).
Definition step_obs_eqb (a b : step_obs) : bool :=
  res_eqb (fun _ _ => true) (fst (fst a)) (fst (fst b))
  && list_eqb change_eqb (snd (fst a)) (snd (fst b))
  && option_eqb (list_eqb axis_eqb) (snd a) (snd b).

Definition obs_eqb (a b : obs) : bool :=
  match a, b with ORun x, ORun y => list_eqb step_obs_eqb x y end.

(* a history in which the caller shares no instance is also compared with the pool model of Meta.v *)
Definition check (c : input * obs) : bool :=
  obs_eqb (model (fst c)) (snd c)
  && match fst c with
     | IRunA gv ops => if forallb no_sharing ops then obs_eqb (ORun (trace gv [] (map erase ops))) (snd c) else true
     | IRun _ _ => true
     end.
