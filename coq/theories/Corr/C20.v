(* Corr/C20.v -- correspondence interface for C20 (mock-data generators). *)
From Geff Require Export Base Dtype GraphVal Vlen Mock MockTree.
Open Scope list_scope.

Inductive input :=
| IDummy (p : params)                       (* create_dummy_in_mem_geff with parameters p *)
| IMock (p : params)                        (* create_mock_geff with parameters p *)
| ISimple2d (n e : Z) (d : bool) | ISimple3d (n e : Z) (d : bool) | ITemporal (n e : Z) (d : bool)
| IEmpty (d : bool)
| IDefault2d | IDefault3d | IDefaultTemporal | IDefaultEmpty   (* the wrappers called without arguments *)
| IConsts (prop_dtypes id_dtypes : list string).               (* get_args(DTypeStr), get_args(NodeIdDTypeStr) *)

Record outcome := {
  o_mem : gview;                   (* the returned in-memory geff *)
  o_store : option gview;          (* the returned store, read back (None for create_dummy_in_mem_geff) *)
  o_struct : option (res unit);    (* validate_structure(store) *)
  o_graph : res unit;              (* validate_data(in_memory, ValidationConfig(graph=True)) *)
  o_layout : option (list (string * option (dtype * list nat))) }.
                                   (* every member of the store: path, dtype and shape of an array (zarr API) *)

Inductive obs := OOut (r : res outcome) | OConsts.

Definition out_dummy (r : res geff) : res outcome :=
  match r with
  | Err e => Err e
  | Ok g => Ok {| o_mem := mem_view g; o_store := None; o_struct := None; o_graph := graph_valid (mem_view g);
                  o_layout := None |}
  end.
Definition out_mock (r : res (store * geff)) : res outcome :=
  match r with
  | Err e => Err e
  | Ok (st, g) => Ok {| o_mem := mem_view g; o_store := Some (store_view st);
                        o_struct := Some (validate_structure st); o_graph := graph_valid (mem_view g);
                        o_layout := Some (store_listing st) |}
  end.

Definition model (i : input) : obs :=
  match i with
  | IDummy p => OOut (out_dummy (dummy p))
  | IMock p => OOut (out_mock (mock p))
  | ISimple2d n e d => OOut (out_mock (simple_2d n e d))
  | ISimple3d n e d => OOut (out_mock (simple_3d n e d))
  | ITemporal n e d => OOut (out_mock (simple_temporal n e d))
  | IEmpty d => OOut (out_mock (empty_geff d))
  | IDefault2d => OOut (out_mock (simple_2d 10 15 false))
  | IDefault3d => OOut (out_mock (simple_3d 10 15 false))
  | IDefaultTemporal => OOut (out_mock (simple_temporal 10 15 false))
  | IDefaultEmpty => OOut (out_mock (empty_geff false))
  | IConsts _ _ => OConsts
  end.

(* ---- comparison (the model's side first: fields the model leaves open are not compared) ---- *)
Definition natlist_eq := list_eqb Nat.eqb.
Definition axis_eqb (a b : axis) : bool :=
  String.eqb (ax_name a) (ax_name b) && String.eqb (ax_type a) (ax_type b) && String.eqb (ax_unit a) (ax_unit b)
  && Bool.eqb (ax_bounded a) (ax_bounded b).
Definition pmeta_eqb (a b : pmeta) : bool :=
  String.eqb (pm_name a) (pm_name b) && dtype_eqb (pm_dt a) (pm_dt b) && Bool.eqb (pm_varlen a) (pm_varlen b)
  && option_eqb String.eqb (pm_unit a) (pm_unit b).
Definition vl_eqb (a b : list nat * list Z) : bool := natlist_eq (fst a) (fst b) && zlist_eqb (snd a) (snd b).
Definition pview_eqb (m o : pview) : bool :=
  String.eqb (pv_name m) (pv_name o) && dtype_eqb (pv_dt m) (pv_dt o) && Bool.eqb (pv_varlen m) (pv_varlen o)
  && Nat.eqb (pv_len m) (pv_len o) && natlist_eq (pv_tail m) (pv_tail o)
  && option_eqb boollist_eqb (pv_missing m) (pv_missing o)
  && list_eqb vl_eqb (pv_vl m) (pv_vl o)
  && match pv_ints m with None => true | Some l => option_eqb zlist_eqb (Some l) (pv_ints o) end.
Definition gview_eqb (m o : gview) : bool :=
  Bool.eqb (gv_directed m) (gv_directed o) && list_eqb axis_eqb (gv_axes m) (gv_axes o)
  && list_eqb pmeta_eqb (gv_nmeta m) (gv_nmeta o) && list_eqb pmeta_eqb (gv_emeta m) (gv_emeta o)
  && dtype_eqb (gv_iddt m) (gv_iddt o) && zlist_eqb (gv_ids m) (gv_ids o)
  && dtype_eqb (gv_edt m) (gv_edt o) && list_eqb pair_eqb (gv_edges m) (gv_edges o)
  && list_eqb pview_eqb (gv_nprops m) (gv_nprops o) && list_eqb pview_eqb (gv_eprops m) (gv_eprops o).
Definition member_eqb (a b : string * option (dtype * list nat)) : bool :=
  String.eqb (fst a) (fst b)
  && option_eqb (fun x y => dtype_eqb (fst x) (fst y) && natlist_eq (snd x) (snd y)) (snd a) (snd b).
(* the members of a store have distinct paths: equal length and inclusion is equality as sets *)
Definition layout_eqb (m o : list (string * option (dtype * list nat))) : bool :=
  Nat.eqb (length m) (length o) && forallb (fun x => existsb (member_eqb x) m) o.
Definition unit_res_eqb := res_eqb (fun (_ _ : unit) => true).
Definition outcome_eqb (m o : outcome) : bool :=
  gview_eqb (o_mem m) (o_mem o) && option_eqb gview_eqb (o_store m) (o_store o)
  && option_eqb unit_res_eqb (o_struct m) (o_struct o) && unit_res_eqb (o_graph m) (o_graph o)
  && option_eqb layout_eqb (o_layout m) (o_layout o).

Definition check (c : input * obs) : bool :=
  match fst c, snd c with
  | IConsts pd idd, OConsts => strlist_eqb pd prop_dtype_names && strlist_eqb idd id_dtype_names
  | IConsts _ _, _ => false
  | i, OOut o => match model i with OOut m => res_eqb outcome_eqb m o | OConsts => false end
  | _, OConsts => false
  end.
