(* Corr/C11.v -- correspondence interface for C11: the harness writes
   (input, observed) pairs; `check` compares the observation of the real
   implementation with the model evaluated inside Coq. *)
From Geff Require Export Base Dtype Vlen VlenCast VlenX.
Open Scope list_scope.

Inductive input :=
| ICast (a b : dtype)                               (* np.can_cast(a, b) *)
| IPromote (a b : dtype)                            (* np.promote_types(a, b) *)
| IResult (ds : list dtype)                         (* np.result_type over ds *)
| ISer (vals : list varr)                           (* serialize_vlen_property_data *)
| IDeser (rows : list (list nat)) (data : list Z)   (* deserialize_vlen_property_data *)
| ICons (l : list (option varr))                    (* construct_var_len_props *)
(* dtype-identity level (VlenX.v): byte order, string width, object dtype, `missing` *)
| IXCast (a b : xdt)                                (* np.can_cast on descriptors *)
| IXResult (ds : list xdt)                          (* np.result_type on descriptors *)
| IXSer (vals : list xvarr) (missing : option (list bool))
| IXDeser (rows : list (list nat)) (missing : option (list bool)) (ddt : xdt) (data : list Z)
| IXCons (l : list (option xvarr))
| IXPipe (l : list (option xvarr)).                 (* construct -> serialize -> deserialize *)

Inductive obs :=
| OBool (b : bool)
| ODt (o : option dtype)
| OSer (r : res (list (list nat) * list Z * dtype))
| ODeser (r : res (list (list nat * list Z)))
| OCons (r : res (list varr * option (list bool)))
| OXDt (o : option xdt)
| OXSer (r : res (list (list nat) * option (list bool) * list Z * xdt))
| OXVals (r : res (list xvarr * option (list bool))).

Definition model (i : input) : obs :=
  match i with
  | ICast a b => OBool (can_cast_safe a b)
  | IPromote a b => ODt (promote a b)
  | IResult ds => ODt (result_type ds)
  | ISer vals => OSer (match serialize vals with
                       | Ok (rows, data) => Ok (rows, data, ser_dtype vals)
                       | Err e => Err e end)
  | IDeser rows data => ODeser (deserialize rows data)
  | ICons l => OCons (construct l)
  | IXCast a b => OBool (xcan_cast a b)
  | IXResult ds => OXDt (xresult_type ds)
  | IXSer vals missing => OXSer (xserialize vals missing)
  | IXDeser rows missing ddt data => OXVals (xdeserialize rows missing ddt data)
  | IXCons l => OXVals (xconstruct l)
  | IXPipe l => OXVals (xpipeline l)
  end.

Definition varr_eqb (a b : varr) : bool :=
  dtype_eqb (v_dt a) (v_dt b) && natlist_eqb (v_shape a) (v_shape b) && zlist_eqb (v_flat a) (v_flat b).

(* short constructors for the terms the harness prints (the record syntax {| .. |} is slow to elaborate) *)
Definition mkd (b : dtype) (s : bool) (w : nat) : xdt := {| x_base := b; x_swap := s; x_width := w |}.
Definition mkx (d : xdt) (sh : list nat) (fl : list Z) : xvarr := {| xv_dt := d; xv_shape := sh; xv_flat := fl |}.

(* descriptors are compared structurally: a byte-order or width difference is a mismatch *)
Definition xvarr_eqb (a b : xvarr) : bool :=
  xdt_same (xv_dt a) (xv_dt b) && natlist_eqb (xv_shape a) (xv_shape b) && zlist_eqb (xv_flat a) (xv_flat b).
Definition xvals_eqb (p q : list xvarr * option (list bool)) : bool :=
  list_eqb xvarr_eqb (fst p) (fst q) && option_eqb boollist_eqb (snd p) (snd q).
Definition xser_eqb (p q : list (list nat) * option (list bool) * list Z * xdt) : bool :=
  list_eqb natlist_eqb (fst (fst (fst p))) (fst (fst (fst q)))
  && option_eqb boollist_eqb (snd (fst (fst p))) (snd (fst (fst q)))
  && zlist_eqb (snd (fst p)) (snd (fst q)) && xdt_same (snd p) (snd q).

Definition obs_eqb (a b : obs) : bool :=
  match a, b with
  | OBool x, OBool y => Bool.eqb x y
  | ODt x, ODt y => option_eqb dtype_eqb x y
  | OSer x, OSer y =>
      res_eqb (fun p q => list_eqb natlist_eqb (fst (fst p)) (fst (fst q))
                          && zlist_eqb (snd (fst p)) (snd (fst q)) && dtype_eqb (snd p) (snd q)) x y
  | ODeser x, ODeser y =>
      res_eqb (list_eqb (prod_eqb natlist_eqb zlist_eqb)) x y
  | OCons x, OCons y =>
      res_eqb (prod_eqb (list_eqb varr_eqb) (option_eqb boollist_eqb)) x y
  | OXDt x, OXDt y => option_eqb xdt_same x y
  | OXSer x, OXSer y => res_eqb xser_eqb x y
  | OXVals x, OXVals y => res_eqb xvals_eqb x y
  | _, _ => false
  end.

Definition check (c : input * obs) : bool := obs_eqb (model (fst c)) (snd c).
