(* Corr/C15.v -- correspondence interface for C15: from_ctc_to_geff on a (possibly occupied) target,
   observed through its exception class or, on success, read_to_memory of the result plus the
   recorded tracklet property / related object / shape of the exported label volume. *)
From Geff Require Export Base Dtype Vlen Tree Validate Write Read GraphVal Ctc.
From Geff Require CtcDecide.
Open Scope list_scope.

(* IConvW: the same call with the verdict of the harness predicate consistent() (the gate of the oracle) on the dataset;
   `check` compares it with CtcDecide.consistentb (proved equivalent to the premise `consistent` of the C15 theorems). *)
Inductive input :=
| IConv (d : ctc) (pre : option znode)
| IConvW (intent : bool) (d : ctc) (pre : option znode).
Inductive obs :=
| OErr (e : exn)
| OOk (back : res mgraph) (x : cextra).

Definition model (i : input) : obs :=
  match i with
  | IConv d pre | IConvW _ d pre =>
      let (post, r) := run (from_ctc_to_geff d) pre in
      match r with
      | Err e => OErr e
      | Ok _ => OOk (read_to_memory KPath post true None None) (extra_of d)
      end
  end.

Definition ostr_eqb := option_eqb String.eqb.
Definition rel_eqb (a b : string * list string * option string) : bool :=
  String.eqb (fst (fst a)) (fst (fst b)) && strlist_eqb (snd (fst a)) (snd (fst b)) && ostr_eqb (snd a) (snd b).
Definition cextra_eqb (a b : cextra) : bool :=
  ostr_eqb (x_tracklet a) (x_tracklet b) && list_eqb rel_eqb (x_related a) (x_related b)
  && option_eqb natlist_eqb (x_seg_shape a) (x_seg_shape b).

Definition obs_eqb (a b : obs) : bool :=
  match a, b with
  | OErr e, OErr f => exn_eqb e f
  | OOk b1 x1, OOk b2 x2 => res_eqb mgraph_eqb b1 b2 && cextra_eqb x1 x2
  | _, _ => false
  end.
Definition intent_ok (i : input) : bool :=
  match i with
  | IConvW b d _ => Bool.eqb (CtcDecide.consistentb d) b
  | _ => true
  end.
Definition check (c : input * obs) : bool := obs_eqb (model (fst c)) (snd c) && intent_ok (fst c).
