(* Corr/C13.v -- correspondence interface for C13 (validate_tracklets). *)
From Geff Require Export Base GraphVal Reach Tracks TracksCyc.
Open Scope list_scope.

Inductive input := ITracklets (E : list (Z * Z)) (NL : nlabels)
  (* any digraph (cycles, self loops): the model with the cycle test and the messages (TracksCyc.v) *)
  | ITrackletsAll (E : list (Z * Z)) (NL : nlabels)
  (* acyclic digraph: both models *)
  | ITrackletsDag (E : list (Z * Z)) (NL : nlabels).
Inductive obs := OInvalid (ids : list Z)       (* tracklet ids named in the error messages, in order *)
  (* verdict and the messages in order: (tracklet id, which check failed, node named by the message) *)
  | OMsgs (valid : bool) (msgs : list (Z * reason))
  | ORaises.

Definition model (i : input) : obs :=
  match i with ITracklets E NL => OInvalid (invalid_tracklets E NL)
  | ITrackletsAll E NL | ITrackletsDag E NL =>
      match validate_tracklets E NL with Ok (b, l) => OMsgs b l | Err _ => ORaises end
  end.
Definition obs_eqb (a b : obs) : bool :=
  match a, b with OInvalid x, OInvalid y => zlist_eqb x y
  | OMsgs v x, OMsgs w y => Bool.eqb v w && list_eqb (prod_eqb Z.eqb reason_eqb) x y
  (* a = the model, b = the observation: messages whose reason the harness cannot classify (the wording changed) are sent as the ids
     they name, in order; the property asks that a rejection NAMES the tracklet, not for a wording *)
  | OMsgs v x, OInvalid y => negb v && zlist_eqb (map fst x) y
  | ORaises, ORaises => true
  | _, _ => false
  end.
Definition check (c : input * obs) : bool :=
  obs_eqb (model (fst c)) (snd c)
  && match c with
     | (ITrackletsDag E NL, OMsgs _ l) => zlist_eqb (invalid_tracklets E NL) (map fst l)   (* the model without the cycle test *)
     | _ => true
     end.
