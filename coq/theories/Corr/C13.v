(* Corr/C13.v -- correspondence interface for C13 (validate_tracklets). *)
From Geff Require Export Base GraphVal Reach Tracks.
(* the model WITH the code's cycle test (TracksCyc.v; equal to Tracks.invalid_tracklets on every graph without closed walks,
   TracksCyc.invalid_tracklets_c_acyclic): the repository's own tests call the validator on a cyclic tracklet *)
From Geff Require Export TracksCyc.
Open Scope list_scope.

Inductive input := ITracklets (E : list (Z * Z)) (NL : nlabels).
Inductive obs := OInvalid (ids : list Z).       (* tracklet ids named in the error messages, in order *)

Definition model (i : input) : obs :=
  match i with ITracklets E NL => OInvalid (invalid_tracklets_c E NL) end.
Definition obs_eqb (a b : obs) : bool :=
  match a, b with OInvalid x, OInvalid y => zlist_eqb x y end.
Definition check (c : input * obs) : bool := obs_eqb (model (fst c)) (snd c).
