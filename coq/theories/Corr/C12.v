(* Corr/C12.v -- correspondence interface for C12 (graph / sphere / ellipsoid validators). *)
From Geff Require Export Base GraphVal.
From Geff Require Export DataVal.   (* the five-flag model of validate_data (IData5) *)
Open Scope list_scope.

Inductive input :=
| IUnique (ids : list Z)
| INodesForEdges (ids : list Z) (edges : list edge)
| ISelf (edges : list edge)
| IRepeated (edges : list edge)
| IData (cfg : vconfig) (d : vdata)
(* the whole of validate_data: five flags, masks, lookups (DataVal.v) *)
| IData5 (cfg5 : vconfig5) (d5 : vdata5).

Inductive obs :=
| OZs (ok : bool) (bad : list Z)
| OEs (ok : bool) (bad : list edge)
| ORes (r : res unit)
(* outcome of validate_data AND which raise statement fired (message prefix), so that the order of the checks is tied *)
| OData5 (r : res unit) (f : option fault).

Definition model (i : input) : obs :=
  match i with
  | IUnique ids => let r := validate_unique_node_ids ids in OZs (fst r) (snd r)
  | INodesForEdges ids edges => let r := validate_nodes_for_edges ids edges in OEs (fst r) (snd r)
  | ISelf edges => let r := validate_no_self_edges edges in OZs (fst r) (snd r)
  | IRepeated edges => let r := validate_no_repeated_edges edges in OEs (fst r) (snd r)
  | IData cfg d => ORes (validate_data cfg d)
  | IData5 cfg d => OData5 (validate_data5 cfg d) (data_fault cfg d)
  end.

Definition obs_eqb (a b : obs) : bool :=
  match a, b with
  | OZs x l, OZs y m => Bool.eqb x y && zlist_eqb l m
  | OEs x l, OEs y m => Bool.eqb x y && list_eqb pair_eqb l m
  | ORes x, ORes y => res_eqb (fun _ _ => true) x y
  (* a = the model, b = the observation; the raise statement that fired is read off the message: when the harness cannot classify the
     message (wording changed) it sends None with an Err, and only the outcome class is compared *)
  | OData5 x f, OData5 y g => res_eqb (fun _ _ => true) x y && match y, g with Err _, None => true | _, _ => option_eqb fault_eqb f g end
  | _, _ => false
  end.

Definition check (c : input * obs) : bool := obs_eqb (model (fst c)) (snd c).
