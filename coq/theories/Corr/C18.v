(* Corr/C18.v -- correspondence interface for the read side: for a store state and a read-side entry point, the
   exception class the entry point ends with and whether the store (keys and bytes) is unchanged afterwards;
   plus the effect of zarr's open modes themselves (calibration of Effects.open_eff). *)
From Geff Require Export Base Dtype Vlen Tree Validate Write Read Effects.
Open Scope list_scope.

Inductive rentry := EValidate | EMetaRead | EReader (validate : bool) | EReadToMemory (validate : bool).
Inductive input :=
  | IRead (e : rentry) (k : skind) (s : option znode)
  | IOpen (mode : string) (k : skind) (s : option znode).
Inductive obs :=
  | ORead (r : res unit) (unchanged : bool)
  | OOpen (r : res unit) (post : option znode).

Definition forget {A} (r : res A) : res unit := match r with Ok _ => Ok tt | Err e => Err e end.
Definition run_entry (e : rentry) (k : skind) (s : option znode) : st * res unit :=
  match e with
  | EValidate => let (s', r) := validate_m k (init s) in (s', forget r)
  | EMetaRead => let (s', r) := metadata_read_m k (init s) in (s', forget r)
  | EReader v => let (s', r) := reader_m k v None None None None (init s) in (s', forget r)
  | EReadToMemory v => let (s', r) := read_to_memory_m k v (init s) in (s', forget r)
  end.

Definition unit_eqb (a b : unit) : bool := true.
Definition state_unchanged (s : option znode) (s' : st) : bool :=
  otree_eqb (s_root s') s && match s_trace s' with [] => true | _ => false end.

Definition check (c : input * obs) : bool :=
  match c with
  | (IRead e k s, ORead r unchanged) =>
      let (s', r') := run_entry e k s in res_eqb unit_eqb r' r && Bool.eqb (state_unchanged s s') unchanged
  | (IOpen mode k s, OOpen r post) =>
      match parse_mode mode with
      | Some m => let (s', r') := open_eff k m (init s) in res_eqb unit_eqb r' r && otree_eqb (s_root s') post
      | None => false
      end
  | _ => false
  end.
Definition model (i : input) : st * res unit :=
  match i with
  | IRead e k s => run_entry e k s
  | IOpen mode k s => match parse_mode mode with Some m => open_eff k m (init s) | None => (init s, Err OtherExn) end
  end.
Definition diag (c : input * obs) : list bool := [check c].
