(* Corr/C14.v -- correspondence interface for C14 (validate_lineages). *)
From Geff Require Export Base GraphVal Reach Tracks.
Open Scope list_scope.

Inductive input := ILineages (E : list (Z * Z)) (NL : nlabels).
Inductive obs := OInvalid (ids : list Z).

Definition model (i : input) : obs :=
  match i with ILineages E NL => OInvalid (invalid_lineages E NL) end.
Definition obs_eqb (a b : obs) : bool :=
  match a, b with OInvalid x, OInvalid y => zlist_eqb x y end.
Definition check (c : input * obs) : bool := obs_eqb (model (fst c)) (snd c).
