(* Corr/C08.v -- correspondence interface for C08 (serialisation of metadata, schema verdicts).
   IDump    m           model_dump(mode="json")                              -> the dumped document
   ICli     m           `geff info` on a store holding m, output parsed      -> the printed document
   IText    gv m        json.loads(model_dump_json()), model_validate_json   -> document, parse outcome
   IParse   gv d        model_validate(d)                                    -> parse outcome
   IAttrs   gv st m     GeffMetadata.write on a group with prior attributes  -> all attributes afterwards, GeffMetadata.read
   IRead    gv st       GeffMetadata.read on an arbitrary group state        -> outcome
   IVerdict d           jsonschema (reference validator) on the document     -> verdict under geff-schema.json and under
                                                                               the freshly exported schema
   Documents and objects are compared up to member order (python dict equality). *)
From Geff Require Export Base Meta Json Schema MetaJson.
From Geff.Gen Require Export Schema.
Open Scope list_scope.

Inductive input :=
| IDump (m : metadata)
| ICli (m : metadata)
| IText (gv : string) (m : metadata)
| IParse (gv : string) (d : jv)
| IAttrs (gv : string) (st : gstate) (m : metadata)
| IRead (gv : string) (st : gstate)
| IVerdict (d : jv).

Inductive obs :=
| OJson (j : jv)
| OText (j : jv) (r : res metadata)
| OParse (r : res metadata)
| OAttrs (after : jv) (r : res metadata)
| OVerdict (published exported : bool).

Definition model (i : input) : obs :=
  match i with
  | IDump m => OJson (to_json m)
  | ICli m => OJson (to_json_text m)
  | IText gv m => OText (to_json_text m) (of_json gv (to_json_text m))
  | IParse gv d => OParse (of_json gv d)
  | IAttrs gv st m =>
      let st' := md_write m st in
      OAttrs (JObj (match st' with Some a => a | None => [] end)) (md_read gv st')
  | IRead gv st => OParse (md_read gv st)
  | IVerdict d => OVerdict (validates schema_published d) (validates schema_exported d)
  end.

(* an object as a document that keeps every field (free-form values unconverted) *)
Definition md_repr (m : metadata) : jv :=
  JObj [("typed", to_json (mkMD (md_version m) (md_directed m) (md_axes m) (md_node_props m) (md_edge_props m)
                                (md_sphere m) (md_ellipsoid m) (md_track m) (md_related m) (md_hints m) []));
        ("extra", JObj (md_extra m))].

Definition md_sim (a b : metadata) : bool := jsim (md_repr a) (md_repr b).

Definition obs_eqb (a b : obs) : bool :=
  match a, b with
  | OJson x, OJson y => jsim x y
  | OText x r, OText y s => jsim x y && res_eqb md_sim r s
  | OParse r, OParse s => res_eqb md_sim r s
  | OAttrs x r, OAttrs y s => jsim x y && res_eqb md_sim r s
  | OVerdict p e, OVerdict q f => Bool.eqb p q && Bool.eqb e f
  | _, _ => false
  end.

Definition check (c : input * obs) : bool := obs_eqb (model (fst c)) (snd c).
