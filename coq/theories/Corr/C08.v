(* Corr/C08.v -- correspondence interface for C08 (serialisation of metadata, schema verdicts).
   IDump    m           model_dump(mode="json")                              -> the dumped document
   ICli     m           `geff info` on a store holding m, output parsed      -> the printed document
   IText    gv m        json.loads(model_dump_json()), model_validate_json   -> document, parse outcome
   IParse   gv d        model_validate(d)                                    -> parse outcome
   IAttrs   gv st m     GeffMetadata.write on a group with prior attributes  -> all attributes afterwards, GeffMetadata.read
   IRead    gv st       GeffMetadata.read on an arbitrary group state        -> outcome
   IVerdict d           jsonschema (reference validator) on the document     -> verdict under geff-schema.json and under
                                                                               the freshly exported schema
   Documents and objects are compared up to member order (python dict equality). *)
(* the key-level store first: the metadata model's names (md_version, axis, ...) must win over Tree.v's; the key-name
   abbreviations last: they must win over the schema fragments of MetaJson.v (s_unit, s_type) *)
From Geff Require Export Dtype Vlen Tree KeyStore.
From Geff Require Export Base Meta Json Schema MetaJson.
From Geff Require Export KeyNames MetaKeys.
From Geff.Gen Require Export Schema.
Open Scope list_scope.

Inductive input :=
| IDump (m : metadata)
| ICli (m : metadata)
| IText (gv : string) (m : metadata)
| IParse (gv : string) (d : jv)
| IAttrs (gv : string) (st : gstate) (m : metadata)
| IRead (gv : string) (st : gstate)
| IVerdict (d : jv)
| IAttrsK (gv : string) (ks : kstore) (m : metadata).   (* GeffMetadata.write / read on the raw KEYS of the store (MetaKeys.v) *)

Inductive obs :=
| OJson (j : jv)
| OText (j : jv) (r : res metadata)
| OParse (r : res metadata)
| OAttrs (after : jv) (r : res metadata)
| OVerdict (published exported : bool)
| OAttrsK (after : kstore) (r : res metadata).   (* every key of the store afterwards (.zmetadata left out), GeffMetadata.read *)

Definition model (i : input) : obs :=
  match i with
  | IDump m => OJson (to_json m)
  | ICli m => OJson (to_json_text m)
  | IText gv m => OText (to_json_text m) (of_json gv (to_json_text m))
  | IParse gv d => OParse (of_json gv d)
  | IAttrs gv st m =>
      let st' := md_write m st in
      OAttrs (JObj (match st' with Some a => a | None => [] end)) (md_read gv st')
  | IRead gv st => OParse (md_read gv st)
  | IVerdict d => OVerdict (validates schema_published d) (validates schema_exported d)
  | IAttrsK gv ks m =>
      match md_write_k m ks with
      | Ok ks' => OAttrsK ks' (md_read_k gv ks')
      | Err e => OAttrsK [] (Err e)
      end
  end.

(* two key stores as maps: same keys, documents equal up to member order, chunks equal *)
Definition kval_sim (a b : kval) : bool :=
  match a, b with
  | KDoc x, KDoc y => jsim x y
  | KChunk x, KChunk y => zlist_eqb x y
  | _, _ => false
  end.
Definition kstore_sub (a b : kstore) : bool :=
  forallb (fun kv => match klookup (fst kv) b with Some v => kval_sim (snd kv) v | None => false end) a.
Definition kstore_sim (a b : kstore) : bool := kstore_sub a b && kstore_sub b a.

(* an object as a document that keeps every field (free-form values unconverted) *)
Definition md_repr (m : metadata) : jv :=
  JObj [("typed", to_json (mkMD (md_version m) (md_directed m) (md_axes m) (md_node_props m) (md_edge_props m)
                                (md_sphere m) (md_ellipsoid m) (md_track m) (md_related m) (md_hints m) []));
        ("extra", JObj (md_extra m))].

Definition md_sim (a b : metadata) : bool := jsim (md_repr a) (md_repr b).

Definition obs_eqb (a b : obs) : bool :=
  match a, b with
  | OJson x, OJson y => jsim x y
  | OText x r, OText y s => jsim x y && res_eqb md_sim r s
  | OParse r, OParse s => res_eqb md_sim r s
  | OAttrs x r, OAttrs y s => jsim x y && res_eqb md_sim r s
  | OVerdict p e, OVerdict q f => Bool.eqb p q && Bool.eqb e f
  | OAttrsK x r, OAttrsK y s => kstore_sim x y && res_eqb md_sim r s
  | _, _ => false
  end.

Definition check (c : input * obs) : bool := obs_eqb (model (fst c)) (snd c).
