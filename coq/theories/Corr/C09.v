(* Corr/C09.v -- correspondence interface for GeffReader(...).read_*_props(names).build(node_mask, edge_mask). *)
From Geff Require Export Base Dtype Vlen Tree Validate Write Read.
Open Scope list_scope.

Inductive input := IBuild (s : option znode) (validate : bool) (nn en : option (list string)) (nmask emask : option (list bool)).
Inductive obs := OBuild (r : res mgraph).
Definition model (i : input) : obs :=
  match i with
  | IBuild s v nn en nm em =>
      OBuild (match reader_init KObj s v with Ok rd => build rd nn en nm em | Err e => Err e end)
  end.
Definition obs_eqb (a b : obs) : bool := match a, b with OBuild x, OBuild y => res_eqb mgraph_eqb x y end.
Definition check (c : input * obs) : bool := obs_eqb (model (fst c)) (snd c).
Definition diag (c : input * obs) : list bool := [check c].
