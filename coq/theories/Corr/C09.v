(* Corr/C09.v -- correspondence interface for GeffReader(...).read_*_props(names).build(node_mask, edge_mask). *)
From Geff Require Export Base Dtype Vlen Tree Validate Write Read.
From Geff Require Export ReaderSM.
Open Scope list_scope.

Inductive input := IBuild (s : option znode) (validate : bool) (nn en : option (list string)) (nmask emask : option (list bool))
  (* one GeffReader, a sequence of method calls; ln/le = node_prop_names / edge_prop_names as the store listed them *)
  | ISeq (s : option znode) (validate : bool) (ln le : list string) (ops : list op).
Inductive obs := OBuild (r : res mgraph)
  (* outcome of __init__, then after every call: keys of node_props / edge_props / the reader's metadata tables, and the outcome *)
  | OSeq (init : res unit) (steps : list sobs).
Definition model (i : input) : obs :=
  match i with
  | IBuild s v nn en nm em =>
      OBuild (match reader_init KObj s v with Ok rd => build rd nn en nm em | Err e => Err e end)
  | ISeq s v ln le ops =>
      match reader_init_listed KObj s v ln le with
      | Ok rd => OSeq (Ok tt) (trace (sm_init rd) ops)
      | Err e => OSeq (Err e) []
      end
  end.
(* built graphs are compared with the ORDER of their property dictionaries and metadata tables *)
Definition mgraph_eqb_ord (a b : mgraph) : bool :=
  mgraph_eqb a b && strlist_eqb (akeys (g_nprops a)) (akeys (g_nprops b)) && strlist_eqb (akeys (g_eprops a)) (akeys (g_eprops b))
  && strlist_eqb (akeys (md_nprops (g_md a))) (akeys (md_nprops (g_md b)))
  && strlist_eqb (akeys (md_eprops (g_md a))) (akeys (md_eprops (g_md b))).
Definition sobs_eqb (a b : sobs) : bool :=
  strlist_eqb (so_nkeys a) (so_nkeys b) && strlist_eqb (so_ekeys a) (so_ekeys b)
  && strlist_eqb (so_mdn a) (so_mdn b) && strlist_eqb (so_mde a) (so_mde b)
  && res_eqb (option_eqb mgraph_eqb_ord) (so_res a) (so_res b).
Definition obs_eqb (a b : obs) : bool :=
  match a, b with
  | OBuild x, OBuild y => res_eqb mgraph_eqb x y
  | OSeq i x, OSeq j y => res_eqb (fun _ _ => true) i j && list_eqb sobs_eqb x y
  | _, _ => false
  end.
Definition check (c : input * obs) : bool := obs_eqb (model (fst c)) (snd c).
Definition diag (c : input * obs) : list bool := [check c].
