(* Corr/C02.v -- correspondence interface for C02: a store (library-written or independently written),
   the graph its writer intended, and what the library makes of it (validation verdict, read result). *)
From Geff Require Export Base Dtype Vlen Tree Validate Write Read SpecDecode.
Open Scope list_scope.

Inductive input := IStore (root : znode) (intended : option sgraph).
Inductive obs := OStore (valid : bool) (libread : res mgraph).

Definition osg_eqb (a : option sgraph) (b : sgraph) : bool :=
  match a with Some x => sgraph_eqb x b | None => false end.

(* [validator model = library verdict; reader model = library read; spec decoding = library read; spec decoding = intended] *)
Definition diag (c : input * obs) : list bool :=
  match c with
  | (IStore root intended, OStore valid libread) =>
      [ Bool.eqb (is_ok (validate_structure KObj (Some root))) valid;
        res_eqb mgraph_eqb (read_to_memory KObj (Some root) true None None) libread;
        match libread with Ok g => osg_eqb (spec_decode root) (of_mgraph g) | Err _ => true end;
        match intended with Some ex => osg_eqb (spec_decode root) ex | None => true end ]
  end.
Definition check (c : input * obs) : bool := forallb (fun b => b) (diag c).
Definition model (i : input) : option sgraph := match i with IStore root _ => spec_decode root end.
