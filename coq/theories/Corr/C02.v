(* Corr/C02.v -- correspondence interface for C02: a store (library-written or independently written),
   the graph its writer intended, and what the library makes of it (validation verdict, read result). *)
From Geff Require Export Base Dtype Vlen Tree Validate Write Read SpecDecode SpecRange.
From Geff Require Export KeyStore KeyTie KeyNames.
From Geff Require Meta.
Open Scope list_scope.

(* IStoreK: IStore plus the RAW KEYS of the same store (KeyStore.v): zarr format, key -> document / decoded chunk, and the library's
   GEFF_VERSION when the root's geff document is inside the encoding of the metadata model (KeyTie.v says what is compared).
   IKeysNeg: a negative control -- a store laid out with a WRONG key by the independent writer: the raw keys must still be the
   hierarchy the zarr API shows, and the key-level reading of the specification must REJECT it. *)
Inductive input := IStore (root : znode) (intended : option sgraph)
                 | IStoreK (root : znode) (intended : option sgraph) (f : fmt) (raw : kstore) (gv : option string)
                 | IKeysNeg (root : znode) (intended : sgraph) (f : fmt) (raw : kstore) (gv : option string).
Inductive obs := OStore (valid : bool) (libread : res mgraph).

Definition osg_eqb (a : option sgraph) (b : sgraph) : bool :=
  match a with Some x => sgraph_eqb x b | None => false end.

(* [validator model = library verdict; reader model = library read; spec decoding = library read; spec decoding = intended] *)
(* the key-level checks: [raw keys = the hierarchy of the API dump; the raw keys hold the intended graph as the specification lays it
   out; the dumped hierarchy is well-formed in the sense of the round-trip theorem (C02_keys_roundtrip_tree)] *)
Definition diag_keys (root : znode) (intended : option sgraph) (f : fmt) (raw : kstore) (gv : option string) : list bool :=
  [ tie f raw gv (Some root);
    match intended with Some ex => spec_keys_ok f raw gv ex | None => true end;
    wf_tree root ].
(* C02_converse_total on the REAL reader: a store the library's structural validation accepts is read by the library iff its
   offset rows point inside their data arrays (SpecRange.offsets_in_range_b, the decidable form of the theorem's premise) *)
Definition read_iff_in_range (root : znode) (valid : bool) (libread : res mgraph) : bool :=
  if valid then Bool.eqb (is_ok libread) (offsets_in_range_b root) else true.
Definition diag (c : input * obs) : list bool :=
  match c with
  | (IStore root intended, OStore valid libread) =>
      [ Bool.eqb (is_ok (validate_structure KObj (Some root))) valid;
        res_eqb mgraph_eqb (read_to_memory KObj (Some root) true None None) libread;
        match libread with Ok g => osg_eqb (spec_decode root) (of_mgraph g) | Err _ => true end;
        match intended with Some ex => osg_eqb (spec_decode root) ex | None => true end;
        read_iff_in_range root valid libread ]
  | (IStoreK root intended f raw gv, OStore valid libread) =>
      [ Bool.eqb (is_ok (validate_structure KObj (Some root))) valid;
        res_eqb mgraph_eqb (read_to_memory KObj (Some root) true None None) libread;
        match libread with Ok g => osg_eqb (spec_decode root) (of_mgraph g) | Err _ => true end;
        match intended with Some ex => osg_eqb (spec_decode root) ex | None => true end;
        read_iff_in_range root valid libread ]
      ++ diag_keys root intended f raw gv
  | (IKeysNeg root intended f raw gv, OStore valid libread) =>
      [ Bool.eqb (is_ok (validate_structure KObj (Some root))) valid;
        res_eqb mgraph_eqb (read_to_memory KObj (Some root) true None None) libread;
        tie f raw gv (Some root);
        negb (spec_keys_ok f raw gv intended) ]
  end.
Definition check (c : input * obs) : bool := forallb (fun b => b) (diag c).
Definition model (i : input) : option sgraph :=
  match i with IStore root _ | IStoreK root _ _ _ _ | IKeysNeg root _ _ _ _ => spec_decode root end.
