(* Corr/C01.v -- correspondence interface for the write path + full read:
   write_arrays on a pre-state, the surviving tree, and read_to_memory of it. *)
From Geff Require Export Base Dtype Vlen Tree Validate Write Read.
Open Scope list_scope.

Inductive input :=
  IWrite (k : skind) (pre : option znode) (g : wgraph) (md : smeta) (validate overwrite : bool).
Inductive obs :=
  OWrite (r : res unit) (post : option znode) (back : res mgraph).

Definition model (i : input) : obs :=
  match i with
  | IWrite k pre g md v o =>
      let (post, r) := run (write_arrays k g md v o) pre in
      OWrite r post (read_to_memory k post true None None)
  end.

Definition unit_eqb (a b : unit) : bool := true.
Definition obs_eqb (a b : obs) : bool :=
  match a, b with
  | OWrite r1 p1 b1, OWrite r2 p2 b2 =>
      res_eqb unit_eqb r1 r2 && otree_eqb p1 p2 && res_eqb mgraph_eqb b1 b2
  end.
Definition check (c : input * obs) : bool := obs_eqb (model (fst c)) (snd c).

(* which component differs (debugging aid of the harness): result class, surviving tree, read-back *)
Definition diag (c : input * obs) : list bool :=
  match model (fst c), snd c with
  | OWrite r1 p1 b1, OWrite r2 p2 b2 => [res_eqb unit_eqb r1 r2; otree_eqb p1 p2; res_eqb mgraph_eqb b1 b2]
  end.
