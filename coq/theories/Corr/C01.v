(* Corr/C01.v -- correspondence interface for the write path + full read:
   write_arrays on a pre-state, the surviving tree, and read_to_memory of it. *)
From Geff Require Export Base Dtype Vlen Tree Validate Write Read.
From Geff Require Export KeyStore KeyTie KeyNames.
Open Scope list_scope.

(* IWriteK: IWrite plus the RAW KEYS of the store after the write (KeyStore.v; KeyTie.v says what is compared): the surviving tree
   that the harness dumps through the zarr API must be the hierarchy those keys hold *)
Inductive input :=
  IWrite (k : skind) (pre : option znode) (g : wgraph) (md : smeta) (validate overwrite : bool)
| IWriteK (k : skind) (pre : option znode) (g : wgraph) (md : smeta) (validate overwrite : bool)
          (f : fmt) (raw : kstore) (gv : option string).
Inductive obs :=
  OWrite (r : res unit) (post : option znode) (back : res mgraph).

Definition model (i : input) : obs :=
  match i with
  | IWrite k pre g md v o | IWriteK k pre g md v o _ _ _ =>
      let (post, r) := run (write_arrays k g md v o) pre in
      OWrite r post (read_to_memory k post true None None)
  end.

Definition unit_eqb (a b : unit) : bool := true.
Definition obs_eqb (a b : obs) : bool :=
  match a, b with
  | OWrite r1 p1 b1, OWrite r2 p2 b2 =>
      res_eqb unit_eqb r1 r2 && otree_eqb p1 p2 && res_eqb mgraph_eqb b1 b2
  end.
Definition key_tie (c : input * obs) : bool :=
  match c with
  | (IWriteK _ _ _ _ _ _ f raw gv, OWrite _ post _) => tie f raw gv post
  | _ => true
  end.
Definition check (c : input * obs) : bool := obs_eqb (model (fst c)) (snd c) && key_tie c.

(* which component differs (debugging aid of the harness): result class, surviving tree, read-back *)
Definition diag (c : input * obs) : list bool :=
  match model (fst c), snd c with
  | OWrite r1 p1 b1, OWrite r2 p2 b2 => [res_eqb unit_eqb r1 r2; otree_eqb p1 p2; res_eqb mgraph_eqb b1 b2; key_tie c]
  end.
