(* Corr/C05.v -- correspondence interface for crash points of write_arrays:
   the fault-free run (result, final tree) and, for every store mutation k at which storage was made to fail,
   the abstract dump of the surviving store (None = torn beyond the abstraction) and whether the library
   recognises it (validate_structure and read_to_memory both succeed). *)
From Geff Require Export Base Dtype Vlen Tree Validate Write Read.
From Geff Require Export Dicts.
From Geff Require Backends.
Open Scope list_scope.

(* IApiCrash: the same through geff.write (graph-library writer): api_write = the wrapper's guard, then write_arrays(overwrite=False)
   on the arrays the backend built (captured by the harness) *)
Inductive input :=
  ICrash (k : skind) (pre : option znode) (g : wgraph) (md : smeta) (validate overwrite : bool)
| IApiCrash (k : skind) (pre : option znode) (g : wgraph) (md : smeta) (validate overwrite : bool)
(* IDictsCrash: write_dicts itself, on the node / edge DICTIONARIES (Dicts.write_dicts: dict_props_to_arr, then write_arrays with its
   default overwrite=False); INxCrash: geff.write(networkx graph, overwrite=...) on the dictionaries networkx reports, through
   NxBackend.write behind the wrapper's guard -- no captured arrays.  nn / en: the property names in the order of the Python set
   NxBackend.write builds (the order in which the properties are written shows in the crash states); names_ok checks that they are a
   reordering of the names Backends.nx_write collects (Dicts.keys_of) *)
| IDictsCrash (k : skind) (pre : option znode) (g : dgraph) (nn en : list string) (md : smeta)
| INxCrash (k : skind) (pre : option znode) (directed : bool) (g : dgraph) (nn en : list string) (axes : option (list string))
           (mdtok axtok : Z) (overwrite : bool).
Inductive obs :=
  OCrash (r : res unit) (final : option znode) (survivors : list (option (option znode) * bool)).

Definition unit_eqb (a b : unit) : bool := true.
Definition same_state (d : option (option znode)) (st : option znode) : bool :=
  match d with Some t => otree_eqb t st | None => false end.

(* [result class; final tree; every recognised survivor is the new or the previous graph;
    every state of the model's trace is a state the real store passed through] *)
Definition run_input (i : input) : st * res unit :=
  match i with
  | ICrash k pre g md v ov => write_arrays k g md v ov (init pre)
  | IApiCrash k pre g md v ov => api_write k g md v ov (init pre)
  | IDictsCrash k pre g nn en md => write_dicts k g nn en md (init pre)
  | INxCrash k pre d g nn en axes mdtok axtok ov =>
      (do exists_ <- check_for_geff k;
       (if exists_ then (if ov then delete_geff k else fail FileExistsError) else ret tt) ;;
       bind (lift (Backends.fresh_md d axes mdtok axtok)) (fun md => write_dicts k g nn en md)) (init pre)
  end.
Definition pre_of (i : input) : option znode :=
  match i with
  | ICrash _ pre _ _ _ _ | IApiCrash _ pre _ _ _ _ | IDictsCrash _ pre _ _ _ _ | INxCrash _ pre _ _ _ _ _ _ _ _ => pre
  end.
(* same names, each once *)
Definition same_names (a b : list string) : bool :=
  Nat.eqb (length a) (length b) && forallb (fun x => existsb (String.eqb x) b) a && forallb (fun x => existsb (String.eqb x) a) b
  && Nat.eqb (length (dedup a)) (length a).
Definition names_ok (i : input) : bool :=
  match i with
  | INxCrash _ _ _ g nn en _ _ _ _ => same_names nn (keys_of (map snd (d_nodes g))) && same_names en (keys_of (map snd (d_edges g)))
  | _ => true
  end.
Definition diag (c : input * obs) : list bool :=
  match c with
  | (i, OCrash r final survivors) =>
      let pre := pre_of i in
      let (s', r') := run_input i in
      [ res_eqb unit_eqb r' r;
        otree_eqb (s_root s') final;
        forallb (fun dr => negb (snd dr) || same_state (fst dr) (s_root s') || same_state (fst dr) pre) survivors;
        forallb (fun st => existsb (fun dr => same_state (fst dr) st) survivors || otree_eqb st final) (s_trace s');
        names_ok i ]
  end.
Definition check (c : input * obs) : bool := forallb (fun b => b) (diag c).
Definition model (i : input) : list (option znode) := s_trace (fst (run_input i)).
