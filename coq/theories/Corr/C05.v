(* Corr/C05.v -- correspondence interface for crash points of write_arrays:
   the fault-free run (result, final tree) and, for every store mutation k at which storage was made to fail,
   the abstract dump of the surviving store (None = torn beyond the abstraction) and whether the library
   recognises it (validate_structure and read_to_memory both succeed). *)
From Geff Require Export Base Dtype Vlen Tree Validate Write Read.
From Geff Require Export Dicts.
From Geff Require Backends.
Open Scope list_scope.
(* IEntryCrash: one call of any writing entry point (Entry.ecall: converters, write_dicts, backend writers, ...) *)
From Geff Require Export GraphVal Ctc TrackMate Entry.
Open Scope m_scope.

(* IApiCrash: the same through geff.write (graph-library writer): api_write = the wrapper's guard, then write_arrays(overwrite=False)
   on the arrays the backend built (captured by the harness) *)
Inductive input :=
  ICrash (k : skind) (pre : option znode) (g : wgraph) (md : smeta) (validate overwrite : bool)
| IApiCrash (k : skind) (pre : option znode) (g : wgraph) (md : smeta) (validate overwrite : bool)
| IEntryCrash (pre : option znode) (c : ecall)
(* two views of one call: the TrackMate converter hands its property columns to the writer in the iteration order of a Python set
   (NxBackend.write: list({k for ...})), which the converter model `c` does not have.  `c` is checked on result, final tree and
   survivors; the trace obligation is checked on `c'` = geff.write of the arrays in the order in which they were actually handed
   over (EApi on the captured arguments; e_run_two_guards: both are guarded_write) *)
| IEntryCrash2 (pre : option znode) (c c' : ecall)
(* IDictsCrash: write_dicts itself, on the node / edge DICTIONARIES (Dicts.write_dicts: dict_props_to_arr, then write_arrays with its
   default overwrite=False); INxCrash: geff.write(networkx graph, overwrite=...) on the dictionaries networkx reports, through
   NxBackend.write behind the wrapper's guard -- no captured arrays.  nn / en: the property names in the order of the Python set
   NxBackend.write builds (the order in which the properties are written shows in the crash states); names_ok checks that they are a
   reordering of the names Backends.nx_write collects (Dicts.keys_of) *)
| IDictsCrash (k : skind) (pre : option znode) (g : dgraph) (nn en : list string) (md : smeta)
| INxCrash (k : skind) (pre : option znode) (directed : bool) (g : dgraph) (nn en : list string) (axes : option (list string))
           (mdtok axtok : Z) (overwrite : bool).
Inductive obs :=
  OCrash (r : res unit) (final : option znode) (survivors : list (option (option znode) * bool)).

Definition unit_eqb (a b : unit) : bool := true.
Definition same_state (d : option (option znode)) (st : option znode) : bool :=
  match d with Some t => otree_eqb t st | None => false end.

(* [result class; final tree; every recognised survivor is the new or the previous graph;
    every state of the model's trace is a state the real store passed through] *)
Definition run_input (i : input) : st * res unit :=
  match i with
  | ICrash k pre g md v ov => write_arrays k g md v ov (init pre)
  | IApiCrash k pre g md v ov => api_write k g md v ov (init pre)
  | IEntryCrash pre c | IEntryCrash2 pre c _ => e_run c (init pre)
  | IDictsCrash k pre g nn en md => write_dicts k g nn en md (init pre)
  | INxCrash k pre d g nn en axes mdtok axtok ov =>
      (do exists_ <- check_for_geff k;
       (if exists_ then (if ov then delete_geff k else fail FileExistsError) else ret tt) ;;
       bind (lift (Backends.fresh_md d axes mdtok axtok)) (fun md => write_dicts k g nn en md)) (init pre)
  end.
Definition pre_of (i : input) : option znode :=
  match i with
  | ICrash _ pre _ _ _ _ | IApiCrash _ pre _ _ _ _ | IDictsCrash _ pre _ _ _ _ | INxCrash _ pre _ _ _ _ _ _ _ _ => pre
  | IEntryCrash pre _ | IEntryCrash2 pre _ _ => pre
  end.
(* entry-point cases compare trees with the opaque metadata tokens blanked (Entry.zero_tok: the converters' models have their own
   token convention); a directory that exists without being a zarr group is dumped by the harness as a group without attributes *)
Definition teq (i : input) (a b : option znode) : bool :=
  match i with IEntryCrash _ _ | IEntryCrash2 _ _ _ => otree_eqb (zero_tok a) (zero_tok b) | _ => otree_eqb a b end.
Definition same_state_i (i : input) (d : option (option znode)) (st : option znode) : bool :=
  match d with Some t => teq i t st | None => false end.
(* same names, each once *)
Definition same_names (a b : list string) : bool :=
  Nat.eqb (length a) (length b) && forallb (fun x => existsb (String.eqb x) b) a && forallb (fun x => existsb (String.eqb x) a) b
  && Nat.eqb (length (Dicts.dedup a)) (length a).
Definition names_ok (i : input) : bool :=
  match i with
  | INxCrash _ _ _ g nn en _ _ _ _ => same_names nn (Dicts.keys_of (map snd (Dicts.d_nodes g))) && same_names en (Dicts.keys_of (map snd (Dicts.d_edges g)))
  | _ => true
  end.
Definition diag1 (c : input * obs) : list bool :=
  match c with
  | (i, OCrash r final survivors) =>
      let pre := pre_of i in
      let (s', r') := run_input i in
      [ res_eqb unit_eqb r' r;
        teq i (s_root s') final;
        forallb (fun dr => negb (snd dr) || same_state_i i (fst dr) (s_root s') || same_state_i i (fst dr) pre) survivors;
        forallb (fun st => existsb (fun dr => same_state_i i (fst dr) st) survivors || teq i st final) (s_trace s');
        names_ok i ]
  end.
Definition diag (c : input * obs) : list bool :=
  match c with
  | (IEntryCrash2 pre a b, o) => firstn 3 (diag1 (IEntryCrash pre a, o)) ++ diag1 (IEntryCrash pre b, o)
  | _ => diag1 c
  end.
Definition check (c : input * obs) : bool := forallb (fun b => b) (diag c).
Definition model (i : input) : list (option znode) := s_trace (fst (run_input i)).
