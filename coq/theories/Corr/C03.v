(* Corr/C03.v -- correspondence interface for C03: a graph of one library (observable content of the
   real networkx / rustworkx / spatial-graph object) is written with geff.write into a fresh store and
   read back with geff.read(backend=...) -- or an in-memory geff is handed to geff.construct -- and the
   result is observed: read_to_memory of the store (RMem), the node / edge attribute maps of the
   networkx graph (RNx), payloads + edge list + to_rx_id_map of the rustworkx graph (RRx), or the
   SgGraphAdapter view plus the dtype signature of the spatial-graph object (RSg). *)
From Geff Require Export Base Dtype Vlen Tree Validate Write Read Dicts Backends.
From Geff Require Export BackendsMd.
From Geff Require Names.
Open Scope list_scope.

Inductive writer :=
| WNx (directed : bool) (g : dgraph) (axes : option (list string))
| WRx (directed : bool) (g : dgraph) (idmap : option (list (Z * Z))) (axes : option (list string))
| WSg (g : sgc) (md : option smeta) (axes : option (list string))
| WMem (g : mgraph)
(* networkx / rustworkx writes with a caller GeffMetadata and / or axis_names + axis_units / axis_types / axis_scales / scaled_units /
   axis_offset (BackendsMd.v): every axis comes with the token of its entry in those lists *)
| WNxMd (directed : bool) (g : dgraph) (md : option smeta) (axes : option (list (string * Z)))
| WRxMd (directed : bool) (g : dgraph) (idmap : option (list (Z * Z))) (md : option smeta) (axes : option (list (string * Z))).
Inductive reader := RMem | RNx | RRx | RSg (pos : string).
Inductive input := ICase (w : writer) (r : reader) (mdtok axtok : Z)
(* a property NAME: is it usable under zarr format 2 / 3 (Names.name_ok_fmt)?  observed: a two-node networkx graph carrying the
   property is written under that format and read back -- usable = exact round trip, not usable = the write raises *)
| IName (s : string).

(* node dtype, ndims, (name, dtype, inner size) of the node / edge attributes *)
Definition sgsig := (dtype * nat * list (string * (dtype * option nat)) * list (string * (dtype * option nat)))%type.

Inductive obs :=
| OErr (e : exn)
| OMem (g : mgraph)
| ONx (g : cgraph)
| ORx (g : rxc)
| OSg (s : sgsig) (g : cgraph)
| OName (v2 v3 : bool).

Definition written (w : writer) (mdtok axtok : Z) : res mgraph :=
  match w with
  | WMem g => Ok g
  | _ =>
      let m := match w with
               | WNx d g axes => nx_write KObj d g axes mdtok axtok
               | WRx d g idmap axes => rx_write KObj d g idmap axes mdtok axtok
               | WSg g md axes => sg_write KObj g md axes mdtok axtok
               | WMem _ => ret tt
               | WNxMd d g md axes => nx_write_md KObj d g md axes mdtok
               | WRxMd d g idmap md axes => rx_write_md KObj d g idmap md axes mdtok
               end in
      let (post, r) := run (api_write KObj m) None in
      match r with
      | Err e => Err e
      | Ok _ => read_to_memory KObj post true None None
      end
  end.

Definition attr_sig (kv : string * arr) : string * (dtype * option nat) :=
  (fst kv, (a_dt (snd kv), match a_shape (snd kv) with [_; k] => Some k | _ => None end)).
Definition sig_of (g : sgc) : sgsig :=
  (a_dt (sc_nodes g), sc_ndims g, map attr_sig (sc_nattrs g), map attr_sig (sc_eattrs g)).

Definition axes_names (md : smeta) : list string :=
  match md_axes md with Some axs => map ax_name axs | None => [] end.

Definition view (r : reader) (g : mgraph) : obs :=
  match r with
  | RMem => OMem g
  | RNx => match nx_construct g with Ok c => ONx c | Err e => OErr e end
  | RRx => match rx_construct g with Ok c => ORx c | Err e => OErr e end
  | RSg pos =>
      match sg_construct g pos with
      | Err e => OErr e
      | Ok s =>
          match canon_sg s (axes_names (g_md g)) (akeys (md_nprops (g_md g))) (akeys (md_eprops (g_md g))) with
          | Ok c => OSg (sig_of s) c
          | Err e => OErr e
          end
      end
  end.

Definition model (i : input) : obs :=
  match i with
  | ICase w r mdtok axtok =>
      match written w mdtok axtok with
      | Err e => OErr e
      | Ok g => view r g
      end
  | IName s => OName (Names.name_ok_fmt false s) (Names.name_ok_fmt true s)
  end.

(* ---------- comparison: attribute dicts and node / edge maps are compared as dicts ---------- *)
Definition cattrs_eqb : cattrs -> cattrs -> bool := dict_eqb cval_eqb.

Definition ktable_eqb {K} (eqb : K -> K -> bool) (a b : list (K * cattrs)) : bool :=
  Nat.eqb (length a) (length b)
  && forallb (fun kv => match klookup eqb (fst kv) b with Some v => cattrs_eqb (snd kv) v | None => false end) a
  && forallb (fun kv => khas eqb (fst kv) a) b.

Definition cgraph_eqb (a b : cgraph) : bool :=
  Bool.eqb (cg_directed a) (cg_directed b)
  && ktable_eqb Z.eqb (cg_nodes a) (cg_nodes b)
  && ktable_eqb (ekey_eqb (cg_directed a)) (cg_edges a) (cg_edges b).

Definition zz_eqb (a b : Z * Z) : bool := Z.eqb (fst a) (fst b) && Z.eqb (snd a) (snd b).
Definition rxc_eqb (a b : rxc) : bool :=
  Bool.eqb (rc_directed a) (rc_directed b)
  && list_eqb cattrs_eqb (rc_nodes a) (rc_nodes b)
  && list_eqb (fun x y => zz_eqb (fst x) (fst y) && cattrs_eqb (snd x) (snd y)) (rc_edges a) (rc_edges b)
  && Nat.eqb (length (rc_map a)) (length (rc_map b))
  && forallb (fun kv => option_eqb Z.eqb (klookup Z.eqb (fst kv) (rc_map b)) (Some (snd kv))) (rc_map a).

Definition asig_eqb (a b : dtype * option nat) : bool :=
  dtype_eqb (fst a) (fst b) && option_eqb Nat.eqb (snd a) (snd b).
Definition sgsig_eqb (a b : sgsig) : bool :=
  match a, b with
  | (nd, k, ns, es), (nd', k', ns', es') =>
      dtype_eqb nd nd' && Nat.eqb k k' && dict_eqb asig_eqb ns ns' && dict_eqb asig_eqb es es'
  end.

(* ---------- networkx: the ORDER of graph.nodes and graph.edges is compared too (audit F8) ----------
   The model's cgraph keeps nodes and edges in insertion order.  graph.nodes iterates in insertion order; graph.edges iterates by
   adjacency: DiGraph -- for every node n in node order, its out-edges in the order they were added; Graph -- for every node n in
   node order, the edges touching n in the order they were added, reported as (n, neighbour), skipping neighbours that are earlier
   nodes (networkx EdgeView / OutEdgeView).  nx_edges_view computes that order from the insertion-ordered tables. *)
Fixpoint nx_undirected_edges (edges : list ((Z * Z) * cattrs)) (nodes : list (Z * cattrs)) (seen : list Z) : list ((Z * Z) * cattrs) :=
  match nodes with
  | [] => []
  | n :: r =>
      let id := fst n in
      flat_map (fun e => let u := fst (fst e) in let v := snd (fst e) in
                         if Z.eqb u id then (if zmem v seen then [] else [((id, v), snd e)])
                         else if Z.eqb v id then (if zmem u seen then [] else [((id, u), snd e)]) else []) edges
      ++ nx_undirected_edges edges r (id :: seen)
  end.
Definition nx_edges_view (g : cgraph) : list ((Z * Z) * cattrs) :=
  if cg_directed g
  then flat_map (fun n => filter (fun e => Z.eqb (fst (fst e)) (fst n)) (cg_edges g)) (cg_nodes g)
  else nx_undirected_edges (cg_edges g) (cg_nodes g) [].

Definition otable_eqb {K} (eqb : K -> K -> bool) (a b : list (K * cattrs)) : bool :=
  list_eqb (fun x y => eqb (fst x) (fst y) && cattrs_eqb (snd x) (snd y)) a b.

(* a: the model's graph, b: the observed one (nodes as graph.nodes lists them, edges as graph.edges lists them) *)
Definition nx_obs_eqb (a b : cgraph) : bool :=
  Bool.eqb (cg_directed a) (cg_directed b)
  && otable_eqb Z.eqb (cg_nodes a) (cg_nodes b)
  && otable_eqb (fun x y => Z.eqb (fst x) (fst y) && Z.eqb (snd x) (snd y)) (nx_edges_view a) (cg_edges b).

Definition obs_eqb (a b : obs) : bool :=
  match a, b with
  | OErr e, OErr f => exn_eqb e f
  | OMem g, OMem h => mgraph_eqb g h
  | ONx g, ONx h => nx_obs_eqb g h
  | ORx g, ORx h => rxc_eqb g h
  | OSg s g, OSg t h => sgsig_eqb s t && cgraph_eqb g h
  | OName a b, OName c d => Bool.eqb a c && Bool.eqb b d
  | _, _ => false
  end.

Definition check (c : input * obs) : bool := obs_eqb (model (fst c)) (snd c).
