(* Corr/C10.v -- C10 observes the same write as C01 (input, surviving tree incl. attrs["geff"], read-back);
   its cases stress the caller-supplied metadata.

   Second case kind (IFull): the caller's FULL metadata as the keyword arguments of GeffMetadata (a JSON-like value, parsed by
   Meta.construct exactly as pydantic does), the in-memory graph, the structure_validation flag; fresh MemoryStore.  Observed:
   the exception class of write_arrays, or the complete document stored under attrs["geff"].  Model: the store model decides
   success / the exception class (Write.write_arrays on the abstraction), the FULL pipeline MetaBridge.stored_doc gives the
   document; documents are compared field by field up to member order (Json.jsim, JSON types distinguished). *)
From Geff Require Export Meta.
From Geff.Corr Require Export C01.
From Geff Require Json MetaJson.
From Geff Require Export MetaBridge.

Inductive input :=
| IOld (i : C01.input)
| IFull (gv : string) (kw : Meta.jv) (g : wgraph) (validate : bool).
Inductive obs :=
| OOld (o : C01.obs)
| OFull (r : res Meta.jv).

Definition old_case (c : C01.input * C01.obs) : input * obs := (IOld (fst c), OOld (snd c)).

Definition model (i : input) : obs :=
  match i with
  | IOld i0 => OOld (C01.model i0)
  | IFull gv kw g v =>
      match Meta.construct gv kw with
      | Err e => OFull (Err e)
      | Ok m =>
          match snd (Write.run (write_arrays KObj g (abs I0 m) v false) None) with
          | Err e => OFull (Err e)
          | Ok _ => OFull (stored_doc g m)
          end
      end
  end.

Definition obs_eqb (a b : obs) : bool :=
  match a, b with
  | OOld x, OOld y => C01.obs_eqb x y
  | OFull r, OFull s => res_eqb Json.jsim r s
  | _, _ => false
  end.
Definition check (c : input * obs) : bool := obs_eqb (model (fst c)) (snd c).
