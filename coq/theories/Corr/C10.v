(* Corr/C10.v -- C10 observes the same write as C01 (input, surviving tree incl. attrs["geff"], read-back);
   its cases stress the caller-supplied metadata. *)
From Geff.Corr Require Export C01.
