(* Corr/C19.v -- correspondence interface for C19 (geff.validate.segmentation).
   Coordinates, scale factors and axis maxima are Seg.xnum: XFin (numerator over 1024) or XNaN / XPInf / XNInf. *)
From Geff Require Export Base Dtype Seg.
Open Scope list_scope.

Inductive input :=
| ISegId (props : node_props) (seg_id : string)
| IAxesMatch (axes : option (list axis)) (shape : list nat)
| IBounds (axes : option (list axis)) (shape : list nat) (scale : option (list xnum))
| ITimePoints (shape : list nat) (data : list Z) (tps ids : list Z) (metadata : option (option (list axis)))
| ICoords (shape : list nat) (data : list Z) (coords : list (list xnum)) (ids : list Z) (scale : option (list xnum)).

(* the (bool, errors) pair, or the exception class *)
Inductive obs := ORes (r : res result).

Definition mkvol (shape : list nat) (data : list Z) : vol :=
  {| v_shape := shape; v_px := px_of shape data |}.

Definition model (i : input) : obs :=
  match i with
  | ISegId props key => ORes (has_valid_seg_id props key)
  | IAxesMatch axes shape => ORes (axes_match_seg_dims axes shape)
  | IBounds axes shape scale => ORes (graph_is_in_seg_bounds axes shape scale)
  | ITimePoints shape data tps ids md => ORes (has_seg_ids_at_time_points (mkvol shape data) tps ids md)
  | ICoords shape data coords ids scale => ORes (has_seg_ids_at_coords (mkvol shape data) coords ids scale)
  end.

(* a = the model, b = the observation.  A message of the implementation that the harness cannot classify (MUnknown: the wording changed)
   stands for any message: the property asks for a verdict and, for out-of-range input, an explanatory message -- not for a wording *)
Definition msg_obs_eqb (m o : msg) : bool := match o with MUnknown => true | _ => msg_eqb m o end.
Definition result_eqb (a b : result) : bool :=
  Bool.eqb (fst a) (fst b) && list_eqb msg_obs_eqb (snd a) (snd b).
Definition obs_eqb (a b : obs) : bool :=
  match a, b with ORes x, ORes y => res_eqb result_eqb x y end.
Definition check (c : input * obs) : bool := obs_eqb (model (fst c)) (snd c).
