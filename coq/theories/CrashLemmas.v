(* CrashLemmas.v -- every store state a write passes through before its commit point (and every state of a
   rejected write's clean-up) is not recognised as a geff.  The states are the trace of the writer model
   (one entry per mutation at the granularity of Write.v).  Used by C05 / C06. *)
From Geff Require Import Base Dtype DtypeLemmas Vlen Tree TreeLemmas Validate ValidateLemmas Write WriteLemmas.
From Geff.Gen Require Import Consts.
Open Scope string_scope.
Open Scope list_scope.

(* attributes of the root group of a state ([] when there is no root) *)
Definition oattrs (st : option znode) : list (string * aval) := match st with Some n => attrs_of n | None => [] end.
Definition unrecognised (k : skind) (st : option znode) : Prop := validate_structure k st <> Ok tt.

Lemma no_geff_unrecognised k st : alookup "geff" (oattrs st) = None -> unrecognised k st.
Proof. intros H Hc. destruct st as [root|]; [|destruct k; discriminate].
  apply validate_iff in Hc. destruct Hc as [md [Hg _]]. unfold geff_attr in Hg. cbn in H. rewrite H in Hg. discriminate. Qed.

Lemma no_nodes_unrecognised k root : get root path_NODES = None -> unrecognised k (Some root).
Proof. intros H Hc. apply validate_iff in Hc.
  destruct Hc as (md & _ & na & nch & ea & ech & nids & eids & Hng & _). rewrite H in Hng. discriminate. Qed.

(* ---------- programs that never touch the attributes of the root ---------- *)
(* new trace entries keep the root attributes (a root created from nothing has none) *)
Definition attrs_stable {A} (m : M A) : Prop :=
  forall s, let (s', r) := m s in
    exists new, s_trace s' = new ++ s_trace s /\
      Forall (fun st => oattrs st = oattrs (s_root s)) new /\ oattrs (s_root s') = oattrs (s_root s).

Lemma as_ret {A} (a : A) : attrs_stable (ret a).
Proof. intros s. cbn. exists []. split; [reflexivity|]. split; [constructor | reflexivity]. Qed.
Lemma as_fail {A} e : attrs_stable (@fail A e).
Proof. intros s. cbn. exists []. split; [reflexivity|]. split; [constructor | reflexivity]. Qed.
Lemma as_lift {A} (r : res A) : attrs_stable (lift r).
Proof. intros s. cbn. exists []. split; [reflexivity|]. split; [constructor | reflexivity]. Qed.
Lemma as_get_root : attrs_stable get_root.
Proof. intros s. cbn. exists []. split; [reflexivity|]. split; [constructor | reflexivity]. Qed.

Lemma as_bind {A B} (m : M A) (f : A -> M B) : attrs_stable m -> (forall a, attrs_stable (f a)) -> attrs_stable (bind m f).
Proof. intros Hm Hf s. unfold bind. specialize (Hm s). destruct (m s) as [s1 [a|e]].
  - destruct Hm as [n1 [Ht1 [HF1 Ha1]]]. specialize (Hf a s1). destruct (f a s1) as [s2 r].
    destruct Hf as [n2 [Ht2 [HF2 Ha2]]]. exists (n2 ++ n1). split; [rewrite Ht2, Ht1, app_assoc; reflexivity|].
    split; [|congruence]. apply Forall_app. split; [|exact HF1].
    eapply Forall_impl; [|exact HF2]. cbn. intros st H. congruence.
  - exact Hm. Qed.

Lemma as_set_root_same s0 : forall r, oattrs r = oattrs s0 ->
  forall s, s_root s = s0 -> let (s', x) := set_root r s in
    exists new, s_trace s' = new ++ s_trace s /\ Forall (fun st => oattrs st = oattrs (s_root s)) new /\ oattrs (s_root s') = oattrs (s_root s).
Proof. intros r Hr s Hs. cbn. exists [r]. subst s0. repeat split; [constructor; [exact Hr | constructor] | exact Hr]. Qed.

Lemma as_setup_group : attrs_stable setup_group.
Proof. intros s. unfold setup_group, bind, get_root. destruct (s_root s) as [[x|a ch]|] eqn:E; cbn.
  - exists []. split; [reflexivity|]. split; [constructor | first [reflexivity | rewrite E; reflexivity]].
  - exists []. split; [reflexivity|]. split; [constructor | first [reflexivity | rewrite E; reflexivity]].
  - exists [Some empty_group]. split; [reflexivity|]. rewrite ?E. split; [constructor; [reflexivity | constructor] | reflexivity]. Qed.

(* a mutation below a non-empty path keeps the root attributes *)
Lemma as_with_group {A} (f : znode -> M A) :
  (forall g, forall s, oattrs (s_root s) = attrs_of g -> s_root s = Some g ->
     let (s', r) := f g s in exists new, s_trace s' = new ++ s_trace s /\
       Forall (fun st => oattrs st = oattrs (s_root s)) new /\ oattrs (s_root s') = oattrs (s_root s)) ->
  attrs_stable (bind setup_group f).
Proof. intros Hf s. unfold bind, setup_group at 1. unfold bind, get_root.
  destruct s as [root tr]. cbn [s_root s_trace]. destruct root as [[x|a ch]|]; cbn.
  - exists []. split; [reflexivity|]. split; [constructor | reflexivity].
  - specialize (Hf (ZG a ch) (mkst (Some (ZG a ch)) tr) eq_refl eq_refl). exact Hf.
  - specialize (Hf empty_group (mkst (Some empty_group) (Some empty_group :: tr)) eq_refl eq_refl). cbn in Hf.
    destruct (f empty_group _) as [s' r]. destruct Hf as [new [Ht [HF Ha]]].
    exists (new ++ [Some empty_group]). rewrite Ht, <- app_assoc. split; [reflexivity|].
    split; [|exact Ha]. apply Forall_app. split; [exact HF | constructor; [reflexivity | constructor]]. Qed.

Lemma as_put s g p c : p <> [] -> s_root s = Some g ->
  let (s', r) := (match put_path g p c with Some g' => set_root (Some g') | None => fail OtherExn end) s in
  exists new, s_trace s' = new ++ s_trace s /\ Forall (fun st => oattrs st = oattrs (s_root s)) new /\ oattrs (s_root s') = oattrs (s_root s).
Proof. intros Hp Hs. destruct (put_path g p c) as [g'|] eqn:E; cbn.
  - exists [Some g']. rewrite Hs. cbn [oattrs]. split; [reflexivity|].
    pose proof (put_path_attrs _ _ _ _ Hp E) as Ha.
    split; [constructor; [cbn; exact Ha | constructor] | cbn; exact Ha].
  - exists []. split; [reflexivity|]. split; [constructor | reflexivity]. Qed.

Lemma as_set_item p a : p <> [] -> attrs_stable (set_item p a).
Proof. intros Hp. unfold set_item. apply as_with_group. intros g s _ Hs. apply as_put; assumption. Qed.

Lemma as_require_group p : p <> [] -> attrs_stable (require_group p).
Proof. intros Hp. unfold require_group. apply as_with_group. intros g s _ Hs.
  destruct (get_path g p) as [[x|a ch]|].
  - cbn. exists []. split; [reflexivity|]. split; [constructor | reflexivity].
  - cbn. exists []. split; [reflexivity|]. split; [constructor | reflexivity].
  - apply as_put; assumption. Qed.

Lemma as_create_group p name : attrs_stable (create_group p name).
Proof. unfold create_group. apply as_with_group. intros g s _ Hs.
  destruct (get_path g (p ++ [name])).
  - cbn. exists []. split; [reflexivity|]. split; [constructor | reflexivity].
  - apply as_put; [destruct p; discriminate | assumption]. Qed.

Lemma as_forM {A} (f : A -> M unit) l : (forall x, attrs_stable (f x)) -> attrs_stable (forM f l).
Proof. intros Hf. induction l as [|x r IH]; cbn [forM]; [apply as_ret | apply as_bind; [apply Hf | intros _; exact IH]]. Qed.

Lemma as_write_one_prop grp kv : attrs_stable (write_one_prop grp kv).
Proof. destruct kv as [name p]. unfold write_one_prop.
  apply as_bind; [apply as_lift|]. intros pm. apply as_bind; [apply as_lift|]. intros [[v m] d].
  apply as_bind; [apply as_create_group|]. intros _.
  apply as_bind; [apply as_set_item; discriminate|]. intros _.
  apply as_bind; [destruct m; [apply as_set_item; discriminate | apply as_ret]|]. intros _.
  destruct d; [apply as_set_item; discriminate | apply as_ret]. Qed.

Lemma as_write_props_arrays grp ps : attrs_stable (write_props_arrays grp ps).
Proof. unfold write_props_arrays. apply as_bind; [apply as_require_group; discriminate|]. intros _.
  apply as_forM. intros kv. apply as_write_one_prop. Qed.

Lemma as_write_id_arrays nids eids : attrs_stable (write_id_arrays nids eids).
Proof. unfold write_id_arrays. destruct (negb _); [apply as_fail|]. destruct (negb _); [apply as_fail|].
  apply as_bind; [apply as_setup_group|]. intros _.
  apply as_bind; [apply as_set_item; discriminate|]. intros _. apply as_set_item; discriminate. Qed.

(* everything write_arrays does between the overwrite guard and GeffMetadata.write *)
Definition write_body (g : wgraph) (md : smeta) : M smeta :=
  (write_id_arrays (w_nids g) (w_eids g) ;;
   (match len0 (w_nids g) with None => fail TypeError | Some _ => ret tt end) ;;
   let nps := backfill (w_nids g) md (w_nprops g) in
   (match nps with Some ps => write_props_arrays path_NODES ps | None => ret tt end) ;;
   (match w_eprops g with Some ps => write_props_arrays path_EDGES ps | None => ret tt end) ;;
   lift (final_metadata g md))%M.

Lemma as_write_body g md : attrs_stable (write_body g md).
Proof. unfold write_body. apply as_bind; [apply as_write_id_arrays|]. intros _.
  apply as_bind; [destruct (len0 _); [apply as_ret | apply as_fail]|]. intros _.
  apply as_bind; [destruct (backfill _ _ _); [apply as_write_props_arrays | apply as_ret]|]. intros _.
  apply as_bind; [destruct (w_eprops g); [apply as_write_props_arrays | apply as_ret]|]. intros _.
  apply as_lift. Qed.

(* ---------- delete_geff: from its first mutation on, the geff attribute is gone ---------- *)
(* (the name is historical: before the repair of the deletion order the marker was "the nodes group is gone") *)
Definition nodes_gone (st : option znode) : Prop := alookup "geff" (oattrs st) = None.
Lemma nodes_gone_unrecognised k st : nodes_gone st -> unrecognised k st.
Proof. apply no_geff_unrecognised. Qed.

(* est P m: whatever the start, every state m adds satisfies P and so does the state it ends in;
   pres P m: the same provided the start satisfies P *)
Definition est {A} (P : option znode -> Prop) (m : M A) : Prop :=
  forall s, let (s', r) := m s in exists new, s_trace s' = new ++ s_trace s /\ Forall P new /\ P (s_root s').
Definition pres {A} (P : option znode -> Prop) (m : M A) : Prop :=
  forall s, P (s_root s) -> let (s', r) := m s in exists new, s_trace s' = new ++ s_trace s /\ Forall P new /\ P (s_root s').
Definition all_new {A} (P : option znode -> Prop) (m : M A) : Prop :=
  forall s, let (s', r) := m s in exists new, s_trace s' = new ++ s_trace s /\ Forall P new.

Lemma est_pres {A} (P : option znode -> Prop) (m : M A) : est P m -> pres P m. Proof. intros H s _. apply H. Qed.
Lemma est_all_new {A} (P : option znode -> Prop) (m : M A) : est P m -> all_new P m.
Proof. intros H s. specialize (H s). destruct (m s) as [s' r]. destruct H as [new [H1 [H2 _]]]. eauto. Qed.

Lemma pres_bind {A B} (P : option znode -> Prop) (m : M A) (f : A -> M B) : pres P m -> (forall a, pres P (f a)) -> pres P (bind m f).
Proof. intros Hm Hf s HP. unfold bind. specialize (Hm s HP). destruct (m s) as [s1 [a|e]].
  - destruct Hm as [n1 [Ht1 [HF1 HP1]]]. specialize (Hf a s1 HP1). destruct (f a s1) as [s2 r].
    destruct Hf as [n2 [Ht2 [HF2 HP2]]]. exists (n2 ++ n1). rewrite Ht2, Ht1, app_assoc.
    split; [reflexivity|]. split; [apply Forall_app; auto | exact HP2].
  - exact Hm. Qed.
Lemma est_bind {A B} (P : option znode -> Prop) (m : M A) (f : A -> M B) : est P m -> (forall a, pres P (f a)) -> est P (bind m f).
Proof. intros Hm Hf s. unfold bind. specialize (Hm s). destruct (m s) as [s1 [a|e]].
  - destruct Hm as [n1 [Ht1 [HF1 HP1]]]. specialize (Hf a s1 HP1). destruct (f a s1) as [s2 r].
    destruct Hf as [n2 [Ht2 [HF2 HP2]]]. exists (n2 ++ n1). rewrite Ht2, Ht1, app_assoc.
    split; [reflexivity|]. split; [apply Forall_app; auto | exact HP2].
  - exact Hm. Qed.
(* a prefix whose own states satisfy P, followed by something that establishes P *)
Lemma all_new_then_est {A B} (P : option znode -> Prop) (m : M A) (f : A -> M B) : all_new P m -> (forall a, est P (f a)) -> all_new P (bind m f).
Proof. intros Hm Hf s. unfold bind. specialize (Hm s). destruct (m s) as [s1 [a|e]].
  - destruct Hm as [n1 [Ht1 HF1]]. specialize (Hf a s1). destruct (f a s1) as [s2 r].
    destruct Hf as [n2 [Ht2 [HF2 _]]]. exists (n2 ++ n1). rewrite Ht2, Ht1, app_assoc.
    split; [reflexivity | apply Forall_app; auto].
  - exact Hm. Qed.

Lemma pres_ret {A} (P : option znode -> Prop) (a : A) : pres P (ret a).
Proof. intros s HP. cbn. exists []. split; [reflexivity|]. split; [constructor | exact HP]. Qed.
Lemma pres_fail {A} (P : option znode -> Prop) e : pres P (@fail A e).
Proof. intros s HP. cbn. exists []. split; [reflexivity|]. split; [constructor | exact HP]. Qed.
Lemma pres_set_root (P : option znode -> Prop) r : P r -> pres P (set_root r).
Proof. intros Hr s _. cbn. exists [r]. split; [reflexivity|]. split; [constructor; [exact Hr | constructor] | exact Hr]. Qed.

Lemma nodes_gone_empty : nodes_gone (Some empty_group). Proof. reflexivity. Qed.

Lemma pres_setup_k {A} (f : znode -> M A) :
  (forall g, nodes_gone (Some g) -> pres nodes_gone (f g)) -> pres nodes_gone (bind setup_group f).
Proof. intros Hf s HP. unfold bind, setup_group at 1. unfold bind, get_root.
  destruct s as [root tr]. cbn [s_root s_trace] in *. destruct root as [[x|a ch]|]; cbn.
  - exists []. split; [reflexivity|]. split; [constructor | exact HP].
  - apply (Hf (ZG a ch) HP (mkst (Some (ZG a ch)) tr) HP).
  - specialize (Hf empty_group nodes_gone_empty (mkst (Some empty_group) (Some empty_group :: tr)) nodes_gone_empty).
    destruct (f empty_group _) as [s' r]. destruct Hf as [new [Ht [HF HP']]].
    exists (new ++ [Some empty_group]). rewrite Ht, <- app_assoc. split; [reflexivity|].
    split; [apply Forall_app; split; [exact HF | constructor; [exact nodes_gone_empty | constructor]] | exact HP']. Qed.

Lemma nodes_gone_del g k0 : nodes_gone (Some g) -> nodes_gone (Some (del_child g k0)).
Proof. unfold nodes_gone. cbn. destruct g as [x|a ch]; cbn; auto. Qed.

Lemma pres_del_member name : pres nodes_gone (del_member name).
Proof. unfold del_member. apply pres_setup_k. intros g Hg. destruct (get g name).
  - apply pres_set_root. apply nodes_gone_del. exact Hg.
  - apply pres_ret. Qed.

(* the first deletion -- of the attribute -- establishes it, whatever the state (it raises KeyError, changing nothing but
   possibly creating the root, when there is no geff attribute) *)
Lemma est_del_geff_attr : est nodes_gone del_geff_attr.
Proof. intros s. unfold del_geff_attr, bind, setup_group at 1. unfold bind, get_root.
  destruct s as [root tr]. cbn [s_root s_trace]. destruct root as [[x|a ch]|]; cbn.
  - exists []. split; [reflexivity|]. split; [constructor | reflexivity].
  - destruct (ahas "geff" a) eqn:E; cbn.
    + exists [Some (ZG (adel "geff" a) ch)]. split; [reflexivity|].
      assert (H : nodes_gone (Some (ZG (adel "geff" a) ch))) by (unfold nodes_gone; cbn; apply alookup_adel_same).
      split; [constructor; [exact H | constructor] | exact H].
    + exists []. split; [reflexivity|]. split; [constructor|]. unfold nodes_gone. cbn. apply ahas_false. exact E.
  - exists [Some empty_group]. split; [reflexivity|]. split; [constructor; [reflexivity | constructor] | reflexivity]. Qed.

Lemma all_new_setup_group : all_new nodes_gone setup_group.
Proof. intros s. unfold setup_group, bind, get_root. destruct s as [root tr]. cbn [s_root s_trace].
  destruct root as [[x|a ch]|]; cbn.
  - exists []. split; [reflexivity | constructor].
  - exists []. split; [reflexivity | constructor].
  - exists [Some empty_group]. split; [reflexivity | constructor; [reflexivity | constructor]]. Qed.

Lemma est_setup_k {A} (f : znode -> M A) :
  (forall g, est nodes_gone (f g)) -> est nodes_gone (bind setup_group f).
Proof. intros Hf s. unfold bind, setup_group at 1. unfold bind, get_root.
  destruct s as [root tr]. cbn [s_root s_trace]. destruct root as [[x|a ch]|]; cbn.
  - exists []. split; [reflexivity|]. split; [constructor | reflexivity].
  - apply (Hf (ZG a ch) (mkst (Some (ZG a ch)) tr)).
  - specialize (Hf empty_group (mkst (Some empty_group) (Some empty_group :: tr))).
    destruct (f empty_group _) as [s' r]. destruct Hf as [new [Ht [HF HP']]].
    exists (new ++ [Some empty_group]). rewrite Ht, <- app_assoc. split; [reflexivity|].
    split; [apply Forall_app; split; [exact HF | constructor; [exact nodes_gone_empty | constructor]] | exact HP']. Qed.

(* every state delete_geff adds, and the state it ends in, lacks the geff attribute (or is the removed path) *)
Theorem delete_geff_states k : est nodes_gone (delete_geff k).
Proof. unfold delete_geff. apply est_setup_k. intros _.
  apply est_bind; [apply est_del_geff_attr|]. intros _.
  apply pres_bind; [apply pres_del_member|]. intros _.
  apply pres_bind; [apply pres_del_member|]. intros _.
  apply pres_setup_k. intros g Hg. destruct (children g) as [|kv c]; destruct k;
    first [apply pres_set_root; reflexivity | apply pres_ret]. Qed.

(* ---------- after a successful delete_geff there is no geff attribute ---------- *)
Lemma bind_ok_inv {A B} (m : M A) (f : A -> M B) s s' b :
  bind m f s = (s', Ok b) -> exists a s1, m s = (s1, Ok a) /\ f a s1 = (s', Ok b).
Proof. unfold bind. destruct (m s) as [s1 [a|e]]; intros H; [eauto | inversion H]. Qed.

Lemma del_geff_attr_ok s s' : del_geff_attr s = (s', Ok tt) -> alookup "geff" (oattrs (s_root s')) = None.
Proof. unfold del_geff_attr. intros H. apply bind_ok_inv in H. destruct H as [g [s1 [_ H]]].
  destruct (ahas "geff" (attrs_of g)); [|inversion H]. cbn in H. inversion H; subst. cbn.
  destruct g as [x|a ch]; cbn; [reflexivity | apply alookup_adel_same]. Qed.

Theorem delete_geff_ok_no_geff k s s' : delete_geff k s = (s', Ok tt) -> alookup "geff" (oattrs (s_root s')) = None.
Proof. intros H. pose proof (delete_geff_states k s) as Hd. rewrite H in Hd. destruct Hd as [new [_ [_ HP]]]. exact HP. Qed.

(* ---------- the write after the overwrite guard ---------- *)
Definition write_tail (k : skind) (validate : bool) : M unit :=
  if validate then
    (do r <- get_root;
     match validate_structure k r with
     | Ok _ => ret tt
     | Err ValueError => try_any (delete_geff k) (ret tt) ;; fail ValueError
     | Err e => fail e
     end)%M
  else ret tt.

Definition write_core (k : skind) (g : wgraph) (md : smeta) (validate : bool) : M unit :=
  (do md' <- write_body g md; write_metadata md' ;; write_tail k validate)%M.

(* the new states of a run: all but the newest are unrecognised; the newest too unless the run succeeded *)
Definition new_ok (k : skind) (r : res unit) (new : list (option znode)) : Prop :=
  match new with
  | [] => True
  | final :: earlier => Forall (unrecognised k) earlier /\ (r <> Ok tt -> unrecognised k final)
  end.

Lemma new_ok_all k r new : Forall (unrecognised k) new -> new_ok k r new.
Proof. destruct new as [|x l]; cbn; [trivial|]. intros H. apply Forall_cons_iff in H. tauto. Qed.

Lemma try_any_delete_states k : est nodes_gone (try_any (delete_geff k) (ret tt)).
Proof. intros s. unfold try_any. pose proof (delete_geff_states k s) as H.
  destruct (delete_geff k s) as [s' [u|e]]; [exact H|]. cbn. exact H. Qed.

Theorem write_core_crash k g md v s :
  alookup "geff" (oattrs (s_root s)) = None ->
  let (s', r) := write_core k g md v s in
  exists new, s_trace s' = new ++ s_trace s /\ new_ok k r new /\ (r <> Ok tt -> unrecognised k (s_root s')).
Proof.
  intros Hng. unfold write_core, bind.
  pose proof (as_write_body g md s) as Hb. destruct (write_body g md s) as [s1 [md'|e]].
  2:{ destruct Hb as [n1 [Ht1 [HF1 Ha1]]]. exists n1. split; [exact Ht1|].
      assert (HU : Forall (unrecognised k) n1).
      { eapply Forall_impl; [|exact HF1]. cbn. intros st Hst. apply no_geff_unrecognised. rewrite Hst. exact Hng. }
      split; [apply new_ok_all; exact HU | intros _; apply no_geff_unrecognised; rewrite Ha1; exact Hng]. }
  destruct Hb as [n1 [Ht1 [HF1 Ha1]]].
  assert (HU1 : Forall (unrecognised k) n1).
  { eapply Forall_impl; [|exact HF1]. cbn. intros st Hst. apply no_geff_unrecognised. rewrite Hst. exact Hng. }
  (* GeffMetadata.write: the commit *)
  unfold write_metadata, bind.
  pose proof (as_setup_group s1) as Hsg. destruct (setup_group s1) as [s2 [g2|e]].
  2:{ destruct Hsg as [n2 [Ht2 [HF2 Ha2]]]. exists (n2 ++ n1). rewrite Ht2, Ht1, app_assoc. split; [reflexivity|].
      assert (HU2 : Forall (unrecognised k) n2).
      { eapply Forall_impl; [|exact HF2]. cbn. intros st Hst. apply no_geff_unrecognised. rewrite Hst, Ha1. exact Hng. }
      split; [apply new_ok_all; apply Forall_app; auto | intros _; apply no_geff_unrecognised; rewrite Ha2, Ha1; exact Hng]. }
  destruct Hsg as [n2 [Ht2 [HF2 Ha2]]].
  assert (HU2 : Forall (unrecognised k) n2).
  { eapply Forall_impl; [|exact HF2]. cbn. intros st Hst. apply no_geff_unrecognised. rewrite Hst, Ha1. exact Hng. }
  assert (HU21 : Forall (unrecognised k) (n2 ++ n1)) by (apply Forall_app; auto).
  cbn [set_root]. set (C := Some (set_attr g2 "geff" (AGeff (Some md')))).
  set (s3 := mkst C (C :: s_trace s2)).
  assert (Htr3 : s_trace s3 = (C :: n2 ++ n1) ++ s_trace s).
  { unfold s3. cbn. rewrite Ht2, Ht1, app_assoc. reflexivity. }
  assert (Hcommit : forall r, (r = Ok tt \/ unrecognised k C) ->
            exists new, s_trace s3 = new ++ s_trace s /\ new_ok k r new /\ (r <> Ok tt -> unrecognised k (s_root s3))).
  { intros r Hr. exists (C :: n2 ++ n1). split; [exact Htr3|]. cbn [new_ok s_root s3].
    split; [split; [exact HU21|] |]; intros Hne; destruct Hr as [->|Hr]; try exact Hr; exfalso; apply Hne; reflexivity. }
  unfold write_tail. destruct v; [|apply Hcommit; left; reflexivity].
  unfold bind, get_root. cbn [s_root s3].
  destruct (validate_structure k C) as [[]|e] eqn:Ev; [apply Hcommit; left; reflexivity|].
  assert (HC : unrecognised k C) by (unfold unrecognised; rewrite Ev; discriminate).
  destruct e; try (apply Hcommit; right; exact HC).
  (* ValueError: clean up, then re-raise *)
  pose proof (try_any_delete_states k s3) as Hd. unfold bind.
  destruct (try_any (delete_geff k) (ret tt) s3) as [s4 r4].
  destruct Hd as [n4 [Ht4 [HF4 HP4]]].
  assert (HU4 : Forall (unrecognised k) n4) by (eapply Forall_impl; [|exact HF4]; intros st; apply nodes_gone_unrecognised).
  assert (Hall : Forall (unrecognised k) (n4 ++ C :: n2 ++ n1)).
  { apply Forall_app. split; [exact HU4|]. constructor; [exact HC | exact HU21]. }
  assert (Htr4 : s_trace s4 = (n4 ++ C :: n2 ++ n1) ++ s_trace s).
  { rewrite Ht4, Htr3, <- app_assoc. reflexivity. }
  destruct r4 as [u|e4]; cbn; exists (n4 ++ C :: n2 ++ n1);
    (split; [exact Htr4|]; split; [apply new_ok_all; exact Hall | intros _; apply nodes_gone_unrecognised; exact HP4]).
Qed.

(* ---------- write_arrays = overwrite guard ;; write_core ---------- *)
Definition overwrite_guard (k : skind) (overwrite : bool) : M unit :=
  (do exists_ <- check_for_geff k;
   if exists_ then (if overwrite then delete_geff k else fail FileExistsError) else ret tt)%M.

Lemma write_arrays_eq k g md v ov s :
  write_arrays k g md v ov s = (overwrite_guard k ov ;; write_core k g md v)%M s.
Proof.
  unfold write_arrays, overwrite_guard, write_core, write_body, write_tail, bind.
  destruct (check_for_geff k s) as [s0 [ex|e]]; [|reflexivity].
  destruct ((if ex then if ov then delete_geff k else fail FileExistsError else ret tt) s0) as [s1 [u|e]]; [|reflexivity].
  destruct (write_id_arrays (w_nids g) (w_eids g) s1) as [s2 [u2|e]]; [|reflexivity].
  destruct ((match len0 (w_nids g) with Some _ => ret tt | None => fail TypeError end) s2) as [s3 [u3|e]]; [|reflexivity].
  destruct ((match backfill (w_nids g) md (w_nprops g) with Some ps => write_props_arrays path_NODES ps | None => ret tt end) s3) as [s4 [u4|e]]; [|reflexivity].
  destruct ((match w_eprops g with Some ps => write_props_arrays path_EDGES ps | None => ret tt end) s4) as [s5 [u5|e]]; [|reflexivity].
  destruct (lift (final_metadata g md) s5) as [s6 [md'|e]]; [|reflexivity].
  destruct (write_metadata md' s6) as [s7 [u7|e]]; [|reflexivity].
  destruct v; reflexivity.
Qed.

(* ---------- C05: crash points of a write ---------- *)
(* (a) target that holds no geff: whatever the input (valid or not) and wherever storage fails, the store is never
       recognised as a geff before the write has completed; a write that is rejected ends unrecognised *)
Theorem crash_clean k pre g md v ov :
  clean k pre ->
  let (s', r) := write_arrays k g md v ov (init pre) in
  new_ok k r (s_trace s') /\ (r <> Ok tt -> unrecognised k (s_root s')).
Proof.
  intros Hc. rewrite write_arrays_eq. unfold bind, overwrite_guard, bind.
  rewrite (check_for_geff_clean _ _ Hc). cbn iota beta. unfold ret at 1.
  assert (Hng : alookup "geff" (oattrs (s_root (init pre))) = None).
  { destruct pre as [[x|a ch]|]; cbn in *; [contradiction | tauto | reflexivity]. }
  pose proof (write_core_crash k g md v (init pre) Hng) as H.
  destruct (write_core k g md v (init pre)) as [s' r]. destruct H as [new [Ht [Hn Hr]]].
  cbn in Ht. rewrite app_nil_r in Ht. rewrite Ht. split; assumption.
Qed.

(* (b) overwriting an existing geff: every state after the first mutation is unrecognised until the new graph is
       committed; before the first mutation the store still holds the previous graph *)
Definition exists_geff (k : skind) (st : option znode) : bool :=
  match k with
  | KPath => match st with Some _ => true | None => false end
  | KObj => match st with Some (ZG a _) => ahas "geff" a | _ => false end
  end.
Lemma check_for_geff_spec k s : check_for_geff k s = (s, Ok (exists_geff k (s_root s))).
Proof. unfold check_for_geff, bind, get_root, ret, exists_geff. destruct k; reflexivity. Qed.

Lemma exists_geff_false k st : exists_geff k st = false -> alookup "geff" (oattrs st) = None.
Proof. unfold exists_geff. destruct k, st as [[x|a ch]|]; cbn; intros H; try reflexivity; try discriminate.
  apply ahas_false. exact H. Qed.

Theorem crash_overwrite k pre g md v :
  let (s', r) := write_arrays k g md v true (init pre) in
  new_ok k r (s_trace s') /\ (r <> Ok tt -> s_trace s' <> [] -> unrecognised k (s_root s')).
Proof.
  rewrite write_arrays_eq. unfold bind at 1. unfold overwrite_guard, bind at 1.
  rewrite check_for_geff_spec. cbn [s_root init].
  destruct (exists_geff k pre) eqn:Eex.
  - (* a geff (or, for a path, anything) is there: delete_geff first *)
    pose proof (delete_geff_states k (init pre)) as Hd.
    destruct (delete_geff k (init pre)) as [s1 [u|e]] eqn:Ed.
    + destruct Hd as [n1 [Ht1 [HF1 HP1]]]. cbn in Ht1. rewrite app_nil_r in Ht1.
      assert (HU1 : Forall (unrecognised k) n1) by (eapply Forall_impl; [|exact HF1]; intros st; apply nodes_gone_unrecognised).
      destruct u. pose proof (delete_geff_ok_no_geff k _ _ Ed) as Hng.
      pose proof (write_core_crash k g md v s1 Hng) as H.
      destruct (write_core k g md v s1) as [s' r]. destruct H as [new [Ht [Hn Hr]]].
      rewrite Ht, Ht1. split.
      * destruct new as [|f l]; cbn.
        -- apply new_ok_all. exact HU1.
        -- destruct Hn as [Hl Hf]. split; [apply Forall_app; auto | exact Hf].
      * intros Hne _. apply Hr. exact Hne.
    + destruct Hd as [n1 [Ht1 [HF1 HP1]]]. cbn in Ht1. rewrite app_nil_r in Ht1. rewrite Ht1.
      assert (HU1 : Forall (unrecognised k) n1) by (eapply Forall_impl; [|exact HF1]; intros st; apply nodes_gone_unrecognised).
      split; [apply new_ok_all; exact HU1 | intros _ _; apply nodes_gone_unrecognised; exact HP1].
  - (* nothing there *)
    unfold ret at 1. cbn iota beta.
    pose proof (write_core_crash k g md v (init pre) (exists_geff_false _ _ Eex)) as H.
    destruct (write_core k g md v (init pre)) as [s' r]. destruct H as [new [Ht [Hn Hr]]].
    cbn in Ht. rewrite app_nil_r in Ht. rewrite Ht. split; [exact Hn | intros Hne _; apply Hr; exact Hne].
Qed.

(* ---------- C05: a write rejected by structural validation is undone, foreign members are kept ---------- *)
Lemma adel_absent {V} k0 (l : list (string * V)) : alookup k0 l = None -> adel k0 l = l.
Proof. induction l as [|[k' v'] r IH]; cbn; [reflexivity|]. destruct (String.eqb k0 k'); [discriminate|].
  intros H. rewrite IH; auto. Qed.

Definition cleaned (k : skind) (a : list (string * aval)) (ch : list (string * znode)) : option znode :=
  let ch' := adel path_EDGES (adel path_NODES ch) in
  match ch', k with
  | [], KPath => None
  | _, _ => Some (ZG (adel "geff" a) ch')
  end.

Lemma del_member_root s a ch name :
  s_root s = Some (ZG a ch) -> exists tr, del_member name s = (mkst (Some (ZG a (adel name ch))) tr, Ok tt).
Proof. intros Hs. unfold del_member, bind. rewrite (setup_group_ok _ _ _ Hs). unfold get. cbn [children].
  destruct (alookup name ch) eqn:E.
  - eexists. reflexivity.
  - rewrite (adel_absent _ _ E). unfold ret. exists (s_trace s). destruct s; cbn in *; subst; reflexivity. Qed.

Lemma delete_geff_root k s a ch :
  s_root s = Some (ZG a ch) -> ahas "geff" a = true ->
  exists tr, delete_geff k s = (mkst (cleaned k a ch) tr, Ok tt).
Proof. intros Hs Hg. unfold delete_geff. unfold bind at 1. rewrite (setup_group_ok _ _ _ Hs).
  assert (Hd : exists tr, del_geff_attr s = (mkst (Some (ZG (adel "geff" a) ch)) tr, Ok tt)).
  { unfold del_geff_attr, bind. rewrite (setup_group_ok _ _ _ Hs). cbn [attrs_of]. rewrite Hg. eexists. reflexivity. }
  destruct Hd as [tr0 H0]. unfold bind at 1. rewrite H0.
  destruct (del_member_root (mkst _ tr0) (adel "geff" a) ch path_NODES eq_refl) as [tr1 H1]. unfold bind at 1. rewrite H1.
  destruct (del_member_root (mkst _ tr1) (adel "geff" a) (adel path_NODES ch) path_EDGES eq_refl) as [tr2 H2]. unfold bind at 1. rewrite H2.
  unfold bind at 1. rewrite (setup_group_ok (mkst _ tr2) (adel "geff" a) _ eq_refl). cbn [children]. unfold cleaned.
  destruct (adel path_EDGES (adel path_NODES ch)) as [|kv c] eqn:Ech; destruct k; eexists; reflexivity.
Qed.

Theorem tail_reject k s a ch :
  s_root s = Some (ZG a ch) -> ahas "geff" a = true ->
  validate_structure k (Some (ZG a ch)) = Err ValueError ->
  exists tr, write_tail k true s = (mkst (cleaned k a ch) tr, Err ValueError).
Proof. intros Hs Hg Hv. unfold write_tail, bind, get_root. rewrite Hs, Hv.
  destruct (delete_geff_root k s a ch Hs Hg) as [tr Hd]. unfold try_any. rewrite Hd. eexists. reflexivity. Qed.

(* what `cleaned` keeps: every member other than nodes/edges and every attribute other than geff *)
Theorem cleaned_frame k a ch root' :
  cleaned k a ch = Some root' ->
  (forall name, name <> path_NODES -> name <> path_EDGES -> get root' name = alookup name ch) /\
  (forall key, key <> "geff" -> alookup key (attrs_of root') = alookup key a) /\
  get root' path_NODES = None /\ get root' path_EDGES = None /\ geff_attr root' = None.
Proof. unfold cleaned. intros H.
  assert (Hr : root' = ZG (adel "geff" a) (adel path_EDGES (adel path_NODES ch))).
  { destruct (adel path_EDGES (adel path_NODES ch)); destruct k; inversion H; reflexivity. }
  subst root'. unfold get, geff_attr. cbn [children attrs_of]. repeat split.
  - intros name Hn He. rewrite !alookup_adel_other; auto.
  - intros key Hk. apply alookup_adel_other. exact Hk.
  - rewrite alookup_adel_other; [apply alookup_adel_same | discriminate].
  - apply alookup_adel_same.
  - rewrite alookup_adel_same. reflexivity.
Qed.
