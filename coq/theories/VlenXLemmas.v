(* VlenXLemmas.v -- proofs about VlenX.v (dtype identity, `missing`, the whole
   pipeline) used by props/C11.v, and the refinement VlenX -> Vlen. *)
From Coq Require Import Permutation QArith.
From Geff Require Import Base Dtype DtypeLemmas Vlen VlenLemmas VlenCast VlenCastLemmas VlenX.
Open Scope Z_scope.
Open Scope nat_scope.
Open Scope list_scope.

(* ---------- numpy dtype equality ---------- *)
Lemma xdt_same_eq a b : xdt_same a b = true <-> a = b.
Proof.
  destruct a as [ba sa wa], b as [bb sb wb]. unfold xdt_same. cbn [x_base x_swap x_width].
  rewrite !andb_true_iff, dtype_eqb_eq, Bool.eqb_true_iff, Nat.eqb_eq. split.
  - intros [[-> ->] ->]. reflexivity.
  - intros H. inversion H. auto.
Qed.

Lemma xdt_eqb_canon a b : xdt_eqb a b = true <-> canon a = canon b.
Proof. unfold xdt_eqb. apply xdt_same_eq. Qed.

Lemma xdt_eqb_refl a : xdt_eqb a a = true.
Proof. apply xdt_eqb_canon. reflexivity. Qed.

Lemma canon_base a b : canon a = canon b -> x_base a = x_base b.
Proof. intros H. apply (f_equal x_base) in H. exact H. Qed.

Lemma canon_to_native a b : canon a = canon b -> to_native a = to_native b.
Proof.
  intros H. pose proof (canon_base _ _ H) as Hb. apply (f_equal x_width) in H. cbn in H.
  unfold to_native. rewrite <- Hb in *. rewrite H. reflexivity.
Qed.

Lemma canon_idem a : canon (canon a) = canon a.
Proof.
  destruct a as [b s w]. unfold canon. cbn [x_base x_swap x_width]. f_equal.
  - destruct s, (has_order b); reflexivity.
  - destruct (has_width b); reflexivity.
Qed.

Lemma to_native_idem a : to_native (to_native a) = to_native a.
Proof. destruct a as [b s w]. unfold to_native. cbn [x_base x_width]. destruct (has_width b); reflexivity. Qed.

Lemma canon_native_fix a : to_native a = a -> canon a = a.
Proof.
  destruct a as [b s w]. unfold to_native, canon. cbn [x_base x_swap x_width]. intros H. inversion H as [[Hs Hw]].
  rewrite Hw. cbn [andb]. rewrite Hw. reflexivity.
Qed.

(* ---------- the model refines Vlen.serialize ---------- *)
Lemma xser_go_forget vals : forall nd dt off r,
  xser_go nd dt off vals = Ok r ->
  ser_go nd (option_map x_base dt) off (map forget vals) = Ok r.
Proof.
  induction vals as [|a rest IH]; intros nd dt off r H; cbn in H; cbn [map ser_go].
  - exact H.
  - destruct (match nd with None => true | Some n => Nat.eqb (length (xv_shape a)) n end) eqn:En; [|discriminate].
    destruct (match dt with None => true | Some d => xdt_eqb (xv_dt a) d end) eqn:Ed; [|discriminate].
    destruct (xser_go (Some (match nd with None => length (xv_shape a) | Some n => n end))
                      (Some (match dt with None => xv_dt a | Some d => d end))
                      (off + size (xv_shape a)) rest) as [[rows data]|e] eqn:Er; [|discriminate].
    apply IH in Er. cbn [option_map] in Er.
    assert (Hn : (match nd with None => length (xv_shape a) | Some n => n end) = length (xv_shape a)).
    { destruct nd as [n|]; [apply Nat.eqb_eq in En; congruence | reflexivity]. }
    assert (Hd : x_base (match dt with None => xv_dt a | Some d => d end) = x_base (xv_dt a)).
    { destruct dt as [d|]; [apply xdt_eqb_canon, canon_base in Ed; congruence | reflexivity]. }
    rewrite Hn, Hd in Er. cbn [forget v_shape v_dt v_flat].
    replace (match nd with None => true | Some n => Nat.eqb n (length (xv_shape a)) end) with true
      by (destruct nd as [n|]; [rewrite Nat.eqb_sym; symmetry; exact En | reflexivity]).
    replace (match option_map x_base dt with None => true | Some d => dtype_eqb d (x_base (xv_dt a)) end) with true
      by (destruct dt as [d|]; cbn [option_map];
          [apply xdt_eqb_canon, canon_base in Ed; rewrite Ed; symmetry; apply dtype_eqb_refl | reflexivity]).
    change (v_shape (forget a)) with (xv_shape a) in Er. change (v_dt (forget a)) with (x_base (xv_dt a)) in Er.
    rewrite Er. exact H.
Qed.

Lemma xser_dtype_base vals : x_base (xser_dtype vals) = ser_dtype (map forget vals).
Proof. destruct vals; reflexivity. Qed.

Theorem xserialize_refines vals miss rows m data ddt :
  xserialize vals miss = Ok (rows, m, data, ddt) ->
  serialize (map forget vals) = Ok (rows, data) /\ m = miss /\ ddt = xser_dtype vals /\
  x_base ddt = ser_dtype (map forget vals).
Proof.
  unfold xserialize. intros H.
  destruct (xser_go None None 0 vals) as [[rows' data']|e] eqn:E; [|discriminate].
  inversion H; subst. apply xser_go_forget in E. cbn [option_map] in E.
  split; [exact E|]. split; [reflexivity|]. split; [reflexivity | apply xser_dtype_base].
Qed.

(* ---------- the encoder accepts exactly the sequences of one rank and one numpy dtype ---------- *)
Definition xuniform (vals : list xvarr) : Prop :=
  forall a b, In a vals -> In b vals ->
    length (xv_shape a) = length (xv_shape b) /\ canon (xv_dt a) = canon (xv_dt b).

Lemma xser_go_some_ok vals : forall n d off,
  (exists r, xser_go (Some n) (Some d) off vals = Ok r) <->
  Forall (fun a => length (xv_shape a) = n /\ canon (xv_dt a) = canon d) vals.
Proof.
  induction vals as [|a rest IH]; intros n d off; cbn [xser_go].
  - split; [constructor | eexists; reflexivity].
  - split.
    + intros [res H].
      destruct (Nat.eqb (length (xv_shape a)) n) eqn:En; [|discriminate].
      destruct (xdt_eqb (xv_dt a) d) eqn:Ed; [|discriminate].
      destruct (xser_go (Some n) (Some d) (off + size (xv_shape a)) rest) as [[rows data]|e] eqn:Er; [|discriminate].
      constructor; [split; [apply Nat.eqb_eq; exact En | apply xdt_eqb_canon; exact Ed]|].
      apply (IH n d (off + size (xv_shape a))). eexists; exact Er.
    + intros Hu. inversion Hu as [|? ? [Hn Hd] Hr]; subst.
      rewrite Nat.eqb_refl. apply xdt_eqb_canon in Hd. rewrite Hd.
      destruct (proj2 (IH (length (xv_shape a)) d (off + size (xv_shape a))) Hr) as [[rows data] Hx].
      rewrite Hx. eexists; reflexivity.
Qed.

Theorem xserialize_ok_iff vals miss : (exists r, xserialize vals miss = Ok r) <-> xuniform vals.
Proof.
  unfold xserialize, xuniform. destruct vals as [|a rest].
  - cbn. split; [intros _ a b [] | intros _; eexists; reflexivity].
  - cbn [xser_go]. split.
    + intros [res H].
      destruct (xser_go (Some (length (xv_shape a))) (Some (xv_dt a)) (0 + size (xv_shape a)) rest)
        as [[rows data]|e] eqn:Er; [|discriminate].
      assert (Hf : Forall (fun x => length (xv_shape x) = length (xv_shape a) /\ canon (xv_dt x) = canon (xv_dt a)) (a :: rest)).
      { constructor; [split; reflexivity|]. apply (xser_go_some_ok rest _ _ (0 + size (xv_shape a))). eexists; exact Er. }
      rewrite Forall_forall in Hf. intros x y Hx Hy.
      destruct (Hf x Hx) as [H1 H2]. destruct (Hf y Hy) as [H3 H4]. split; congruence.
    + intros Hu.
      assert (Hr : Forall (fun x => length (xv_shape x) = length (xv_shape a) /\ canon (xv_dt x) = canon (xv_dt a)) rest).
      { apply Forall_forall. intros x Hx. apply Hu; [right; exact Hx | left; reflexivity]. }
      destruct (proj2 (xser_go_some_ok rest _ _ (0 + size (xv_shape a))) Hr) as [[rows data] Hx].
      rewrite Hx. eexists; reflexivity.
Qed.

(* on native numeric elements the name-level model and this one accept the same sequences *)
Definition native_numeric (a : xvarr) : bool :=
  is_numeric (x_base (xv_dt a)) && negb (x_swap (xv_dt a) && has_order (x_base (xv_dt a))).

Lemma native_numeric_canon a b :
  native_numeric a = true -> native_numeric b = true ->
  (canon (xv_dt a) = canon (xv_dt b) <-> x_base (xv_dt a) = x_base (xv_dt b)).
Proof.
  unfold native_numeric. rewrite !andb_true_iff, !negb_true_iff. intros [Ha Hsa] [Hb Hsb].
  split; [apply canon_base|]. intros Hbase. unfold canon. rewrite Hsa, Hsb, Hbase.
  replace (has_width (x_base (xv_dt b))) with false; [reflexivity|].
  destruct (x_base (xv_dt b)); cbn in Hb; try discriminate; reflexivity.
Qed.

Theorem xserialize_ok_native vals miss :
  forallb native_numeric vals = true ->
  ((exists r, xserialize vals miss = Ok r) <-> uniform (map forget vals)).
Proof.
  intros Hn. rewrite xserialize_ok_iff. rewrite forallb_forall in Hn.
  unfold xuniform, uniform. destruct vals as [|a rest]; [cbn; split; [trivial | intros _ x y []]|].
  cbn [map]. unfold uniform_with. change (forget a :: map forget rest) with (map forget (a :: rest)).
  rewrite Forall_forall. split.
  - intros Hu x Hx. apply in_map_iff in Hx. destruct Hx as [y [<- Hy]].
    destruct (Hu y a Hy (or_introl eq_refl)) as [H1 H2]. cbn [forget v_shape v_dt].
    split; [exact H1 | apply canon_base; exact H2].
  - intros Hf x y Hx Hy.
    destruct (Hf (forget x) (in_map forget _ _ Hx)) as [H1 H2].
    destruct (Hf (forget y) (in_map forget _ _ Hy)) as [H3 H4].
    cbn [forget v_shape v_dt] in *. split; [congruence|].
    apply native_numeric_canon; [apply Hn; exact Hx | apply Hn; exact Hy | congruence].
Qed.

(* ---------- round trip: shape, contents, dtype (native byte order) and `missing` ---------- *)
Definition as_native (a : xvarr) : xvarr :=
  {| xv_dt := to_native (xv_dt a); xv_shape := xv_shape a; xv_flat := xv_flat a |}.

Lemma xwf_forget vals : Forall xwf vals -> Forall wf_varr (map forget vals).
Proof. intros H. apply Forall_map. eapply Forall_impl; [|exact H]. intros a Ha. exact Ha. Qed.

Theorem xserialize_deserialize vals miss rows m data ddt :
  Forall xwf vals -> xserialize vals miss = Ok (rows, m, data, ddt) ->
  xdeserialize rows m ddt data = Ok (map as_native vals, miss).
Proof.
  intros Hwf H.
  assert (Hu : xuniform vals) by (apply (xserialize_ok_iff vals miss); eexists; exact H).
  destruct (xserialize_refines _ _ _ _ _ _ H) as [Hs [-> [-> _]]].
  unfold xdeserialize. rewrite (serialize_deserialize _ _ _ (xwf_forget _ Hwf) Hs).
  f_equal. f_equal. rewrite !map_map. apply map_ext_in. intros a Ha.
  unfold as_native, elem_view. cbn [fst snd forget v_shape v_flat]. f_equal.
  destruct vals as [|a0 rest]; [destruct Ha|]. cbn [xser_dtype].
  apply canon_to_native. apply (Hu a0 a); [left; reflexivity | exact Ha].
Qed.

(* ---------- normalisation ---------- *)
Lemma xmax_rank_ge elems a : In a elems -> length (xv_shape a) <= xmax_rank elems.
Proof.
  induction elems as [|x r IH]; intros Hin; [destruct Hin|].
  change (xmax_rank (x :: r)) with (Nat.max (length (xv_shape x)) (xmax_rank r)).
  destruct Hin as [<-|Hin]; [lia | specialize (IH Hin); lia].
Qed.

Lemma xmax_rank_attained elems : elems <> [] -> exists a, In a elems /\ length (xv_shape a) = xmax_rank elems.
Proof.
  induction elems as [|x r IH]; intros Hne; [contradiction|].
  change (xmax_rank (x :: r)) with (Nat.max (length (xv_shape x)) (xmax_rank r)).
  destruct r as [|y r'].
  - exists x. split; [left; reflexivity|]. cbn. lia.
  - destruct IH as [a [Ha Hr]]; [discriminate|].
    destruct (Nat.le_ge_cases (xmax_rank (y :: r')) (length (xv_shape x))) as [Hle|Hge].
    + exists x. split; [left; reflexivity | lia].
    + exists a. split; [right; exact Ha | lia].
Qed.

Lemma max_width_ge ds d : In d ds -> x_width d <= max_width ds.
Proof.
  induction ds as [|x r IH]; intros Hin; [destruct Hin|]. cbn [max_width].
  destruct Hin as [<-|Hin]; [lia | specialize (IH Hin); lia].
Qed.

(* what np.result_type answers is a native, canonical dtype *)
Lemma xresult_type_native ds dt : xresult_type ds = Some dt -> to_native dt = dt.
Proof.
  unfold xresult_type. destruct (map x_base ds) as [|b bs]; [discriminate|].
  destruct (forallb is_numeric (b :: bs)).
  { intros H; inversion H. unfold to_native, native. cbn [x_base x_width].
    destruct (has_width (result_type_num (b :: bs))); reflexivity. }
  destruct (forallb (fun b0 => is_numeric b0 || is_obj b0) (b :: bs)); [intros H; inversion H; reflexivity|].
  destruct (forallb (dtype_eqb DStr) (b :: bs)); [intros H; inversion H; reflexivity|].
  destruct (forallb (dtype_eqb DBytes) (b :: bs)); [intros H; inversion H; reflexivity | discriminate].
Qed.

Lemma xcommon_native l dt nd : xcommon_type_dims l = Ok (dt, nd) -> to_native dt = dt.
Proof.
  unfold xcommon_type_dims. destruct (somes l) as [|e es]; [intros H; inversion H; reflexivity|].
  destruct (kinds_clash (map x_base (map xv_dt (e :: es)))); [discriminate|].
  destruct (xresult_type (map xv_dt (e :: es))) as [d|] eqn:Er; [|discriminate].
  destruct (forallb (fun d0 => xcan_cast d0 d) (map xv_dt (e :: es))); [|discriminate].
  intros H; inversion H; subst. apply (xresult_type_native _ _ Er).
Qed.

Lemma xcommon_spec l dt nd :
  xcommon_type_dims l = Ok (dt, nd) ->
  forall a, In (Some a) l -> xcan_cast (xv_dt a) dt = true /\ length (xv_shape a) <= nd.
Proof.
  unfold xcommon_type_dims. intros H a Ha. apply somes_In in Ha.
  destruct (somes l) as [|e es] eqn:Es; [destruct Ha|].
  destruct (kinds_clash (map x_base (map xv_dt (e :: es)))); [discriminate|].
  destruct (xresult_type (map xv_dt (e :: es))) as [d|]; [|discriminate].
  destruct (forallb (fun d0 => xcan_cast d0 d) (map xv_dt (e :: es))) eqn:Ef; [|discriminate].
  inversion H; subst. split.
  - rewrite forallb_forall in Ef. apply Ef. apply in_map. exact Ha.
  - apply (xmax_rank_ge (e :: es)). exact Ha.
Qed.

Definition flags_of (l : list (option xvarr)) : option (list bool) :=
  if existsb (fun b => b) (map is_none l) then Some (map is_none l) else None.

Theorem xconstruct_spec l vals miss :
  xconstruct l = Ok (vals, miss) ->
  exists dt nd,
    xcommon_type_dims l = Ok (dt, nd) /\ to_native dt = dt /\
    length vals = length l /\ miss = flags_of l /\
    Forall (fun v => xv_dt v = dt /\ length (xv_shape v) = nd) vals /\
    (forall i a, nth_error l i = Some (Some a) ->
       xcan_cast (xv_dt a) dt = true /\
       exists v, nth_error vals i = Some v /\ xv_dt v = dt /\
         xv_shape v = repeat 1 (nd - length (xv_shape a)) ++ xv_shape a /\
         size (xv_shape v) = size (xv_shape a) /\
         xv_flat v = map (xcast_payload (xv_dt a) dt) (xv_flat a)) /\
    (forall i, nth_error l i = Some None ->
       exists v, nth_error vals i = Some v /\ xv_shape v = repeat 0 nd).
Proof.
  unfold xconstruct. intros H.
  destruct (xcommon_type_dims l) as [[dt nd]|e] eqn:Ec; [|discriminate].
  inversion H; subst vals miss; clear H.
  exists dt, nd. split; [reflexivity|]. split; [exact (xcommon_native _ _ _ Ec)|].
  split; [apply map_length|]. split; [reflexivity|].
  pose proof (xcommon_spec l dt nd Ec) as Hs.
  split; [|split].
  - apply Forall_forall. intros v Hv. apply in_map_iff in Hv. destruct Hv as [o [<- Ho]].
    destruct o as [a|]; cbn.
    + split; [reflexivity|]. apply length_pad. apply (Hs a Ho).
    + split; [reflexivity | apply repeat_length].
  - intros i a Hi. split; [apply (Hs a); eapply nth_error_In; exact Hi|].
    eexists. split; [rewrite nth_error_map, Hi; reflexivity|]. cbn.
    split; [reflexivity|]. split; [reflexivity|]. split; [apply size_pad | reflexivity].
  - intros i Hi. eexists. split; [rewrite nth_error_map, Hi; reflexivity | reflexivity].
Qed.

(* exactly the None entries are flagged *)
Lemma flags_exact l i :
  nth_error l i = Some None <-> (exists m, flags_of l = Some m /\ nth_error m i = Some true).
Proof.
  unfold flags_of. split.
  - intros Hi.
    assert (Hex : existsb (fun b => b) (map is_none l) = true).
    { apply existsb_exists. exists true. split; [|reflexivity].
      apply in_map_iff. exists None. split; [reflexivity | eapply nth_error_In; exact Hi]. }
    rewrite Hex. eexists. split; [reflexivity|]. rewrite nth_error_map, Hi. reflexivity.
  - intros [m [Hm Hi]]. destruct (existsb (fun b => b) (map is_none l)); [|discriminate].
    inversion Hm; subst m. rewrite nth_error_map in Hi.
    destruct (nth_error l i) as [[a|]|]; cbn in Hi; try discriminate. reflexivity.
Qed.

Lemma flags_length l m : flags_of l = Some m -> length m = length l.
Proof.
  unfold flags_of. destruct (existsb (fun b => b) (map is_none l)); [|discriminate].
  intros H; inversion H. apply map_length.
Qed.

Lemma xnormalise_wf dt nd o : (forall a, o = Some a -> xwf a) -> xwf (xnormalise_one dt nd o).
Proof.
  intros H. destruct o as [a|]; unfold xwf; cbn.
  - rewrite map_length, size_pad. apply H. reflexivity.
  - apply repeat_length.
Qed.

Lemma xconstruct_wf l vals miss :
  (forall a, In (Some a) l -> xwf a) -> xconstruct l = Ok (vals, miss) -> Forall xwf vals.
Proof.
  unfold xconstruct. intros Hwf H.
  destruct (xcommon_type_dims l) as [[dt nd]|e]; [|discriminate]. inversion H; subst.
  apply Forall_forall. intros v Hv. apply in_map_iff in Hv. destruct Hv as [o [<- Ho]].
  apply xnormalise_wf. intros a ->. apply Hwf. exact Ho.
Qed.

(* the normalised sequence is accepted by the encoder, and decoding gives it back *)
Theorem xconstruct_serializable l vals miss m' :
  xconstruct l = Ok (vals, miss) -> exists r, xserialize vals m' = Ok r.
Proof.
  intros H. destruct (xconstruct_spec _ _ _ H) as [dt [nd [_ [_ [_ [_ [Hu _]]]]]]].
  apply xserialize_ok_iff. rewrite Forall_forall in Hu. intros a b Ha Hb.
  destruct (Hu a Ha) as [H1 H2]. destruct (Hu b Hb) as [H3 H4]. split; congruence.
Qed.

Lemma as_native_fix vals dt :
  to_native dt = dt -> Forall (fun v => xv_dt v = dt) vals -> map as_native vals = vals.
Proof.
  intros Hdt Hf. induction Hf as [|v r Hv _ IH]; [reflexivity|]. cbn [map]. rewrite IH. f_equal.
  destruct v as [d s f]. unfold as_native. cbn in *. subst d. rewrite Hdt. reflexivity.
Qed.

Theorem xpipeline_spec l vals miss :
  (forall a, In (Some a) l -> xwf a) ->
  xconstruct l = Ok (vals, miss) ->
  xpipeline l = Ok (vals, miss) /\ miss = flags_of l /\ length vals = length l.
Proof.
  intros Hwf H. unfold xpipeline. rewrite H.
  destruct (xconstruct_serializable _ _ _ miss H) as [[[[rows m] data] ddt] Hs].
  rewrite Hs.
  destruct (xconstruct_spec _ _ _ H) as [dt [nd [_ [Hdt [Hlen [Hm [Hu _]]]]]]].
  rewrite (xserialize_deserialize _ _ _ _ _ _ (xconstruct_wf _ _ _ Hwf H) Hs).
  rewrite (as_native_fix vals dt Hdt); [auto|].
  eapply Forall_impl; [|exact Hu]. intros v [Hv _]. exact Hv.
Qed.

(* ---------- when does normalisation fail ---------- *)
Definition bases (l : list (option xvarr)) : list dtype := map x_base (map xv_dt (somes l)).

(* declarative reading of the guard: two elements of different kinds, one element a string *)
Definition mixes_strings (bs : list dtype) : Prop :=
  (exists a b, In a bs /\ In b bs /\ kcode a <> kcode b) /\ (exists c, In c bs /\ has_width c = true).

Lemma kinds_clash_iff bs : kinds_clash bs = true <-> mixes_strings bs.
Proof.
  unfold kinds_clash, mixes_strings. destruct bs as [|b r].
  - split; [discriminate | intros [[a [_ [[] _]]] _]].
  - rewrite andb_true_iff, negb_true_iff, existsb_exists. split.
    + intros [Hk Hw]. split; [|exact Hw].
      destruct (forallb_forall (fun e => Nat.eqb (kcode e) (kcode b)) (b :: r)) as [_ Hall].
      assert (Hnot : ~ (forall x, In x (b :: r) -> Nat.eqb (kcode x) (kcode b) = true)).
      { intros Hx. rewrite (Hall Hx) in Hk. discriminate. }
      clear Hall.
      (* find the element whose kind differs from the head *)
      assert (Hex : exists x, In x (b :: r) /\ Nat.eqb (kcode x) (kcode b) = false).
      { clear Hw Hnot. induction (b :: r) as [|y l IH] in Hk |- *; [discriminate|].
        cbn [forallb] in Hk. destruct (Nat.eqb (kcode y) (kcode b)) eqn:E.
        - cbn [andb] in Hk. destruct (IH Hk) as [x [Hx Hxe]]. exists x. split; [right; exact Hx | exact Hxe].
        - exists y. split; [left; reflexivity | exact E]. }
      destruct Hex as [x [Hx Hxe]]. exists x, b. split; [exact Hx|]. split; [left; reflexivity|].
      apply Nat.eqb_neq. exact Hxe.
    + intros [[x [y [Hx [Hy Hne]]]] Hw]. split; [|exact Hw].
      destruct (forallb (fun e => Nat.eqb (kcode e) (kcode b)) (b :: r)) eqn:E; [|reflexivity].
      rewrite forallb_forall in E. pose proof (E x Hx) as E1. pose proof (E y Hy) as E2.
      apply Nat.eqb_eq in E1, E2. congruence.
Qed.

Lemma kcode_str d : kcode d = 4 -> d = DStr.
Proof. destruct d; cbn; intros H; try discriminate; reflexivity. Qed.
Lemma kcode_bytes d : kcode d = 5 -> d = DBytes.
Proof. destruct d; cbn; intros H; try discriminate; reflexivity. Qed.

Lemma numeric_target_cast a b :
  is_numeric (x_base b) = true -> xcan_cast a b = (if is_numeric (x_base a) then can_cast_safe (x_base a) (x_base b) else false).
Proof. unfold xcan_cast. destruct (x_base b); cbn; intros H; try discriminate; reflexivity. Qed.

(* without the clash np.result_type answers and the can_cast loop never fires *)
Lemma xresult_total ds :
  ds <> [] -> kinds_clash (map x_base ds) = false ->
  exists dt, xresult_type ds = Some dt /\ forallb (fun d => xcan_cast d dt) ds = true.
Proof.
  intros Hne Hk. unfold xresult_type.
  destruct ds as [|d0 r]; [contradiction|]. cbn [map].
  change (x_base d0 :: map x_base r) with (map x_base (d0 :: r)).
  assert (Hk' : negb (forallb (fun e => Nat.eqb (kcode e) (kcode (x_base d0))) (map x_base (d0 :: r)))
                && existsb has_width (map x_base (d0 :: r)) = false) by exact Hk.
  clear Hk. rename Hk' into Hk.
  set (ds := d0 :: r) in *.
  destruct (forallb is_numeric (map x_base ds)) eqn:En.
  { eexists. split; [reflexivity|]. apply forallb_forall. intros d Hd.
    rewrite forallb_forall in En.
    assert (Hdn : is_numeric (x_base d) = true) by (apply En, in_map, Hd).
    destruct (result_type_num_upper (map x_base ds) (x_base d) (in_map x_base _ _ Hd) Hdn) as [H1 H2].
    rewrite numeric_target_cast; [|exact H2]. cbn [native x_base]. rewrite Hdn. exact H1. }
  destruct (forallb (fun b => is_numeric b || is_obj b) (map x_base ds)) eqn:Eo.
  { eexists. split; [reflexivity|]. apply forallb_forall. intros d _. reflexivity. }
  (* some element is a string: every element has its kind *)
  assert (Hw : existsb has_width (map x_base ds) = true).
  { apply existsb_exists.
    assert (Hex : exists x, In x (map x_base ds) /\ (is_numeric x || is_obj x) = false).
    { clear -Eo. induction (map x_base ds) as [|y l IH]; [discriminate|].
      cbn [forallb] in Eo. destruct (is_numeric y || is_obj y) eqn:E.
      - destruct (IH Eo) as [x [Hx Hxe]]. exists x. split; [right; exact Hx | exact Hxe].
      - exists y. split; [left; reflexivity | exact E]. }
    destruct Hex as [x [Hx Hxe]]. exists x. split; [exact Hx|]. destruct x; cbn in Hxe; try discriminate; reflexivity. }
  rewrite Hw, andb_true_r in Hk. apply negb_false_iff in Hk. rewrite forallb_forall in Hk.
  apply existsb_exists in Hw. destruct Hw as [w [Hwin Hww]].
  pose proof (Hk w Hwin) as Hwk. apply Nat.eqb_eq in Hwk.
  destruct w; cbn in Hww; try discriminate.
  - (* all str *)
    assert (Hall : forall x, In x (map x_base ds) -> x = DStr).
    { intros x Hx. specialize (Hk x Hx). apply Nat.eqb_eq in Hk. apply kcode_str. rewrite Hk, <- Hwk. reflexivity. }
    assert (Es : forallb (dtype_eqb DStr) (map x_base ds) = true).
    { apply forallb_forall. intros x Hx. rewrite (Hall x Hx). reflexivity. }
    rewrite Es. eexists. split; [reflexivity|]. apply forallb_forall. intros d Hd.
    unfold xcan_cast. cbn [x_base x_width]. rewrite (Hall (x_base d) (in_map x_base _ _ Hd)).
    apply Nat.leb_le. apply max_width_ge. exact Hd.
  - (* all bytes *)
    assert (Hall : forall x, In x (map x_base ds) -> x = DBytes).
    { intros x Hx. specialize (Hk x Hx). apply Nat.eqb_eq in Hk. apply kcode_bytes. rewrite Hk, <- Hwk. reflexivity. }
    assert (Es : forallb (dtype_eqb DStr) (map x_base ds) = false).
    { unfold ds. cbn [map forallb]. rewrite (Hall (x_base d0)); [reflexivity | unfold ds; left; reflexivity]. }
    assert (Eb : forallb (dtype_eqb DBytes) (map x_base ds) = true).
    { apply forallb_forall. intros x Hx. rewrite (Hall x Hx). reflexivity. }
    rewrite Es, Eb. eexists. split; [reflexivity|]. apply forallb_forall. intros d Hd.
    unfold xcan_cast. cbn [x_base x_width]. rewrite (Hall (x_base d) (in_map x_base _ _ Hd)).
    apply Nat.leb_le. apply max_width_ge. exact Hd.
Qed.

Theorem xcommon_fails_iff l e :
  xcommon_type_dims l = Err e <-> e = ValueError /\ mixes_strings (bases l).
Proof.
  rewrite <- kinds_clash_iff. unfold xcommon_type_dims, bases.
  destruct (somes l) as [|a r] eqn:Es.
  - cbn. split; [discriminate | intros [_ H]; discriminate].
  - destruct (kinds_clash (map x_base (map xv_dt (a :: r)))) eqn:Ek.
    + split; [intros H; inversion H; auto | intros [-> _]; reflexivity].
    + destruct (xresult_total (map xv_dt (a :: r))) as [dt [Hr Hc]]; [discriminate | exact Ek|].
      rewrite Hr, Hc. split; [discriminate | intros [_ H]; discriminate].
Qed.

Theorem xconstruct_fails_iff l e :
  xconstruct l = Err e <-> e = ValueError /\ mixes_strings (bases l).
Proof.
  rewrite <- xcommon_fails_iff. unfold xconstruct.
  destruct (xcommon_type_dims l) as [[dt nd]|e']; split; intros H; try discriminate; inversion H; reflexivity.
Qed.

Definition xnumeric_input (l : list (option xvarr)) : bool := forallb is_numeric (bases l).

Lemma numeric_no_clash bs : forallb is_numeric bs = true -> kinds_clash bs = false.
Proof.
  intros Hn. destruct (kinds_clash bs) eqn:E; [|reflexivity].
  apply kinds_clash_iff in E. destruct E as [_ [c [Hc Hw]]].
  rewrite forallb_forall in Hn. specialize (Hn c Hc). destruct c; cbn in Hn, Hw; discriminate.
Qed.

Theorem xconstruct_total l :
  xnumeric_input l = true -> exists vals miss, xconstruct l = Ok (vals, miss).
Proof.
  intros Hn. destruct (xconstruct l) as [[vals miss]|e] eqn:E; [eexists; eexists; reflexivity|].
  apply xconstruct_fails_iff in E. destruct E as [_ E]. apply kinds_clash_iff in E.
  rewrite (numeric_no_clash _ Hn) in E. discriminate.
Qed.

Theorem xpipeline_total l :
  xnumeric_input l = true -> (forall a, In (Some a) l -> xwf a) ->
  exists vals, xconstruct l = Ok (vals, flags_of l) /\ xpipeline l = Ok (vals, flags_of l).
Proof.
  intros Hn Hwf. destruct (xconstruct_total l Hn) as [vals [miss H]].
  destruct (xpipeline_spec l vals miss Hwf H) as [Hp [Hm _]]. subst miss.
  exists vals. split; assumption.
Qed.

(* ---------- the rank of the result ---------- *)
Theorem xcommon_rank l dt nd :
  xcommon_type_dims l = Ok (dt, nd) ->
  ((forall o, In o l -> o = None) -> dt = native DI64 /\ nd = 1) /\
  ((exists a, In (Some a) l) ->
     (forall a, In (Some a) l -> length (xv_shape a) <= nd) /\
     (exists a, In (Some a) l /\ length (xv_shape a) = nd)).
Proof.
  intros H. split.
  - intros Hall. unfold xcommon_type_dims in H.
    destruct (somes l) as [|e es] eqn:Es; [inversion H; split; reflexivity|].
    assert (Hin : In e (somes l)) by (rewrite Es; left; reflexivity).
    apply somes_In in Hin. specialize (Hall _ Hin). discriminate.
  - intros [a0 Ha0]. split; [intros a Ha; apply (xcommon_spec l dt nd H a Ha)|].
    unfold xcommon_type_dims in H. apply somes_In in Ha0.
    destruct (somes l) as [|e es] eqn:Es; [destruct Ha0|].
    destruct (kinds_clash (map x_base (map xv_dt (e :: es)))); [discriminate|].
    destruct (xresult_type (map xv_dt (e :: es))) as [d|]; [|discriminate].
    destruct (forallb (fun d0 => xcan_cast d0 d) (map xv_dt (e :: es))); [|discriminate].
    inversion H; subst.
    destruct (xmax_rank_attained (e :: es)) as [a [Ha Hr]]; [discriminate|].
    exists a. split; [apply somes_In; rewrite Es; exact Ha | exact Hr].
Qed.

(* ---------- on numeric input this model IS Vlen.construct ---------- *)
Lemma somes_map {A B} (f : A -> B) l : somes (map (option_map f) l) = map f (somes l).
Proof. induction l as [|[a|] r IH]; cbn; [reflexivity | rewrite IH; reflexivity | exact IH]. Qed.

Lemma max_rank_forget elems : max_rank (map forget elems) = xmax_rank elems.
Proof. induction elems as [|a r IH]; cbn; [reflexivity | rewrite IH; reflexivity]. Qed.

Lemma bases_forget l : map v_dt (somes (map (option_map forget) l)) = bases l.
Proof. unfold bases. rewrite somes_map, !map_map. reflexivity. Qed.

Lemma common_numeric_value l :
  numeric_input l = true -> somes l <> [] ->
  common_type_dims l = Ok (result_type_num (map v_dt (somes l)), max_rank (somes l)).
Proof.
  unfold numeric_input, common_type_dims. intros Hn Hne.
  destruct (somes l) as [|e es]; [contradiction|].
  pose proof (can_cast_loop_dead _ Hn) as Hd. rewrite forallb_map in Hd.
  assert (Hrt : result_type (map v_dt (e :: es)) = Some (result_type_num (map v_dt (e :: es)))).
  { unfold result_type. rewrite Hn. reflexivity. }
  rewrite Hrt, Hd. reflexivity.
Qed.

Lemma xcommon_numeric_value l :
  xnumeric_input l = true -> somes l <> [] ->
  xcommon_type_dims l = Ok (native (result_type_num (bases l)), xmax_rank (somes l)).
Proof.
  unfold xnumeric_input, bases, xcommon_type_dims. intros Hn Hne.
  destruct (somes l) as [|e es]; [contradiction|].
  rewrite (numeric_no_clash _ Hn).
  assert (Hr : xresult_type (map xv_dt (e :: es)) = Some (native (result_type_num (map x_base (map xv_dt (e :: es)))))).
  { unfold xresult_type. cbn [map]. cbn [map] in Hn. rewrite Hn. reflexivity. }
  rewrite Hr.
  assert (Hc : forallb (fun d => xcan_cast d (native (result_type_num (map x_base (map xv_dt (e :: es)))))) (map xv_dt (e :: es)) = true).
  { apply forallb_forall. intros d Hd. rewrite forallb_forall in Hn.
    assert (Hdn : is_numeric (x_base d) = true) by (apply Hn, in_map, Hd).
    destruct (result_type_num_upper _ (x_base d) (in_map x_base _ _ Hd) Hdn) as [H1 H2].
    rewrite numeric_target_cast; [|exact H2]. cbn [native x_base]. rewrite Hdn. exact H1. }
  rewrite Hc. reflexivity.
Qed.

Lemma numeric_cast_payload a dt z :
  is_numeric dt = true -> xcast_payload a (native dt) z = cast_payload (x_base a) dt z.
Proof. unfold xcast_payload. cbn [native x_base]. destruct dt; cbn; intros H; try discriminate; reflexivity. Qed.

Lemma is_none_map {A B} (f : A -> B) l : map is_none (map (option_map f) l) = map is_none l.
Proof. induction l as [|[a|] r IH]; cbn; rewrite ?IH; reflexivity. Qed.

Theorem xconstruct_numeric l :
  xnumeric_input l = true ->
  xconstruct l = match construct (map (option_map forget) l) with
                 | Ok (vals, m) => Ok (map embed vals, m)
                 | Err e => Err e
                 end.
Proof.
  intros Hn.
  assert (Hn' : numeric_input (map (option_map forget) l) = true).
  { unfold numeric_input. rewrite bases_forget. exact Hn. }
  unfold xconstruct, construct. rewrite is_none_map.
  destruct (somes l) as [|e0 es0] eqn:Es.
  - (* no element: (int64, 1) on both sides *)
    assert (H1 : xcommon_type_dims l = Ok (native DI64, 1)) by (unfold xcommon_type_dims; rewrite Es; reflexivity).
    assert (H2 : common_type_dims (map (option_map forget) l) = Ok (DI64, 1))
      by (unfold common_type_dims; rewrite somes_map, Es; reflexivity).
    rewrite H1, H2. f_equal. f_equal. rewrite !map_map. apply map_ext_in. intros o Ho.
    destruct o as [a|]; [|reflexivity].
    apply somes_In in Ho. rewrite Es in Ho. destruct Ho.
  - assert (Hne : somes l <> []) by (rewrite Es; discriminate).
    assert (Hne' : somes (map (option_map forget) l) <> []) by (rewrite somes_map, Es; discriminate).
    rewrite (xcommon_numeric_value l Hn Hne), (common_numeric_value _ Hn' Hne').
    rewrite bases_forget. rewrite somes_map, max_rank_forget.
    assert (Hdt : is_numeric (result_type_num (bases l)) = true).
    { unfold bases. rewrite Es. cbn [map].
      apply (result_type_num_upper (x_base (xv_dt e0) :: map x_base (map xv_dt es0)) (x_base (xv_dt e0))); [left; reflexivity|].
      unfold xnumeric_input, bases in Hn. rewrite Es in Hn. cbn [map forallb] in Hn.
      apply andb_true_iff in Hn. exact (proj1 Hn). }
    f_equal. f_equal. rewrite !map_map. apply map_ext. intros o.
    destruct o as [a|]; cbn [option_map xnormalise_one normalise_one embed forget v_dt v_shape v_flat]; [|reflexivity].
    unfold embed. cbn [v_dt v_shape v_flat]. f_equal. apply map_ext. intros z. apply numeric_cast_payload. exact Hdt.
Qed.

(* ---------- order independence ---------- *)
Lemma kinds_clash_perm bs bs' : Permutation bs bs' -> kinds_clash bs = kinds_clash bs'.
Proof.
  intros H.
  assert (Himp : forall x y, Permutation x y -> kinds_clash x = true -> kinds_clash y = true).
  { intros x y Hp Hx. apply kinds_clash_iff in Hx. apply kinds_clash_iff.
    destruct Hx as [[a [b [Ha [Hb Hne]]]] [c [Hc Hw]]]. split.
    - exists a, b. split; [eapply Permutation_in; eauto|]. split; [eapply Permutation_in; eauto | exact Hne].
    - exists c. split; [eapply Permutation_in; eauto | exact Hw]. }
  destruct (kinds_clash bs) eqn:E1, (kinds_clash bs') eqn:E2; try reflexivity.
  - rewrite (Himp _ _ H E1) in E2. discriminate.
  - rewrite (Himp _ _ (Permutation_sym H) E2) in E1. discriminate.
Qed.

Lemma max_width_perm ds ds' : Permutation ds ds' -> max_width ds = max_width ds'.
Proof.
  induction 1 as [|x l l' _ IH|x y l|l l' l'' _ IH1 _ IH2]; cbn.
  - reflexivity.
  - rewrite IH. reflexivity.
  - lia.
  - congruence.
Qed.

Lemma xmax_rank_perm l l' : Permutation l l' -> xmax_rank l = xmax_rank l'.
Proof.
  induction 1 as [|x l l' _ IH|x y l|l l' l'' _ IH1 _ IH2]; cbn.
  - reflexivity.
  - rewrite IH. reflexivity.
  - lia.
  - congruence.
Qed.

Lemma xresult_type_perm ds ds' : Permutation ds ds' -> xresult_type ds = xresult_type ds'.
Proof.
  intros H. pose proof (Permutation_map x_base H) as Hb. unfold xresult_type.
  destruct (map x_base ds) as [|b r] eqn:E1; destruct (map x_base ds') as [|b' r'] eqn:E2.
  - reflexivity.
  - apply Permutation_nil in Hb. discriminate.
  - apply Permutation_sym, Permutation_nil in Hb. discriminate.
  - rewrite (forallb_perm is_numeric _ _ Hb), (result_type_num_perm _ _ Hb),
            (forallb_perm (fun b0 => is_numeric b0 || is_obj b0) _ _ Hb),
            (forallb_perm (dtype_eqb DStr) _ _ Hb), (forallb_perm (dtype_eqb DBytes) _ _ Hb),
            (max_width_perm _ _ H).
    reflexivity.
Qed.

Theorem xcommon_type_dims_perm l l' : Permutation l l' -> xcommon_type_dims l = xcommon_type_dims l'.
Proof.
  intros H. unfold xcommon_type_dims.
  pose proof (somes_perm _ _ H) as Hs.
  destruct (somes l) as [|e es] eqn:E1; destruct (somes l') as [|e' es'] eqn:E2.
  - reflexivity.
  - apply Permutation_nil in Hs. discriminate.
  - apply Permutation_sym, Permutation_nil in Hs. discriminate.
  - pose proof (Permutation_map xv_dt Hs) as Hd.
    rewrite (kinds_clash_perm _ _ (Permutation_map x_base Hd)).
    destruct (kinds_clash (map x_base (map xv_dt (e' :: es')))); [reflexivity|].
    rewrite (xresult_type_perm _ _ Hd).
    destruct (xresult_type (map xv_dt (e' :: es'))) as [d|]; [|reflexivity].
    rewrite (forallb_perm _ _ _ Hd), (xmax_rank_perm _ _ Hs). reflexivity.
Qed.

(* both orders are normalised by ONE elementwise function, so the results correspond
   under the permutation; errors coincide *)
Theorem xorder_free l l' : Permutation l l' ->
  xcommon_type_dims l = xcommon_type_dims l' /\
  match xconstruct l, xconstruct l' with
  | Ok (vals, _), Ok (vals', _) =>
      Permutation vals vals' /\ exists f, vals = map f l /\ vals' = map f l'
  | Err e, Err e' => e = e'
  | _, _ => False
  end.
Proof.
  intros H. split; [exact (xcommon_type_dims_perm _ _ H)|].
  unfold xconstruct. rewrite <- (xcommon_type_dims_perm _ _ H).
  destruct (xcommon_type_dims l) as [[dt nd]|e]; [|reflexivity].
  split; [apply Permutation_map; exact H|]. exists (xnormalise_one dt nd). split; reflexivity.
Qed.

(* ---------- the cast is exact (numbers; numbers stored in an object array) ---------- *)
Definition xdenote (d : xdt) (z : Z) : option Q :=
  if is_numeric (x_base d) then Some (denote (x_base d) z)
  else if is_obj (x_base d) then obj_denote z else None.

Definition qopt_eq (o o' : option Q) : Prop :=
  match o, o' with Some q, Some q' => Qeq q q' | _, _ => False end.

Definition xsame_values (a v : xvarr) : Prop :=
  Forall2 (fun z z' => qopt_eq (xdenote (xv_dt v) z') (xdenote (xv_dt a) z)) (xv_flat a) (xv_flat v).

Lemma tag_div z t : (0 <= t < 8)%Z -> ((8 * z + t) / 8 = z /\ (8 * z + t) mod 8 = t)%Z.
Proof.
  intros Ht. split.
  - symmetry. apply (Z.div_unique (8 * z + t) 8 z t); lia.
  - symmetry. apply (Z.mod_unique (8 * z + t) 8 z t); lia.
Qed.

Lemma obj_denote_tag d z :
  is_numeric d = true -> qopt_eq (obj_denote (8 * z + obj_tag d)) (Some (denote d z)).
Proof.
  intros Hd. unfold obj_denote.
  assert (Ht : (0 <= obj_tag d < 8)%Z) by (destruct d; cbn; lia).
  destruct (tag_div z (obj_tag d) Ht) as [-> ->].
  destruct d; cbn in Hd; try discriminate; cbn; apply Qeq_refl.
Qed.

Theorem xconstruct_exact l vals miss :
  xconstruct l = Ok (vals, miss) ->
  forall i a, nth_error l i = Some (Some a) ->
    is_numeric (x_base (xv_dt a)) = true ->
    forallb (in_range (x_base (xv_dt a))) (xv_flat a) = true ->
    exists v, nth_error vals i = Some v /\
      size (xv_shape v) = size (xv_shape a) /\
      (Forall (exact_side (x_base (xv_dt a)) (x_base (xv_dt v))) (xv_flat a) -> xsame_values a v).
Proof.
  intros H i a Hi Hn Hr.
  destruct (xconstruct_spec _ _ _ H) as [dt [nd [_ [_ [_ [_ [_ [Hel _]]]]]]]].
  destruct (Hel i a Hi) as [Hc [v [Hv [Hdt [_ [Hsz Hfl]]]]]].
  exists v. split; [exact Hv|]. split; [exact Hsz|].
  intros Hside. unfold xsame_values. rewrite Hfl, Hdt. rewrite Hdt in Hside.
  apply Forall2_map_r. rewrite forallb_forall in Hr. rewrite Forall_forall in Hside.
  apply Forall_forall. intros z Hz.
  unfold xdenote at 2. rewrite Hn.
  destruct (x_base dt) eqn:Eb;
    try (unfold xcan_cast in Hc; rewrite Eb, Hn in Hc; cbv iota in Hc;
         unfold xdenote, xcast_payload; rewrite Eb; cbn [is_numeric kind_of];
         match type of Hc with can_cast_safe _ ?d' = true =>
           apply (cast_exact_safe (x_base (xv_dt a)) d' z Hn eq_refl Hc (Hr z Hz) (Hside z Hz)) end).
  - (* str: a number is never cast to a string *)
    unfold xcan_cast in Hc. rewrite Eb in Hc. destruct (x_base (xv_dt a)); cbn in Hn, Hc; discriminate.
  - unfold xcan_cast in Hc. rewrite Eb in Hc. destruct (x_base (xv_dt a)); cbn in Hn, Hc; discriminate.
  - (* object: the Python number of the same value *)
    unfold xdenote, xcast_payload. rewrite Eb. cbn [is_numeric kind_of is_obj].
    replace (is_obj (x_base (xv_dt a))) with false by (destruct (x_base (xv_dt a)); cbn in Hn; try discriminate; reflexivity).
    apply obj_denote_tag. exact Hn.
Qed.
