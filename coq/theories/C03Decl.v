(* C03Decl.v -- a DECLARATIVE sufficient condition for the value domain of the C03 round-trip theorems.
   dom_values (C03Lemmas.v) is phrased through model functions (filled, col_dt, scalar_dt, py_shape); here the same domain is
   described on the attribute dictionaries themselves -- shapes and leaves of nested lists as inductive predicates, value classes
   as arithmetic conditions -- and `decl_dom d g -> dom_values d g` is proved, so that the round-trip theorems can be read
   without unfolding any model function.

   A property column (the optional value of every node, or of every edge, under one name) is in the domain when its PRESENT
   values are
     (S)  scalars of one class: all bool | all ints in [-2^63, 2^63) | all ints in [2^63, 2^64) | all floats | all strs (not
          ending in NUL) -- any subset of the elements may lack the property, EXCEPT in the class [2^63, 2^64), where every
          element must carry it (the fill value 0 is an int64 and numpy promotes int64 with uint64 to float64: the open finding
          int-beyond-int64-becomes-float);
     (F)  nested lists of ONE shape with at least one leaf, all leaves of one class (any subset may lack the property: the fill
          value is the first present list);
     (R)  nested lists of ONE rank, each with at least one leaf, at least two different shapes, all leaves of one class (ragged:
          a variable-length property);
     (E)  nested lists of ONE shape WITHOUT a leaf ([] everywhere, [[], []] everywhere, ...): a zero-size float64 array.
   Not covered (and outside dom_values): ints of both ranges in one column, a [2^63, 2^64) scalar column with a missing element,
   ragged columns mixing ranks or containing an empty list (open finding empty-list-types-array-column-float64), leaves of
   different classes, lists next to scalars. *)
From Geff Require Import Base Dtype DtypeLemmas Vlen VlenLemmas Tree TreeLemmas Validate Write Read RoundTrip WriteLemmas ReadLemmas
     ValidateLayout C01Lemmas Dicts Backends BackendsLemmas DictsLemmas ListColLemmas C03Lemmas Names.
From Coq Require Import Lia.
Open Scope string_scope.
Open Scope list_scope.

(* ---------- nested lists, declaratively ---------- *)
(* v is a rectangular nested list of shape sh (a scalar has shape []; the empty list has shape [0]) *)
Inductive has_shape : pyval -> list nat -> Prop :=
| hs_bool b : has_shape (PBool b) []
| hs_int z : has_shape (PInt z) []
| hs_float q : has_shape (PFloat q) []
| hs_str t : has_shape (PStr t) []
| hs_nil : has_shape (PList []) [0%nat]
| hs_cons x r s : has_shape x s -> Forall (fun y => has_shape y s) r -> has_shape (PList (x :: r)) (S (length r) :: s).

(* every scalar inside v satisfies P *)
Inductive all_leaves (P : pyval -> Prop) : pyval -> Prop :=
| al_bool b : P (PBool b) -> all_leaves P (PBool b)
| al_int z : P (PInt z) -> all_leaves P (PInt z)
| al_float q : P (PFloat q) -> all_leaves P (PFloat q)
| al_str t : P (PStr t) -> all_leaves P (PStr t)
| al_list l : Forall (all_leaves P) l -> all_leaves P (PList l).

(* ---------- value classes ---------- *)
Inductive leaf_class := LBool | LInt64 | LUInt64 | LFloat | LStr.

Definition in_class (c : leaf_class) (v : pyval) : Prop :=
  match c, v with
  | LBool, PBool _ => True
  | LInt64, PInt z => (- 2 ^ 63 <= z < 2 ^ 63)%Z
  | LUInt64, PInt z => (2 ^ 63 <= z < 2 ^ 64)%Z
  | LFloat, PFloat _ => True
  | LStr, PStr t => (0 <= t < nul_base)%Z          (* a string that does not end in NUL (interning convention, C03Lemmas.v) *)
  | _, _ => False
  end.

Definition dt_of_class (c : leaf_class) : dtype :=
  match c with LBool => DBool | LInt64 => DI64 | LUInt64 => DU64 | LFloat => DF64 | LStr => DStr end.

(* ---------- the declarative column domain ---------- *)
Definition no_missing (col : list (option pyval)) : Prop := forall o, In o col -> o <> None.

Inductive decl_col (col : list (option pyval)) : Prop :=
| dc_scalar c : col <> [] -> Forall (in_class c) (somes col) -> (c = LUInt64 -> no_missing col) -> decl_col col
| dc_fixed c sh : somes col <> [] -> sh <> [] -> size sh <> 0%nat ->
    Forall (fun v => has_shape v sh /\ all_leaves (in_class c) v) (somes col) -> decl_col col
| dc_ragged c r : r <> 0%nat ->
    Forall (fun v => exists sh, length sh = r /\ size sh <> 0%nat /\ has_shape v sh /\ all_leaves (in_class c) v) (somes col) ->
    (exists v1 v2 s1 s2, In v1 (somes col) /\ In v2 (somes col) /\ has_shape v1 s1 /\ has_shape v2 s2 /\ s1 <> s2) -> decl_col col
| dc_empty sh : somes col <> [] -> sh <> [] -> size sh = 0%nat -> Forall (fun v => has_shape v sh) (somes col) -> decl_col col.

Record decl_dom (d : bool) (g : dgraph) : Prop := {
  dd'_range : Forall (fun z => (0 <= z < 2 ^ 64)%Z) (map fst (d_nodes g));
  dd'_distinct : NoDup (map fst (d_nodes g));
  dd'_edistinct : distinctb (ekey_eqb d) (map fst (d_edges g)) = true;     (* no edge twice; (u,v) = (v,u) when undirected *)
  dd'_endpoints : forall e, In e (map fst (d_edges g)) -> In (fst e) (map fst (d_nodes g)) /\ In (snd e) (map fst (d_nodes g));
  dd'_ncols : forall name col, In name (keys_of (map snd (d_nodes g))) -> col = column (map snd (d_nodes g)) name ->
              name_ok name = true /\ decl_col col;
  dd'_ecols : forall name col, In name (keys_of (map snd (d_edges g))) -> col = column (map snd (d_edges g)) name ->
              name_ok name = true /\ decl_col col
}.

(* ================= proofs ================= *)
Lemma has_shape_py v : forall sh, has_shape v sh -> py_shape v = Some sh.
Proof.
  induction v as [b|z|q|t|l IH] using pyval_ind'; intros sh H; inversion H as [ | | | | |x r s H2 H3]; subst; try reflexivity.
  cbn [py_shape map]. apply Forall_cons_iff in IH. destruct IH as [IHx IHr].
  rewrite (IHx s H2). cbn [common_shape].
  assert (Hfa : forallb (fun o : option (list nat) => match o with Some s' => natlist_eqb s s' | None => false end) (map py_shape r) = true).
  { apply forallb_forall. intros o Ho. apply in_map_iff in Ho. destruct Ho as [y [<- Hy]].
    eapply Forall_forall in IHr; eauto. eapply Forall_forall in H3; eauto. rewrite (IHr s H3). apply natlist_eqb_eq. reflexivity. }
  rewrite Hfa. cbn [length]. rewrite map_length. reflexivity.
Qed.

Lemma has_shape_list v sh : has_shape v sh -> sh <> [] -> is_plist v = true.
Proof. intros H Hne. inversion H; subst; try contradiction; reflexivity. Qed.

Lemma all_leaves_py P v : all_leaves P v -> Forall P (py_leaves v).
Proof.
  induction v as [b|z|q|t|l IH] using pyval_ind'; intro H; inversion H as [? Hp|? Hp|? Hp|? Hp|? H1]; subst; cbn [py_leaves]; try (constructor; [assumption | constructor]).
  apply Forall_flat_map. apply Forall_forall. intros x Hx. eapply Forall_forall in IH; eauto. apply IH.
  eapply Forall_forall in H1; eauto.
Qed.

Lemma in_class_leaf c v : in_class c v -> leaf_ok (dt_of_class c) v.
Proof. destruct c, v; cbn; intro H; try contradiction; split; try reflexivity; cbn [scalar_dt].
  - assert (E : ((- 2 ^ 63 <=? z) && (z <? 2 ^ 63))%Z = true) by (apply andb_true_iff; split; [apply Z.leb_le | apply Z.ltb_lt]; lia).
    rewrite E. reflexivity.
  - assert (E1 : ((- 2 ^ 63 <=? z) && (z <? 2 ^ 63))%Z = false) by (apply andb_false_iff; right; apply Z.ltb_ge; lia).
    assert (E2 : ((2 ^ 63 <=? z) && (z <? 2 ^ 64))%Z = true) by (apply andb_true_iff; split; [apply Z.leb_le | apply Z.ltb_lt]; lia).
    rewrite E1, E2. reflexivity.
Qed.

Lemma dt_of_class_ok c : ok_dt (dt_of_class c).
Proof. unfold ok_dt. destruct c; cbn; auto. Qed.

Lemma in_class_str c v : in_class c v -> strs_ok_val v = true.
Proof. destruct c, v; cbn [in_class strs_ok_val]; intro H; try contradiction; try reflexivity.
  unfold str_tok_ok. apply andb_true_iff. split; [apply Z.leb_le | apply Z.ltb_lt]; lia. Qed.

Lemma all_leaves_str c v : all_leaves (in_class c) v -> strs_ok_val v = true.
Proof.
  induction v as [b|z|q|t|l IH] using pyval_ind'; intro H; inversion H as [? Hp|? Hp|? Hp|? Hp|? H1]; subst; try (eapply in_class_str; eassumption).
  cbn [strs_ok_val]. apply forallb_forall. intros x Hx. eapply Forall_forall in IH; eauto. apply IH. eapply Forall_forall in H1; eauto.
Qed.

Lemma has_shape_nolist_str v sh : has_shape v sh -> size sh = 0%nat -> strs_ok_val v = true.
Proof.
  revert sh. induction v as [b|z|q|t|l IH] using pyval_ind'; intros sh H Hz; inversion H as [ | | | | |x r s H2 H3]; subst; try reflexivity; try (cbn in Hz; discriminate).
  cbn [strs_ok_val]. rewrite size_cons in Hz. apply Nat.eq_mul_0 in Hz. destruct Hz as [Hz|Hz]; [discriminate|].
  apply forallb_forall. intros y Hy. pose proof (proj1 (Forall_forall _ _) IH y Hy) as IHy.
  assert (Hys : has_shape y s) by (destruct Hy as [<-|Hy]; [exact H2 | exact (proj1 (Forall_forall _ _) H3 y Hy)]).
  exact (IHy s Hys Hz).
Qed.

(* strs_ok from the present values *)
Lemma strs_ok_somes col : Forall (fun v => strs_ok_val v = true) (somes col) -> strs_ok col = true.
Proof. intro H. unfold strs_ok. apply forallb_forall. intros [v|] Ho; [|reflexivity].
  eapply Forall_forall in H; [exact H|]. apply somes_In. exact Ho. Qed.

(* the filled column: present values, and the fill value where an element lacks the property *)
Lemma filled_forall (P : pyval -> Prop) col : Forall P (somes col) -> P (determine_default col) -> Forall P (filled col).
Proof. intros Hs Hd. unfold filled. apply Forall_forall. intros v Hv. apply in_map_iff in Hv. destruct Hv as [[x|] [<- Hin]]; [|exact Hd].
  eapply Forall_forall in Hs; [exact Hs|]. apply somes_In. exact Hin. Qed.

Lemma default_first col v r : somes col = v :: r -> determine_default col = default_for_value v.
Proof. intro H. unfold determine_default. rewrite H. reflexivity. Qed.

Lemma filled_nomissing col : no_missing col -> filled col = somes col.
Proof. intro H. unfold filled. induction col as [|[v|] col IH]; cbn; [reflexivity| |].
  - f_equal. rewrite <- IH.
    + apply map_ext_in. intros [x|] Hx; [reflexivity|]. exfalso. apply (H None); [right; exact Hx | reflexivity].
    + intros o Ho. apply H. right. exact Ho.
  - exfalso. apply (H None); [left; reflexivity | reflexivity]. Qed.

Lemma col_dt_intro col d : filled col <> [] -> d <> DObj ->
  Forall (fun v => is_plist v = false /\ scalar_dt v = d) (filled col) -> col_dt col = Some d.
Proof.
  intros Hne Hd H. unfold col_dt. destruct (filled col) as [|v r]; [contradiction|].
  apply Forall_cons_iff in H. destruct H as [[Hv Hdv] Hr]. rewrite Hdv.
  assert (Hsd : forall y, is_plist y = false /\ scalar_dt y = d -> same_dt d y = true).
  { intros y [Hy1 Hy2]. unfold same_dt. rewrite Hy1, Hy2, dtype_eqb_refl. reflexivity. }
  rewrite (Hsd v (conj Hv Hdv)).
  assert (Hall : forallb (same_dt d) r = true) by (apply forallb_forall; intros y Hy; apply Hsd; eapply Forall_forall in Hr; eauto).
  rewrite Hall. destruct (dtype_eqb d DObj) eqn:E; [apply dtype_eqb_eq in E; contradiction|]. reflexivity.
Qed.

Lemma default_in_class c v : in_class c v -> c <> LUInt64 -> in_class c (default_for_value v).
Proof. destruct c, v; cbn; intros H Hc; try contradiction; try exact I; unfold nul_base; try lia. Qed.

Lemma filled_ne col : col <> [] -> filled col <> [].
Proof. intros H E. apply H. apply length_zero_iff_nil. rewrite <- (filled_length col), E. reflexivity. Qed.

Lemma common_shape_differ (vals : list pyval) v1 v2 s1 s2 :
  Forall (fun v => exists s, py_shape v = Some s) vals ->
  In v1 vals -> In v2 vals -> py_shape v1 = Some s1 -> py_shape v2 = Some s2 -> s1 <> s2 -> py_shape (PList vals) = None.
Proof.
  intros Hall H1 H2 Hs1 Hs2 Hne. cbn [py_shape]. destruct (common_shape (map py_shape vals)) as [sh|] eqn:E; [|reflexivity]. exfalso.
  destruct (common_shape_inv _ _ E) as [[Hn _]|[s [_ Hs]]].
  - apply map_eq_nil in Hn. subst vals. destruct H1.
  - assert (Ha : forall v, In v vals -> py_shape v = Some s) by (intros v Hv; eapply Forall_forall in Hs; [exact Hs | apply in_map; exact Hv]).
    rewrite (Ha v1 H1) in Hs1. rewrite (Ha v2 H2) in Hs2. congruence.
Qed.

Theorem decl_col_values col : decl_col col -> strs_ok col = true /\ val_col col.
Proof.
  intros [c Hne Hall Hu | c sh Hsne Hsh Hsz Hall | c r Hr Hall Hdiff | sh Hsne Hsh Hsz Hall].
  - (* scalars *)
    split; [apply strs_ok_somes; eapply Forall_impl; [|exact Hall]; intros v Hv; eapply in_class_str; exact Hv|].
    split; [exact Hne|]. left.
    destruct (somes col) as [|v0 r0] eqn:Es.
    + (* no present value at all: the column is filled with the int 0 *)
      exists DI64. apply col_dt_intro; [apply filled_ne; exact Hne | discriminate|].
      apply filled_forall; [rewrite Es; constructor|]. unfold determine_default. rewrite Es. split; reflexivity.
    + exists (dt_of_class c). apply col_dt_intro; [apply filled_ne; exact Hne | apply ok_dt_notobj; apply dt_of_class_ok|].
      destruct c.
      all: try (apply filled_forall; [rewrite Es; eapply Forall_impl; [|exact Hall]; intros v Hv; apply (in_class_leaf _ v Hv)|];
                rewrite (default_first col v0 r0 Es); apply in_class_leaf; apply default_in_class; [apply Forall_cons_iff in Hall; apply Hall | discriminate]).
      rewrite (filled_nomissing col (Hu eq_refl)), Es. eapply Forall_impl; [|exact Hall]. intros v Hv. apply (in_class_leaf _ v Hv).
  - (* lists of one shape *)
    assert (Hlv : Forall (list_val (dt_of_class c) sh) (somes col)).
    { eapply Forall_impl; [|exact Hall]. cbn. intros v [Hs Hl]. split; [apply (has_shape_list v sh Hs Hsh)|].
      split; [apply has_shape_py; exact Hs|]. split.
      - eapply Forall_impl; [|apply (all_leaves_py _ v Hl)]. intros x Hx. apply in_class_leaf. exact Hx.
      - intro E. apply Hsz. rewrite <- (leaves_length v sh (has_shape_py v sh Hs)), E. reflexivity. }
    split.
    + apply strs_ok_somes. eapply Forall_impl; [|exact Hall]. cbn. intros v [_ Hl]. eapply all_leaves_str; exact Hl.
    + assert (Hcne : col <> []) by (intro E; subst col; apply Hsne; reflexivity).
      split; [exact Hcne|]. right. left. exists (dt_of_class c), sh. split; [apply dt_of_class_ok|]. split; [exact Hsh|].
      apply filled_forall; [exact Hlv|]. destruct (somes col) as [|v0 r0] eqn:Es; [contradiction|].
      rewrite (default_first col v0 r0 Es). apply Forall_cons_iff in Hlv. destruct Hlv as [Hv0 _].
      destruct v0; try (destruct Hv0 as [Hp _]; discriminate). exact Hv0.
  - (* ragged *)
    assert (Hlv : Forall (fun v => exists sh, length sh = r /\ list_val (dt_of_class c) sh v) (somes col)).
    { eapply Forall_impl; [|exact Hall]. cbn. intros v [sh [Hlen [Hsz [Hs Hl]]]]. exists sh. split; [exact Hlen|].
      assert (Hshne : sh <> []) by (intro E; subst sh; cbn in Hlen; auto).
      split; [apply (has_shape_list v sh Hs Hshne)|].
      split; [apply has_shape_py; exact Hs|]. split.
      - eapply Forall_impl; [|apply (all_leaves_py _ v Hl)]. intros x Hx. apply in_class_leaf. exact Hx.
      - intro E. apply Hsz. rewrite <- (leaves_length v sh (has_shape_py v sh Hs)), E. reflexivity. }
    destruct Hdiff as [v1 [v2 [s1 [s2 [Hi1 [Hi2 [Hh1 [Hh2 Hne12]]]]]]]].
    assert (Hsne : somes col <> []) by (intro E; rewrite E in Hi1; destruct Hi1).
    assert (Hcne : col <> []) by (intro E; subst col; apply Hsne; reflexivity).
    assert (Hfl : Forall (fun v => exists sh, length sh = r /\ list_val (dt_of_class c) sh v) (filled col)).
    { apply filled_forall; [exact Hlv|]. destruct (somes col) as [|v0 r0] eqn:Es; [contradiction|].
      rewrite (default_first col v0 r0 Es). apply Forall_cons_iff in Hlv. destruct Hlv as [[sh0 [Hl0 Hv0]] _].
      destruct v0; try (destruct Hv0 as [Hp _]; discriminate). exists sh0. auto. }
    assert (Hin : forall v, In v (somes col) -> In v (filled col)).
    { intros v Hv. unfold filled. apply in_map_iff. exists (Some v). split; [reflexivity | apply somes_In; exact Hv]. }
    split.
    + apply strs_ok_somes. eapply Forall_impl; [|exact Hall]. cbn. intros v [sh [_ [_ [_ Hl]]]]. eapply all_leaves_str; exact Hl.
    + split; [exact Hcne|]. right. right. left. exists (dt_of_class c), r. split; [apply dt_of_class_ok|]. split; [|exact Hfl].
      apply (common_shape_differ (filled col) v1 v2 s1 s2); auto using has_shape_py.
      eapply Forall_impl; [|exact Hfl]. cbn. intros v [sh [_ [_ [Hs _]]]]. exists sh. exact Hs.
  - (* lists without a leaf *)
    assert (Hev : Forall (empty_val sh) (somes col)).
    { eapply Forall_impl; [|exact Hall]. cbn. intros v Hs. split; [apply (has_shape_list v sh Hs Hsh) | apply has_shape_py; exact Hs]. }
    split.
    + apply strs_ok_somes. eapply Forall_impl; [|exact Hall]. cbn. intros v Hs. apply (has_shape_nolist_str v sh Hs Hsz).
    + assert (Hcne : col <> []) by (intro E; subst col; apply Hsne; reflexivity).
      split; [exact Hcne|]. right. right. right. exists sh. split; [exact Hsh|]. split; [exact Hsz|].
      apply filled_forall; [exact Hev|]. destruct (somes col) as [|v0 r0] eqn:Es; [contradiction|].
      rewrite (default_first col v0 r0 Es). apply Forall_cons_iff in Hev. destruct Hev as [Hv0 _].
      destruct v0; try (destruct Hv0 as [Hp _]; discriminate). exact Hv0.
Qed.

Lemma nodup_distinctb ids : NoDup ids -> distinctb Z.eqb ids = true.
Proof. induction 1 as [|x l Hx Hl IH]; [reflexivity|]. cbn. rewrite IH. rewrite andb_true_r. apply negb_true_iff.
  destruct (existsb (Z.eqb x) l) eqn:E; [|reflexivity]. exfalso. apply existsb_exists in E. destruct E as [y [Hy He]].
  apply Z.eqb_eq in He. subst. contradiction. Qed.

Theorem decl_dom_values d g : decl_dom d g -> dom_values d g.
Proof.
  intros H. constructor.
  - exact (dd'_range _ _ H).
  - apply nodup_distinctb. exact (dd'_distinct _ _ H).
  - exact (dd'_edistinct _ _ H).
  - exact (dd'_endpoints _ _ H).
  - intros name Hin. destruct (dd'_ncols _ _ H name _ Hin eq_refl) as [Hn Hc]. destruct (decl_col_values _ Hc) as [Hs Hv]. auto.
  - intros name Hin. destruct (dd'_ecols _ _ H name _ Hin eq_refl) as [Hn Hc]. destruct (decl_col_values _ Hc) as [Hs Hv]. auto.
Qed.
