(* BackendsLemmas.v -- proofs about Backends.v, part 1: construct through networkx and rustworkx gives
   exactly the canonical view of the in-memory geff (canon_geff), for every well-formed geff of any size. *)
From Geff Require Import Base Dtype DtypeLemmas Vlen VlenLemmas Tree TreeLemmas Validate Write Read RoundTrip WriteLemmas ReadLemmas Dicts Backends.
From Coq Require Import Lia.
Open Scope string_scope.
Open Scope list_scope.

(* ---------- small list facts ---------- *)
Lemma combine_app {A B} (l1 l2 : list A) (m1 m2 : list B) :
  length l1 = length m1 -> combine (l1 ++ l2) (m1 ++ m2) = combine l1 m1 ++ combine l2 m2.
Proof. revert m1. induction l1 as [|x l IH]; intros [|y m] H; cbn in *; try discriminate; [reflexivity|].
  rewrite IH; [reflexivity | lia]. Qed.

Lemma map_fst_combine {A B} (l : list A) (m : list B) : length l = length m -> map fst (combine l m) = l.
Proof. revert m. induction l as [|x l IH]; intros [|y m] H; cbn in *; try discriminate; [reflexivity|].
  rewrite IH; [reflexivity | lia]. Qed.

Lemma map_snd_combine {A B} (l : list A) (m : list B) : length l = length m -> map snd (combine l m) = m.
Proof. revert m. induction l as [|x l IH]; intros [|y m] H; cbn in *; try discriminate; [reflexivity|].
  rewrite IH; [reflexivity | lia]. Qed.

Lemma nth_map_snd {A B} (l : list (A * B)) i da db : nth i (map snd l) db = snd (nth i l (da, db)).
Proof. exact (map_nth snd l (da, db) i). Qed.
Lemma nth_map_fst {A B} (l : list (A * B)) i da db : nth i (map fst l) da = fst (nth i l (da, db)).
Proof. exact (map_nth fst l (da, db) i). Qed.

Lemma nth_map_d {A B} (f : A -> B) (l : list A) i da db : i < length l -> nth i (map f l) db = f (nth i l da).
Proof. intro H. rewrite (nth_indep (map f l) db (f da)) by (rewrite map_length; exact H). apply map_nth. Qed.

Lemma nth_indep' {A} (l : list A) i d d' : i < length l -> nth i l d = nth i l d'.
Proof. apply nth_indep. Qed.

(* ---------- key equivalences ---------- *)
Definition eqb_refl_p {K} (eqb : K -> K -> bool) : Prop := forall x, eqb x x = true.
Definition eqb_sym_p {K} (eqb : K -> K -> bool) : Prop := forall x y, eqb x y = eqb y x.

Fixpoint distinctb {K} (eqb : K -> K -> bool) (l : list K) : bool :=
  match l with
  | [] => true
  | x :: r => negb (existsb (eqb x) r) && distinctb eqb r
  end.

Lemma zeqb_refl_p : eqb_refl_p Z.eqb. Proof. intro x. apply Z.eqb_refl. Qed.
Lemma zeqb_sym_p : eqb_sym_p Z.eqb. Proof. intros x y. apply Z.eqb_sym. Qed.
Lemma ekey_refl_p d : eqb_refl_p (ekey_eqb d).
Proof. intros [a b]. unfold ekey_eqb. cbn. rewrite !Z.eqb_refl. reflexivity. Qed.
Lemma ekey_sym_p d : eqb_sym_p (ekey_eqb d).
Proof. intros [a b] [a' b']. unfold ekey_eqb. cbn.
  rewrite (Z.eqb_sym a a'), (Z.eqb_sym b b'), (Z.eqb_sym a b'), (Z.eqb_sym b a').
  destruct (a' =? a)%Z, (b' =? b)%Z, (b' =? a)%Z, (a' =? b)%Z, d; reflexivity. Qed.

Lemma distinctb_app_mid {K} (eqb : K -> K -> bool) pre x suf :
  eqb_sym_p eqb -> distinctb eqb (pre ++ x :: suf) = true -> forall k, In k pre -> eqb x k = false.
Proof.
  intros Hs. induction pre as [|y pre IH]; intros H k Hk; [destruct Hk|].
  cbn in H. apply andb_true_iff in H. destruct H as [H1 H2].
  destruct Hk as [<-|Hk].
  - apply negb_true_iff in H1. rewrite Hs.
    destruct (eqb y x) eqn:E; [|reflexivity]. exfalso.
    assert (existsb (eqb y) (pre ++ x :: suf) = true).
    { apply existsb_exists. exists x. split; [apply in_or_app; right; left; reflexivity | exact E]. }
    congruence.
  - apply IH; assumption.
Qed.

Lemma distinctb_app_r {K} (eqb : K -> K -> bool) pre suf : distinctb eqb (pre ++ suf) = true -> distinctb eqb suf = true.
Proof. induction pre as [|y pre IH]; intro H; [exact H|]. cbn in H. apply andb_true_iff in H. apply IH, H. Qed.

Lemma khas_app_mid {K V} (eqb : K -> K -> bool) (pre : list (K * V)) x v suf :
  eqb_refl_p eqb -> khas eqb x (pre ++ (x, v) :: suf) = true.
Proof. intros Hr. unfold khas. induction pre as [|[k w] pre IH]; cbn.
  - rewrite Hr. reflexivity.
  - destruct (eqb x k); [reflexivity | exact IH]. Qed.

Lemma kupdate_app_mid {K V} (eqb : K -> K -> bool) (pre : list (K * V)) x v suf f :
  eqb_refl_p eqb -> (forall k, In k (map fst pre) -> eqb x k = false) ->
  kupdate eqb x f (pre ++ (x, v) :: suf) = pre ++ (x, f v) :: suf.
Proof. intros Hr. induction pre as [|[k w] pre IH]; intros Hd; cbn.
  - rewrite Hr. reflexivity.
  - rewrite (Hd k (or_introl eq_refl)). rewrite IH; [reflexivity|]. intros k' Hk'. apply Hd. right. exact Hk'. Qed.

(* ---------- one property applied to one element ---------- *)
Definition upd_attrs (name : string) (p : prop) (i : nat) (a : cattrs) : res cattrs :=
  match elem_val p i with
  | Err e => Err e
  | Ok v => match elem_missing p i with
            | Err e => Err e
            | Ok ig => Ok (if ig then a else aset name v a)
            end
  end.

Lemma attrs_at_foldM ps i :
  attrs_at ps i = foldM (fun acc kv => upd_attrs (fst kv) (snd kv) i acc) ps [].
Proof. reflexivity. Qed.

(* ---------- _set_property_values over a table whose keys are exactly the ids, in order ---------- *)
Lemma set_vals_split {K} (eqb : K -> K -> bool) name p : eqb_refl_p eqb -> eqb_sym_p eqb ->
  forall suf pre apre asuf asuf',
  length pre = length apre -> length suf = length asuf -> length suf = length asuf' ->
  distinctb eqb (pre ++ suf) = true ->
  (forall i, i < length suf -> upd_attrs name p (length pre + i) (nth i asuf []) = Ok (nth i asuf' [])) ->
  set_vals eqb name p suf (length pre) (combine pre apre ++ combine suf asuf)
  = Ok (combine pre apre ++ combine suf asuf').
Proof.
  intros Hr Hs. induction suf as [|id r IH]; intros pre apre asuf asuf' Hp Hl Hl' Hd Hu.
  - destruct asuf; [|discriminate]. destruct asuf'; [|discriminate]. reflexivity.
  - destruct asuf as [|a ar]; [discriminate|]. destruct asuf' as [|a' ar']; [discriminate|].
    cbn [length] in Hl, Hl'.
    pose proof (Hu 0%nat ltac:(cbn; lia)) as H0. rewrite Nat.add_0_r in H0. cbn [nth] in H0.
    unfold upd_attrs in H0. cbn [set_vals combine]. unfold rbind.
    destruct (elem_val p (length pre)) as [v|]; [|discriminate].
    destruct (elem_missing p (length pre)) as [ig|]; [|discriminate].
    inversion H0 as [Ha']; clear H0.
    assert (Hnext : forall i, i < length r ->
              upd_attrs name p (length (pre ++ [id]) + i) (nth i ar []) = Ok (nth i ar' [])).
    { intros i Hi. rewrite app_length. cbn [length]. replace (length pre + 1 + i) with (length pre + S i) by lia.
      apply (Hu (S i)). cbn. lia. }
    assert (Hd' : distinctb eqb ((pre ++ [id]) ++ r) = true) by (rewrite <- app_assoc; exact Hd).
    assert (Hlen : length (pre ++ [id]) = length (apre ++ [a'])) by (rewrite !app_length; cbn; lia).
    specialize (IH (pre ++ [id]) (apre ++ [a']) ar ar' Hlen ltac:(lia) ltac:(lia) Hd' Hnext).
    rewrite (combine_app pre [id] apre [a'] Hp) in IH. cbn [combine] in IH. rewrite <- !app_assoc in IH. cbn [app] in IH.
    assert (HS : length (pre ++ [id]) = S (length pre)) by (rewrite app_length; cbn; lia).
    rewrite HS in IH.
    destruct ig.
    + subst a'. exact IH.
    + rewrite khas_app_mid by exact Hr.
      rewrite kupdate_app_mid; [rewrite Ha'; exact IH | exact Hr |].
      intros k Hk. rewrite (map_fst_combine _ _ Hp) in Hk. eapply distinctb_app_mid; eauto.
Qed.

Lemma set_vals_all {K} (eqb : K -> K -> bool) name p ids accs accs' : eqb_refl_p eqb -> eqb_sym_p eqb ->
  length ids = length accs -> length ids = length accs' -> distinctb eqb ids = true ->
  (forall i, i < length ids -> upd_attrs name p i (nth i accs []) = Ok (nth i accs' [])) ->
  set_vals eqb name p ids 0 (combine ids accs) = Ok (combine ids accs').
Proof.
  intros Hr Hs Hl Hl' Hd Hu.
  exact (set_vals_split eqb name p Hr Hs ids [] [] accs accs' eq_refl Hl Hl' Hd Hu).
Qed.

(* per-element folds succeed as a whole => they succeed after the first property *)
Fixpoint step_from (name : string) (p : prop) (i0 : nat) (accs : list cattrs) : list cattrs :=
  match accs with
  | [] => []
  | a :: r => (match upd_attrs name p i0 a with Ok a' => a' | Err _ => [] end) :: step_from name p (S i0) r
  end.
Definition step_accs (name : string) (p : prop) (accs : list cattrs) : list cattrs := step_from name p 0 accs.

Lemma step_from_length name p accs : forall i0, length (step_from name p i0 accs) = length accs.
Proof. induction accs as [|a r IH]; intro i0; cbn; [reflexivity | rewrite IH; reflexivity]. Qed.
Lemma step_accs_length name p accs : length (step_accs name p accs) = length accs.
Proof. apply step_from_length. Qed.

Lemma nth_step_from name p accs : forall i0 i, i < length accs ->
  nth i (step_from name p i0 accs) [] =
  match upd_attrs name p (i0 + i) (nth i accs []) with Ok a => a | Err _ => [] end.
Proof. induction accs as [|a r IH]; intros i0 i Hi; cbn in Hi; [lia|].
  destruct i; cbn [step_from nth].
  - rewrite Nat.add_0_r. reflexivity.
  - rewrite IH by lia. replace (S i0 + i) with (i0 + S i) by lia. reflexivity. Qed.
Lemma nth_step_accs name p accs i : i < length accs ->
  nth i (step_accs name p accs) [] =
  match upd_attrs name p i (nth i accs []) with Ok a => a | Err _ => [] end.
Proof. intro Hi. unfold step_accs. rewrite nth_step_from by exact Hi. reflexivity. Qed.

Lemma foldM_set_vals {K} (eqb : K -> K -> bool) ids : eqb_refl_p eqb -> eqb_sym_p eqb -> distinctb eqb ids = true ->
  forall ps accs ress,
  length ids = length accs -> length ids = length ress ->
  (forall i, i < length ids ->
     foldM (fun acc kv => upd_attrs (fst kv) (snd kv) i acc) ps (nth i accs []) = Ok (nth i ress [])) ->
  foldM (fun tbl kv => set_vals eqb (fst kv) (snd kv) ids 0 tbl) ps (combine ids accs) = Ok (combine ids ress).
Proof.
  intros Hr Hs Hd. induction ps as [|[name p] ps IH]; intros accs ress Hl Hl' Hf.
  - cbn. f_equal. f_equal. apply (nth_ext _ _ [] []); [lia|]. intros i Hi.
    specialize (Hf i ltac:(lia)). cbn in Hf. inversion Hf. reflexivity.
  - cbn [foldM fst snd].
    assert (Hstep : forall i, i < length ids -> upd_attrs name p i (nth i accs []) = Ok (nth i (step_accs name p accs) [])).
    { intros i Hi. specialize (Hf i Hi). cbn [foldM fst snd] in Hf. assert (Hi2 : i < length accs) by (rewrite <- Hl; exact Hi). rewrite nth_step_accs by exact Hi2.
      destruct (upd_attrs name p i (nth i accs [])); [reflexivity | discriminate]. }
    rewrite (set_vals_all eqb name p ids accs (step_accs name p accs) Hr Hs Hl
               ltac:(rewrite step_accs_length; exact Hl) Hd Hstep).
    apply IH; [rewrite step_accs_length; exact Hl | exact Hl' |].
    intros i Hi. specialize (Hf i Hi). cbn [foldM fst snd] in Hf. rewrite (Hstep i Hi) in Hf. exact Hf.
Qed.

(* ---------- mapM facts ---------- *)
Lemma mapM_length {A B} (f : A -> res B) l r : mapM f l = Ok r -> length r = length l.
Proof. revert r. induction l as [|x l IH]; intros r H; cbn in H.
  - inversion H. reflexivity.
  - destruct (f x); [|discriminate]. destruct (mapM f l); [|discriminate]. inversion H; subst. cbn. f_equal. apply IH. reflexivity. Qed.

Lemma mapM_nth {A B} (f : A -> res B) l r da db i :
  mapM f l = Ok r -> i < length l -> f (nth i l da) = Ok (nth i r db).
Proof. revert r i. induction l as [|x l IH]; intros r i H Hi; cbn in *; [lia|].
  destruct (f x) eqn:Ex; [|discriminate]. destruct (mapM f l) eqn:El; [|discriminate]. inversion H; subst.
  destruct i; [exact Ex|]. cbn. apply IH; [reflexivity | lia]. Qed.

Lemma mapM_ext_ok {A B} (f : A -> res B) l r : length r = length l ->
  (forall i da db, i < length l -> f (nth i l da) = Ok (nth i r db)) -> mapM f l = Ok r.
Proof. revert r. induction l as [|x l IH]; intros [|y r] Hl H; cbn in *; try discriminate; [reflexivity|].
  rewrite (H 0%nat x y ltac:(lia)). rewrite (IH r); [reflexivity | lia |].
  intros i da db Hi. apply (H (S i) da db). lia. Qed.

(* the element views of canon_geff, unpacked *)
Lemma canon_rows ps n (ids : list Z) (ns : list (Z * cattrs)) : length ids = n ->
  mapM (fun ii : nat * Z => match attrs_at ps (fst ii) with Ok a => Ok (snd ii, a) | Err e => Err e end)
       (combine (seq 0 n) ids) = Ok ns ->
  ns = combine ids (map snd ns) /\ length ns = n /\
  forall i, i < n -> attrs_at ps i = Ok (nth i (map snd ns) []).
Proof.
  intros Hn H. pose proof (mapM_length _ _ _ H) as Hl. rewrite combine_length, seq_length, Hn, Nat.min_id in Hl.
  assert (Hi : forall i, i < n -> attrs_at ps i = Ok (snd (nth i ns (0%Z, []))) /\ fst (nth i ns (0%Z, [])) = nth i ids 0%Z).
  { intros i Hi. pose proof (mapM_nth _ _ _ (0%nat, 0%Z) (0%Z, []) i H) as Hx.
    rewrite combine_length, seq_length, Hn, Nat.min_id in Hx. specialize (Hx Hi).
    rewrite combine_nth in Hx by (rewrite seq_length; lia). rewrite seq_nth in Hx by exact Hi. cbn [fst snd] in Hx.
    destruct (attrs_at ps (0 + i)) as [a0|] eqn:Ea; [|discriminate]. cbn in Ea. injection Hx as Hy.
    rewrite <- Hy. cbn [fst snd]. split; [exact Ea | reflexivity]. }
  split; [|split; [exact Hl|]].
  - apply (nth_ext _ _ (0%Z, []) (0%Z, [])).
    + rewrite combine_length, map_length. lia.
    + intros i Hlt. rewrite Hl in Hlt. rewrite combine_nth by (rewrite map_length; lia).
      destruct (Hi i Hlt) as [_ Hf]. rewrite <- Hf.
      rewrite (nth_map_snd ns i 0%Z []). destruct (nth i ns (0%Z, [])); reflexivity.
  - intros i Hlt. destruct (Hi i Hlt) as [Ha _]. rewrite Ha. f_equal.
    rewrite (nth_map_snd ns i 0%Z []). reflexivity.
Qed.

(* ---------- networkx: nodes and edges are added in order, nothing is added twice ---------- *)
Lemma khas_existsb {K V} (eqb : K -> K -> bool) k (tbl : list (K * V)) :
  khas eqb k tbl = existsb (eqb k) (map fst tbl).
Proof. unfold khas. induction tbl as [|[k' v] r IH]; cbn; [reflexivity|].
  destruct (eqb k k'); [reflexivity | exact IH]. Qed.

Lemma existsb_false_all {A} (f : A -> bool) l : (forall x, In x l -> f x = false) -> existsb f l = false.
Proof. induction l as [|x l IH]; intro H; cbn; [reflexivity|].
  rewrite (H x (or_introl eq_refl)). apply IH. intros y Hy. apply H. right. exact Hy. Qed.

Lemma map_pair_nil {K} (ids : list K) :
  map (fun id => (id, @nil (string * cval))) ids = combine ids (repeat [] (length ids)).
Proof. induction ids as [|x r IH]; cbn; [reflexivity | rewrite IH; reflexivity]. Qed.

Lemma add_nodes_fresh ids : forall acc : list (Z * cattrs),
  distinctb Z.eqb (map fst acc ++ ids) = true ->
  fold_left nx_add_node ids acc = acc ++ map (fun id => (id, [])) ids.
Proof.
  induction ids as [|id r IH]; intros acc Hd; cbn [fold_left map]; [rewrite app_nil_r; reflexivity|].
  unfold nx_add_node at 2. rewrite khas_existsb.
  rewrite existsb_false_all.
  - rewrite IH.
    + rewrite <- app_assoc. reflexivity.
    + rewrite map_app. cbn [map fst]. rewrite <- app_assoc. exact Hd.
  - intros k Hk. eapply distinctb_app_mid; [exact zeqb_sym_p | exact Hd | exact Hk].
Qed.

Lemma khas_in_combine (ids : list Z) (accs : list cattrs) id :
  length ids = length accs -> In id ids -> khas Z.eqb id (combine ids accs) = true.
Proof. intros Hl Hin. rewrite khas_existsb, (map_fst_combine _ _ Hl). apply existsb_exists.
  exists id. split; [exact Hin | apply Z.eqb_refl]. Qed.

Lemma add_edges_fresh d (nodes : list (Z * cattrs)) es : forall acc : list ((Z * Z) * cattrs),
  (forall e, In e es -> khas Z.eqb (fst e) nodes = true /\ khas Z.eqb (snd e) nodes = true) ->
  distinctb (ekey_eqb d) (map fst acc ++ es) = true ->
  fold_left (nx_add_edge d) es (nodes, acc) = (nodes, acc ++ map (fun e => (e, [])) es).
Proof.
  induction es as [|e r IH]; intros acc Hin Hd; cbn [fold_left map]; [rewrite app_nil_r; reflexivity|].
  unfold nx_add_edge at 2. cbn [fst snd].
  destruct (Hin e (or_introl eq_refl)) as [Hu Hv].
  unfold nx_add_node. rewrite Hu, Hv.
  rewrite khas_existsb, existsb_false_all.
  - rewrite IH.
    + rewrite <- app_assoc. reflexivity.
    + intros e' He'. apply Hin. right. exact He'.
    + rewrite map_app. cbn [map fst]. rewrite <- app_assoc. exact Hd.
  - intros k Hk. eapply distinctb_app_mid; [apply ekey_sym_p | exact Hd | exact Hk].
Qed.

(* ---------- well-formed in-memory geff: distinct node ids, edges between them, no edge twice ---------- *)
Record wf_geff (g : mgraph) (ids : list Z) (es : list (Z * Z)) : Prop := {
  wg_nodes : node_list (g_nids g) = Ok ids;
  wg_edges : edge_rows (g_eids g) = Ok es;
  wg_distinct : distinctb Z.eqb ids = true;
  wg_edistinct : distinctb (ekey_eqb (md_directed (g_md g))) es = true;
  wg_endpoints : forall e, In e es -> In (fst e) ids /\ In (snd e) ids
}.

Lemma nth_repeat_nil {A} n i : nth i (repeat (@nil A) n) [] = [].
Proof. revert i. induction n as [|n IH]; intros [|i]; cbn; auto. Qed.

Lemma canon_geff_unpack g ids es cg : wf_geff g ids es -> canon_geff g = Ok cg ->
  exists na ea,
    cg = mkcg (md_directed (g_md g)) (combine ids na) (combine es ea) /\
    length na = length ids /\ length ea = length es /\
    (forall i, i < length ids -> attrs_at (g_nprops g) i = Ok (nth i na [])) /\
    (forall j, j < length es -> attrs_at (g_eprops g) j = Ok (nth j ea [])).
Proof.
  intros Hwf H. unfold canon_geff in H. rewrite (wg_nodes _ _ _ Hwf), (wg_edges _ _ _ Hwf) in H. unfold rbind in H.
  match type of H with (match ?m with _ => _ end) = _ => destruct m as [ns|] eqn:En; [|discriminate] end.
  match type of H with (match ?m with _ => _ end) = _ => destruct m as [eds|] eqn:Ee; [|discriminate] end.
  inversion H; subst cg; clear H.
  destruct (canon_rows (g_nprops g) (length ids) ids ns eq_refl En) as [Hns [Hln Han]].
  assert (Ee' : mapM (fun ii : nat * (Z * Z) => match attrs_at (g_eprops g) (fst ii) with Ok a => Ok (snd ii, a) | Err e => Err e end)
                     (combine (seq 0 (length es)) es) = Ok eds) by exact Ee.
  clear Ee.
  (* the edge table: same argument with pair keys *)
  pose proof (mapM_length _ _ _ Ee') as Hle. rewrite combine_length, seq_length, Nat.min_id in Hle.
  assert (Hj : forall j, j < length es ->
            attrs_at (g_eprops g) j = Ok (snd (nth j eds ((0%Z, 0%Z), []))) /\ fst (nth j eds ((0%Z, 0%Z), [])) = nth j es (0%Z, 0%Z)).
  { intros j Hj. pose proof (mapM_nth _ _ _ (0%nat, (0%Z, 0%Z)) ((0%Z, 0%Z), []) j Ee') as Hx.
    rewrite combine_length, seq_length, Nat.min_id in Hx. specialize (Hx Hj).
    rewrite combine_nth in Hx by (rewrite seq_length; lia). rewrite seq_nth in Hx by exact Hj. cbn [fst snd] in Hx.
    destruct (attrs_at (g_eprops g) (0 + j)) as [a0|] eqn:Ea; [|discriminate]. cbn in Ea. injection Hx as Hy.
    rewrite <- Hy. cbn [fst snd]. split; [exact Ea | reflexivity]. }
  exists (map snd ns), (map snd eds). split; [|split; [|split; [|split]]].
  - f_equal; [exact Hns|].
    apply (nth_ext _ _ ((0%Z, 0%Z), []) ((0%Z, 0%Z), [])).
    + rewrite combine_length, map_length. lia.
    + intros j Hlt. rewrite Hle in Hlt. rewrite combine_nth by (rewrite map_length; lia).
      destruct (Hj j Hlt) as [_ Hf]. rewrite <- Hf. rewrite (nth_map_snd eds j (0%Z, 0%Z) []).
      destruct (nth j eds ((0%Z, 0%Z), [])); reflexivity.
  - rewrite map_length. exact Hln.
  - rewrite map_length. exact Hle.
  - exact Han.
  - intros j Hlt. destruct (Hj j Hlt) as [Ha _]. rewrite Ha. f_equal. rewrite (nth_map_snd eds j (0%Z, 0%Z) []). reflexivity.
Qed.

(* NxBackend.construct builds exactly the canonical view of the geff *)
Theorem nx_construct_canon g ids es cg :
  wf_geff g ids es -> canon_geff g = Ok cg -> nx_construct g = Ok cg.
Proof.
  intros Hwf Hc. destruct (canon_geff_unpack g ids es cg Hwf Hc) as [na [ea [-> [Hna [Hea [Hn He]]]]]].
  unfold nx_construct. rewrite (wg_nodes _ _ _ Hwf). cbn [rbind].
  rewrite (add_nodes_fresh ids []) by (cbn; exact (wg_distinct _ _ _ Hwf)). cbn [app].
  rewrite map_pair_nil.
  rewrite (foldM_set_vals Z.eqb ids zeqb_refl_p zeqb_sym_p (wg_distinct _ _ _ Hwf) (g_nprops g) (repeat [] (length ids)) na).
  - cbn [rbind]. rewrite (wg_edges _ _ _ Hwf). cbn [rbind].
    rewrite (add_edges_fresh (md_directed (g_md g)) (combine ids na) es []).
    + cbn [app fst snd]. rewrite map_pair_nil.
      rewrite (foldM_set_vals (ekey_eqb (md_directed (g_md g))) es (ekey_refl_p _) (ekey_sym_p _) (wg_edistinct _ _ _ Hwf)
                 (g_eprops g) (repeat [] (length es)) ea).
      * reflexivity.
      * rewrite repeat_length. reflexivity.
      * symmetry. exact Hea.
      * intros j Hj. rewrite nth_repeat_nil, <- attrs_at_foldM. apply He. exact Hj.
    + intros e Hin. destruct (wg_endpoints _ _ _ Hwf e Hin) as [Hu Hv].
      split; apply khas_in_combine; auto.
    + cbn. exact (wg_edistinct _ _ _ Hwf).
  - rewrite repeat_length. reflexivity.
  - symmetry. exact Hna.
  - intros i Hi. rewrite nth_repeat_nil, <- attrs_at_foldM. apply Hn. exact Hi.
Qed.

(* ================= rustworkx ================= *)
Lemma set_nth_app {A} (pre : list A) a r f : set_nth (length pre) f (pre ++ a :: r) = pre ++ f a :: r.
Proof. induction pre as [|x pre IH]; cbn; [reflexivity | rewrite IH; reflexivity]. Qed.

Lemma rx_fill_go_split name p : forall suf pre suf',
  length suf = length suf' ->
  (forall i, i < length suf -> upd_attrs name p (length pre + i) (nth i suf []) = Ok (nth i suf' [])) ->
  rx_fill_go name p (length suf) (length pre) (pre ++ suf) = Ok (pre ++ suf').
Proof.
  induction suf as [|a r IH]; intros pre suf' Hl Hu.
  - destruct suf'; [|discriminate]. reflexivity.
  - destruct suf' as [|a' r']; [discriminate|]. cbn [length] in Hl.
    pose proof (Hu 0%nat ltac:(cbn; lia)) as H0. rewrite Nat.add_0_r in H0. cbn [nth] in H0. unfold upd_attrs in H0.
    cbn [length rx_fill_go]. unfold rbind.
    destruct (elem_val p (length pre)) as [v|]; [|discriminate].
    destruct (elem_missing p (length pre)) as [ig|]; [|discriminate].
    inversion H0 as [Ha']; clear H0.
    assert (Hnext : forall i, i < length r -> upd_attrs name p (length (pre ++ [a']) + i) (nth i r []) = Ok (nth i r' [])).
    { intros i Hi. rewrite app_length. cbn [length]. replace (length pre + 1 + i) with (length pre + S i) by lia.
      apply (Hu (S i)). cbn. lia. }
    specialize (IH (pre ++ [a']) r' ltac:(lia) Hnext).
    assert (HS : length (pre ++ [a']) = S (length pre)) by (rewrite app_length; cbn; lia).
    rewrite HS in IH. rewrite <- !app_assoc in IH. cbn [app] in IH.
    destruct ig.
    + subst a'. exact IH.
    + rewrite set_nth_app. rewrite Ha'. exact IH.
Qed.

(* every property has one value per element (and a mask of that length) *)
Definition props_fit (n : nat) (ps : props) : Prop :=
  Forall (fun kv : string * prop =>
            plen (snd kv) = Some n /\
            match p_missing (snd kv) with Some m => length (a_flat m) = n | None => True end) ps.

Lemma rx_fill_prop_all n name p accs accs' :
  length accs = n -> length accs' = n ->
  plen p = Some n -> match p_missing p with Some m => length (a_flat m) = n | None => True end ->
  (forall i, i < n -> upd_attrs name p i (nth i accs []) = Ok (nth i accs' [])) ->
  rx_fill_prop n accs (name, p) = Ok accs'.
Proof.
  intros Hl Hl' Hp Hm Hu. unfold rx_fill_prop.
  assert (Hgo : rx_fill_go name p n 0 accs = Ok accs').
  { pose proof (rx_fill_go_split name p accs [] accs' ltac:(lia)) as H. cbn [length app] in H.
    rewrite Hl in H. apply H. intros i Hi. apply Hu. exact Hi. }
  destruct (p_missing p) as [m|].
  - rewrite Hm, Nat.eqb_refl. cbn [negb]. exact Hgo.
  - rewrite Hp. cbn [option_eqb]. rewrite Nat.eqb_refl. cbn [negb]. exact Hgo.
Qed.

Lemma foldM_rx_fill n : forall ps accs ress,
  props_fit n ps -> length accs = n -> length ress = n ->
  (forall i, i < n -> foldM (fun acc kv => upd_attrs (fst kv) (snd kv) i acc) ps (nth i accs []) = Ok (nth i ress [])) ->
  foldM (rx_fill_prop n) ps accs = Ok ress.
Proof.
  induction ps as [|[name p] ps IH]; intros accs ress Hfit Hl Hl' Hf.
  - cbn. f_equal. apply (nth_ext _ _ [] []); [lia|]. intros i Hi.
    specialize (Hf i ltac:(lia)). cbn in Hf. inversion Hf. reflexivity.
  - cbn [foldM]. apply Forall_cons_iff in Hfit. destruct Hfit as [[Hp Hm] Hfit']. cbn [snd] in Hp, Hm.
    assert (Hstep : forall i, i < n -> upd_attrs name p i (nth i accs []) = Ok (nth i (step_accs name p accs) [])).
    { intros i Hi. specialize (Hf i Hi). cbn [foldM fst snd] in Hf.
      assert (Hi2 : i < length accs) by lia. rewrite nth_step_accs by exact Hi2.
      destruct (upd_attrs name p i (nth i accs [])); [reflexivity | discriminate]. }
    rewrite (rx_fill_prop_all n name p accs (step_accs name p accs) Hl ltac:(rewrite step_accs_length; exact Hl) Hp Hm Hstep).
    apply IH; [exact Hfit' | rewrite step_accs_length; exact Hl | exact Hl' |].
    intros i Hi. specialize (Hf i Hi). cbn [foldM fst snd] in Hf. rewrite (Hstep i Hi) in Hf. exact Hf.
Qed.

(* --- the id map: dict(zip(node_ids, indices)) of distinct ids, and its inverse --- *)
Lemma kset_fresh {K V} (eqb : K -> K -> bool) x (v : V) acc :
  (forall k, In k (map fst acc) -> eqb x k = false) -> kset eqb x v acc = acc ++ [(x, v)].
Proof. induction acc as [|[k w] acc IH]; intro H; cbn; [reflexivity|].
  rewrite (H k (or_introl eq_refl)). rewrite IH; [reflexivity|]. intros k' Hk'. apply H. right. exact Hk'. Qed.

Lemma kset_fold_fresh {V} (l : list (Z * V)) : forall acc,
  distinctb Z.eqb (map fst acc ++ map fst l) = true ->
  fold_left (fun acc kv => kset Z.eqb (fst kv) (snd kv) acc) l acc = acc ++ l.
Proof.
  induction l as [|[x v] l IH]; intros acc Hd; cbn [fold_left fst snd]; [rewrite app_nil_r; reflexivity|].
  rewrite kset_fresh.
  - rewrite IH; [rewrite <- app_assoc; reflexivity|]. rewrite map_app. cbn [map fst]. rewrite <- app_assoc. exact Hd.
  - intros k Hk. cbn [map fst] in Hd. eapply distinctb_app_mid; [exact zeqb_sym_p | exact Hd | exact Hk].
Qed.

Definition zseq_from (s n : nat) : list Z := map Z.of_nat (seq s n).
Lemma zseq_from_0 n : zseq n = zseq_from 0 n. Proof. reflexivity. Qed.

Lemma klookup_lower ids : forall s n u z,
  klookup Z.eqb u (combine ids (zseq_from s n)) = Some z -> (Z.of_nat s <= z)%Z.
Proof. induction ids as [|x r IH]; intros s n u z H; [discriminate|].
  destruct n as [|n]; [discriminate|]. cbn in H. destruct (u =? x)%Z.
  - inversion H. lia.
  - apply IH in H. lia. Qed.

Lemma klookup_nth_idx ids : forall s i, distinctb Z.eqb ids = true -> i < length ids ->
  klookup Z.eqb (nth i ids 0%Z) (combine ids (zseq_from s (length ids))) = Some (Z.of_nat (s + i)).
Proof.
  induction ids as [|x r IH]; intros s i Hd Hi; cbn in Hi; [lia|].
  cbn [length zseq_from seq map combine klookup]. cbn in Hd. apply andb_true_iff in Hd. destruct Hd as [Hx Hd].
  destruct i as [|i]; cbn [nth].
  - rewrite Z.eqb_refl, Nat.add_0_r. reflexivity.
  - assert (Hne : (nth i r 0 =? x)%Z = false).
    { apply negb_true_iff in Hx. rewrite Z.eqb_sym.
      destruct (x =? nth i r 0)%Z eqn:E; [|reflexivity]. exfalso.
      assert (existsb (Z.eqb x) r = true) by (apply existsb_exists; exists (nth i r 0%Z); split; [apply nth_In; lia | exact E]).
      congruence. }
    rewrite Hne. fold (zseq_from (S s) (length r)). rewrite IH by (auto; lia). f_equal. lia.
Qed.

Lemma inv_klookup ids : forall s u z,
  klookup Z.eqb u (combine ids (zseq_from s (length ids))) = Some z ->
  inv_map (combine ids (zseq_from s (length ids))) z = Some u.
Proof.
  induction ids as [|x r IH]; intros s u z H; [discriminate|].
  cbn [length zseq_from seq map combine klookup] in *. unfold inv_map. cbn [find snd].
  destruct (u =? x)%Z eqn:E.
  - inversion H; subst z. rewrite Z.eqb_refl. cbn. apply Z.eqb_eq in E. subst. reflexivity.
  - fold (zseq_from (S s) (length r)) in *. pose proof (klookup_lower _ _ _ _ _ H) as Hlow.
    assert (Hz : (Z.of_nat s =? z)%Z = false) by (apply Z.eqb_neq; lia). rewrite Hz.
    apply IH in H. unfold inv_map in H. exact H.
Qed.

Lemma klookup_in_idx ids u : In u ids -> exists z, klookup Z.eqb u (combine ids (zseq (length ids))) = Some z.
Proof. rewrite zseq_from_0. generalize 0%nat. induction ids as [|x r IH]; intros s Hin; [destruct Hin|].
  cbn [length zseq_from seq map combine klookup]. destruct (u =? x)%Z eqn:E; [eexists; reflexivity|].
  destruct Hin as [->|Hin]; [rewrite Z.eqb_refl in E; discriminate|]. apply (IH (S s) Hin). Qed.

Lemma opt_all_map {A B} (f : A -> option B) (g : A -> B) l :
  (forall x, In x l -> f x = Some (g x)) -> opt_all (map f l) = Some (map g l).
Proof. induction l as [|x l IH]; intro H; cbn; [reflexivity|].
  rewrite (H x (or_introl eq_refl)). rewrite IH; [reflexivity|]. intros y Hy. apply H. right. exact Hy. Qed.

Lemma in_combine_nth {A B} (l : list A) (m : list B) x da db : In x (combine l m) ->
  exists i, i < length l /\ i < length m /\ x = (nth i l da, nth i m db).
Proof. revert m. induction l as [|a l IH]; intros [|b m] H; cbn in H; try destruct H.
  - exists 0%nat. cbn. repeat split; try lia. symmetry. exact H.
  - destruct (IH m H) as [i [H1 [H2 H3]]]. exists (S i). cbn. repeat split; try lia. exact H3. Qed.

(* RxBackend.construct, seen through to_rx_id_map, is the canonical view of the geff *)
Theorem rx_construct_canon g ids es cg :
  wf_geff g ids es -> props_fit (length ids) (g_nprops g) -> props_fit (length es) (g_eprops g) ->
  canon_geff g = Ok cg ->
  exists r, rx_construct g = Ok r /\ canon_rx r = Some cg.
Proof.
  intros Hwf Hfn Hfe Hc. destruct (canon_geff_unpack g ids es cg Hwf Hc) as [na [ea [-> [Hna [Hea [Hn He]]]]]].
  set (d := md_directed (g_md g)). set (n := length ids).
  set (idmap := combine ids (zseq n)).
  assert (Hnodes : foldM (rx_fill_prop n) (g_nprops g) (repeat [] n) = Ok na).
  { apply foldM_rx_fill; [exact Hfn | apply repeat_length | exact Hna |].
    intros i Hi. rewrite nth_repeat_nil, <- attrs_at_foldM. apply Hn. exact Hi. }
  assert (Hmap : fold_left (fun acc kv => kset Z.eqb (fst kv) (snd kv) acc) (combine ids (zseq n)) [] = idmap).
  { rewrite kset_fold_fresh; [reflexivity|]. cbn [map app].
    rewrite map_fst_combine by (unfold zseq; rewrite map_length, seq_length; reflexivity). exact (wg_distinct _ _ _ Hwf). }
  (* node part of the adapter view *)
  assert (Hcn : opt_all (map (fun ia : Z * cattrs => match inv_map idmap (fst ia) with Some id => Some (id, snd ia) | None => None end)
                             (combine (zseq (length na)) na)) = Some (combine ids na)).
  { rewrite (opt_all_map _ (fun ia => (nth (Z.to_nat (fst ia)) ids 0%Z, snd ia))).
    - f_equal. apply (nth_ext _ _ (0%Z, []) (0%Z, [])).
      + rewrite map_length, !combine_length. unfold zseq. rewrite map_length, seq_length. lia.
      + intros i Hi. rewrite map_length, combine_length in Hi. unfold zseq in Hi. rewrite map_length, seq_length, Nat.min_id in Hi.
        rewrite (nth_map_d _ _ i (0%Z, []) (0%Z, [])) by (rewrite combine_length; unfold zseq; rewrite map_length, seq_length; lia).
        rewrite !combine_nth by (unfold zseq; try rewrite map_length, seq_length; lia).
        cbn [fst snd]. unfold zseq. rewrite (nth_map_d Z.of_nat _ i 0%nat 0%Z) by (rewrite seq_length; lia).
        rewrite seq_nth by lia. cbn [Nat.add]. rewrite Nat2Z.id. reflexivity.
    - intros [z a] Hin. cbn [fst snd].
      destruct (in_combine_nth _ _ _ 0%Z [] Hin) as [i [Hi1 [Hi2 Heq]]]. injection Heq as Hz Ha. subst z a.
      unfold zseq in Hi1. rewrite map_length, seq_length in Hi1.
      assert (Hzi : nth i (zseq (length na)) 0%Z = Z.of_nat i).
      { unfold zseq. rewrite (nth_map_d Z.of_nat _ i 0%nat 0%Z) by (rewrite seq_length; exact Hi1).
        rewrite seq_nth by exact Hi1. reflexivity. }
      rewrite Hzi.
      assert (Hin' : i < length ids) by lia.
      pose proof (klookup_nth_idx ids 0 i (wg_distinct _ _ _ Hwf) Hin') as Hk. cbn [Nat.add] in Hk.
      unfold idmap, n. rewrite zseq_from_0. rewrite (inv_klookup ids 0 _ _ Hk). rewrite Nat2Z.id. reflexivity. }
  unfold rx_construct. rewrite (wg_nodes _ _ _ Hwf). cbn [rbind]. fold n. rewrite Hnodes. cbn [rbind].
  rewrite Hmap. rewrite (wg_edges _ _ _ Hwf). cbn [rbind].
  destruct es as [|e0 er] eqn:Ees.
  - eexists. split; [reflexivity|]. unfold canon_rx. cbn [rc_map rc_nodes rc_edges rc_directed].
    rewrite Hcn. cbn. destruct ea; [reflexivity | discriminate].
  - cbv iota. rewrite <- Ees in *. clear Ees.
    set (tr := fun e : Z * Z => (match klookup Z.eqb (fst e) idmap with Some z => z | None => 0%Z end,
                                 match klookup Z.eqb (snd e) idmap with Some z => z | None => 0%Z end)).
    assert (Htr : mapM (fun e : Z * Z => match klookup Z.eqb (fst e) idmap, klookup Z.eqb (snd e) idmap with
                                         | Some u, Some v => Ok (u, v)
                                         | _, _ => Err KeyError
                                         end) es = Ok (map tr es)).
    { apply mapM_ok. intros e Hin. destruct (wg_endpoints _ _ _ Hwf e Hin) as [Hu Hv].
      destruct (klookup_in_idx ids _ Hu) as [zu Hzu]. destruct (klookup_in_idx ids _ Hv) as [zv Hzv].
      unfold tr, idmap, n. rewrite Hzu, Hzv. reflexivity. }
    assert (Hdatas : foldM (rx_fill_prop (length es)) (g_eprops g) (repeat [] (length es)) = Ok ea).
    { apply foldM_rx_fill; [exact Hfe | apply repeat_length | exact Hea |].
      intros j Hj. rewrite nth_repeat_nil, <- attrs_at_foldM. apply He. exact Hj. }
    unfold rbind. rewrite Htr, Hdatas.
    eexists. split; [reflexivity|]. unfold canon_rx. cbn [rc_map rc_nodes rc_edges rc_directed].
    rewrite Hcn.
    rewrite (opt_all_map _ (fun ed : (Z * Z) * cattrs =>
               ((nth (Z.to_nat (fst (fst ed))) ids 0%Z, nth (Z.to_nat (snd (fst ed))) ids 0%Z), snd ed))).
    + f_equal. f_equal.
      apply (nth_ext _ _ ((0%Z, 0%Z), []) ((0%Z, 0%Z), [])).
      * rewrite map_length, !combine_length, map_length. reflexivity.
      * intros j Hj. rewrite map_length, combine_length, map_length in Hj.
        rewrite (nth_map_d _ _ j ((0%Z, 0%Z), []) ((0%Z, 0%Z), [])) by (rewrite combine_length, map_length; exact Hj).
        rewrite !combine_nth by (try rewrite map_length; lia). cbn [fst snd].
        rewrite (nth_map_d tr es j (0%Z, 0%Z) (0%Z, 0%Z)) by lia.
        assert (Hin : In (nth j es (0%Z, 0%Z)) es) by (apply nth_In; lia).
        destruct (wg_endpoints _ _ _ Hwf _ Hin) as [Hu Hv].
        destruct (nth j es (0%Z, 0%Z)) as [u v] eqn:Ej. cbn [fst snd] in *.
        f_equal. unfold tr. cbn [fst snd].
        destruct (klookup_in_idx ids _ Hu) as [zu Hzu]. destruct (klookup_in_idx ids _ Hv) as [zv Hzv].
        unfold idmap, n. rewrite Hzu, Hzv.
        pose proof (In_nth _ _ 0%Z Hu) as [iu [Hiu Hnu]]. pose proof (In_nth _ _ 0%Z Hv) as [iv [Hiv Hnv]].
        pose proof (klookup_nth_idx ids 0 iu (wg_distinct _ _ _ Hwf) Hiu) as Hku. rewrite Hnu in Hku. cbn [Nat.add] in Hku.
        pose proof (klookup_nth_idx ids 0 iv (wg_distinct _ _ _ Hwf) Hiv) as Hkv. rewrite Hnv in Hkv. cbn [Nat.add] in Hkv.
        rewrite <- zseq_from_0 in Hku, Hkv. rewrite Hku in Hzu. rewrite Hkv in Hzv. injection Hzu as <-. injection Hzv as <-.
        rewrite !Nat2Z.id. rewrite Hnu, Hnv. reflexivity.
    + intros [[u' v'] a] Hin. cbn [fst snd].
      destruct (in_combine_nth _ _ _ (0%Z, 0%Z) [] Hin) as [j [Hj1 [Hj2 Heq]]].
      rewrite map_length in Hj1.
      assert (Htrj : nth j (map tr es) (0%Z, 0%Z) = tr (nth j es (0%Z, 0%Z))) by (apply nth_map_d; lia).
      rewrite Htrj in Heq.
      assert (Hin2 : In (nth j es (0%Z, 0%Z)) es) by (apply nth_In; lia).
      destruct (wg_endpoints _ _ _ Hwf _ Hin2) as [Hu Hv].
      destruct (nth j es (0%Z, 0%Z)) as [u v]. cbn [fst snd] in Hu, Hv. unfold tr in Heq. cbn [fst snd] in Heq.
      destruct (klookup_in_idx ids _ Hu) as [zu Hzu]. destruct (klookup_in_idx ids _ Hv) as [zv Hzv].
      unfold idmap, n in Heq. rewrite Hzu, Hzv in Heq. injection Heq as Hu' Hv' Ha. subst u' v'.
      unfold idmap, n. rewrite zseq_from_0 in *.
      rewrite (inv_klookup ids 0 _ _ Hzu), (inv_klookup ids 0 _ _ Hzv).
      pose proof (In_nth _ _ 0%Z Hu) as [iu [Hiu Hnu]]. pose proof (In_nth _ _ 0%Z Hv) as [iv [Hiv Hnv]].
      pose proof (klookup_nth_idx ids 0 iu (wg_distinct _ _ _ Hwf) Hiu) as Hku. rewrite Hnu in Hku. cbn [Nat.add] in Hku.
      pose proof (klookup_nth_idx ids 0 iv (wg_distinct _ _ _ Hwf) Hiv) as Hkv. rewrite Hnv in Hkv. cbn [Nat.add] in Hkv.
      rewrite Hku in Hzu. rewrite Hkv in Hzv. injection Hzu as <-. injection Hzv as <-.
      rewrite !Nat2Z.id. rewrite Hnu, Hnv. reflexivity.
Qed.
