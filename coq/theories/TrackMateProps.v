(* TrackMateProps.v -- what the converted geff holds, read off the arrays of TrackMateValid.v: nodes and edges,
   feature columns, track ids, units, ROIs. *)
From Coq Require Import Permutation Relations.
From Geff Require Import Base Dtype DtypeLemmas Vlen VlenLemmas Tree TreeLemmas Validate Write Read GraphVal GraphValLemmas
  Reach Tracks TracksLemmas WriteLemmas ReadLemmas RoundTrip ValidateLayout C01Lemmas C10Lemmas
  TrackMate TrackMateLemmas TrackMateCols TrackMateValid.
From Geff.Gen Require Import Consts.
Open Scope string_scope.
Open Scope list_scope.
Open Scope Z_scope.

(* ================================================================== *)
(* 1. Nodes = kept spots, edges = kept links                           *)
(* ================================================================== *)
Definition kept_spots (d : tm) (ds dt : bool) : list spot :=
  filter (fun sp => keepb d ds dt (spot_id sp)) (spots_of d).
Definition final_attrs (d : tm) (sp : spot) : attrs :=
  match track_of d (spot_id sp) with
  | Some t => node_attrs_of (attrs_md d) (has_roi d) sp ++ [("TRACK_ID", VInt t)]
  | None => node_attrs_of (attrs_md d) (has_roi d) sp
  end.

Lemma filter_map {A B} (f : A -> B) (p : B -> bool) l : filter p (map f l) = map f (filter (fun x => p (f x)) l).
Proof. induction l as [|x r IH]; cbn; [reflexivity|]. destruct (p (f x)); cbn; rewrite IH; reflexivity. Qed.

Lemma final_nodes_eq d ds dt :
  g_nodes (final_graph d ds dt) = map (fun sp => (spot_id sp, final_attrs d sp)) (kept_spots d ds dt).
Proof.
  unfold final_graph, restrict, full_graph, base_nodes, kept_spots. cbn [g_nodes]. rewrite map_map, filter_map.
  apply map_ext. intros sp. unfold final_attrs, stampT, base_node. cbn [fst snd]. rewrite zlookup_tmap. reflexivity.
Qed.

Lemma final_ids_spots d ds dt : final_ids d ds dt = map spot_id (kept_spots d ds dt).
Proof. unfold final_ids. rewrite final_nodes_eq, map_map. reflexivity. Qed.
Lemma nelts_spots d ds dt : nelts d ds dt = map (final_attrs d) (kept_spots d ds dt).
Proof. unfold nelts. rewrite final_nodes_eq, map_map. reflexivity. Qed.

Lemma kept_spot_in d ds dt sp : In sp (kept_spots d ds dt) -> In sp (spots_of d).
Proof. unfold kept_spots. intros H. apply filter_In in H. tauto. Qed.

(* the edge list of the geff is a rearrangement of the kept links (networkx lists edges by source node) *)
Lemma final_edges_perm d ds dt : wf_tm d ->
  Permutation (final_edges d ds dt) (filter (fun e : edge => keepb d ds dt (fst e) && keepb d ds dt (snd e)) (links d)).
Proof.
  intros W. unfold final_edges. eapply Permutation_trans; [apply Permutation_map; apply (eouts_perm d ds dt W)|].
  unfold final_graph, restrict, full_graph, links. cbn [g_edges]. rewrite filter_map, !map_map, filter_map. cbn [elink fst].
  apply Permutation_refl.
Qed.

Lemma pairs_of_eflat es : pairs_of (eflat es) = es.
Proof. induction es as [|[u v] r IH]; [reflexivity|]. unfold eflat. cbn [flat_map app pairs_of fst snd]. fold (eflat r). rewrite IH. reflexivity. Qed.

(* ================================================================== *)
(* 2. Feature columns                                                  *)
(* ================================================================== *)
(* the number stored for an attribute text: its integer, or the payload of its float value *)
Definition raw_payload (isint : bool) (r : raw) : Z :=
  match r_parse r with
  | PInt z f => if isint then z else f
  | PFlt f => f
  | PStr => 0
  end.
Definition feat_cell (isint : bool) (f : string) (a : xattrs) : Z :=
  match alookup f a with Some r => raw_payload isint r | None => 0 end.
(* a feature column over elements with attributes xs: int64 / float64, value or fill value 0, missing exactly where absent *)
Definition feat_prop (isint : bool) (f : string) (xs : list xattrs) : prop :=
  mkprop (PFixed (mkarr (if isint then DI64 else DF64) [length xs] (map (feat_cell isint f) xs)))
         (missing_arr (map (fun a : xattrs => negb (ahas f a)) xs)).

Lemma zof_cval md f r b : alookup f md = Some (Some b) -> attr_okb md (f, r) = true -> zof (cval md f r) = raw_payload b r.
Proof.
  intros Hmd Hok. unfold attr_okb in Hok. cbn [fst snd] in Hok. rewrite Hmd in Hok. apply andb_true_iff in Hok. destruct Hok as [_ Hok].
  unfold cval, conv_one, conv_int, raw_payload. rewrite Hmd. destruct b.
  - apply int_rawb_spec in Hok. destruct Hok as [z [fl [-> _]]]. reflexivity.
  - destruct (r_parse r); try discriminate; reflexivity.
Qed.

Lemma feat_column {A} (kf : string -> vkind) (md : mdmap) (g : A -> attrs) (h : A -> xattrs) (xs : list A) f b :
  Forall (typedk kf) (map g xs) ->
  alookup f md = Some (Some b) -> kf f = (if b then KI else KF) ->
  (forall x, In x xs -> alookup f (g x) = option_map (cval md f) (alookup f (h x)) /\ forallb (attr_okb md) (h x) = true) ->
  (exists x, In x xs /\ ahas f (h x) = true) ->
  alookup f (tprops kf (map g xs)) = Some (feat_prop b f (map h xs)).
Proof.
  intros Hty Hmd Hk Hx [x0 [Hx0 Hh0]].
  assert (Hin : In f (keys_of (map g xs))).
  { apply keys_of_In. exists (g x0). split; [apply in_map; exact Hx0|]. apply ahas_in. unfold ahas. rewrite (proj1 (Hx x0 Hx0)).
    unfold ahas in Hh0. destruct (alookup f (h x0)); [reflexivity | discriminate]. }
  rewrite (alookup_tprops _ _ _ Hin). f_equal. unfold tprop, feat_prop. rewrite Hk.
  assert (Hcell : forall k, (k = KI \/ k = KF) -> forall x, In x xs -> cell k f (g x) = feat_cell b f (h x)).
  { intros k Hkk x Hxin. unfold cell, feat_cell. destruct (Hx x Hxin) as [Hl Hok]. rewrite Hl.
    destruct (alookup f (h x)) as [r|] eqn:E; cbn [option_map].
    - apply (zof_cval md f r b Hmd). apply (forallb_In _ _ _ Hok). apply alookup_some_in. exact E.
    - destruct Hkk as [-> | ->]; reflexivity. }
  assert (Hmiss : col_missing f (map g xs) = map (fun a : xattrs => negb (ahas f a)) (map h xs)).
  { unfold col_missing. rewrite !map_map. apply map_ext_in. intros x Hxin. unfold ahas. rewrite (proj1 (Hx x Hxin)).
    destruct (alookup f (h x)); reflexivity. }
  destruct b; unfold scalar_prop; cbn [kdtype]; rewrite Hmiss, !map_length, !map_map; do 3 f_equal;
    apply map_ext_in; intros x Hxin; apply Hcell; auto.
Qed.

(* looking a spot feature up in the node attributes: the converter's own keys do not interfere *)
Lemma alookup_final_attrs d sp f : wf_tm d -> In sp (spots_of d) -> f <> "ROI_coords" -> f <> "TRACK_ID" ->
  alookup f (final_attrs d sp) = option_map (cval (attrs_md d) f) (alookup f (sp_attrs sp)).
Proof.
  intros W Hsp H1 H2.
  assert (H0 : alookup f (node_attrs_of (attrs_md d) (has_roi d) sp) = option_map (cval (attrs_md d) f) (alookup f (sp_attrs sp))).
  { unfold node_attrs_of. destruct (has_roi d); [|apply alookup_cattrs]. rewrite alookup_app, alookup_cattrs.
    destruct (alookup f (sp_attrs sp)); [reflexivity|]. cbn. rewrite (seqb_neq _ _ H1). reflexivity. }
  unfold final_attrs. destruct (track_of d (spot_id sp)); [|exact H0]. rewrite alookup_app, H0.
  destruct (alookup f (sp_attrs sp)); [reflexivity|]. cbn. rewrite (seqb_neq _ _ H2). reflexivity.
Qed.

Lemma decl_md d dc : wf_tm d -> In dc (sdecls d ++ edecls d ++ tdecls d) ->
  exists b, d_isint dc = Some b /\ alookup (d_feat dc) (attrs_md d) = Some (Some b).
Proof.
  intros W Hdc. pose proof (forallb_In _ _ _ (wf_decl_ok d W) Hdc) as H. unfold decl_okb in H.
  apply andb_true_iff in H. destruct H as [H _]. apply andb_true_iff in H. destruct H as [_ H].
  destruct (d_isint dc) as [b|] eqn:E; [|discriminate]. exists b. split; [reflexivity|]. rewrite (wf_decl_consistent d W dc Hdc), E. reflexivity.
Qed.

Lemma nps_final_nonempty d ds dt : kept_spots d ds dt <> [] -> nps_final d ds dt = nprops_of d ds dt.
Proof. intros H. unfold nps_final. rewrite final_ids_spots. destruct (kept_spots d ds dt); [congruence | reflexivity]. Qed.

(* a declared spot feature carried by at least one kept spot *)
Theorem spot_feature_column d ds dt dc b : wf_tm d -> In dc (sdecls d) -> d_isint dc = Some b ->
  (exists sp, In sp (kept_spots d ds dt) /\ ahas (d_feat dc) (sp_attrs sp) = true) ->
  alookup (d_feat dc) (nps_final d ds dt) = Some (feat_prop b (d_feat dc) (map sp_attrs (kept_spots d ds dt))).
Proof.
  intros W Hdc Hb [sp0 [Hsp0 Hh0]].
  assert (Hne : kept_spots d ds dt <> []) by (intros E; rewrite E in Hsp0; destruct Hsp0).
  rewrite (nps_final_nonempty d ds dt Hne). unfold nprops_of. rewrite nelts_spots.
  destruct (decl_md d dc W (in_or_app _ _ _ (or_introl Hdc))) as [b' [Hb' Hmd]]. rewrite Hb in Hb'. inversion Hb'; subst b'.
  pose proof (forallb_In _ _ _ (wf_spots d W) (kept_spot_in d ds dt sp0 Hsp0)) as Hok0.
  destruct (spot_ok_parts _ _ Hok0) as [_ [_ [_ [Hnt0 Hnc0]]]].
  assert (Hf1 : d_feat dc <> "ROI_coords") by (intros E; rewrite E in Hh0; congruence).
  assert (Hf2 : d_feat dc <> "TRACK_ID") by (intros E; rewrite E in Hh0; congruence).
  apply (feat_column (nkind d) (attrs_md d) (final_attrs d) sp_attrs).
  - rewrite <- nelts_spots. apply (final_nodes_typed d ds dt W).
  - exact Hmd.
  - unfold nkind, key_kind, base_kind. rewrite (seqb_neq _ _ Hf1), Hmd. destruct b; reflexivity.
  - intros sp Hsp. pose proof (kept_spot_in d ds dt sp Hsp) as Hin. split; [apply (alookup_final_attrs d sp _ W Hin Hf1 Hf2)|].
    destruct (spot_ok_parts _ _ (forallb_In _ _ _ (wf_spots d W) Hin)) as [Hat _]. exact Hat.
  - exists sp0. auto.
Qed.

(* ---------- edges ---------- *)
(* the attributes of the link between two given spots *)
Definition link_attrs (d : tm) (e : edge) : xattrs :=
  match find (fun l => pair_eqb (link_edge l) e) (tlinks d) with Some l => snd l | None => [] end.

Lemma map_inj_nodup {A B} (f : A -> B) (l : list A) a b : NoDup (map f l) -> In a l -> In b l -> f a = f b -> a = b.
Proof.
  induction l as [|x r IH]; intros Hnd Ha Hb E; [destruct Ha|]. cbn in Hnd. inversion Hnd as [|? ? Hx Hr]; subst.
  destruct Ha as [->|Ha], Hb as [->|Hb]; auto.
  - exfalso. apply Hx. rewrite E. apply in_map. exact Hb.
  - exfalso. apply Hx. rewrite <- E. apply in_map. exact Ha.
Qed.

Lemma link_attrs_of d l : wf_tm d -> In l (tlinks d) -> link_attrs d (link_edge l) = snd l.
Proof.
  intros W Hl. unfold link_attrs. destruct (find (fun l0 => pair_eqb (link_edge l0) (link_edge l)) (tlinks d)) as [l'|] eqn:Ef.
  - apply find_some in Ef. destruct Ef as [Hl' He]. apply pair_eqb_eq in He.
    rewrite (map_inj_nodup link_edge (tlinks d) l' l (wf_links_nodup d W) Hl' Hl He). reflexivity.
  - exfalso. pose proof (find_none _ _ Ef l Hl) as H. cbn in H. rewrite (proj2 (pair_eqb_eq _ _) eq_refl) in H. discriminate.
Qed.

Lemma eouts_attrs d ds dt : wf_tm d ->
  map snd (eouts d ds dt) = map (fun e => cattrs (attrs_md d) (link_attrs d e)) (final_edges d ds dt).
Proof.
  intros W. unfold final_edges. rewrite map_map. apply map_ext_in. intros x Hx.
  apply (Permutation_in _ (eouts_perm d ds dt W)) in Hx. destruct (final_edge_form d ds dt x W Hx) as [l [Hl [He [Hs _]]]].
  rewrite Hs, He, (link_attrs_of d l W Hl). reflexivity.
Qed.

Lemma final_edge_link d ds dt e : wf_tm d -> In e (final_edges d ds dt) -> exists l, In l (tlinks d) /\ link_edge l = e.
Proof.
  intros W He. unfold final_edges in He. apply in_map_iff in He. destruct He as [x [<- Hx]].
  apply (Permutation_in _ (eouts_perm d ds dt W)) in Hx. destruct (final_edge_form d ds dt x W Hx) as [l [Hl [He _]]]. exists l. auto.
Qed.

(* a declared edge feature carried by at least one kept link *)
Theorem edge_feature_column d ds dt dc b : wf_tm d -> In dc (edecls d) -> d_isint dc = Some b ->
  (exists e, In e (final_edges d ds dt) /\ ahas (d_feat dc) (link_attrs d e) = true) ->
  alookup (d_feat dc) (eprops_of d ds dt) = Some (feat_prop b (d_feat dc) (map (link_attrs d) (final_edges d ds dt))).
Proof.
  intros W Hdc Hb Hex. unfold eprops_of. rewrite (eouts_attrs d ds dt W).
  destruct (decl_md d dc W (in_or_app _ _ _ (or_intror (in_or_app _ _ _ (or_introl Hdc))))) as [b' [Hb' Hmd]]. rewrite Hb in Hb'. inversion Hb'; subst b'.
  apply (feat_column (ekind d) (attrs_md d) (fun e => cattrs (attrs_md d) (link_attrs d e)) (link_attrs d)).
  - rewrite <- (eouts_attrs d ds dt W). apply (final_edges_typed d ds dt _ W). intros x Hx. apply (Permutation_in _ (eouts_perm d ds dt W) Hx).
  - exact Hmd.
  - unfold ekind, base_kind. rewrite Hmd. destruct b; reflexivity.
  - intros e He. split; [apply alookup_cattrs|]. destruct (final_edge_link d ds dt e W He) as [l [Hl <-]].
    rewrite (link_attrs_of d l W Hl). destruct (link_ok_parts _ _ _ (tlinks_ok d W l Hl)) as [Hat _]. exact Hat.
  - exact Hex.
Qed.

(* ================================================================== *)
(* 3. Track ids                                                        *)
(* ================================================================== *)
Lemma alookup_track_id_final d sp : wf_tm d -> In sp (spots_of d) ->
  alookup "TRACK_ID" (final_attrs d sp) = option_map VInt (track_of d (spot_id sp)).
Proof.
  intros W Hsp. pose proof (base_no_track_id d W (base_node (attrs_md d) (has_roi d) sp)) as H. cbn [base_node snd] in H.
  assert (H0 : alookup "TRACK_ID" (node_attrs_of (attrs_md d) (has_roi d) sp) = None).
  { apply H. unfold base_nodes. apply in_map. exact Hsp. }
  unfold final_attrs. destruct (track_of d (spot_id sp)) as [t|]; cbn [option_map]; [|exact H0].
  rewrite alookup_app, H0. reflexivity.
Qed.

Definition track_id_prop (d : tm) (ids : list Z) : prop :=
  mkprop (PFixed (mkarr DI64 [length ids] (map (fun s => zdef (track_of d s)) ids)))
         (missing_arr (map (fun s => negb (linked d s)) ids)).

Lemma track_id_kind d : wf_tm d -> nkind d "TRACK_ID" = KI.
Proof. intros W. unfold nkind, key_kind, base_kind. cbn. rewrite (wf_int_keys d W "TRACK_ID" (or_introl eq_refl)). reflexivity. Qed.

Theorem track_id_column d ds dt : wf_tm d ->
  (exists s, In s (final_ids d ds dt) /\ linked d s = true) ->
  alookup "TRACK_ID" (nps_final d ds dt) = Some (track_id_prop d (final_ids d ds dt)).
Proof.
  intros W [s [Hs Hl]]. rewrite final_ids_spots in Hs. apply in_map_iff in Hs. destruct Hs as [sp0 [<- Hsp0]].
  assert (Hne : kept_spots d ds dt <> []) by (intros E; rewrite E in Hsp0; destruct Hsp0).
  rewrite (nps_final_nonempty d ds dt Hne). unfold nprops_of.
  assert (Hin : In "TRACK_ID" (keys_of (nelts d ds dt))).
  { apply keys_of_In. exists (final_attrs d sp0). split; [rewrite nelts_spots; apply in_map; exact Hsp0|]. apply ahas_in. unfold ahas.
    rewrite (alookup_track_id_final d sp0 W (kept_spot_in _ _ _ _ Hsp0)). unfold linked in Hl. destruct (track_of d (spot_id sp0)); [reflexivity | discriminate]. }
  rewrite (alookup_tprops _ _ _ Hin). f_equal. unfold tprop. rewrite (track_id_kind d W). unfold scalar_prop, track_id_prop. cbn [kdtype].
  rewrite nelts_spots, final_ids_spots, !map_length. f_equal.
  - do 2 f_equal. rewrite !map_map. apply map_ext_in. intros sp Hsp. unfold cell.
    rewrite (alookup_track_id_final d sp W (kept_spot_in _ _ _ _ Hsp)). destruct (track_of d (spot_id sp)); reflexivity.
  - f_equal. unfold col_missing. rewrite !map_map. apply map_ext_in. intros sp Hsp. unfold ahas, linked.
    rewrite (alookup_track_id_final d sp W (kept_spot_in _ _ _ _ Hsp)). destruct (track_of d (spot_id sp)); reflexivity.
Qed.

Lemma has_track_ids_iff d ds dt : wf_tm d ->
  has_track_ids (final_graph d ds dt) = existsb (linked d) (final_ids d ds dt).
Proof.
  intros W. unfold has_track_ids. rewrite final_ids_spots, final_nodes_eq.
  assert (H : forall l, (forall sp, In sp l -> In sp (spots_of d)) ->
            existsb (fun n : Z * attrs => ahas "TRACK_ID" (snd n)) (map (fun sp => (spot_id sp, final_attrs d sp)) l) = existsb (linked d) (map spot_id l)).
  { induction l as [|sp r IH]; intros Hsub; [reflexivity|]. cbn [map existsb fst snd]. rewrite IH; [|intros; apply Hsub; right; assumption]. f_equal.
    unfold ahas, linked. rewrite (alookup_track_id_final d sp W (Hsub sp (or_introl eq_refl))). destruct (track_of d (spot_id sp)); reflexivity. }
  apply H. intros sp. apply kept_spot_in.
Qed.

(* no node belongs to a track: no TRACK_ID property, and no lineage property is declared *)
Theorem no_track_id_column d ds dt : wf_tm d ->
  (forall s, In s (final_ids d ds dt) -> linked d s = false) ->
  alookup "TRACK_ID" (nps_final d ds dt) = None /\ x_lineage (extra_final d ds dt) = None.
Proof.
  intros W Hno. split.
  - unfold nps_final. destruct (final_ids d ds dt) as [|z r] eqn:E; [reflexivity|].
    apply alookup_none_notin. unfold nprops_of. rewrite akeys_tprops. intros Hin. apply keys_of_In in Hin.
    destruct Hin as [a [Ha Hk]]. rewrite nelts_spots in Ha. apply in_map_iff in Ha. destruct Ha as [sp [<- Hsp]].
    apply ahas_in in Hk. unfold ahas in Hk. rewrite (alookup_track_id_final d sp W (kept_spot_in _ _ _ _ Hsp)) in Hk.
    assert (Hl : linked d (spot_id sp) = false). { apply Hno. rewrite <- E, final_ids_spots. apply in_map. exact Hsp. }
    unfold linked in Hl. destruct (track_of d (spot_id sp)); discriminate.
  - unfold extra_final, extra_of. cbn [x_lineage]. rewrite (has_track_ids_iff d ds dt W).
    assert (E : existsb (linked d) (final_ids d ds dt) = false).
    { apply not_true_is_false. intros H. apply existsb_exists in H. destruct H as [s [Hs Hl]]. rewrite (Hno s Hs) in Hl. discriminate. }
    rewrite E. reflexivity.
Qed.

(* ================================================================== *)
(* 4. ROIs                                                             *)
(* ================================================================== *)
Lemma has_roi_all d sp : wf_tm d -> has_roi d = true -> In sp (spots_of d) -> roi_okb sp = true.
Proof.
  intros W Hr Hsp. destruct (wf_roi d W) as [Hno|Hro]; [rewrite (has_roi_noroi d Hno) in Hr; discriminate|].
  apply (forallb_In _ _ _ Hro Hsp).
Qed.

Lemma alookup_roi_final d sp : wf_tm d -> has_roi d = true -> In sp (spots_of d) ->
  alookup "ROI_coords" (final_attrs d sp) = Some (VRoi (Some (roi_pts sp))).
Proof.
  intros W Hr Hsp. pose proof (forallb_In _ _ _ (wf_spots d W) Hsp) as Hok. destruct (spot_ok_parts _ _ Hok) as [_ [_ [_ [_ Hnc]]]].
  assert (H0 : alookup "ROI_coords" (node_attrs_of (attrs_md d) (has_roi d) sp) = Some (VRoi (Some (roi_pts sp)))).
  { unfold node_attrs_of. rewrite Hr, alookup_app, alookup_cattrs. apply ahas_false in Hnc. rewrite Hnc. reflexivity. }
  unfold final_attrs. destruct (track_of d (spot_id sp)); [rewrite alookup_app, H0; reflexivity | exact H0].
Qed.

Theorem roi_column d ds dt : wf_tm d -> has_roi d = true -> kept_spots d ds dt <> [] ->
  exists pv, alookup "ROI_coords" (nps_final d ds dt) = Some (mkprop pv None) /\
    forall i sp, nth_error (kept_spots d ds dt) i = Some sp ->
      exists n dd coords, xint "ROI_N_POINTS" (sp_attrs sp) = Some (Z.of_nat n) /\ sp_text sp = Some coords /\
        length coords = (n * dd)%nat /\ pv_elem pv i = Some ([n; dd], coords).
Proof.
  intros W Hr Hne. rewrite (nps_final_nonempty d ds dt Hne). unfold nprops_of.
  assert (Hhas : forall a, In a (nelts d ds dt) -> ahas "ROI_coords" a = true).
  { intros a Ha. rewrite nelts_spots in Ha. apply in_map_iff in Ha. destruct Ha as [sp [<- Hsp]]. unfold ahas.
    rewrite (alookup_roi_final d sp W Hr (kept_spot_in _ _ _ _ Hsp)). reflexivity. }
  assert (Hin : In "ROI_coords" (keys_of (nelts d ds dt))).
  { apply keys_of_In. destruct (kept_spots d ds dt) as [|sp0 r] eqn:E; [congruence|]. exists (final_attrs d sp0).
    split; [rewrite nelts_spots, E; left; reflexivity|]. apply ahas_in. apply Hhas. rewrite nelts_spots, E. left; reflexivity. }
  assert (Hk : nkind d "ROI_coords" = KR) by reflexivity.
  pose proof (final_nodes_typed d ds dt W) as Hty. fold (nelts d ds dt) in Hty.
  destruct (roi_col_kinds (nkind d) _ _ Hty Hin Hk) as [Hnv Hall].
  destruct (roi_arr_spec _ Hnv Hall) as [pv [Hpv [Helem _]]]. rewrite col_values_length in Hpv.
  exists pv. split.
  - rewrite (alookup_tprops _ _ _ Hin). unfold tprop. rewrite Hk. unfold roi_pv. rewrite Hpv, (missing_none _ _ Hhas). reflexivity.
  - intros i sp Hi. pose proof (kept_spot_in d ds dt sp (nth_error_In _ _ Hi)) as Hsp.
    destruct (roi_ok_pts sp (has_roi_all d sp W Hr Hsp)) as [n [dd [coords [Hx [Ht [Hn [Hd [Hlen [Hl [Hall' Hc]]]]]]]]]].
    exists n, dd, coords. repeat split; auto.
    assert (Hv : nth_error (col_values "ROI_coords" (nelts d ds dt)) i = Some (VRoi (Some (roi_pts sp)))).
    { unfold col_values. rewrite nth_error_map, nelts_spots, nth_error_map, Hi. cbn [option_map].
      rewrite (alookup_roi_final d sp W Hr Hsp). reflexivity. }
    destruct (Helem i (roi_pts sp) Hv) as [sh [Hre He]]. rewrite He.
    rewrite (rect_uniform (roi_pts sp) dd) in Hre; [| intros E; rewrite E in Hl; cbn in Hl; lia | exact Hall'].
    inversion Hre; subst sh. cbn [fst snd]. rewrite Hl, Hc. reflexivity.
Qed.

(* ================================================================== *)
(* 5. Units and feature metadata                                       *)
(* ================================================================== *)
Lemma alookup_filter_keep {V} (p : string * V -> bool) l k v :
  alookup k l = Some v -> p (k, v) = true -> NoDup (akeys l) -> alookup k (filter p l) = Some v.
Proof.
  induction l as [|[k' v'] r IH]; cbn; [discriminate|]. intros Hl Hp Hnd. inversion Hnd as [|? ? Hk' Hr]; subst.
  destruct (String.eqb k k') eqn:E.
  - apply String.eqb_eq in E. subst k'. inversion Hl; subst v'. rewrite Hp. cbn. rewrite String.eqb_refl. reflexivity.
  - destruct (p (k', v')); [cbn; rewrite E|]; apply IH; assumption.
Qed.

Lemma alookup_fms sp ti ds dc : NoDup (map d_feat ds) -> In dc ds -> alookup (d_feat dc) (fms_of sp ti ds) = Some (fm_of sp ti dc).
Proof.
  intros Hnd Hin. apply alookup_in_nodup; [rewrite akeys_fms; exact Hnd|]. unfold fms_of. apply in_map_iff. exists dc. auto.
Qed.

Lemma alookup_aset_ne {V} k k' (v : V) l : k' <> k -> alookup k' (aset k v l) = alookup k' l.
Proof. apply alookup_aset_other. Qed.

Lemma akeys_aset_nodup {V} k (v : V) l : NoDup (akeys l) -> NoDup (akeys (aset k v l)).
Proof.
  induction l as [|[k' v'] r IH]; cbn; intros H; [repeat constructor; intros []|].
  inversion H as [|? ? Hk Hr]; subst. destruct (String.eqb k k') eqn:E; cbn.
  - apply String.eqb_eq in E. subst. constructor; assumption.
  - constructor; [|apply IH; exact Hr]. intros Hin. apply akeys_aset_in in Hin. destruct Hin as [->|Hin]; [rewrite String.eqb_refl in E; discriminate | contradiction].
Qed.

Lemma nmd_full_nodup d : wf_tm d -> NoDup (akeys (nmd_full d)).
Proof.
  intros W. unfold nmd_full. destruct (has_roi d); [apply akeys_aset_nodup, akeys_aset_nodup|]; rewrite akeys_fms; exact (wf_sdecl_nodup d W).
Qed.

Lemma alookup_nmd_full d dc : wf_tm d -> In dc (sdecls d) ->
  alookup (d_feat dc) (nmd_full d) = Some (fm_of (space_unit d) (time_unit d) dc).
Proof.
  intros W Hdc. destruct (decl_md d dc W (in_or_app _ _ _ (or_introl Hdc))) as [b [_ Hmd]].
  assert (Hne : forall k, In k ["ID"; "ROI_N_POINTS"; "ROI_coords"] -> d_feat dc <> k).
  { intros k Hk E. rewrite E, (wf_reserved d W k Hk) in Hmd. discriminate. }
  unfold nmd_full. destruct (has_roi d).
  - rewrite alookup_aset_ne, alookup_aset_ne; [apply alookup_fms; [exact (wf_sdecl_nodup d W) | exact Hdc] | |]; apply Hne; cbn; auto.
  - apply alookup_fms; [exact (wf_sdecl_nodup d W) | exact Hdc].
Qed.

(* the metadata entry of a declared feature: dtype of what is stored, the unit TrackMate's dimension stands for under the
   model's units, the declared name *)
Definition feature_pm (d : tm) (dc : decl) (b : bool) : pmeta :=
  let f := fm_of (space_unit d) (time_unit d) dc in
  mkpm (if b then DI64 else DF64) false (option_map (fun u => stok (sapp "u:" u)) (fm_unit f)) (Some (stok (sapp "n:" (fm_name f)))) None.

Lemma feat_prop_meta name b xs : name <> "" ->
  create_props_metadata name (feat_prop b name xs) = Ok (new_pm (if b then DI64 else DF64) false).
Proof.
  intros Hn. unfold create_props_metadata, vlen_dtypes_uniform, cpm_core, feat_prop, upcast_prop, upcast_arr. cbn [p_vals a_dt].
  destruct b; cbn [dtype_eqb p_vals a_dt]; rewrite (seqb_neq _ _ Hn); reflexivity.
Qed.

Theorem spot_feature_metadata d ds dt md' dc b : wf_tm d ->
  final_metadata (wgraph_final d ds dt) (md_final d ds dt) = Ok md' ->
  In dc (sdecls d) -> d_isint dc = Some b ->
  (exists sp, In sp (kept_spots d ds dt) /\ ahas (d_feat dc) (sp_attrs sp) = true) ->
  alookup (d_feat dc) (md_nprops md') = Some (feature_pm d dc b).
Proof.
  intros W Hmd Hdc Hb Hex.
  pose proof (spot_feature_column d ds dt dc b W Hdc Hb Hex) as Hcol.
  destruct (props_entries _ _ _ _ _ (final_wf_input d ds dt W) Hmd) as [_ [_ [Hent _]]].
  cbn [wgraph_final w_nids w_nprops] in Hent. rewrite backfill_final in Hent.
  assert (Hne : d_feat dc <> "") by (apply (decl_feat_nonempty d dc W); apply in_or_app; left; exact Hdc).
  rewrite (Hent _ _ _ (alookup_some_in _ _ _ Hcol) (feat_prop_meta _ b _ Hne)). f_equal.
  unfold md_final, metadata_of. cbn [md_nprops]. rewrite alookup_map.
  destruct Hex as [sp0 [Hsp0 Hh0]].
  assert (Hkeep : existsb (fun a : attrs => ahas (d_feat dc) a) (nelts d ds dt) = true).
  { apply existsb_exists. exists (final_attrs d sp0). split; [rewrite nelts_spots; apply in_map; exact Hsp0|].
    pose proof (kept_spot_in d ds dt sp0 Hsp0) as Hin.
    destruct (spot_ok_parts _ _ (forallb_In _ _ _ (wf_spots d W) Hin)) as [_ [_ [_ [Hnt0 Hnc0]]]].
    unfold ahas. rewrite (alookup_final_attrs d sp0 _ W Hin).
    - unfold ahas in Hh0. destruct (alookup (d_feat dc) (sp_attrs sp0)); [reflexivity | discriminate].
    - intros E. rewrite E in Hh0. congruence.
    - intros E. rewrite E in Hh0. congruence. }
  unfold nmd_final, prune_md. rewrite (alookup_filter_keep _ _ _ _ (alookup_nmd_full d dc W Hdc)); [| exact Hkeep | exact (nmd_full_nodup d W)].
  reflexivity.
Qed.

Theorem edge_feature_metadata d ds dt md' dc b : wf_tm d ->
  final_metadata (wgraph_final d ds dt) (md_final d ds dt) = Ok md' ->
  In dc (edecls d) -> d_isint dc = Some b ->
  (exists e, In e (final_edges d ds dt) /\ ahas (d_feat dc) (link_attrs d e) = true) ->
  alookup (d_feat dc) (md_eprops md') = Some (feature_pm d dc b).
Proof.
  intros W Hmd Hdc Hb Hex.
  pose proof (edge_feature_column d ds dt dc b W Hdc Hb Hex) as Hcol.
  destruct (props_entries _ _ _ _ _ (final_wf_input d ds dt W) Hmd) as [_ [_ [_ Hent]]].
  cbn [wgraph_final w_eprops] in Hent.
  assert (Hne : d_feat dc <> "") by (apply (decl_feat_nonempty d dc W); apply in_or_app; right; apply in_or_app; left; exact Hdc).
  rewrite (Hent _ _ _ (alookup_some_in _ _ _ Hcol) (feat_prop_meta _ b _ Hne)). f_equal.
  unfold md_final, metadata_of. cbn [md_eprops]. rewrite alookup_map.
  destruct Hex as [e0 [He0 Hh0]].
  assert (Hkeep : existsb (fun a : attrs => ahas (d_feat dc) a) (map snd (g_edges (final_graph d ds dt))) = true).
  { apply existsb_exists. exists (cattrs (attrs_md d) (link_attrs d e0)). split; [|rewrite ahas_cattrs; exact Hh0].
    unfold final_edges in He0. apply in_map_iff in He0. destruct He0 as [x [Hx1 Hx]].
    assert (Hs : snd x = cattrs (attrs_md d) (link_attrs d e0)).
    { pose proof (eouts_attrs d ds dt W) as Ha. unfold final_edges in Ha. rewrite map_map in Ha.
      assert (Hp : forall l : list (edge * attrs), In x l -> map snd l = map (fun y => cattrs (attrs_md d) (link_attrs d (fst y))) l ->
                   snd x = cattrs (attrs_md d) (link_attrs d (fst x))).
      { induction l as [|y r IH]; intros Hy Hm; [destruct Hy|]. cbn in Hm. inversion Hm. destruct Hy as [->|Hy]; auto. }
      rewrite <- Hx1. apply (Hp _ Hx Ha). }
    rewrite <- Hs. apply in_map. apply (Permutation_in _ (eouts_perm d ds dt W) Hx). }
  unfold emd_final, prune_md, emd_full.
  rewrite (alookup_filter_keep _ _ _ _ (alookup_fms _ _ _ dc (wf_edecl_nodup d W) Hdc)); [| exact Hkeep | rewrite akeys_fms; exact (wf_edecl_nodup d W)].
  reflexivity.
Qed.

(* ================================================================== *)
(* 6. Graph validation of the result                                   *)
(* ================================================================== *)
Lemma final_edges_in d ds dt e : wf_tm d -> In e (final_edges d ds dt) ->
  In e (links d) /\ keepb d ds dt (fst e) = true /\ keepb d ds dt (snd e) = true.
Proof.
  intros W He. apply (Permutation_in _ (final_edges_perm d ds dt W)) in He. apply filter_In in He. destruct He as [He HK].
  apply andb_true_iff in HK. tauto.
Qed.

Lemma in_final_edges d ds dt e : wf_tm d -> In e (links d) -> keepb d ds dt (fst e) = true -> keepb d ds dt (snd e) = true ->
  In e (final_edges d ds dt).
Proof.
  intros W He Hu Hv. apply (Permutation_in _ (Permutation_sym (final_edges_perm d ds dt W))). apply filter_In. rewrite Hu, Hv. auto.
Qed.

Theorem final_graph_valid d ds dt : wf_tm d -> graph_valid true (final_ids d ds dt) (final_edges d ds dt).
Proof.
  intros W. unfold graph_valid. split; [exact (final_ids_nodup d ds dt W)|]. split; [|split].
  - intros e He. unfold final_edges in He. apply in_map_iff in He. destruct He as [x [<- Hx]].
    apply (Permutation_in _ (eouts_perm d ds dt W)) in Hx. apply (final_endpoints d ds dt W x Hx).
  - intros e He. destruct (final_edge_link d ds dt e W He) as [l [Hl <-]].
    destruct (link_ok_parts _ _ _ (tlinks_ok d W l Hl)) as [_ [u [v [Hu [Hv [_ [_ Hne]]]]]]].
    unfold link_edge, edge_of. rewrite Hu, Hv. cbn. exact Hne.
  - apply (Permutation_NoDup (Permutation_sym (final_edges_perm d ds dt W))). apply NoDup_filter. exact (wf_links_nodup d W).
Qed.

(* ================================================================== *)
(* 7. Lineage validation of the result                                 *)
(* ================================================================== *)
(* TrackMate's tracks are the connected components of the link graph: two spots of one track are joined by links *)
Definition tracks_connected (d : tm) : Prop :=
  forall u v t, track_of d u = Some t -> track_of d v = Some t -> conn (links d) (spot_ids d) u v.

(* (node, lineage id) of the nodes that belong to a track *)
Definition NL_of (d : tm) (ids : list Z) : nlabels :=
  flat_map (fun s => match track_of d s with Some t => [(s, t)] | None => [] end) ids.

Lemma NL_of_In d ids s t : In (s, t) (NL_of d ids) <-> In s ids /\ track_of d s = Some t.
Proof.
  unfold NL_of. rewrite in_flat_map. split.
  - intros [x [Hx Hin]]. destruct (track_of d x) as [t'|] eqn:E; [|destruct Hin]. destruct Hin as [Heq|[]]. inversion Heq; subst. auto.
  - intros [Hs Ht]. exists s. split; [exact Hs|]. rewrite Ht. left; reflexivity.
Qed.

Lemma NL_of_nodes d ids : nodes_of (NL_of d ids) = filter (linked d) ids.
Proof.
  unfold nodes_of, NL_of, linked. induction ids as [|s r IH]; [reflexivity|]. cbn [flat_map filter].
  rewrite map_app, IH. destruct (track_of d s); reflexivity.
Qed.

Lemma keep_present_NL d ids :
  keep_present (map (fun s => negb (linked d s)) ids) (combine ids (map (fun s => zdef (track_of d s)) ids)) = NL_of d ids.
Proof.
  unfold NL_of, linked. induction ids as [|s r IH]; [reflexivity|]. cbn [map combine keep_present flat_map].
  destruct (track_of d s) as [t|]; cbn [negb zdef app]; rewrite IH; reflexivity.
Qed.

Lemma bools_of_b2z miss : map (fun z => negb (z =? 0)) (map b2z miss) = miss.
Proof. induction miss as [|b r IH]; [reflexivity|]. cbn. rewrite IH. destruct b; reflexivity. Qed.

Lemma keep_present_none {A} (miss : list bool) (rows : list A) : length miss = length rows ->
  existsb (fun b => b) miss = false -> keep_present miss rows = rows.
Proof.
  revert rows. induction miss as [|b r IH]; intros [|x xs] Hl He; cbn in *; try reflexivity; try discriminate.
  destruct b; [discriminate|]. cbn in He. rewrite IH; auto.
Qed.

Lemma annotated_track_ids d ids : annotated ids (track_id_prop d ids) = Some (NL_of d ids).
Proof.
  unfold annotated, track_id_prop. cbn [p_vals p_missing a_flat]. f_equal. unfold missing_arr.
  destruct (existsb (fun b => b) (map (fun s => negb (linked d s)) ids)) eqn:E.
  - unfold bools_of. cbn [a_flat]. rewrite bools_of_b2z. apply keep_present_NL.
  - rewrite <- (keep_present_NL d ids). symmetry. apply keep_present_none; [|exact E].
    rewrite combine_length, !map_length. lia.
Qed.

Lemma tof_touch ls l n : In l ls -> touches (link_edge l) n = true -> exists t, tof ls n = Some t.
Proof.
  induction ls as [|l' r IH]; intros Hl Ht; [destruct Hl|]. cbn. destruct (touches (link_edge l') n) eqn:E; [eauto|].
  destruct Hl as [->|Hl]; [congruence | auto].
Qed.

Lemma tof_in ls n t : tof ls n = Some t -> exists l, In l ls /\ touches (link_edge l) n = true /\ fst l = t.
Proof.
  induction ls as [|l' r IH]; cbn; [discriminate|]. destruct (touches (link_edge l') n) eqn:E.
  - intros H. inversion H. exists l'. auto.
  - intros H. destruct (IH H) as [l [Hl [Ht Hf]]]. exists l. auto.
Qed.

(* both ends of a link belong to the track that lists it *)
Lemma link_track d l n : wf_tm d -> In l (tlinks d) -> touches (link_edge l) n = true -> track_of d n = Some (fst l).
Proof.
  intros W Hl Ht. unfold track_of. destruct (tof_touch _ l n Hl Ht) as [t Hto]. rewrite Hto. f_equal.
  destruct (tof_in _ _ _ Hto) as [l' [Hl' [Ht' <-]]]. apply (wf_disjoint d W l' l n Hl' Hl Ht' Ht).
Qed.

Lemma links_in d e : In e (links d) -> exists l, In l (tlinks d) /\ link_edge l = e.
Proof. unfold links. intros H. apply in_map_iff in H. destruct H as [l [E Hl]]. exists l. auto. Qed.

Lemma edge_tracks d u v : wf_tm d -> In (u, v) (links d) -> exists t, track_of d u = Some t /\ track_of d v = Some t.
Proof.
  intros W He. destruct (links_in d _ He) as [l [Hl Hle]]. exists (fst l). split; apply (link_track d l _ W Hl); rewrite Hle; unfold touches; cbn;
    rewrite Z.eqb_refl; [reflexivity | apply orb_true_r].
Qed.

(* whether a spot is kept depends only on its track *)
Lemma keepb_track d ds dt u v t : track_of d u = Some t -> track_of d v = Some t -> keepb d ds dt u = keepb d ds dt v.
Proof. intros Hu Hv. unfold keepb, linked. rewrite Hu, Hv. reflexivity. Qed.

Lemma adj_tracks d u v : wf_tm d -> adj (links d) u v -> exists t, track_of d u = Some t /\ track_of d v = Some t.
Proof. intros W [H|H]; destruct (edge_tracks d _ _ W H) as [t [H1 H2]]; exists t; auto. Qed.

Lemma conn_same_track d ds dt : wf_tm d ->
  let E := final_edges d ds dt in let V := all_nodes E (NL_of d (final_ids d ds dt)) in
  forall u x, conn E V u x -> forall t, track_of d u = Some t -> In u (final_ids d ds dt) ->
  track_of d x = Some t /\ In x (final_ids d ds dt).
Proof.
  intros W E V u x H. induction H as [u x Hr | u | u y x _ IH1 _ IH2]; intros t Ht Hin.
  - destruct Hr as [_ [_ Hadj]].
    assert (Hl : adj (links d) u x).
    { destruct Hadj as [Ha|Ha]; [left | right]; apply (final_edges_in d ds dt _ W Ha). }
    destruct (adj_tracks d u x W Hl) as [t' [H1 H2]]. rewrite Ht in H1. inversion H1; subst t'. split; [exact H2|].
    destruct (final_graph_valid d ds dt W) as [_ [Hend _]].
    destruct Hadj as [Ha|Ha]; [apply (Hend _ Ha) | apply (Hend _ Ha)].
  - auto.
  - destruct (IH1 t Ht Hin) as [Hy Hyin]. apply (IH2 t Hy Hyin).
Qed.

Lemma conn_transfer d ds dt : wf_tm d ->
  let E := final_edges d ds dt in let V := all_nodes E (NL_of d (final_ids d ds dt)) in
  forall u x, conn (links d) (spot_ids d) u x -> forall t, track_of d u = Some t -> keepb d ds dt u = true ->
  conn E V u x /\ track_of d x = Some t.
Proof.
  intros W E V u x H. induction H as [u x Hr | u | u y x _ IH1 _ IH2]; intros t Ht HK.
  - destruct Hr as [_ [_ Hadj]]. destruct (adj_tracks d u x W Hadj) as [t' [H1 H2]]. rewrite Ht in H1. inversion H1; subst t'.
    split; [|exact H2]. assert (HKx : keepb d ds dt x = true) by (rewrite <- (keepb_track d ds dt u x t Ht H2); exact HK).
    assert (HE : adj E u x).
    { destruct Hadj as [Ha|Ha]; [left | right]; apply (in_final_edges d ds dt _ W Ha); assumption. }
    apply rt_step. unfold radj. repeat split; [| | exact HE].
    + apply all_nodes_In. right. unfold mentioned. apply in_flat_map. destruct HE as [Ha|Ha]; eexists; (split; [exact Ha|]); cbn; auto.
    + apply all_nodes_In. right. unfold mentioned. apply in_flat_map. destruct HE as [Ha|Ha]; eexists; (split; [exact Ha|]); cbn; auto.
  - split; [apply rt_refl | exact Ht].
  - destruct (IH1 t Ht HK) as [C1 Hy]. assert (HKy : keepb d ds dt y = true) by (rewrite <- (keepb_track d ds dt u y t Ht Hy); exact HK).
    destruct (IH2 t Hy HKy) as [C2 Hx]. split; [eapply rt_trans; eassumption | exact Hx].
Qed.

Theorem final_lineages_valid d ds dt : wf_tm d -> tracks_connected d ->
  invalid_lineages (final_edges d ds dt) (NL_of d (final_ids d ds dt)) = [].
Proof.
  intros W TC. set (ids := final_ids d ds dt). set (NL := NL_of d ids).
  assert (Hnd : NoDup (nodes_of NL)) by (unfold NL; rewrite NL_of_nodes; apply NoDup_filter; exact (final_ids_nodup d ds dt W)).
  apply (lineages_iff _ _ Hnd). unfold lineage_spec. cbn zeta.
  assert (Hnode : forall u, In u (nodes_of NL) <-> In u ids /\ exists t, track_of d u = Some t).
  { intros u. unfold NL. rewrite NL_of_nodes, filter_In. unfold linked. split; intros [H1 H2]; (split; [exact H1|]).
    - destruct (track_of d u) as [t|]; [eauto | discriminate].
    - destruct H2 as [t ->]. reflexivity. }
  assert (Hlab : forall u t, In u ids -> track_of d u = Some t -> label_of NL u = Some t).
  { intros u t Hu Ht. apply In_label_of; [exact Hnd|]. apply NL_of_In. auto. }
  assert (Hkeep : forall u, In u ids -> keepb d ds dt u = true).
  { intros u Hu. unfold ids in Hu. rewrite final_ids_eq in Hu. apply filter_In in Hu. tauto. }
  split.
  - intros u v Hu Hv. apply Hnode in Hu, Hv. destruct Hu as [Hu [tu Htu]]. destruct Hv as [Hv [tv Htv]].
    rewrite (Hlab u tu Hu Htu), (Hlab v tv Hv Htv). split.
    + intros Heq. inversion Heq; subst tv. apply (conn_transfer d ds dt W u v (TC u v tu Htu Htv) tu Htu (Hkeep u Hu)).
    + intros Hc. destruct (conn_same_track d ds dt W u v Hc tu Htu Hu) as [Hv' _]. congruence.
  - intros u x Hu Hc. apply Hnode in Hu. destruct Hu as [Hu [tu Htu]].
    destruct (conn_same_track d ds dt W u x Hc tu Htu Hu) as [Hx Hxin]. apply Hnode. eauto.
Qed.

(* the verdicts of validate_data(graph) and validate_data(lineage) on the graph read back *)
Theorem final_verdicts d ds dt md' : wf_tm d -> tracks_connected d -> md_directed md' = true ->
  let back := mkmg md' (nids_arr d ds dt) (eids_arr d ds dt) (nps_final d ds dt) (eprops_of d ds dt) in
  graph_ok back = true /\ lineage_ok back (x_lineage (extra_final d ds dt)) = Ok true.
Proof.
  intros W TC Hdir back. split.
  - unfold graph_ok, back. cbn [g_md g_nids g_eids nids_arr eids_arr a_flat]. rewrite Hdir, pairs_of_eflat.
    rewrite (proj2 (graph_check_none_iff true _ _) (final_graph_valid d ds dt W)). reflexivity.
  - unfold lineage_ok, extra_final, extra_of. cbn [x_lineage]. rewrite (has_track_ids_iff d ds dt W).
    destruct (existsb (linked d) (final_ids d ds dt)) eqn:E; [|reflexivity].
    apply existsb_exists in E. unfold back. cbn [g_nprops g_nids g_eids nids_arr eids_arr a_flat].
    rewrite (track_id_column d ds dt W E), annotated_track_ids, pairs_of_eflat, (final_lineages_valid d ds dt W TC). reflexivity.
Qed.

(* ================================================================== *)
(* 8. The conversion as the caller sees it                             *)
(* ================================================================== *)
(* conversion onto a free target succeeded, the stored geff passes structural validation, read_to_memory returns `back`,
   and `x` is what the metadata says beside the property tables *)
Definition converted (d : tm) (ds dt : bool) (back : mgraph) (x : tmextra) : Prop :=
  exists tr post,
    from_trackmate d ds dt false (init None) = (mkst (Some post) tr, Ok tt) /\
    validate_structure KPath (Some post) = Ok tt /\
    read_to_memory KPath (Some post) true None None = Ok back /\
    exists g md, convert d ds dt = Ok (g, md, x).

Definition back_final (d : tm) (ds dt : bool) (md' : smeta) : mgraph :=
  mkmg md' (nids_arr d ds dt) (eids_arr d ds dt) (nps_final d ds dt) (eprops_of d ds dt).

Theorem converts d ds dt : wf_tm d ->
  exists md', final_metadata (wgraph_final d ds dt) (md_final d ds dt) = Ok md' /\
              converted d ds dt (back_final d ds dt md') (extra_final d ds dt).
Proof.
  intros W. destruct (pipeline d ds dt false W) as [md' [tr [post [Hmd [Hrun [Hv Hr]]]]]].
  exists md'. split; [exact Hmd|]. exists tr, post. repeat split; auto.
  eexists. eexists. apply (convert_wf d ds dt W).
Qed.

Theorem converted_is d ds dt back x : wf_tm d -> converted d ds dt back x ->
  exists md', final_metadata (wgraph_final d ds dt) (md_final d ds dt) = Ok md' /\
              back = back_final d ds dt md' /\ x = extra_final d ds dt.
Proof.
  intros W [tr [post [Hrun [_ [Hr [g [md Hc]]]]]]].
  destruct (pipeline d ds dt false W) as [md' [tr' [post' [Hmd [Hrun' [_ Hr']]]]]].
  rewrite Hrun in Hrun'. inversion Hrun'; subst post'. rewrite Hr in Hr'. inversion Hr'; subst back.
  rewrite (convert_wf d ds dt W) in Hc. inversion Hc; subst.
  exists md'. auto.
Qed.

Lemma md_final_directed d ds dt md' : final_metadata (wgraph_final d ds dt) (md_final d ds dt) = Ok md' -> md_directed md' = true.
Proof. intros H. destruct (final_metadata_fields _ _ _ H) as [_ [_ [Hd _]]]. rewrite Hd. reflexivity. Qed.

(* an occupied target is refused and left alone *)
Theorem occupied d ds dt pre : tm_exists d = true ->
  from_trackmate d ds dt false (init (Some pre)) = (init (Some pre), Err FileExistsError).
Proof. intros He. unfold from_trackmate. rewrite He. reflexivity. Qed.

Theorem missing_xml d ds dt ow pre : tm_exists d = false ->
  from_trackmate d ds dt ow (init pre) = (init pre, Err FileNotFoundError).
Proof. intros He. unfold from_trackmate. rewrite He. reflexivity. Qed.

(* ================================================================== *)
(* 9. A decision procedure for well-formedness (used by the examples)  *)
(* ================================================================== *)
Fixpoint nodupb {A} (eqb : A -> A -> bool) (l : list A) : bool :=
  match l with [] => true | x :: r => negb (existsb (eqb x) r) && nodupb eqb r end.
Lemma nodupb_sound {A} (eqb : A -> A -> bool) (H : forall x y, eqb x y = true <-> x = y) l : nodupb eqb l = true -> NoDup l.
Proof.
  induction l as [|x r IH]; cbn; intros Hn; [constructor|]. apply andb_true_iff in Hn. destruct Hn as [H1 H2].
  constructor; [|apply IH; exact H2]. intros Hin. apply negb_true_iff in H1.
  assert (Ht : existsb (eqb x) r = true) by (apply existsb_exists; exists x; split; [exact Hin | apply H; reflexivity]). congruence.
Qed.

Definition shareb (e1 e2 : edge) : bool :=
  (fst e1 =? fst e2) || (fst e1 =? snd e2) || (snd e1 =? fst e2) || (snd e1 =? snd e2).

Definition omd_eqb (a b : option (option bool)) : bool := option_eqb (option_eqb Bool.eqb) a b.
Lemma omd_eqb_eq a b : omd_eqb a b = true -> a = b.
Proof. destruct a as [[[|]|]|], b as [[[|]|]|]; cbn; intros; try reflexivity; discriminate. Qed.

Definition wf_tmb (d : tm) : bool :=
  let md := attrs_md d in
  let all := sdecls d ++ edecls d ++ tdecls d in
  tm_exists d && is_some (tm_decls d) && is_some (tm_spots d) && is_some (tm_tracks d) &&
  forallb (decl_okb (space_unit d) (time_unit d)) all &&
  nodupb String.eqb (map d_feat (sdecls d)) && nodupb String.eqb (map d_feat (edecls d)) && nodupb String.eqb (map d_feat (tdecls d)) &&
  forallb (fun dc => omd_eqb (alookup (d_feat dc) md) (Some (d_isint dc))) all &&
  forallb (fun k => omd_eqb (alookup k md) None) ["ID"; "ROI_N_POINTS"; "ROI_coords"] &&
  forallb (fun k => omd_eqb (alookup k md) (Some (Some true))) ["TRACK_ID"; "SPOT_SOURCE_ID"; "SPOT_TARGET_ID"] &&
  forallb (fun k => omd_eqb (alookup k md) (Some (Some false)) && smem k (map d_feat (sdecls d))) ["POSITION_X"; "POSITION_Y"; "POSITION_Z"; "POSITION_T"] &&
  forallb (spot_okb md) (spots_of d) &&
  forallb (fun sp => nodupb String.eqb (akeys (sp_attrs sp))) (spots_of d) &&
  nodupb Z.eqb (spot_ids d) &&
  (forallb no_roib (spots_of d) || forallb roi_okb (spots_of d)) &&
  forallb (track_okb md (spot_ids d)) (tracks_of d) &&
  forallb (fun tr => nodupb String.eqb (akeys (tr_attrs tr)) && forallb (fun ea => nodupb String.eqb (akeys ea)) (tr_edges tr)) (tracks_of d) &&
  nodupb pair_eqb (links d) &&
  forallb (fun l1 => forallb (fun l2 => negb (shareb (link_edge l1) (link_edge l2)) || (fst l1 =? fst l2)) (tlinks d)) (tlinks d) &&
  match tm_filtered d with
  | Some l => forallb (fun o => match o with Some r => is_some (raw_int r) | None => false end) l
  | None => true
  end.

Lemma touches_share e1 e2 n : touches e1 n = true -> touches e2 n = true -> shareb e1 e2 = true.
Proof.
  unfold touches, shareb. intros H1 H2. apply orb_true_iff in H1, H2.
  destruct H1 as [H1|H1], H2 as [H2|H2]; apply Z.eqb_eq in H1, H2; subst n;
    [rewrite H2, Z.eqb_refl | rewrite H2, Z.eqb_refl | rewrite H2, Z.eqb_refl | rewrite H2, Z.eqb_refl]; cbn; rewrite ?orb_true_r; reflexivity.
Qed.

Theorem wf_tmb_sound d : wf_tmb d = true -> wf_tm d.
Proof.
  unfold wf_tmb. intros H. repeat (apply andb_true_iff in H; destruct H as [H ?]).
  constructor.
  - exact H.
  - destruct (tm_decls d); [discriminate | discriminate].
  - destruct (tm_spots d); [discriminate | discriminate].
  - destruct (tm_tracks d); [discriminate | discriminate].
  - assumption.
  - apply (nodupb_sound String.eqb String.eqb_eq). assumption.
  - apply (nodupb_sound String.eqb String.eqb_eq). assumption.
  - apply (nodupb_sound String.eqb String.eqb_eq). assumption.
  - intros dc Hdc. apply omd_eqb_eq. apply (forallb_In _ _ _ H12 Hdc).
  - intros k Hk. apply omd_eqb_eq. apply (forallb_In _ _ _ H11 Hk).
  - intros k Hk. apply omd_eqb_eq. apply (forallb_In _ _ _ H10 Hk).
  - intros k Hk. pose proof (forallb_In _ _ _ H9 Hk) as Hb. cbn beta in Hb. apply andb_true_iff in Hb. destruct Hb as [Hb1 Hb2].
    split; [apply omd_eqb_eq; exact Hb1 | apply smem_In; exact Hb2].
  - assumption.
  - intros sp Hsp. apply (nodupb_sound String.eqb String.eqb_eq). apply (forallb_In _ _ _ H7 Hsp).
  - apply (nodupb_sound Z.eqb Z.eqb_eq). assumption.
  - apply orb_true_iff. assumption.
  - assumption.
  - intros tr Htr. pose proof (forallb_In _ _ _ H3 Htr) as Hb. cbn beta in Hb. apply andb_true_iff in Hb. destruct Hb as [Hb1 Hb2].
    split; [apply (nodupb_sound String.eqb String.eqb_eq); exact Hb1|]. intros ea Hea. apply (nodupb_sound String.eqb String.eqb_eq). apply (forallb_In _ _ _ Hb2 Hea).
  - apply (nodupb_sound pair_eqb pair_eqb_eq). assumption.
  - intros l1 l2 n Hl1 Hl2 Ht1 Ht2. pose proof (forallb_In _ _ _ (forallb_In _ _ _ H1 Hl1) Hl2) as Hb. cbn beta in Hb.
    rewrite (touches_share _ _ n Ht1 Ht2) in Hb. cbn in Hb. apply Z.eqb_eq. exact Hb.
  - intros l Hl. rewrite Hl in H0. exact H0.
Qed.

(* a decision procedure for "tracks are connected" *)
Definition linked_nodes (d : tm) : list Z := dedup Z.eqb (mentioned (links d)).
Definition tracks_connectedb (d : tm) : bool :=
  forallb (fun u => forallb (fun v =>
    match track_of d u, track_of d v with
    | Some a, Some b => negb (a =? b) || memb v (reach (links d) (spot_ids d) u)
    | _, _ => true
    end) (linked_nodes d)) (linked_nodes d).

Lemma track_of_mentioned d n t : track_of d n = Some t -> In n (linked_nodes d).
Proof.
  intros H. unfold track_of in H. destruct (tof_in _ _ _ H) as [l [Hl [Ht _]]]. unfold linked_nodes.
  apply (dedup_In Z.eqb Z.eqb_eq). unfold mentioned. apply in_flat_map. exists (link_edge l). split; [unfold links; apply in_map; exact Hl|].
  unfold touches in Ht. apply orb_true_iff in Ht. destruct Ht as [Ht|Ht]; apply Z.eqb_eq in Ht; cbn; auto.
Qed.

Theorem tracks_connectedb_sound d : wf_tm d -> tracks_connectedb d = true -> tracks_connected d.
Proof.
  intros W H u v t Hu Hv. unfold tracks_connectedb in H.
  pose proof (forallb_In _ _ _ (forallb_In _ _ _ H (track_of_mentioned d u t Hu)) (track_of_mentioned d v t Hv)) as Hb. cbn beta in Hb.
  rewrite Hu, Hv, Z.eqb_refl in Hb. cbn in Hb. apply memb_In in Hb. apply (reach_sound _ _ _ _) in Hb; [exact Hb|].
  destruct (tof_in _ _ _ Hu) as [l [Hl [Ht _]]].
  destruct (link_ok_parts _ _ _ (tlinks_ok d W l Hl)) as [_ [a [b [Ha [Hb' [Hai [Hbi _]]]]]]].
  unfold touches, link_edge, edge_of in Ht. rewrite Ha, Hb' in Ht. cbn in Ht. apply orb_true_iff in Ht.
  destruct Ht as [Ht|Ht]; apply Z.eqb_eq in Ht; subst; assumption.
Qed.

(* ================================================================== *)
(* 10. The statements of C16                                           *)
(* ================================================================== *)
Lemma c16_converts d ds dt : wf_tm d -> exists back x, converted d ds dt back x.
Proof. intros W. destruct (converts d ds dt W) as [md' [_ H]]. eauto. Qed.

Lemma c16_nodes_edges_gen d ds dt back x : wf_tm d -> converted d ds dt back x ->
  md_directed (g_md back) = true /\
  g_nids back = mkarr DU64 [length (filter (keepb d ds dt) (spot_ids d))] (filter (keepb d ds dt) (spot_ids d)) /\
  a_flat (g_nids back) = map spot_id (kept_spots d ds dt) /\
  exists es, g_eids back = mkarr DU64 [length es; 2%nat] (eflat es) /\
             Permutation es (filter (fun e : edge => keepb d ds dt (fst e) && keepb d ds dt (snd e)) (links d)).
Proof.
  intros W C. destruct (converted_is d ds dt back x W C) as [md' [Hmd [-> _]]]. unfold back_final. cbn [g_md g_nids g_eids].
  split; [apply (md_final_directed d ds dt md' Hmd)|]. split; [unfold nids_arr; rewrite final_ids_eq; reflexivity|].
  split; [unfold nids_arr; cbn [a_flat]; apply final_ids_spots|].
  exists (final_edges d ds dt). split; [reflexivity | apply (final_edges_perm d ds dt W)].
Qed.

Lemma c16_nodes_edges d back x : wf_tm d -> converted d false false back x ->
  md_directed (g_md back) = true /\
  g_nids back = mkarr DU64 [length (spot_ids d)] (spot_ids d) /\
  exists es, g_eids back = mkarr DU64 [length es; 2%nat] (eflat es) /\ Permutation es (links d).
Proof.
  intros W C. destruct (c16_nodes_edges_gen d false false back x W C) as [Hd [Hn [_ [es [He Hp]]]]].
  split; [exact Hd|]. split.
  - rewrite Hn, filter_all; [reflexivity | intros; reflexivity].
  - exists es. split; [exact He|]. rewrite filter_all in Hp; [exact Hp | intros; reflexivity].
Qed.

Lemma c16_discard_spots d back x : wf_tm d -> converted d true false back x ->
  forall s, In s (a_flat (g_nids back)) <-> In s (spot_ids d) /\ track_of d s <> None.
Proof.
  intros W C s. destruct (c16_nodes_edges_gen d true false back x W C) as [_ [Hn _]]. rewrite Hn. cbn [a_flat].
  rewrite filter_In. unfold keepb, linked. cbn [negb orb andb]. rewrite andb_true_r.
  destruct (track_of d s); split; intros [H1 H2]; split; auto; congruence.
Qed.

Lemma c16_discard_tracks d ds back x keep : wf_tm d -> kept_ids d = Some keep -> converted d ds true back x ->
  forall s, In s (a_flat (g_nids back)) <-> In s (spot_ids d) /\ exists t, track_of d s = Some t /\ In t keep.
Proof.
  intros W Hk C s. destruct (c16_nodes_edges_gen d ds true back x W C) as [_ [Hn _]]. rewrite Hn. cbn [a_flat].
  rewrite filter_In. unfold keepb, linked. rewrite Hk. cbn [negb orb].
  destruct (track_of d s) as [t|]; cbn [orb andb].
  - rewrite orb_true_r. cbn [andb]. split; intros [H1 H2]; (split; [exact H1|]).
    + exists t. split; [reflexivity | apply zmem_In; exact H2].
    + destruct H2 as [t' [Ht Hin]]. inversion Ht; subst. apply zmem_In. exact Hin.
  - rewrite andb_false_r. split; [intros [_ H]; discriminate | intros [_ [t [H _]]]; discriminate].
Qed.

(* without a FilteredTracks section the second option discards nothing *)
Lemma c16_discard_tracks_nosection d back x : wf_tm d -> kept_ids d = None -> converted d false true back x ->
  a_flat (g_nids back) = spot_ids d.
Proof.
  intros W Hk C. destruct (c16_nodes_edges_gen d false true back x W C) as [_ [Hn _]]. rewrite Hn. cbn [a_flat].
  apply filter_all. intros s _. unfold keepb. rewrite Hk. reflexivity.
Qed.

Lemma c16_features d ds dt back x dc b : wf_tm d -> converted d ds dt back x -> In dc (sdecls d) -> d_isint dc = Some b ->
  (exists sp, In sp (kept_spots d ds dt) /\ ahas (d_feat dc) (sp_attrs sp) = true) ->
  alookup (d_feat dc) (g_nprops back) = Some (feat_prop b (d_feat dc) (map sp_attrs (kept_spots d ds dt))).
Proof.
  intros W C Hdc Hb Hex. destruct (converted_is d ds dt back x W C) as [md' [_ [-> _]]]. apply (spot_feature_column d ds dt dc b W Hdc Hb Hex).
Qed.

Lemma c16_edge_features d ds dt back x dc b : wf_tm d -> converted d ds dt back x -> In dc (edecls d) -> d_isint dc = Some b ->
  let es := pairs_of (a_flat (g_eids back)) in
  (exists e, In e es /\ ahas (d_feat dc) (link_attrs d e) = true) ->
  alookup (d_feat dc) (g_eprops back) = Some (feat_prop b (d_feat dc) (map (link_attrs d) es)).
Proof.
  intros W C Hdc Hb. destruct (converted_is d ds dt back x W C) as [md' [_ [-> _]]]. unfold back_final. cbn [g_eids g_eprops eids_arr a_flat].
  rewrite pairs_of_eflat. cbn zeta. apply (edge_feature_column d ds dt dc b W Hdc Hb).
Qed.

Lemma c16_track_ids d ds dt back x : wf_tm d -> converted d ds dt back x ->
  let ids := a_flat (g_nids back) in
  (existsb (linked d) ids = true -> alookup "TRACK_ID" (g_nprops back) = Some (track_id_prop d ids) /\ x_lineage x = Some "TRACK_ID") /\
  (existsb (linked d) ids = false -> alookup "TRACK_ID" (g_nprops back) = None /\ x_lineage x = None).
Proof.
  intros W C. destruct (converted_is d ds dt back x W C) as [md' [_ [-> ->]]]. unfold back_final. cbn [g_nids g_nprops nids_arr a_flat]. cbn zeta. split.
  - intros E. split; [apply (track_id_column d ds dt W); apply existsb_exists in E; exact E|].
    unfold extra_final, extra_of. cbn [x_lineage]. rewrite (has_track_ids_iff d ds dt W), E. reflexivity.
  - intros E. apply (no_track_id_column d ds dt W). intros s Hs. destruct (linked d s) eqn:El; [|reflexivity].
    assert (Ht : existsb (linked d) (final_ids d ds dt) = true) by (apply existsb_exists; exists s; auto). congruence.
Qed.

Lemma c16_units d ds dt back x : wf_tm d -> converted d ds dt back x ->
  x_axes x = [("POSITION_X", "space", space_unit d); ("POSITION_Y", "space", space_unit d);
              ("POSITION_Z", "space", space_unit d); ("POSITION_T", "time", time_unit d)] /\
  (forall dc b, In dc (sdecls d) -> d_isint dc = Some b ->
     (exists sp, In sp (kept_spots d ds dt) /\ ahas (d_feat dc) (sp_attrs sp) = true) ->
     alookup (d_feat dc) (md_nprops (g_md back)) = Some (feature_pm d dc b)) /\
  (forall dc b, In dc (edecls d) -> d_isint dc = Some b ->
     (exists e, In e (pairs_of (a_flat (g_eids back))) /\ ahas (d_feat dc) (link_attrs d e) = true) ->
     alookup (d_feat dc) (md_eprops (g_md back)) = Some (feature_pm d dc b)).
Proof.
  intros W C. destruct (converted_is d ds dt back x W C) as [md' [Hmd [-> ->]]]. unfold back_final. cbn [g_md g_eids eids_arr a_flat].
  rewrite pairs_of_eflat. split; [reflexivity|]. split.
  - intros dc b. apply (spot_feature_metadata d ds dt md' dc b W Hmd).
  - intros dc b. apply (edge_feature_metadata d ds dt md' dc b W Hmd).
Qed.

Lemma c16_roi d ds dt back x : wf_tm d -> converted d ds dt back x -> has_roi d = true -> kept_spots d ds dt <> [] ->
  exists pv, alookup "ROI_coords" (g_nprops back) = Some (mkprop pv None) /\
    forall i sp, nth_error (kept_spots d ds dt) i = Some sp ->
      exists n dd coords, xint "ROI_N_POINTS" (sp_attrs sp) = Some (Z.of_nat n) /\ sp_text sp = Some coords /\
        length coords = (n * dd)%nat /\ pv_elem pv i = Some ([n; dd], coords).
Proof.
  intros W C Hr Hne. destruct (converted_is d ds dt back x W C) as [md' [_ [-> _]]]. apply (roi_column d ds dt W Hr Hne).
Qed.

Lemma c16_valid d ds dt back x : wf_tm d -> tracks_connected d -> converted d ds dt back x ->
  graph_ok back = true /\ lineage_ok back (x_lineage x) = Ok true.
Proof.
  intros W TC C. destruct (converted_is d ds dt back x W C) as [md' [Hmd [-> ->]]].
  apply (final_verdicts d ds dt md' W TC (md_final_directed d ds dt md' Hmd)).
Qed.
