(* TrackMateProps.v -- what the converted geff holds, read off the arrays of TrackMateValid.v: nodes and edges,
   feature columns, track ids, units, ROIs. *)
From Coq Require Import Permutation Relations.
From Geff Require Import Base Dtype DtypeLemmas Vlen VlenLemmas Tree TreeLemmas Validate Write Read GraphVal GraphValLemmas
  Reach Tracks TracksLemmas WriteLemmas ReadLemmas RoundTrip ValidateLayout C01Lemmas C10Lemmas
  TrackMate TrackMateLemmas TrackMateCols TrackMateValid.
From Geff.Gen Require Import Consts.
Open Scope string_scope.
Open Scope list_scope.
Open Scope Z_scope.

(* ================================================================== *)
(* 1. Nodes = kept spots, edges = kept links                           *)
(* ================================================================== *)
Definition kept_spots (d : tm) (ds dt : bool) : list spot :=
  filter (fun sp => keepb d ds dt (spot_id sp)) (spots_of d).
Definition final_attrs (d : tm) (sp : spot) : attrs :=
  match track_of d (spot_id sp) with
  | Some t => node_attrs_of (attrs_md d) (has_roi d) sp ++ [("TRACK_ID", VInt t)]
  | None => node_attrs_of (attrs_md d) (has_roi d) sp
  end.

Lemma filter_map {A B} (f : A -> B) (p : B -> bool) l : filter p (map f l) = map f (filter (fun x => p (f x)) l).
Proof. induction l as [|x r IH]; cbn; [reflexivity|]. destruct (p (f x)); cbn; rewrite IH; reflexivity. Qed.

Lemma final_nodes_eq d ds dt :
  g_nodes (final_graph d ds dt) = map (fun sp => (spot_id sp, final_attrs d sp)) (kept_spots d ds dt).
Proof.
  unfold final_graph, restrict, full_graph, base_nodes, kept_spots. cbn [g_nodes]. rewrite map_map, filter_map.
  apply map_ext. intros sp. unfold final_attrs, stampT, base_node. cbn [fst snd]. rewrite zlookup_tmap. reflexivity.
Qed.

Lemma final_ids_spots d ds dt : final_ids d ds dt = map spot_id (kept_spots d ds dt).
Proof. unfold final_ids. rewrite final_nodes_eq, map_map. reflexivity. Qed.
Lemma nelts_spots d ds dt : nelts d ds dt = map (final_attrs d) (kept_spots d ds dt).
Proof. unfold nelts. rewrite final_nodes_eq, map_map. reflexivity. Qed.

Lemma kept_spot_in d ds dt sp : In sp (kept_spots d ds dt) -> In sp (spots_of d).
Proof. unfold kept_spots. intros H. apply filter_In in H. tauto. Qed.

(* the edge list of the geff is a rearrangement of the kept links (networkx lists edges by source node) *)
Lemma final_edges_perm d ds dt : wf_tm d ->
  Permutation (final_edges d ds dt) (filter (fun e : edge => keepb d ds dt (fst e) && keepb d ds dt (snd e)) (links d)).
Proof.
  intros W. unfold final_edges. eapply Permutation_trans; [apply Permutation_map; apply (eouts_perm d ds dt W)|].
  unfold final_graph, restrict, full_graph, links. cbn [g_edges]. rewrite filter_map, !map_map, filter_map. cbn [elink fst].
  apply Permutation_refl.
Qed.

Lemma pairs_of_eflat es : pairs_of (eflat es) = es.
Proof. induction es as [|[u v] r IH]; [reflexivity|]. unfold eflat. cbn [flat_map app pairs_of fst snd]. fold (eflat r). rewrite IH. reflexivity. Qed.

(* ================================================================== *)
(* 2. Feature columns                                                  *)
(* ================================================================== *)
(* the number stored for an attribute text: its integer, or the payload of its float value *)
Definition raw_payload (isint : bool) (r : raw) : Z :=
  match r_parse r with
  | PInt z f => if isint then z else f
  | PFlt f => f
  | PStr => 0
  end.
Definition feat_cell (isint : bool) (f : string) (a : xattrs) : Z :=
  match alookup f a with Some r => raw_payload isint r | None => 0 end.
(* a feature column over elements with attributes xs: int64 / float64, value or fill value 0, missing exactly where absent *)
Definition feat_prop (isint : bool) (f : string) (xs : list xattrs) : prop :=
  mkprop (PFixed (mkarr (if isint then DI64 else DF64) [length xs] (map (feat_cell isint f) xs)))
         (missing_arr (map (fun a : xattrs => negb (ahas f a)) xs)).

Lemma zof_cval md f r b : alookup f md = Some (Some b) -> attr_okb md (f, r) = true -> zof (cval md f r) = raw_payload b r.
Proof.
  intros Hmd Hok. unfold attr_okb in Hok. cbn [fst snd] in Hok. rewrite Hmd in Hok. apply andb_true_iff in Hok. destruct Hok as [_ Hok].
  unfold cval, conv_one, conv_int, raw_payload. rewrite Hmd. destruct b.
  - apply int_rawb_spec in Hok. destruct Hok as [z [fl [-> _]]]. reflexivity.
  - destruct (r_parse r); try discriminate; reflexivity.
Qed.

Lemma feat_column {A} (kf : string -> vkind) (md : mdmap) (g : A -> attrs) (h : A -> xattrs) (xs : list A) f b :
  Forall (typedk kf) (map g xs) ->
  alookup f md = Some (Some b) -> kf f = (if b then KI else KF) ->
  (forall x, In x xs -> alookup f (g x) = option_map (cval md f) (alookup f (h x)) /\ forallb (attr_okb md) (h x) = true) ->
  (exists x, In x xs /\ ahas f (h x) = true) ->
  alookup f (tprops kf (map g xs)) = Some (feat_prop b f (map h xs)).
Proof.
  intros Hty Hmd Hk Hx [x0 [Hx0 Hh0]].
  assert (Hin : In f (keys_of (map g xs))).
  { apply keys_of_In. exists (g x0). split; [apply in_map; exact Hx0|]. apply ahas_in. unfold ahas. rewrite (proj1 (Hx x0 Hx0)).
    unfold ahas in Hh0. destruct (alookup f (h x0)); [reflexivity | discriminate]. }
  rewrite (alookup_tprops _ _ _ Hin). f_equal. unfold tprop, feat_prop. rewrite Hk.
  assert (Hcell : forall k, (k = KI \/ k = KF) -> forall x, In x xs -> cell k f (g x) = feat_cell b f (h x)).
  { intros k Hkk x Hxin. unfold cell, feat_cell. destruct (Hx x Hxin) as [Hl Hok]. rewrite Hl.
    destruct (alookup f (h x)) as [r|] eqn:E; cbn [option_map].
    - apply (zof_cval md f r b Hmd). apply (forallb_In _ _ _ Hok). apply alookup_some_in. exact E.
    - destruct Hkk as [-> | ->]; reflexivity. }
  assert (Hmiss : col_missing f (map g xs) = map (fun a : xattrs => negb (ahas f a)) (map h xs)).
  { unfold col_missing. rewrite !map_map. apply map_ext_in. intros x Hxin. unfold ahas. rewrite (proj1 (Hx x Hxin)).
    destruct (alookup f (h x)); reflexivity. }
  destruct b; unfold scalar_prop; cbn [kdtype]; rewrite Hmiss, !map_length, !map_map; do 3 f_equal;
    apply map_ext_in; intros x Hxin; apply Hcell; auto.
Qed.

(* looking a spot feature up in the node attributes: the converter's own keys do not interfere *)
Lemma alookup_final_attrs d sp f : wf_tm d -> In sp (spots_of d) -> f <> "ROI_coords" -> f <> "TRACK_ID" ->
  alookup f (final_attrs d sp) = option_map (cval (attrs_md d) f) (alookup f (sp_attrs sp)).
Proof.
  intros W Hsp H1 H2.
  assert (H0 : alookup f (node_attrs_of (attrs_md d) (has_roi d) sp) = option_map (cval (attrs_md d) f) (alookup f (sp_attrs sp))).
  { unfold node_attrs_of. destruct (has_roi d); [|apply alookup_cattrs]. rewrite alookup_app, alookup_cattrs.
    destruct (alookup f (sp_attrs sp)); [reflexivity|]. cbn. rewrite (seqb_neq _ _ H1). reflexivity. }
  unfold final_attrs. destruct (track_of d (spot_id sp)); [|exact H0]. rewrite alookup_app, H0.
  destruct (alookup f (sp_attrs sp)); [reflexivity|]. cbn. rewrite (seqb_neq _ _ H2). reflexivity.
Qed.

Lemma decl_md d dc : wf_tm d -> In dc (sdecls d ++ edecls d ++ tdecls d) ->
  exists b, d_isint dc = Some b /\ alookup (d_feat dc) (attrs_md d) = Some (Some b).
Proof.
  intros W Hdc. pose proof (forallb_In _ _ _ (wf_decl_ok d W) Hdc) as H. unfold decl_okb in H.
  apply andb_true_iff in H. destruct H as [H _]. apply andb_true_iff in H. destruct H as [_ H].
  destruct (d_isint dc) as [b|] eqn:E; [|discriminate]. exists b. split; [reflexivity|]. rewrite (wf_decl_consistent d W dc Hdc), E. reflexivity.
Qed.

Lemma nps_final_nonempty d ds dt : kept_spots d ds dt <> [] -> nps_final d ds dt = nprops_of d ds dt.
Proof. intros H. unfold nps_final. rewrite final_ids_spots. destruct (kept_spots d ds dt); [congruence | reflexivity]. Qed.

(* a declared spot feature carried by at least one kept spot *)
Theorem spot_feature_column d ds dt dc b : wf_tm d -> In dc (sdecls d) -> d_isint dc = Some b ->
  (exists sp, In sp (kept_spots d ds dt) /\ ahas (d_feat dc) (sp_attrs sp) = true) ->
  alookup (d_feat dc) (nps_final d ds dt) = Some (feat_prop b (d_feat dc) (map sp_attrs (kept_spots d ds dt))).
Proof.
  intros W Hdc Hb [sp0 [Hsp0 Hh0]].
  assert (Hne : kept_spots d ds dt <> []) by (intros E; rewrite E in Hsp0; destruct Hsp0).
  rewrite (nps_final_nonempty d ds dt Hne). unfold nprops_of. rewrite nelts_spots.
  destruct (decl_md d dc W (in_or_app _ _ _ (or_introl Hdc))) as [b' [Hb' Hmd]]. rewrite Hb in Hb'. inversion Hb'; subst b'.
  pose proof (forallb_In _ _ _ (wf_spots d W) (kept_spot_in d ds dt sp0 Hsp0)) as Hok0.
  destruct (spot_ok_parts _ _ Hok0) as [_ [_ [_ [Hnt0 Hnc0]]]].
  assert (Hf1 : d_feat dc <> "ROI_coords") by (intros E; rewrite E in Hh0; congruence).
  assert (Hf2 : d_feat dc <> "TRACK_ID") by (intros E; rewrite E in Hh0; congruence).
  apply (feat_column (nkind d) (attrs_md d) (final_attrs d) sp_attrs).
  - rewrite <- nelts_spots. apply (final_nodes_typed d ds dt W).
  - exact Hmd.
  - unfold nkind, key_kind, base_kind. rewrite (seqb_neq _ _ Hf1), Hmd. destruct b; reflexivity.
  - intros sp Hsp. pose proof (kept_spot_in d ds dt sp Hsp) as Hin. split; [apply (alookup_final_attrs d sp _ W Hin Hf1 Hf2)|].
    destruct (spot_ok_parts _ _ (forallb_In _ _ _ (wf_spots d W) Hin)) as [Hat _]. exact Hat.
  - exists sp0. auto.
Qed.

(* ---------- edges ---------- *)
(* the attributes of the link between two given spots *)
Definition link_attrs (d : tm) (e : edge) : xattrs :=
  match find (fun l => pair_eqb (link_edge l) e) (tlinks d) with Some l => snd l | None => [] end.

Lemma map_inj_nodup {A B} (f : A -> B) (l : list A) a b : NoDup (map f l) -> In a l -> In b l -> f a = f b -> a = b.
Proof.
  induction l as [|x r IH]; intros Hnd Ha Hb E; [destruct Ha|]. cbn in Hnd. inversion Hnd as [|? ? Hx Hr]; subst.
  destruct Ha as [->|Ha], Hb as [->|Hb]; auto.
  - exfalso. apply Hx. rewrite E. apply in_map. exact Hb.
  - exfalso. apply Hx. rewrite <- E. apply in_map. exact Ha.
Qed.

Lemma link_attrs_of d l : wf_tm d -> In l (tlinks d) -> link_attrs d (link_edge l) = snd l.
Proof.
  intros W Hl. unfold link_attrs. destruct (find (fun l0 => pair_eqb (link_edge l0) (link_edge l)) (tlinks d)) as [l'|] eqn:Ef.
  - apply find_some in Ef. destruct Ef as [Hl' He]. apply pair_eqb_eq in He.
    rewrite (map_inj_nodup link_edge (tlinks d) l' l (wf_links_nodup d W) Hl' Hl He). reflexivity.
  - exfalso. pose proof (find_none _ _ Ef l Hl) as H. cbn in H. rewrite (proj2 (pair_eqb_eq _ _) eq_refl) in H. discriminate.
Qed.

Lemma eouts_attrs d ds dt : wf_tm d ->
  map snd (eouts d ds dt) = map (fun e => cattrs (attrs_md d) (link_attrs d e)) (final_edges d ds dt).
Proof.
  intros W. unfold final_edges. rewrite map_map. apply map_ext_in. intros x Hx.
  apply (Permutation_in _ (eouts_perm d ds dt W)) in Hx. destruct (final_edge_form d ds dt x W Hx) as [l [Hl [He [Hs _]]]].
  rewrite Hs, He, (link_attrs_of d l W Hl). reflexivity.
Qed.

Lemma final_edge_link d ds dt e : wf_tm d -> In e (final_edges d ds dt) -> exists l, In l (tlinks d) /\ link_edge l = e.
Proof.
  intros W He. unfold final_edges in He. apply in_map_iff in He. destruct He as [x [<- Hx]].
  apply (Permutation_in _ (eouts_perm d ds dt W)) in Hx. destruct (final_edge_form d ds dt x W Hx) as [l [Hl [He _]]]. exists l. auto.
Qed.

(* a declared edge feature carried by at least one kept link *)
Theorem edge_feature_column d ds dt dc b : wf_tm d -> In dc (edecls d) -> d_isint dc = Some b ->
  (exists e, In e (final_edges d ds dt) /\ ahas (d_feat dc) (link_attrs d e) = true) ->
  alookup (d_feat dc) (eprops_of d ds dt) = Some (feat_prop b (d_feat dc) (map (link_attrs d) (final_edges d ds dt))).
Proof.
  intros W Hdc Hb Hex. unfold eprops_of. rewrite (eouts_attrs d ds dt W).
  destruct (decl_md d dc W (in_or_app _ _ _ (or_intror (in_or_app _ _ _ (or_introl Hdc))))) as [b' [Hb' Hmd]]. rewrite Hb in Hb'. inversion Hb'; subst b'.
  apply (feat_column (ekind d) (attrs_md d) (fun e => cattrs (attrs_md d) (link_attrs d e)) (link_attrs d)).
  - rewrite <- (eouts_attrs d ds dt W). apply (final_edges_typed d ds dt _ W). intros x Hx. apply (Permutation_in _ (eouts_perm d ds dt W) Hx).
  - exact Hmd.
  - unfold ekind, base_kind. rewrite Hmd. destruct b; reflexivity.
  - intros e He. split; [apply alookup_cattrs|]. destruct (final_edge_link d ds dt e W He) as [l [Hl <-]].
    rewrite (link_attrs_of d l W Hl). destruct (link_ok_parts _ _ _ (tlinks_ok d W l Hl)) as [Hat _]. exact Hat.
  - exact Hex.
Qed.

(* ================================================================== *)
(* 3. Track ids                                                        *)
(* ================================================================== *)
Lemma alookup_track_id_final d sp : wf_tm d -> In sp (spots_of d) ->
  alookup "TRACK_ID" (final_attrs d sp) = option_map VInt (track_of d (spot_id sp)).
Proof.
  intros W Hsp. pose proof (base_no_track_id d W (base_node (attrs_md d) (has_roi d) sp)) as H. cbn [base_node snd] in H.
  assert (H0 : alookup "TRACK_ID" (node_attrs_of (attrs_md d) (has_roi d) sp) = None).
  { apply H. unfold base_nodes. apply in_map. exact Hsp. }
  unfold final_attrs. destruct (track_of d (spot_id sp)) as [t|]; cbn [option_map]; [|exact H0].
  rewrite alookup_app, H0. reflexivity.
Qed.

Definition track_id_prop (d : tm) (ids : list Z) : prop :=
  mkprop (PFixed (mkarr DI64 [length ids] (map (fun s => zdef (track_of d s)) ids)))
         (missing_arr (map (fun s => negb (linked d s)) ids)).

Lemma track_id_kind d : wf_tm d -> nkind d "TRACK_ID" = KI.
Proof. intros W. unfold nkind, key_kind, base_kind. cbn. rewrite (wf_int_keys d W "TRACK_ID" (or_introl eq_refl)). reflexivity. Qed.

Theorem track_id_column d ds dt : wf_tm d ->
  (exists s, In s (final_ids d ds dt) /\ linked d s = true) ->
  alookup "TRACK_ID" (nps_final d ds dt) = Some (track_id_prop d (final_ids d ds dt)).
Proof.
  intros W [s [Hs Hl]]. rewrite final_ids_spots in Hs. apply in_map_iff in Hs. destruct Hs as [sp0 [<- Hsp0]].
  assert (Hne : kept_spots d ds dt <> []) by (intros E; rewrite E in Hsp0; destruct Hsp0).
  rewrite (nps_final_nonempty d ds dt Hne). unfold nprops_of.
  assert (Hin : In "TRACK_ID" (keys_of (nelts d ds dt))).
  { apply keys_of_In. exists (final_attrs d sp0). split; [rewrite nelts_spots; apply in_map; exact Hsp0|]. apply ahas_in. unfold ahas.
    rewrite (alookup_track_id_final d sp0 W (kept_spot_in _ _ _ _ Hsp0)). unfold linked in Hl. destruct (track_of d (spot_id sp0)); [reflexivity | discriminate]. }
  rewrite (alookup_tprops _ _ _ Hin). f_equal. unfold tprop. rewrite (track_id_kind d W). unfold scalar_prop, track_id_prop. cbn [kdtype].
  rewrite nelts_spots, final_ids_spots, !map_length. f_equal.
  - do 2 f_equal. rewrite !map_map. apply map_ext_in. intros sp Hsp. unfold cell.
    rewrite (alookup_track_id_final d sp W (kept_spot_in _ _ _ _ Hsp)). destruct (track_of d (spot_id sp)); reflexivity.
  - f_equal. unfold col_missing. rewrite !map_map. apply map_ext_in. intros sp Hsp. unfold ahas, linked.
    rewrite (alookup_track_id_final d sp W (kept_spot_in _ _ _ _ Hsp)). destruct (track_of d (spot_id sp)); reflexivity.
Qed.

Lemma has_track_ids_iff d ds dt : wf_tm d ->
  has_track_ids (final_graph d ds dt) = existsb (linked d) (final_ids d ds dt).
Proof.
  intros W. unfold has_track_ids. rewrite final_ids_spots, final_nodes_eq.
  assert (H : forall l, (forall sp, In sp l -> In sp (spots_of d)) ->
            existsb (fun n : Z * attrs => ahas "TRACK_ID" (snd n)) (map (fun sp => (spot_id sp, final_attrs d sp)) l) = existsb (linked d) (map spot_id l)).
  { induction l as [|sp r IH]; intros Hsub; [reflexivity|]. cbn [map existsb fst snd]. rewrite IH; [|intros; apply Hsub; right; assumption]. f_equal.
    unfold ahas, linked. rewrite (alookup_track_id_final d sp W (Hsub sp (or_introl eq_refl))). destruct (track_of d (spot_id sp)); reflexivity. }
  apply H. intros sp. apply kept_spot_in.
Qed.

(* no node belongs to a track: no TRACK_ID property, and no lineage property is declared *)
Theorem no_track_id_column d ds dt : wf_tm d ->
  (forall s, In s (final_ids d ds dt) -> linked d s = false) ->
  alookup "TRACK_ID" (nps_final d ds dt) = None /\ x_lineage (extra_final d ds dt) = None.
Proof.
  intros W Hno. split.
  - unfold nps_final. destruct (final_ids d ds dt) as [|z r] eqn:E; [reflexivity|].
    apply alookup_none_notin. unfold nprops_of. rewrite akeys_tprops. intros Hin. apply keys_of_In in Hin.
    destruct Hin as [a [Ha Hk]]. rewrite nelts_spots in Ha. apply in_map_iff in Ha. destruct Ha as [sp [<- Hsp]].
    apply ahas_in in Hk. unfold ahas in Hk. rewrite (alookup_track_id_final d sp W (kept_spot_in _ _ _ _ Hsp)) in Hk.
    assert (Hl : linked d (spot_id sp) = false). { apply Hno. rewrite <- E, final_ids_spots. apply in_map. exact Hsp. }
    unfold linked in Hl. destruct (track_of d (spot_id sp)); discriminate.
  - unfold extra_final, extra_of. cbn [x_lineage]. rewrite (has_track_ids_iff d ds dt W).
    assert (E : existsb (linked d) (final_ids d ds dt) = false).
    { apply not_true_is_false. intros H. apply existsb_exists in H. destruct H as [s [Hs Hl]]. rewrite (Hno s Hs) in Hl. discriminate. }
    rewrite E. reflexivity.
Qed.

(* ================================================================== *)
(* 4. ROIs                                                             *)
(* ================================================================== *)
Lemma has_roi_all d sp : wf_tm d -> has_roi d = true -> In sp (spots_of d) -> roi_okb sp = true.
Proof.
  intros W Hr Hsp. destruct (wf_roi d W) as [Hno|Hro]; [rewrite (has_roi_noroi d Hno) in Hr; discriminate|].
  apply (forallb_In _ _ _ Hro Hsp).
Qed.

Lemma alookup_roi_final d sp : wf_tm d -> has_roi d = true -> In sp (spots_of d) ->
  alookup "ROI_coords" (final_attrs d sp) = Some (VRoi (Some (roi_pts sp))).
Proof.
  intros W Hr Hsp. pose proof (forallb_In _ _ _ (wf_spots d W) Hsp) as Hok. destruct (spot_ok_parts _ _ Hok) as [_ [_ [_ [_ Hnc]]]].
  assert (H0 : alookup "ROI_coords" (node_attrs_of (attrs_md d) (has_roi d) sp) = Some (VRoi (Some (roi_pts sp)))).
  { unfold node_attrs_of. rewrite Hr, alookup_app, alookup_cattrs. apply ahas_false in Hnc. rewrite Hnc. reflexivity. }
  unfold final_attrs. destruct (track_of d (spot_id sp)); [rewrite alookup_app, H0; reflexivity | exact H0].
Qed.

Theorem roi_column d ds dt : wf_tm d -> has_roi d = true -> kept_spots d ds dt <> [] ->
  exists pv, alookup "ROI_coords" (nps_final d ds dt) = Some (mkprop pv None) /\
    forall i sp, nth_error (kept_spots d ds dt) i = Some sp ->
      exists n dd coords, xint "ROI_N_POINTS" (sp_attrs sp) = Some (Z.of_nat n) /\ sp_text sp = Some coords /\
        length coords = (n * dd)%nat /\ pv_elem pv i = Some ([n; dd], coords).
Proof.
  intros W Hr Hne. rewrite (nps_final_nonempty d ds dt Hne). unfold nprops_of.
  assert (Hhas : forall a, In a (nelts d ds dt) -> ahas "ROI_coords" a = true).
  { intros a Ha. rewrite nelts_spots in Ha. apply in_map_iff in Ha. destruct Ha as [sp [<- Hsp]]. unfold ahas.
    rewrite (alookup_roi_final d sp W Hr (kept_spot_in _ _ _ _ Hsp)). reflexivity. }
  assert (Hin : In "ROI_coords" (keys_of (nelts d ds dt))).
  { apply keys_of_In. destruct (kept_spots d ds dt) as [|sp0 r] eqn:E; [congruence|]. exists (final_attrs d sp0).
    split; [rewrite nelts_spots, E; left; reflexivity|]. apply ahas_in. apply Hhas. rewrite nelts_spots, E. left; reflexivity. }
  assert (Hk : nkind d "ROI_coords" = KR) by reflexivity.
  pose proof (final_nodes_typed d ds dt W) as Hty. fold (nelts d ds dt) in Hty.
  destruct (roi_col_kinds (nkind d) _ _ Hty Hin Hk) as [Hnv Hall].
  destruct (roi_arr_spec _ Hnv Hall) as [pv [Hpv [Helem _]]]. rewrite col_values_length in Hpv.
  exists pv. split.
  - rewrite (alookup_tprops _ _ _ Hin). unfold tprop. rewrite Hk. unfold roi_pv. rewrite Hpv, (missing_none _ _ Hhas). reflexivity.
  - intros i sp Hi. pose proof (kept_spot_in d ds dt sp (nth_error_In _ _ Hi)) as Hsp.
    destruct (roi_ok_pts sp (has_roi_all d sp W Hr Hsp)) as [n [dd [coords [Hx [Ht [Hn [Hd [Hlen [Hl [Hall' Hc]]]]]]]]]].
    exists n, dd, coords. repeat split; auto.
    assert (Hv : nth_error (col_values "ROI_coords" (nelts d ds dt)) i = Some (VRoi (Some (roi_pts sp)))).
    { unfold col_values. rewrite nth_error_map, nelts_spots, nth_error_map, Hi. cbn [option_map].
      rewrite (alookup_roi_final d sp W Hr Hsp). reflexivity. }
    destruct (Helem i (roi_pts sp) Hv) as [sh [Hre He]]. rewrite He.
    rewrite (rect_uniform (roi_pts sp) dd) in Hre; [| intros E; rewrite E in Hl; cbn in Hl; lia | exact Hall'].
    inversion Hre; subst sh. cbn [fst snd]. rewrite Hl, Hc. reflexivity.
Qed.

(* ================================================================== *)
(* 5. Units and feature metadata                                       *)
(* ================================================================== *)
Lemma alookup_filter_keep {V} (p : string * V -> bool) l k v :
  alookup k l = Some v -> p (k, v) = true -> NoDup (akeys l) -> alookup k (filter p l) = Some v.
Proof.
  induction l as [|[k' v'] r IH]; cbn; [discriminate|]. intros Hl Hp Hnd. inversion Hnd as [|? ? Hk' Hr]; subst.
  destruct (String.eqb k k') eqn:E.
  - apply String.eqb_eq in E. subst k'. inversion Hl; subst v'. rewrite Hp. cbn. rewrite String.eqb_refl. reflexivity.
  - destruct (p (k', v')); [cbn; rewrite E|]; apply IH; assumption.
Qed.

Lemma alookup_fms sp ti ds dc : NoDup (map d_feat ds) -> In dc ds -> alookup (d_feat dc) (fms_of sp ti ds) = Some (fm_of sp ti dc).
Proof.
  intros Hnd Hin. apply alookup_in_nodup; [rewrite akeys_fms; exact Hnd|]. unfold fms_of. apply in_map_iff. exists dc. auto.
Qed.

Lemma alookup_aset_ne {V} k k' (v : V) l : k' <> k -> alookup k' (aset k v l) = alookup k' l.
Proof. apply alookup_aset_other. Qed.

Lemma akeys_aset_nodup {V} k (v : V) l : NoDup (akeys l) -> NoDup (akeys (aset k v l)).
Proof.
  induction l as [|[k' v'] r IH]; cbn; intros H; [repeat constructor; intros []|].
  inversion H as [|? ? Hk Hr]; subst. destruct (String.eqb k k') eqn:E; cbn.
  - apply String.eqb_eq in E. subst. constructor; assumption.
  - constructor; [|apply IH; exact Hr]. intros Hin. apply akeys_aset_in in Hin. destruct Hin as [->|Hin]; [rewrite String.eqb_refl in E; discriminate | contradiction].
Qed.

Lemma nmd_full_nodup d : wf_tm d -> NoDup (akeys (nmd_full d)).
Proof.
  intros W. unfold nmd_full. destruct (has_roi d); [apply akeys_aset_nodup, akeys_aset_nodup|]; rewrite akeys_fms; exact (wf_sdecl_nodup d W).
Qed.

Lemma alookup_nmd_full d dc : wf_tm d -> In dc (sdecls d) ->
  alookup (d_feat dc) (nmd_full d) = Some (fm_of (space_unit d) (time_unit d) dc).
Proof.
  intros W Hdc. destruct (decl_md d dc W (in_or_app _ _ _ (or_introl Hdc))) as [b [_ Hmd]].
  assert (Hne : forall k, In k ["ID"; "ROI_N_POINTS"; "ROI_coords"] -> d_feat dc <> k).
  { intros k Hk E. rewrite E, (wf_reserved d W k Hk) in Hmd. discriminate. }
  unfold nmd_full. destruct (has_roi d).
  - rewrite alookup_aset_ne, alookup_aset_ne; [apply alookup_fms; [exact (wf_sdecl_nodup d W) | exact Hdc] | |]; apply Hne; cbn; auto.
  - apply alookup_fms; [exact (wf_sdecl_nodup d W) | exact Hdc].
Qed.

(* the metadata entry of a declared feature: dtype of what is stored, the unit TrackMate's dimension stands for under the
   model's units, the declared name *)
Definition feature_pm (d : tm) (dc : decl) (b : bool) : pmeta :=
  let f := fm_of (space_unit d) (time_unit d) dc in
  mkpm (if b then DI64 else DF64) false (option_map (fun u => stok (sapp "u:" u)) (fm_unit f)) (Some (stok (sapp "n:" (fm_name f)))) None.

Lemma feat_prop_meta name b xs : name <> "" ->
  create_props_metadata name (feat_prop b name xs) = Ok (new_pm (if b then DI64 else DF64) false).
Proof.
  intros Hn. unfold create_props_metadata, feat_prop, upcast_prop, upcast_arr. cbn [p_vals a_dt].
  destruct b; cbn [dtype_eqb p_vals a_dt]; rewrite (seqb_neq _ _ Hn); reflexivity.
Qed.

Theorem spot_feature_metadata d ds dt md' dc b : wf_tm d ->
  final_metadata (wgraph_final d ds dt) (md_final d ds dt) = Ok md' ->
  In dc (sdecls d) -> d_isint dc = Some b ->
  (exists sp, In sp (kept_spots d ds dt) /\ ahas (d_feat dc) (sp_attrs sp) = true) ->
  alookup (d_feat dc) (md_nprops md') = Some (feature_pm d dc b).
Proof.
  intros W Hmd Hdc Hb Hex.
  pose proof (spot_feature_column d ds dt dc b W Hdc Hb Hex) as Hcol.
  destruct (props_entries _ _ _ _ _ (final_wf_input d ds dt W) Hmd) as [_ [_ [Hent _]]].
  cbn [wgraph_final w_nids w_nprops] in Hent. rewrite backfill_final in Hent.
  assert (Hne : d_feat dc <> "") by (apply (decl_feat_nonempty d dc W); apply in_or_app; left; exact Hdc).
  rewrite (Hent _ _ _ (alookup_some_in _ _ _ Hcol) (feat_prop_meta _ b _ Hne)). f_equal.
  unfold md_final, metadata_of. cbn [md_nprops]. rewrite alookup_map.
  destruct Hex as [sp0 [Hsp0 Hh0]].
  assert (Hkeep : existsb (fun a : attrs => ahas (d_feat dc) a) (nelts d ds dt) = true).
  { apply existsb_exists. exists (final_attrs d sp0). split; [rewrite nelts_spots; apply in_map; exact Hsp0|].
    pose proof (kept_spot_in d ds dt sp0 Hsp0) as Hin.
    destruct (spot_ok_parts _ _ (forallb_In _ _ _ (wf_spots d W) Hin)) as [_ [_ [_ [Hnt0 Hnc0]]]].
    unfold ahas. rewrite (alookup_final_attrs d sp0 _ W Hin).
    - unfold ahas in Hh0. destruct (alookup (d_feat dc) (sp_attrs sp0)); [reflexivity | discriminate].
    - intros E. rewrite E in Hh0. congruence.
    - intros E. rewrite E in Hh0. congruence. }
  unfold nmd_final, prune_md. rewrite (alookup_filter_keep _ _ _ _ (alookup_nmd_full d dc W Hdc)); [| exact Hkeep | exact (nmd_full_nodup d W)].
  reflexivity.
Qed.

Theorem edge_feature_metadata d ds dt md' dc b : wf_tm d ->
  final_metadata (wgraph_final d ds dt) (md_final d ds dt) = Ok md' ->
  In dc (edecls d) -> d_isint dc = Some b ->
  (exists e, In e (final_edges d ds dt) /\ ahas (d_feat dc) (link_attrs d e) = true) ->
  alookup (d_feat dc) (md_eprops md') = Some (feature_pm d dc b).
Proof.
  intros W Hmd Hdc Hb Hex.
  pose proof (edge_feature_column d ds dt dc b W Hdc Hb Hex) as Hcol.
  destruct (props_entries _ _ _ _ _ (final_wf_input d ds dt W) Hmd) as [_ [_ [_ Hent]]].
  cbn [wgraph_final w_eprops] in Hent.
  assert (Hne : d_feat dc <> "") by (apply (decl_feat_nonempty d dc W); apply in_or_app; right; apply in_or_app; left; exact Hdc).
  rewrite (Hent _ _ _ (alookup_some_in _ _ _ Hcol) (feat_prop_meta _ b _ Hne)). f_equal.
  unfold md_final, metadata_of. cbn [md_eprops]. rewrite alookup_map.
  destruct Hex as [e0 [He0 Hh0]].
  assert (Hkeep : existsb (fun a : attrs => ahas (d_feat dc) a) (map snd (g_edges (final_graph d ds dt))) = true).
  { apply existsb_exists. exists (cattrs (attrs_md d) (link_attrs d e0)). split; [|rewrite ahas_cattrs; exact Hh0].
    unfold final_edges in He0. apply in_map_iff in He0. destruct He0 as [x [Hx1 Hx]].
    assert (Hs : snd x = cattrs (attrs_md d) (link_attrs d e0)).
    { pose proof (eouts_attrs d ds dt W) as Ha. unfold final_edges in Ha. rewrite map_map in Ha.
      assert (Hp : forall l : list (edge * attrs), In x l -> map snd l = map (fun y => cattrs (attrs_md d) (link_attrs d (fst y))) l ->
                   snd x = cattrs (attrs_md d) (link_attrs d (fst x))).
      { induction l as [|y r IH]; intros Hy Hm; [destruct Hy|]. cbn in Hm. inversion Hm. destruct Hy as [->|Hy]; auto. }
      rewrite <- Hx1. apply (Hp _ Hx Ha). }
    rewrite <- Hs. apply in_map. apply (Permutation_in _ (eouts_perm d ds dt W) Hx). }
  unfold emd_final, prune_md, emd_full.
  rewrite (alookup_filter_keep _ _ _ _ (alookup_fms _ _ _ dc (wf_edecl_nodup d W) Hdc)); [| exact Hkeep | rewrite akeys_fms; exact (wf_edecl_nodup d W)].
  reflexivity.
Qed.
