(* StaleLemmas.v -- C10, the clause "exactly one property-metadata entry per stored property" for caller metadata with STALE
   entries: wf_input excludes them (wi_nstale / wi_estale), and with structural validation off the write stores the stale entry
   (C10_stale_refuted: open finding).  With structural validation ON -- the default of every entry point -- a stale entry can
   never be stored: the committed state is not conformant, validation rejects it, the write raises ValueError and removes what
   it wrote.  Stated about write_arrays itself, for any input and any location not yet occupied. *)
From Geff Require Import Base Dtype Vlen Tree TreeLemmas Validate ValidateLemmas Write Read WriteLemmas CrashLemmas OverwriteLemmas.
From Geff.Gen Require Import Consts.
Open Scope string_scope.
Open Scope list_scope.

(* the metadata names, on the node (which = path_NODES) or edge side, a property that is not a member of that side's props group *)
Definition stale_entry (root : znode) (md : smeta) (which name : string) : Prop :=
  (which = path_NODES /\ In name (akeys (md_nprops md)) \/ which = path_EDGES /\ In name (akeys (md_eprops md))) /\
  forall g pg, get root which = Some g -> get g path_PROPS = Some pg -> ~ In name (akeys (children pg)).

Lemma stale_not_conformant root md which name :
  geff_attr root = Some (Some md) -> stale_entry root md which name -> ~ conformant root.
Proof.
  intros Hmd [Hin Habs] (md0 & Hmd0 & na & nch & ea & ech & nids & eids & Hng & Heg & _ & _ & _ & _ & _ & _ & Hnp & Hep & _).
  rewrite Hmd in Hmd0. inversion Hmd0; subst md0; clear Hmd0.
  destruct Hin as [[-> Hin]|[-> Hin]].
  - destruct (alookup path_PROPS nch) as [pg|] eqn:Ep.
    + destruct Hnp as [_ [Hkeys _]]. apply Hkeys in Hin. exact (Habs _ pg Hng Ep Hin).
    + rewrite Hnp in Hin. exact Hin.
  - destruct (alookup path_PROPS ech) as [pg|] eqn:Ep.
    + destruct Hep as [_ [Hkeys _]]. apply Hkeys in Hin. exact (Habs _ pg Heg Ep Hin).
    + rewrite Hep in Hin. exact Hin.
Qed.

Lemma stale_rejected k root md which name :
  geff_attr root = Some (Some md) -> stale_entry root md which name -> validate_structure k (Some root) = Err ValueError.
Proof.
  intros Hmd Hst. destruct (validate_structure k (Some root)) as [[]|e] eqn:Ev.
  - exfalso. apply (stale_not_conformant root md which name Hmd Hst). apply (validate_iff k). exact Ev.
  - destruct (validate_exn k (Some root) e Ev) as [->|[_ [Hn _]]]; [reflexivity | discriminate].
Qed.

Theorem stale_write_rejected k pre g md md' ov a ch tr1 which name :
  exists_geff k pre = false ->
  write_body g md (init pre) = (mkst (Some (ZG a ch)) tr1, Ok md') ->
  stale_entry (ZG (aset "geff" (AGeff (Some md')) a) ch) md' which name ->
  exists tr, write_arrays k g md true ov (init pre)
             = (mkst (cleaned k (aset "geff" (AGeff (Some md')) a) ch) tr, Err ValueError).
Proof.
  intros He Hb Hst. apply (write_arrays_rejected k pre g md md' ov a ch tr1 He Hb).
  apply (stale_rejected k _ md' which name); [|exact Hst].
  unfold geff_attr. cbn [attrs_of]. rewrite alookup_aset_same. reflexivity.
Qed.
