(* VlenCastLemmas.v -- proofs about the name-level model Vlen.v that the audit found
   missing: the safe cast is value preserving (with the exact exception), numeric
   input always normalises, the rank of the result is the largest input rank. *)
From Coq Require Import QArith.
From Geff Require Import Base Dtype DtypeLemmas Vlen VlenLemmas VlenCast.
Open Scope Z_scope.
Open Scope list_scope.

(* ---------- the cast is exact ---------- *)
Lemma qeq_scaled a b : a = b -> Qeq (Qmake (a * 1024) 1024) (inject_Z b).
Proof. intros ->. unfold Qeq, inject_Z. cbn [Qnum Qden]. lia. Qed.

Lemma round_bits_53_edge z : Z.abs z = 2 ^ 53 -> round_bits 53 z = z.
Proof.
  intros H. assert (Hz : z = 2 ^ 53 \/ z = - 2 ^ 53) by lia.
  destruct Hz as [-> | ->]; vm_compute; reflexivity.
Qed.

Lemma round_bits_53_le z : Z.abs z <= 2 ^ 53 -> round_bits 53 z = z.
Proof.
  intros H. destruct (Z.eq_dec (Z.abs z) (2 ^ 53)) as [E|E].
  - apply round_bits_53_edge. exact E.
  - apply round_bits_small. lia.
Qed.

(* integer -> float casts: what has to be shown is that the rounding is the identity *)
Lemma int_to_float_exact d d' z :
  is_float d' = true -> is_float d = false ->
  round_bits (mant_bits d') z = z -> cast_exact d d' z.
Proof.
  intros Hf' Hf Hr. unfold cast_exact, cast_payload, denote. rewrite Hf', Hf. cbn [andb negb].
  rewrite Hr. unfold fscale. apply qeq_scaled. reflexivity.
Qed.

Theorem cast_exact_safe d d' z :
  is_numeric d = true -> is_numeric d' = true ->
  can_cast_safe d d' = true -> in_range d z = true ->
  exact_side d d' z -> cast_exact d d' z.
Proof.
  intros Hn Hn' Hc Hr Hs.
  destruct (is_float d' && negb (is_float d)) eqn:Ecase.
  - (* bool / integer to float *)
    apply andb_true_iff in Ecase. destruct Ecase as [Hf' Hf]. apply negb_true_iff in Hf.
    apply int_to_float_exact; [exact Hf' | exact Hf |].
    destruct d; cbn in Hf; try discriminate; cbn in Hn; try discriminate;
    destruct d'; cbn in Hf'; try discriminate; cbn in Hc; try discriminate;
    unfold in_range in Hr; cbn in Hr; cbn [mant_bits];
    try (apply round_bits_small; lia).
    + (* int64 -> float64 *) destruct Hs as [Hs|Hs]; [cbn in Hs; discriminate | apply round_bits_53_le; exact Hs].
    + (* uint64 -> float64 *) destruct Hs as [Hs|Hs]; [cbn in Hs; discriminate | apply round_bits_53_le; exact Hs].
  - (* the payload is unchanged and both dtypes read it the same way *)
    unfold cast_exact, cast_payload, denote. rewrite Ecase.
    destruct d; cbn in Hn; try discriminate; destruct d'; cbn in Hn'; try discriminate;
    cbn in Hc; try discriminate; cbn in Ecase; try discriminate; cbn; apply Qeq_refl.
Qed.

(* for a cast into a float the statement is an equivalence: exact iff the rounding is the identity *)
Theorem cast_exact_iff_round d d' z :
  is_float d' = true -> is_float d = false ->
  (cast_exact d d' z <-> round_bits (mant_bits d') z = z).
Proof.
  intros Hf' Hf. split; [|apply int_to_float_exact; assumption].
  unfold cast_exact, cast_payload, denote. rewrite Hf', Hf. cbn [andb negb].
  unfold Qeq, inject_Z, fscale. cbn [Qnum Qden]. lia.
Qed.

(* the exception is real: int64 2^53+1 is a safe cast to float64 and comes back as 2^53 *)
Lemma cast_inexact_witness :
  can_cast_safe DI64 DF64 = true /\ in_range DI64 (2 ^ 53 + 1) = true /\
  cast_payload DI64 DF64 (2 ^ 53 + 1) = 2 ^ 53 * fscale /\
  ~ cast_exact DI64 DF64 (2 ^ 53 + 1).
Proof.
  split; [reflexivity|]. split; [reflexivity|]. split; [vm_compute; reflexivity|].
  unfold cast_exact. vm_compute. discriminate.
Qed.

(* ---------- lifted to construct ---------- *)
Definition same_values (a v : varr) : Prop :=
  Forall2 (fun z z' => Qeq (denote (v_dt v) z') (denote (v_dt a) z)) (v_flat a) (v_flat v).

Lemma Forall2_map_r {A B} (R : A -> B -> Prop) (f : A -> B) l :
  Forall (fun x => R x (f x)) l -> Forall2 R l (map f l).
Proof. induction 1; cbn; constructor; assumption. Qed.

Lemma can_cast_numeric a b : is_numeric a = true -> can_cast_safe a b = true -> is_numeric b = true.
Proof. destruct a, b; cbn; intros Ha H; try reflexivity; try discriminate. Qed.

(* every non-None element comes back with the same values, under the side condition *)
Theorem construct_exact l vals miss :
  construct l = Ok (vals, miss) ->
  forall i a, nth_error l i = Some (Some a) ->
    is_numeric (v_dt a) = true ->
    forallb (in_range (v_dt a)) (v_flat a) = true ->
    exists v, nth_error vals i = Some v /\
      can_cast_safe (v_dt a) (v_dt v) = true /\ is_numeric (v_dt v) = true /\
      size (v_shape v) = size (v_shape a) /\
      (Forall (exact_side (v_dt a) (v_dt v)) (v_flat a) -> same_values a v).
Proof.
  intros H i a Hi Hn Hr.
  destruct (construct_spec _ _ _ H) as [dt [nd [_ [_ [_ [_ Hel]]]]]].
  destruct (Hel i a Hi) as [Hc [Hv Hsz]].
  eexists. split; [exact Hv|]. cbn [v_dt v_shape v_flat].
  split; [exact Hc|]. split; [exact (can_cast_numeric _ _ Hn Hc)|]. split; [exact Hsz|].
  intros Hside. unfold same_values. cbn [v_dt v_flat].
  apply Forall2_map_r. rewrite forallb_forall in Hr. rewrite Forall_forall in Hside.
  apply Forall_forall. intros z Hz.
  apply (cast_exact_safe (v_dt a) dt z Hn (can_cast_numeric _ _ Hn Hc) Hc (Hr z Hz) (Hside z Hz)).
Qed.

(* without the side condition the statement is false: [int64 [2^53+1]; float16 []] *)
Definition inexact_input : list (option varr) :=
  [Some {| v_dt := DI64; v_shape := [1%nat]; v_flat := [2 ^ 53 + 1] |};
   Some {| v_dt := DF16; v_shape := [0%nat]; v_flat := [] |}].

Theorem construct_exact_refuted :
  exists l vals miss,
    construct l = Ok (vals, miss) /\
    Forall (fun o => match o with
                     | Some a => is_numeric (v_dt a) = true /\ forallb (in_range (v_dt a)) (v_flat a) = true /\ wf_varr a
                     | None => True end) l /\
    ~ (forall i a v, nth_error l i = Some (Some a) -> nth_error vals i = Some v -> same_values a v).
Proof.
  exists inexact_input. eexists. eexists. split; [vm_compute; reflexivity|]. split.
  - repeat constructor.
  - intros Hall. specialize (Hall 0%nat _ _ eq_refl eq_refl).
    unfold same_values in Hall. cbn in Hall. inversion Hall as [|? ? ? ? Hq _]; subst.
    revert Hq. vm_compute. discriminate.
Qed.

(* ---------- numeric input always normalises ---------- *)
Definition rt3 (f s u : nat) : dtype :=
  if Nat.ltb 0 f then flt (Nat.max f (Nat.max (mfb s) (mfb u)))
  else if Nat.ltb 0 s then
    (if Nat.ltb u s then sint s else if Nat.eqb u 64 then DF64 else sint (2 * u))
  else if Nat.ltb 0 u then uint u
  else DBool.

Lemma result_type_num_rt3 ds :
  result_type_num ds = rt3 (max_bits is_float ds) (max_bits is_signed ds) (max_bits is_unsigned ds).
Proof. reflexivity. Qed.

Definition widths4 : list nat := [0; 16; 32; 64]%nat.
Definition widths5 : list nat := [0; 8; 16; 32; 64]%nat.

Definition upper_okb (f s u : nat) (d : dtype) : bool :=
  implb (implb (is_float d) (Nat.leb (bits d) f) && implb (is_signed d) (Nat.leb (bits d) s)
         && implb (is_unsigned d) (Nat.leb (bits d) u))
        (can_cast_safe d (rt3 f s u) && is_numeric (rt3 f s u)).

Lemma upper_ok_all :
  forallb (fun f => forallb (fun s => forallb (fun u => forallb (upper_okb f s u) all_numeric) widths5) widths5) widths4 = true.
Proof. vm_compute. reflexivity. Qed.

Lemma rt3_upper f s u d :
  In f widths4 -> In s widths5 -> In u widths5 -> is_numeric d = true ->
  (is_float d = true -> (bits d <= f)%nat) -> (is_signed d = true -> (bits d <= s)%nat) ->
  (is_unsigned d = true -> (bits d <= u)%nat) ->
  can_cast_safe d (rt3 f s u) = true /\ is_numeric (rt3 f s u) = true.
Proof.
  intros Hf Hs Hu Hd H1 H2 H3.
  pose proof upper_ok_all as H. rewrite forallb_forall in H. specialize (H f Hf).
  rewrite forallb_forall in H. specialize (H s Hs). rewrite forallb_forall in H. specialize (H u Hu).
  rewrite forallb_forall in H.
  assert (Hin : In d all_numeric) by (destruct d; cbn in Hd; try discriminate; cbn; tauto).
  specialize (H d Hin). unfold upper_okb in H.
  assert (Hp : implb (is_float d) (Nat.leb (bits d) f) && implb (is_signed d) (Nat.leb (bits d) s)
               && implb (is_unsigned d) (Nat.leb (bits d) u) = true).
  { repeat (apply andb_true_iff; split).
    - destruct (is_float d); [apply Nat.leb_le; auto | reflexivity].
    - destruct (is_signed d); [apply Nat.leb_le; auto | reflexivity].
    - destruct (is_unsigned d); [apply Nat.leb_le; auto | reflexivity]. }
  rewrite Hp in H. cbn [implb] in H. apply andb_true_iff in H. exact H.
Qed.

Lemma max_bits_ge p ds d : In d ds -> p d = true -> (bits d <= max_bits p ds)%nat.
Proof.
  induction ds as [|x r IH]; intros Hin Hp; [destruct Hin|].
  cbn [max_bits]. destruct Hin as [<-|Hin].
  - rewrite Hp. lia.
  - specialize (IH Hin Hp). destruct (p x); lia.
Qed.

Lemma max_bits_in (p : dtype -> bool) (ws : list nat) ds :
  In 0%nat ws -> (forall a b, In a ws -> In b ws -> In (Nat.max a b) ws) ->
  (forall d, p d = true -> In (bits d) ws) -> In (max_bits p ds) ws.
Proof.
  intros H0 Hmax Hp. induction ds as [|x r IH]; [exact H0|].
  cbn [max_bits]. destruct (p x) eqn:E; [|exact IH]. apply Hmax; [apply Hp; exact E | exact IH].
Qed.

Lemma widths4_max a b : In a widths4 -> In b widths4 -> In (Nat.max a b) widths4.
Proof. unfold widths4. cbn. intros Ha Hb.
  repeat (destruct Ha as [<-|Ha]; [repeat (destruct Hb as [<-|Hb]; [cbn; tauto|]); destruct Hb|]); destruct Ha. Qed.
Lemma widths5_max a b : In a widths5 -> In b widths5 -> In (Nat.max a b) widths5.
Proof. unfold widths5. cbn. intros Ha Hb.
  repeat (destruct Ha as [<-|Ha]; [repeat (destruct Hb as [<-|Hb]; [cbn; tauto|]); destruct Hb|]); destruct Ha. Qed.

Lemma result_type_num_upper ds d :
  In d ds -> is_numeric d = true ->
  can_cast_safe d (result_type_num ds) = true /\ is_numeric (result_type_num ds) = true.
Proof.
  intros Hin Hd. rewrite result_type_num_rt3. apply rt3_upper.
  - apply max_bits_in; [cbn; tauto | exact widths4_max |]. intros x Hx. destruct x; cbn in Hx; try discriminate; cbn; tauto.
  - apply max_bits_in; [cbn; tauto | exact widths5_max |]. intros x Hx. destruct x; cbn in Hx; try discriminate; cbn; tauto.
  - apply max_bits_in; [cbn; tauto | exact widths5_max |]. intros x Hx. destruct x; cbn in Hx; try discriminate; cbn; tauto.
  - exact Hd.
  - intros Hp. apply max_bits_ge; assumption.
  - intros Hp. apply max_bits_ge; assumption.
  - intros Hp. apply max_bits_ge; assumption.
Qed.

(* the can_cast loop of _get_common_type_dims never fires on numeric dtypes *)
Lemma can_cast_loop_dead (ds : list dtype) :
  forallb is_numeric ds = true ->
  forallb (fun d => can_cast_safe d (result_type_num ds)) ds = true.
Proof.
  intros Hn. apply forallb_forall. intros d Hd.
  rewrite forallb_forall in Hn. apply (result_type_num_upper ds d Hd (Hn d Hd)).
Qed.

Definition numeric_input (l : list (option varr)) : bool :=
  forallb is_numeric (map v_dt (somes l)).

Lemma forallb_map {A B} (f : A -> B) (p : B -> bool) l : forallb p (map f l) = forallb (fun x => p (f x)) l.
Proof. induction l as [|x r IH]; cbn; [reflexivity | rewrite IH; reflexivity]. Qed.

Theorem common_type_dims_total l :
  numeric_input l = true -> exists dt nd, common_type_dims l = Ok (dt, nd) /\ is_numeric dt = true.
Proof.
  unfold numeric_input, common_type_dims. intros Hn.
  destruct (somes l) as [|e es] eqn:Es.
  - exists DI64, 1%nat. split; reflexivity.
  - pose proof (can_cast_loop_dead _ Hn) as Hd. rewrite forallb_map in Hd.
    assert (Hrt : result_type (map v_dt (e :: es)) = Some (result_type_num (map v_dt (e :: es)))).
    { unfold result_type. rewrite Hn. reflexivity. }
    rewrite Hrt, Hd.
    eexists. eexists. split; [reflexivity|].
    apply (result_type_num_upper (map v_dt (e :: es)) (v_dt e)); [left; reflexivity|].
    cbn [map forallb] in Hn. apply andb_true_iff in Hn. exact (proj1 Hn).
Qed.

Theorem construct_total l :
  numeric_input l = true -> exists vals miss, construct l = Ok (vals, miss).
Proof.
  intros Hn. destruct (common_type_dims_total l Hn) as [dt [nd [H _]]].
  unfold construct. rewrite H. eexists. eexists. reflexivity.
Qed.

(* ---------- the rank of the result ---------- *)
Lemma max_rank_attained elems : elems <> [] -> exists a, In a elems /\ length (v_shape a) = max_rank elems.
Proof.
  induction elems as [|x r IH]; intros Hne; [contradiction|].
  change (max_rank (x :: r)) with (Nat.max (length (v_shape x)) (max_rank r)).
  destruct r as [|y r'].
  - exists x. split; [left; reflexivity|]. cbn. lia.
  - destruct IH as [a [Ha Hr]]; [discriminate|].
    destruct (Nat.le_ge_cases (max_rank (y :: r')) (length (v_shape x))) as [Hle|Hge].
    + exists x. split; [left; reflexivity | lia].
    + exists a. split; [right; exact Ha | lia].
Qed.

Theorem common_rank l dt nd :
  common_type_dims l = Ok (dt, nd) ->
  ((forall o, In o l -> o = None) -> dt = DI64 /\ nd = 1%nat) /\
  ((exists a, In (Some a) l) ->
     (forall a, In (Some a) l -> (length (v_shape a) <= nd)%nat) /\
     (exists a, In (Some a) l /\ length (v_shape a) = nd)).
Proof.
  intros H. split.
  - intros Hall. unfold common_type_dims in H.
    destruct (somes l) as [|e es] eqn:Es; [inversion H; split; reflexivity|].
    assert (Hin : In e (somes l)) by (rewrite Es; left; reflexivity).
    apply somes_In in Hin. specialize (Hall _ Hin). discriminate.
  - intros [a0 Ha0]. split; [intros a Ha; apply (common_type_dims_spec l dt nd H a Ha)|].
    unfold common_type_dims in H. apply somes_In in Ha0.
    destruct (somes l) as [|e es] eqn:Es; [destruct Ha0|].
    destruct (result_type (map v_dt (e :: es))) as [d|]; [|discriminate].
    destruct (forallb (fun a => can_cast_safe (v_dt a) d) (e :: es)); [|discriminate].
    inversion H; subst.
    destruct (max_rank_attained (e :: es)) as [a [Ha Hr]]; [discriminate|].
    exists a. split; [apply somes_In; rewrite Es; exact Ha | exact Hr].
Qed.
