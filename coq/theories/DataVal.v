(* DataVal.v -- the WHOLE of geff.validate.data.validate_data: five flags (graph, sphere, ellipsoid, lineage,
   tracklet), the missing masks of the four node properties, the lookups of the declared properties in node_props,
   in the order in which the Python evaluates them:

     if config.graph:      the four graph checks of GraphVal.graph_check, each with its own message
     if config.sphere and meta.sphere is not None:
         radius = _non_missing_values(memory_geff["node_props"][meta.sphere])   # KeyError / IndexError
         validate_sphere(radius)                                                # 1-D, then no negative entry
     if config.ellipsoid and meta.ellipsoid is not None:
         covariance = _non_missing_values(memory_geff["node_props"][meta.ellipsoid])
         validate_ellipsoid(covariance, axes)                                   # six checks in order
     if meta.track_node_props is not None:
         if config.tracklet and "tracklet" in meta.track_node_props:
             node_ids, tracklet_ids = _annotated_nodes(node_ids, node_props[key])   # KeyError / IndexError
             validate_tracklets(node_ids, ALL edge_ids, tracklet_ids)  -> "Found invalid tracklets"
         if config.lineage and "lineage" in meta.track_node_props:
             ... validate_lineages ...                                 -> "Found invalid lineages"

   GraphVal.v cannot import Tracks.v (Tracks.v imports GraphVal.v), hence this file.  GraphVal.validate_data (three
   flags, masks zipped silently, no lookup failure) is left untouched; DataValLemmas.validate_data5_extends shows that
   the two agree wherever the old one has a state.

   States of the Python that the old model lacks:
   * a property DECLARED in the metadata but ABSENT from node_props: the subscript raises KeyError (decl: Absent);
   * a missing mask whose length differs from the array it indexes: numpy boolean indexing raises IndexError
     (mask_filter returns None), unless the mask is empty: then nothing is selected;
   * track_node_props None / a dict that holds the key "tracklet" and/or "lineage" (e_track);
   * values shorter / longer than the id array with no mask: zip(strict=False) truncates (combine).
   Model only. *)
From Geff Require Import Base GraphVal Reach Tracks TracksCyc.
Open Scope Z_scope.
Open Scope list_scope.

Record vconfig5 := {
  c5_graph : bool; c5_sphere : bool; c5_ellipsoid : bool; c5_lineage : bool; c5_tracklet : bool }.

(* a property named by the metadata: not named / named but node_props has no such key / found *)
Inductive decl (A : Type) := Undeclared | Absent | Present (a : A).
Arguments Undeclared {A}.
Arguments Absent {A}.
Arguments Present {A} a.

(* a tracklet / lineage id property: one value per node (aligned with the node ids) and its missing mask *)
Record tprop := { tp_values : list Z; tp_missing : option (list bool) }.

Record vdata5 := {
  e_directed : bool; e_ids : list Z; e_edges : list edge;
  e_spatial : nat;                                                             (* # axes of type space *)
  e_sphere : decl (nat * list Z * option (list bool));                          (* (ndim, radii, missing) *)
  e_ellipsoid : decl (nat * nat * nat * list matrix * option (list bool));      (* (ndim, rows, cols, stack, missing) *)
  (* None: track_node_props is None; Some (tracklet, lineage): a dict, each key present or not *)
  e_track : option (decl tprop * decl tprop) }.

(* which raise statement fires (the message of the exception) *)
Inductive fault :=
| FGraph (g : graph_fault)     (* "Some node ids are not unique" / "Some edges are missing nodes" /
                                  "Self edges found in data" / "Repeated edges found in data" *)
| FSphereDim                   (* "Sphere radius values must be 1D" *)
| FSphereNeg                   (* "Sphere radius values must be non-negative." *)
| FEllNoSpace                  (* "Must define space axes in order to have ellipsoid data" *)
| FEllDim                      (* "Ellipsoid covariance matrix must have 3 dimensions" *)
| FEllSquare                   (* "Spatial dimensions of covariance matrix must be equal" *)
| FEllSide                     (* "Ellipsoid covariance matrix must have {d} spatial dimensions" *)
| FEllSym                      (* "Ellipsoid covariance matrices must be symmetric" *)
| FEllPD                       (* "Ellipsoid covariance matrices must be positive-definite" *)
| FTracklets                   (* "Found invalid tracklets" *)
| FLineages                    (* "Found invalid lineages" *)
| FKey                         (* KeyError out of memory_geff["node_props"][name] *)
| FIndex                       (* IndexError out of values[np.logical_not(missing)] *)
| FRaise (e : exn)             (* validate_tracklets itself raises (TracksCycLemmas: never, for unique ids) *)
| FUnknown.                    (* never produced by the model: an observation the harness could not classify *)

Definition exn_of_fault (f : fault) : exn :=
  match f with
  | FKey => KeyError
  | FIndex => IndexError
  | FRaise e => e
  | FUnknown => OtherExn
  | _ => ValueError
  end.

Definition graph_fault_eqb (a b : graph_fault) : bool :=
  match a, b with
  | FNonUnique, FNonUnique | FMissingNodes, FMissingNodes | FSelfEdge, FSelfEdge | FRepeated, FRepeated => true
  | _, _ => false
  end.
Definition fault_eqb (a b : fault) : bool :=
  match a, b with
  | FGraph x, FGraph y => graph_fault_eqb x y
  | FSphereDim, FSphereDim | FSphereNeg, FSphereNeg | FEllNoSpace, FEllNoSpace | FEllDim, FEllDim
  | FEllSquare, FEllSquare | FEllSide, FEllSide | FEllSym, FEllSym | FEllPD, FEllPD
  | FTracklets, FTracklets | FLineages, FLineages | FKey, FKey | FIndex, FIndex | FUnknown, FUnknown => true
  | FRaise x, FRaise y => exn_eqb x y
  | _, _ => false
  end.

(* values[np.logical_not(missing)]: numpy refuses a boolean index whose length differs from the indexed axis (IndexError)
   -- except an EMPTY boolean index, which it accepts for an array of any length and which selects nothing
   (np.arange(3)[np.zeros(0, dtype=bool)] is the empty array).  fits: the indexing does not raise. *)
Definition fits {A} (miss : option (list bool)) (rows : list A) : bool :=
  match miss with
  | None => true
  | Some m => Nat.eqb (List.length m) (List.length rows) || Nat.eqb (List.length m) 0
  end.
(* None = IndexError; otherwise the selected rows (GraphVal.present: keep_present [] rows = []) *)
Definition mask_filter {A} (miss : option (list bool)) (rows : list A) : option (list A) :=
  if fits miss rows then Some (present miss rows) else None.

(* _annotated_nodes: node ids and track ids restricted to the entries not flagged missing (ids are indexed first);
   the pairs are what zip(nodes, tracklets, strict=False) of the validators iterates over *)
Definition annotated_nodes (ids : list Z) (p : tprop) : option nlabels :=
  match mask_filter (tp_missing p) ids with
  | None => None
  | Some i => match mask_filter (tp_missing p) (tp_values p) with
              | None => None
              | Some v => Some (combine i v)
              end
  end.

(* validate_sphere / validate_ellipsoid on the selected rows, check by check *)
Definition sphere_fault (ndim : nat) (radii : list Z) : option fault :=
  if negb (Nat.eqb ndim 1) then Some FSphereDim
  else if existsb (fun r => r <? 0) radii then Some FSphereNeg
  else None.

Definition ellipsoid_fault (spatial ndim r c : nat) (mats : list matrix) : option fault :=
  if negb (Nat.ltb 0 spatial) then Some FEllNoSpace
  else if negb (Nat.eqb ndim 3) then Some FEllDim
  else if negb (Nat.eqb r c) then Some FEllSquare
  else if negb (Nat.eqb r spatial) then Some FEllSide
  else if negb (forallb (symmetric r) mats) then Some FEllSym
  else if negb (forallb (pos_def r) mats) then Some FEllPD
  else None.

Definition orelse (a b : option fault) : option fault := match a with Some f => Some f | None => b end.

(* ---------- the five stages ---------- *)
Definition stage_graph (cfg : vconfig5) (d : vdata5) : option fault :=
  if c5_graph cfg then
    match graph_check (e_directed d) (e_ids d) (e_edges d) with Some g => Some (FGraph g) | None => None end
  else None.

Definition stage_sphere (cfg : vconfig5) (d : vdata5) : option fault :=
  if c5_sphere cfg then
    match e_sphere d with
    | Undeclared => None
    | Absent => Some FKey
    | Present (nd, rs, ms) =>
        match mask_filter ms rs with None => Some FIndex | Some rs' => sphere_fault nd rs' end
    end
  else None.

Definition stage_ellipsoid (cfg : vconfig5) (d : vdata5) : option fault :=
  if c5_ellipsoid cfg then
    match e_ellipsoid d with
    | Undeclared => None
    | Absent => Some FKey
    | Present (nd, r, c, ms, mi) =>
        match mask_filter mi ms with None => Some FIndex | Some ms' => ellipsoid_fault (e_spatial d) nd r c ms' end
    end
  else None.

(* "tracklet" in meta.track_node_props / "lineage" in meta.track_node_props, behind the test for None *)
Definition tracklet_decl (d : vdata5) : decl tprop :=
  match e_track d with None => Undeclared | Some (tk, _) => tk end.
Definition lineage_decl (d : vdata5) : decl tprop :=
  match e_track d with None => Undeclared | Some (_, ln) => ln end.

Definition tracklets_fault (E : list edge) (NL : nlabels) : option fault :=
  match validate_tracklets E NL with
  | Err e => Some (FRaise e)
  | Ok (true, _) => None
  | Ok (false, _) => Some FTracklets
  end.
Definition lineages_fault (E : list edge) (NL : nlabels) : option fault :=
  match invalid_lineages E NL with [] => None | _ :: _ => Some FLineages end.

Definition stage_track (enabled : bool) (p : decl tprop) (ids : list Z)
           (validator : nlabels -> option fault) : option fault :=
  if enabled then
    match p with
    | Undeclared => None
    | Absent => Some FKey
    | Present p => match annotated_nodes ids p with None => Some FIndex | Some NL => validator NL end
    end
  else None.

Definition stage_tracklet (cfg : vconfig5) (d : vdata5) : option fault :=
  stage_track (c5_tracklet cfg) (tracklet_decl d) (e_ids d) (tracklets_fault (e_edges d)).
Definition stage_lineage (cfg : vconfig5) (d : vdata5) : option fault :=
  stage_track (c5_lineage cfg) (lineage_decl d) (e_ids d) (lineages_fault (e_edges d)).

(* the first raise statement reached (None: validate_data returns) *)
Definition data_fault (cfg : vconfig5) (d : vdata5) : option fault :=
  orelse (stage_graph cfg d)
 (orelse (stage_sphere cfg d)
 (orelse (stage_ellipsoid cfg d)
 (orelse (stage_tracklet cfg d)
         (stage_lineage cfg d)))).

Definition validate_data5 (cfg : vconfig5) (d : vdata5) : res unit :=
  match data_fault cfg d with None => Ok tt | Some f => Err (exn_of_fault f) end.

(* ---------- the old three-flag state space inside the new one ---------- *)
Definition lift_decl {A} (o : option A) : decl A := match o with None => Undeclared | Some a => Present a end.
Definition lift_data (d : vdata) : vdata5 :=
  {| e_directed := d_directed d; e_ids := d_ids d; e_edges := d_edges d; e_spatial := d_spatial d;
     e_sphere := lift_decl (d_sphere d); e_ellipsoid := lift_decl (d_ellipsoid d); e_track := None |}.
Definition lift_cfg (cfg : vconfig) (lineage tracklet : bool) : vconfig5 :=
  {| c5_graph := c_graph cfg; c5_sphere := c_sphere cfg; c5_ellipsoid := c_ellipsoid cfg;
     c5_lineage := lineage; c5_tracklet := tracklet |}.

(* every mask can be applied to the array it indexes (what the old model assumes silently) *)
Definition masks_fit (d : vdata) : bool :=
  match d_sphere d with Some (_, rs, ms) => fits ms rs | None => true end &&
  match d_ellipsoid d with Some (_, _, _, ms, mi) => fits mi ms | None => true end.

(* record updates used by the statements *)
Definition set_track (d : vdata5) (t : option (decl tprop * decl tprop)) : vdata5 :=
  {| e_directed := e_directed d; e_ids := e_ids d; e_edges := e_edges d; e_spatial := e_spatial d;
     e_sphere := e_sphere d; e_ellipsoid := e_ellipsoid d; e_track := t |}.
Definition with_flags (cfg : vconfig5) (sphere ellipsoid lineage tracklet : bool) : vconfig5 :=
  {| c5_graph := c5_graph cfg; c5_sphere := sphere; c5_ellipsoid := ellipsoid;
     c5_lineage := lineage; c5_tracklet := tracklet |}.

(* the value stored at position i replaced by v (a fill value) *)
Fixpoint upd_nth {A} (i : nat) (v : A) (l : list A) : list A :=
  match l, i with
  | [], _ => []
  | _ :: r, O => v :: r
  | x :: r, S i' => x :: upd_nth i' v r
  end.
(* is position i dropped by the mask (an empty mask drops every position, see fits) *)
Definition missing_at (miss : option (list bool)) (i : nat) : bool :=
  match miss with None => false | Some [] => true | Some m => nth i m false end.
