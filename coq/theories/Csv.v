(* Csv.v -- the CSV TEXT written by geff_to_csv and what pandas.read_csv WITH DEFAULT ARGUMENTS makes of
   it.  No proofs in this file (CsvLemmas.v).

   geff_to_csv ends with
       node_df.to_csv(node_path, mode=mode)          edge_df.to_csv(edge_path, mode=mode)
   i.e. DataFrame.to_csv with every default: sep ",", na_rep "", header row, the row-label column first
   (index=True; its header cell is empty), csv.QUOTE_MINIMAL with the double quote as quote char and doubled quotes,
   line terminator os.linesep = LF.  pandas hands the rows to Python's csv.writer.

   WRITER.  A frame is a list of named columns of typed cells [tcell]: integers print in decimal, booleans
   as True / False, a missing cell (NaN, <NA>) as the empty text, strings as they are; a float prints as
   its shortest repr (numpy / Python float printing is NOT modelled: a float cell IS its literal, see
   [TFloat]).  A field is quoted iff it contains the delimiter, the quote char or a character of the line
   terminator (LF) -- a bare carriage return is NOT quoted (csv.writer of Python 3.12 with
   lineterminator "\n").  The file is one string.

   READER.  [tokenize] is the state machine of pandas' C tokenizer (tokenizer.c, tokenize_bytes) for the
   default dialect on the part of its state space that written files can reach (anything else: None =
   outside the model); [read_raw] takes the first row as header (an empty name becomes "Unnamed: j"),
   pads short rows and returns the columns as raw texts; [decide] is the per-column type inference of
   the C parser with default arguments (dtype_cast_order int64 -> float64 -> bool -> object, default NA
   tokens, na_filter on): see the comment at [decide].  Every rule was probed on pandas 3.0.5 and is tied
   by generated correspondence cases (real geff_to_csv + pd.read_csv(path) against these functions). *)
From Geff Require Import Base Table.
From Coq Require Import DecimalString.
Open Scope list_scope.

(* ------------------------------------------------------------------ *)
(* characters                                                          *)
(* ------------------------------------------------------------------ *)
Definition chr (n : nat) : string := String (ascii_of_nat n) EmptyString.
Definition cLF : ascii := ascii_of_nat 10.
Definition cCR : ascii := ascii_of_nat 13.
Definition cTAB : ascii := ascii_of_nat 9.
Definition cSP : ascii := ascii_of_nat 32.
Definition cNUL : ascii := ascii_of_nat 0.
Definition cCOMMA : ascii := ","%char.
Definition cQUOTE : ascii := ascii_of_nat 34.

Fixpoint all_chars (p : ascii -> bool) (s : string) : bool :=
  match s with EmptyString => true | String c r => p c && all_chars p r end.
Definition any_char (p : ascii -> bool) (s : string) : bool := negb (all_chars (fun c => negb (p c)) s).

(* ------------------------------------------------------------------ *)
(* typed cells and their text                                          *)
(* ------------------------------------------------------------------ *)
(* TFloat lit: a float cell, identified with the literal DataFrame.to_csv prints for it (repr of the
   float64, shortest repr of a float32).  Trusted: the literal is what numpy prints; facts used: it is
   a float literal for the reader ([float_ok]), never an integer literal and never an NA token. *)
Inductive tcell := TInt (z : Z) | TBool (b : bool) | TFloat (lit : string) | TStr (s : string) | TNA.

Definition tframe := list (string * list tcell).

Definition dec_z (z : Z) : string := NilEmpty.string_of_int (Z.to_int z).

Definition render (c : tcell) : string :=
  match c with
  | TInt z => dec_z z
  | TBool true => "True"
  | TBool false => "False"
  | TFloat l => l
  | TStr s => s
  | TNA => ""
  end.

(* ------------------------------------------------------------------ *)
(* writer: csv.writer, QUOTE_MINIMAL, lineterminator LF                *)
(* ------------------------------------------------------------------ *)
Definition special (c : ascii) : bool := Ascii.eqb c cCOMMA || Ascii.eqb c cQUOTE || Ascii.eqb c cLF.
Definition needs_quote (s : string) : bool := any_char special s.

(* every quote char doubled *)
Fixpoint dq (s : string) : string :=
  match s with
  | EmptyString => EmptyString
  | String c r => if Ascii.eqb c cQUOTE then String c (String c (dq r)) else String c (dq r)
  end.

Definition quote_min (s : string) : string :=
  if needs_quote s then String cQUOTE (String.append (dq s) (String cQUOTE EmptyString)) else s.

Fixpoint join_line (fs : list string) : string :=
  match fs with
  | [] => EmptyString
  | [f] => quote_min f
  | f :: r => String.append (quote_min f) (String cCOMMA (join_line r))
  end.

Fixpoint print_rows (rows : list (list string)) : string :=
  match rows with
  | [] => EmptyString
  | r :: rest => String.append (join_line r) (String cLF (print_rows rest))
  end.

(* DataFrame.to_csv(path): header row with an empty cell for the row labels, then one line per row:
   row label 0..N-1, then the cells *)
Definition nrows (t : tframe) : nat := match t with [] => 0%nat | c :: _ => List.length (snd c) end.
Definition header_row (t : tframe) : list string := EmptyString :: map fst t.
Definition data_row (t : tframe) (i : nat) : list string :=
  dec_z (Z.of_nat i) :: map (fun c => render (nth i (snd c) TNA)) t.
Definition frame_rows (t : tframe) : list (list string) := header_row t :: map (data_row t) (seq 0 (nrows t)).
Definition to_csv_text (t : tframe) : string := print_rows (frame_rows t).

(* ------------------------------------------------------------------ *)
(* reader, part 1: the tokenizer                                       *)
(* ------------------------------------------------------------------ *)
(* START_RECORD, START_FIELD, IN_FIELD, IN_QUOTED_FIELD, QUOTE_IN_QUOTED_FIELD, EAT_CRNL *)
Inductive tstate := SR | SF | FL | QF | QQ | CRs.

Record acc := mkAcc { a_rows : list (list string); a_row : list string; a_fld : string }.

Definition push (c : ascii) (a : acc) : acc :=
  mkAcc (a_rows a) (a_row a) (String.append (a_fld a) (String c EmptyString)).
Definition end_field (a : acc) : acc := mkAcc (a_rows a) (a_row a ++ [a_fld a]) EmptyString.
Definition end_line (a : acc) : acc := mkAcc (a_rows a ++ [a_row a]) [] (a_fld a).

Definition step_SF (c : ascii) (a : acc) : tstate * acc :=
  if Ascii.eqb c cLF then (SR, end_line (end_field a))
  else if Ascii.eqb c cCR then (CRs, end_field a)
  else if Ascii.eqb c cQUOTE then (QF, a)
  else if Ascii.eqb c cCOMMA then (SF, end_field a)
  else (FL, push c a).

Definition step (st : tstate) (c : ascii) (a : acc) : option (tstate * acc) :=
  match st with
  | SR =>
      (* a blank line is skipped (skip_blank_lines); a line that starts with CR, blank or tab enters the
         tokenizer's whitespace-line / CR-blank-line states: not modelled (no written file starts a line so) *)
      if Ascii.eqb c cLF then Some (SR, a)
      else if Ascii.eqb c cCR || Ascii.eqb c cSP || Ascii.eqb c cTAB then None
      else Some (step_SF c a)
  | SF => Some (step_SF c a)
  | FL =>
      if Ascii.eqb c cLF then Some (SR, end_line (end_field a))
      else if Ascii.eqb c cCR then Some (CRs, end_field a)
      else if Ascii.eqb c cCOMMA then Some (SF, end_field a)
      else Some (FL, push c a)                   (* a quote char inside an unquoted field is data *)
  | QF =>
      if Ascii.eqb c cQUOTE then Some (QQ, a) else Some (QF, push c a)
  | QQ =>
      if Ascii.eqb c cQUOTE then Some (QF, push c a)
      else if Ascii.eqb c cCOMMA then Some (SF, end_field a)
      else if Ascii.eqb c cLF then Some (SR, end_line (end_field a))
      else if Ascii.eqb c cCR then Some (CRs, end_field a)
      else Some (FL, push c a)
  | CRs =>
      (* a carriage return outside quotes ended the field and ends the line, with or without a following LF *)
      if Ascii.eqb c cLF then Some (SR, end_line a)
      else if Ascii.eqb c cCOMMA || Ascii.eqb c cSP || Ascii.eqb c cTAB || Ascii.eqb c cCR then None
      else Some (step_SF c (end_line a))
  end.

Definition finish (st : tstate) (a : acc) : option (list (list string)) :=
  match st with
  | SR => Some (a_rows a)
  | SF | FL | QQ => Some (a_rows (end_line (end_field a)))
  | QF => None                                   (* end of data inside a quoted field: ParserError *)
  | CRs => Some (a_rows (end_line a))
  end.

Fixpoint run (st : tstate) (a : acc) (s : string) : option (list (list string)) :=
  match s with
  | EmptyString => finish st a
  | String c r => match step st c a with
                  | None => None
                  | Some (st', a') => run st' a' r
                  end
  end.

Definition tokenize (s : string) : option (list (list string)) := run SR (mkAcc [] [] EmptyString) s.

(* ------------------------------------------------------------------ *)
(* reader, part 2: header and columns                                  *)
(* ------------------------------------------------------------------ *)
Definition col_name (j : nat) (h : string) : string :=
  match h with EmptyString => String.append "Unnamed: " (decimal j) | _ => h end.

Fixpoint names_from (j : nat) (hdr : list string) : list string :=
  match hdr with [] => [] | h :: r => col_name j h :: names_from (S j) r end.

(* the raw columns: what read_csv(path, dtype=str, keep_default_na=False) shows.  A row shorter than the
   header is padded with empty cells; a longer one (implicit index / ParserError) and repeated names
   (mangling) are outside the model; so is a file without any row *)
Definition read_raw (s : string) : option (list (string * list string)) :=
  match tokenize s with
  | None | Some [] => None
  | Some (hdr :: data) =>
      let names := names_from 0 hdr in
      if existsb (fun r => Nat.ltb (List.length hdr) (List.length r)) data then None
      else if negb (nodupb names) then None
      else Some (map (fun j => (nth j names EmptyString, map (fun r => nth j r EmptyString) data))
                     (seq 0 (List.length hdr)))
  end.

(* ------------------------------------------------------------------ *)
(* reader, part 3: lexical classes of one cell                         *)
(* ------------------------------------------------------------------ *)
(* pandas._libs.parsers.STR_NA_VALUES of the running version (checked by the harness: case "consts") *)
Definition na_values : list string :=
  [""; "#N/A"; "#N/A N/A"; "#NA"; "-1.#IND"; "-1.#QNAN"; "-NaN"; "-nan"; "1.#IND"; "1.#QNAN"; "<NA>"; "N/A"; "NA";
   "NULL"; "NaN"; "None"; "n/a"; "nan"; "null"]%string.
Definition is_na (s : string) : bool := smem s na_values.

(* isspace_ascii *)
Definition is_ws (c : ascii) : bool :=
  let n := nat_of_ascii c in Nat.eqb n 32 || (Nat.leb 9 n && Nat.leb n 13).
Definition is_digit (c : ascii) : bool := let n := nat_of_ascii c in Nat.leb 48 n && Nat.leb n 57.
Definition is_sign (c : ascii) : bool := Ascii.eqb c "-"%char || Ascii.eqb c "+"%char.

Fixpoint lstrip (s : string) : string :=
  match s with
  | EmptyString => EmptyString
  | String c r => if is_ws c then lstrip r else s
  end.

Fixpoint span_digits (s : string) : string * string :=
  match s with
  | EmptyString => (EmptyString, EmptyString)
  | String c r => if is_digit c then let (d, t) := span_digits r in (String c d, t) else (EmptyString, s)
  end.

Definition is_empty (s : string) : bool := match s with EmptyString => true | _ => false end.

Definition uint_value (d : string) : Z :=
  match NilEmpty.uint_of_string d with Some u => Z.of_uint u | None => 0%Z end.

(* str_to_int64 / str_to_uint64: blanks, an optional sign, digits, blanks *)
Definition lex_int (s : string) : option Z :=
  let t := lstrip s in
  let '(neg, u) := match t with
                   | String c r => if Ascii.eqb c "-"%char then (true, r)
                                   else if Ascii.eqb c "+"%char then (false, r) else (false, t)
                   | EmptyString => (false, t)
                   end in
  let (d, r) := span_digits u in
  if is_empty d then None
  else if all_chars is_ws r then Some (if neg then (- uint_value d)%Z else uint_value d)
  else None.

Definition lower (c : ascii) : ascii :=
  let n := nat_of_ascii c in if Nat.leb 65 n && Nat.leb n 90 then ascii_of_nat (n + 32) else c.
Fixpoint lower_s (s : string) : string :=
  match s with EmptyString => EmptyString | String c r => String (lower c) (lower_s r) end.

Definition drop_sign (s : string) : string :=
  match s with String c r => if is_sign c then r else s | EmptyString => s end.

(* does the default float parser accept the text: blanks, sign, digits [. digits] with at least one digit,
   optionally e/E, blanks, sign, at least one digit, then blanks; or (no blanks) a signed inf / infinity in
   any letter case.  The VALUE it assigns is not modelled. *)
Definition lex_float (s : string) : bool :=
  let t := drop_sign (lstrip s) in
  let (d1, r) := span_digits t in
  let '(d2, r2) := match r with
                   | String c q => if Ascii.eqb c "."%char then span_digits q else (EmptyString, r)
                   | EmptyString => (EmptyString, r)
                   end in
  let mant := negb (is_empty d1) || negb (is_empty d2) in
  let r3 := match r2 with
            | String c q =>
                if Ascii.eqb (lower c) "e"%char then
                  let (d3, q') := span_digits (drop_sign (lstrip q)) in
                  if is_empty d3 then r2 else q'
                else r2
            | EmptyString => r2
            end in
  (mant && all_chars is_ws r3)
  || (let u := lower_s (drop_sign s) in String.eqb u "inf" || String.eqb u "infinity").

(* to_boolean: TRUE / FALSE in any letter case *)
Definition lex_bool (s : string) : option bool :=
  let l := lower_s s in
  if String.eqb l "true" then Some true else if String.eqb l "false" then Some false else None.

(* a C string ends at its first NUL *)
Fixpoint trunc_nul (s : string) : string :=
  match s with
  | EmptyString => EmptyString
  | String c r => if Ascii.eqb c cNUL then EmptyString else String c (trunc_nul r)
  end.

Inductive lexc := LNA | LInt (z : Z) | LFloat | LBool (b : bool) | LOther.

Definition classify (s : string) : lexc :=
  if is_na s then LNA
  else match lex_int s with
       | Some z => LInt z
       | None => if lex_float s then LFloat
                 else match lex_bool s with Some b => LBool b | None => LOther end
       end.

(* ------------------------------------------------------------------ *)
(* reader, part 4: the type a column gets and its cells                *)
(* ------------------------------------------------------------------ *)
Inductive rdtype := DInt64 | DUInt64 | DFloat64 | DBool | DStr | DObject.

(* RFint z: the float64 whose value is the integer z (an integer column that was converted by a C cast);
   RFlit s: the float64 the default float parser assigns to the text s (value not modelled) *)
Inductive rcell := RInt (z : Z) | RFint (z : Z) | RFlit (s : string) | RNaN | RBool (b : bool) | RStr (s : string).

Definition i64_min : Z := (- 2 ^ 63)%Z.
Definition i64_max : Z := (2 ^ 63 - 1)%Z.
Definition u64_max : Z := (2 ^ 64 - 1)%Z.
Definition in_i64 (z : Z) : bool := Z.leb i64_min z && Z.leb z i64_max.

(* (double) z of an int64: round to nearest, ties to even, 53 significant bits *)
Definition round_f64 (z : Z) : Z :=
  let a := Z.abs z in
  if Z.ltb a (2 ^ 53) then z
  else
    let e := (Z.log2 a - 52)%Z in
    let q := Z.shiftr a e in
    let r := (a - Z.shiftl q e)%Z in
    let half := Z.shiftl 1 (e - 1) in
    let q' := if Z.ltb half r || (Z.eqb r half && Z.odd q) then (q + 1)%Z else q in
    (Z.sgn z * Z.shiftl q' e)%Z.

Definition is_LNA (l : lexc) : bool := match l with LNA => true | _ => false end.
Definition int_or_na (l : lexc) : bool := match l with LNA | LInt _ => true | _ => false end.
Definition num_or_na (l : lexc) : bool := match l with LNA | LInt _ | LFloat => true | _ => false end.
Definition bool_or_na (l : lexc) : bool := match l with LNA | LBool _ => true | _ => false end.
Definition big (l : lexc) : bool := match l with LInt z => negb (in_i64 z) | _ => false end.
Definition too_big (l : lexc) : bool := match l with LInt z => Z.ltb u64_max z | _ => false end.

(* the text is empty or exactly the decimal numeral of a non-negative integer (what an unsigned column
   with missing entries is written as) *)
Definition canon_nat (s : string) : bool :=
  is_empty s || match lex_int s with Some z => Z.leb 0 z && String.eqb s (dec_z z) | None => false end.

(* TextReader._convert_tokens with no dtype given, on the cells of one column (NUL-terminated words):
     no row at all                                       -> object, empty
     some numeral lies beyond int64 (the int64 attempt overflows and the column is retried as uint64;
       what happens then depends on blanks, signs and the order of the cells: modelled for the writer's
       image only, i.e. every cell empty or a canonical non-negative numeral up to 2^64-1):
         no empty cell                                   -> uint64
         an empty cell                                   -> the column stays TEXT, the empty cells too
     every cell an NA token or an integer:
         no NA token                                     -> int64
         else float64 by a C cast of the int64 (exact up to 2^53, else rounded; the cell -2^63 is pandas'
              own NA sentinel and comes out as NaN)
     every cell an NA token or accepted by the float parser -> float64, NA tokens NaN
     every cell an NA token or TRUE/FALSE:  no NA -> bool;  else object holding True / False / NaN
     otherwise                                           -> str, NA tokens NaN, the rest verbatim *)
Definition decide_body (cs : list string) : option (rdtype * list rcell) :=
  let ls := map classify cs in
  if existsb big ls then
    if forallb canon_nat cs && negb (existsb too_big ls) then
      if existsb is_empty cs then Some (DStr, map RStr cs)
      else Some (DUInt64, map (fun c => match classify c with LInt z => RInt z | _ => RNaN end) cs)
    else None
  else if forallb int_or_na ls then
    if existsb is_LNA ls then
      Some (DFloat64, map (fun c => match classify c with
                                    | LInt z => if Z.eqb z i64_min then RNaN else RFint (round_f64 z)
                                    | _ => RNaN end) cs)
    else Some (DInt64, map (fun c => match classify c with LInt z => RInt z | _ => RNaN end) cs)
  else if forallb num_or_na ls then
    Some (DFloat64, map (fun c => match classify c with LNA => RNaN | _ => RFlit c end) cs)
  else if forallb bool_or_na ls then
    if existsb is_LNA ls then
      Some (DObject, map (fun c => match classify c with LBool b => RBool b | _ => RNaN end) cs)
    else Some (DBool, map (fun c => match classify c with LBool b => RBool b | _ => RNaN end) cs)
  else Some (DStr, map (fun c => match classify c with LNA => RNaN | _ => RStr c end) cs).

Definition decide (cells : list string) : option (rdtype * list rcell) :=
  match cells with
  | [] => Some (DObject, [])
  | _ => decide_body (map trunc_nul cells)
  end.

(* pandas.read_csv(path) with default arguments: column name, and the inferred column (None = a column
   the model does not cover) *)
Definition rframe := list (string * option (rdtype * list rcell)).
Definition read_csv_default (s : string) : option rframe :=
  match read_raw s with
  | None => None
  | Some cols => Some (map (fun c => (fst c, decide (snd c))) cols)
  end.

(* ================= specification vocabulary ================= *)
(* "the same value": an integer may come back as the float of the same value; a float as the parser's value
   of the literal that was written; a missing cell as NaN *)
Definition same_value (c : tcell) (r : rcell) : bool :=
  match c, r with
  | TInt z, RInt z' | TInt z, RFint z' => Z.eqb z z'
  | TBool b, RBool b' => Bool.eqb b b'
  | TFloat l, RFlit l' => String.eqb l l'
  | TStr s, RStr s' => String.eqb s s'
  | TNA, RNaN => true
  | _, _ => false
  end.

Fixpoint forallb2 {A B} (f : A -> B -> bool) (l : list A) (m : list B) : bool :=
  match l, m with
  | [], [] => true
  | x :: l', y :: m' => f x y && forallb2 f l' m'
  | _, _ => false
  end.

Definition column_reads_back (c : string * list tcell) (r : string * option (rdtype * list rcell)) : bool :=
  String.eqb (fst c) (fst r) &&
  match snd r with Some (_, cells) => forallb2 same_value (snd c) cells | None => false end.

(* the property's sentence for one written table: default read_csv shows the row labels first and then
   every column under its name with the same values, row by row *)
Definition frame_reads_back (t : tframe) : bool :=
  match read_csv_default (to_csv_text t) with
  | Some (_ :: cols) => forallb2 column_reads_back t cols
  | _ => false
  end.

Fixpoint rlookup (f : rframe) (n : string) : option (option (rdtype * list rcell)) :=
  match f with
  | [] => None
  | (k, v) :: r => if String.eqb k n then Some v else rlookup r n
  end.

(* the column called n in pandas.read_csv(path) of a file holding this text *)
Definition read_column (text : string) (n : string) : option (option (rdtype * list rcell)) :=
  match read_csv_default text with Some f => rlookup f n | None => None end.

(* a frame as pandas builds it from a dict of equal-length columns *)
Definition wf_frame (t : tframe) : Prop :=
  t <> [] /\ (forall c, In c t -> List.length (snd c) = nrows t) /\ NoDup (map fst t).

(* ---- side conditions (boolean) ---- *)
Definition no_nul (s : string) : bool := all_chars (fun c => negb (Ascii.eqb c cNUL)) s.
(* a carriage return is only safe inside a field that is quoted for another reason *)
Definition cr_ok (s : string) : bool := needs_quote s || all_chars (fun c => negb (Ascii.eqb c cCR)) s.

Definition is_TNA (c : tcell) : bool := match c with TNA => true | _ => false end.
Definition int_cell (c : tcell) : bool := match c with TInt _ | TNA => true | _ => false end.
Definition bool_cell (c : tcell) : bool := match c with TBool _ | TNA => true | _ => false end.
Definition float_cell (c : tcell) : bool := match c with TFloat _ | TNA => true | _ => false end.
Definition str_cell (c : tcell) : bool := match c with TStr _ | TNA => true | _ => false end.

Definition cell_in (lo hi : Z) (c : tcell) : bool :=
  match c with TInt z => Z.leb lo z && Z.leb z hi | _ => true end.

(* what numpy prints for a float is a float literal for the reader, not an integer, not an NA token *)
Definition float_ok (l : string) : bool :=
  no_nul l && match classify l with LFloat => true | _ => false end.
Definition float_cell_ok (c : tcell) : bool := match c with TFloat l => float_ok l | _ => true end.

Definition non_num (c : tcell) : bool :=
  match c with TStr s => match classify s with LOther | LBool _ => true | _ => false end | _ => false end.
Definition non_bool (c : tcell) : bool :=
  match c with TStr s => match classify s with LOther | LInt _ | LFloat => true | _ => false end | _ => false end.
Definition str_cell_ok (c : tcell) : bool :=
  match c with
  | TStr s => no_nul s && negb (is_na s) && negb (big (classify s))
  | _ => true
  end.
(* a string column survives default parsing iff no value is an NA token (the empty string included), some
   value does not look like a number and some value does not look like a boolean (and no value is a numeral
   beyond int64 / holds a NUL) *)
Definition str_safe (cells : list tcell) : bool :=
  forallb str_cell_ok cells && existsb non_num cells && existsb non_bool cells.

Definition col_safe (cells : list tcell) : bool :=
  match cells with
  | [] => true
  | _ =>
    if forallb is_TNA cells then true
    else if forallb int_cell cells then
      if existsb is_TNA cells then forallb (cell_in (- 2 ^ 53) (2 ^ 53)) cells
      else forallb (cell_in i64_min i64_max) cells || forallb (cell_in 0 u64_max) cells
    else if forallb bool_cell cells then true
    else if forallb float_cell cells then forallb float_cell_ok cells
    else if forallb str_cell cells then str_safe cells
    else false
  end.

(* the text layer is transparent: no header name is empty or clashes with the row-label column, and no
   field holds a bare carriage return *)
Definition text_ok (t : tframe) : bool :=
  forallb (fun c => negb (is_empty (fst c)) && negb (String.eqb (fst c) "Unnamed: 0") && cr_ok (fst c) &&
                    forallb (fun x => cr_ok (render x)) (snd c)) t.

Definition frame_safe (t : tframe) : bool := text_ok t && forallb (fun c => col_safe (snd c)) t.

(* ------------------------------------------------------------------ *)
(* the typed graph: from the stored arrays to the two CSV texts        *)
(* ------------------------------------------------------------------ *)
(* Table.v moves opaque payloads.  Here every stored value has its kind; the payload handed to Table.v
   is the POSITION of the value in a pool (ids first, then the values of each property in stored order),
   so that the export of Table.v is reused as it is and the exported cells are looked up again.
   A float stored as NaN is a missing cell for pandas: it is given as TNA. *)
Record tprop := mkTProp {
  tp_name : string;
  tp_shape : list nat;
  tp_vals : list tcell;
  tp_miss : option (list bool)
}.

Record tgraph := mkTGraph {
  tg_ids : list Z;
  tg_nprops : list tprop;
  tg_edges : list (Z * Z);
  tg_eprops : list tprop
}.

Definition zseq (start len : nat) : list Z := map Z.of_nat (seq start len).

Fixpoint erase_props (off : nat) (ps : list tprop) : list prop :=
  match ps with
  | [] => []
  | p :: r => mkProp (tp_name p) (tp_shape p) (zseq off (List.length (tp_vals p))) (tp_miss p)
              :: erase_props (off + List.length (tp_vals p)) r
  end.

Definition pool_of (idvals : list Z) (ps : list tprop) : list tcell :=
  map TInt idvals ++ flat_map tp_vals ps.

Definition node_pool (g : tgraph) : list tcell := pool_of (tg_ids g) (tg_nprops g).
Definition edge_pool (g : tgraph) : list tcell :=
  pool_of (map fst (tg_edges g) ++ map snd (tg_edges g)) (tg_eprops g).

Definition erase (g : tgraph) : graph :=
  let n := List.length (tg_ids g) in
  let e := List.length (tg_edges g) in
  mkGraph (zseq 0 n) (erase_props n (tg_nprops g))
          (combine (zseq 0 e) (zseq e e)) (erase_props (e + e) (tg_eprops g)).

Definition decode (pool : list tcell) (c : cell) : tcell :=
  match c with Val z => nth (Z.to_nat z) pool TNA | NaN => TNA end.

Definition typed_table (pool : list tcell) (t : table) : tframe :=
  map (fun c => (fst c, map (decode pool) (snd c))) t.

(* the frames handed to to_csv, with typed cells *)
Definition node_tframe (g : tgraph) : tframe := typed_table (node_pool g) (fst (node_frame (erase g))).
Definition edge_tframe (g : tgraph) : tframe := typed_table (edge_pool g) (fst (edge_frame (erase g))).

(* the bytes of "<outpath>-nodes.csv" and "<outpath>-edges.csv" after a successful geff_to_csv *)
Definition csv_texts (g : tgraph) : string * string :=
  (to_csv_text (node_tframe g), to_csv_text (edge_tframe g)).

(* bits of the float64 that holds the integer z exactly (z as produced by round_f64) *)
Definition f64_bits_of_int (z : Z) : Z :=
  if Z.eqb z 0 then 0%Z
  else
    let a := Z.abs z in
    let e := Z.log2 a in
    let m := if Z.leb e 52 then Z.shiftl a (52 - e) else Z.shiftr a (e - 52) in
    ((if Z.ltb z 0 then 2 ^ 63 else 0) + Z.shiftl (e + 1023) 52 + (m - 2 ^ 52))%Z.

(* ================= more specification vocabulary (used by the theorems of props/C17.v) ================= *)
(* what the tokenizer does with a field, as a function: strip the quotes, undouble *)
Fixpoint undq (s : string) : string :=
  match s with
  | EmptyString => EmptyString
  | String c r =>
      if Ascii.eqb c cQUOTE then
        match r with
        | String c' r' => if Ascii.eqb c' cQUOTE then String c (undq r') else String c (undq r)
        | EmptyString => EmptyString          (* the closing quote *)
        end
      else String c (undq r)
  end.

Definition unquote (s : string) : string :=
  match s with
  | String c r => if Ascii.eqb c cQUOTE then undq r else s
  | EmptyString => s
  end.

(* a written line never starts with a line break, blank or tab: it starts with the row label (a digit) or,
   for the header, with the delimiter *)
Definition row_start_ok (r : list string) : bool :=
  match join_line r with
  | EmptyString => false
  | String c _ => negb (Ascii.eqb c cLF || Ascii.eqb c cCR || Ascii.eqb c cSP || Ascii.eqb c cTAB)
  end.

Definition row_ok (r : list string) : Prop := row_start_ok r = true /\ Forall (fun f => cr_ok f = true) r.

Definition label_column (n : nat) : list string := map (fun i => dec_z (Z.of_nat i)) (seq 0 n).

Definition expect_same (c : tcell) : rcell :=
  match c with TInt z => RInt z | TBool b => RBool b | TFloat l => RFlit l | TStr s => RStr s | TNA => RNaN end.

Definition int_as_float (c : tcell) : rcell :=
  match c with
  | TInt z => if Z.eqb z i64_min then RNaN else RFint (round_f64 z)
  | _ => RNaN
  end.

Definition three_ids : string * list tcell := ("id"%string, [TInt 1; TInt 2; TInt 3]).
Definition w_int_missing : tframe := [three_ids; ("v"%string, [TInt (2 ^ 53 + 1); TNA; TInt 7])].
Definition w_int_min : tframe := [three_ids; ("v"%string, [TInt (- 2 ^ 63); TNA; TInt 7])].
Definition w_uint_missing : tframe := [three_ids; ("u"%string, [TInt (2 ^ 63); TNA; TInt 1])].
Definition w_str_007 : tframe := [three_ids; ("s"%string, [TStr "007"; TStr "1"; TStr "12"])].
Definition w_str_na : tframe := [three_ids; ("s"%string, [TStr "NA"; TStr "a"; TStr "b"])].
Definition w_str_empty : tframe := [three_ids; ("s"%string, [TStr ""; TStr "a"; TStr "b"])].
Definition w_str_1e3 : tframe := [three_ids; ("s"%string, [TStr "1e3"; TStr "2"; TStr "1.5"])].
Definition w_str_true : tframe := [three_ids; ("s"%string, [TStr "True"; TStr "False"; TStr "true"])].
Definition w_str_masked : tframe := [three_ids; ("s"%string, [TStr "007"; TNA; TStr "1"])].
Definition w_str_cr : tframe := [three_ids; ("s"%string, [TStr (String.append "a" (String.append (chr 13) "b")); TStr "k"; TStr "m"])].
Definition w_str_nul : tframe := [three_ids; ("s"%string, [TStr (String.append "a" (String.append (chr 0) "b")); TStr "k"; TStr "m"])].
Definition w_bool_missing : tframe := [three_ids; ("b"%string, [TBool true; TNA; TBool true])].

Definition csv_full : Prop := forall t, wf_frame t -> frame_reads_back t = true.

Definition ids_in_range (ids : list Z) : bool :=
  forallb in_i64 ids || forallb (fun z => Z.leb 0 z && Z.leb z u64_max) ids.
