(* MockTreeLemmas.v -- what create_mock_geff writes is a structurally conformant geff in the sense of the
   declarative predicate Validate.conformant (the reading of docs/specification.md that C04 is stated
   against), for every accepted request.  This replaces the definitional "the model's validator accepts what
   the model's writer wrote" by a statement against an independent specification. *)
From Geff Require Import Base Dtype Vlen VlenLemmas Mock MockLemmas MockTree.
From Geff Require Tree TreeLemmas Validate ValidateLemmas.
From Geff.Gen Require Import Consts.
Open Scope string_scope.
Open Scope list_scope.

Definition tree_pm_kv (x : pmeta) : string * Tree.pmeta := (pm_name x, tree_pmeta x).
Definition tree_prop_kv (kv : string * sprop) : string * Tree.znode := (fst kv, prop_node (snd kv)).

Lemma keys_metas ents : Tree.akeys (map tree_pm_kv (map meta_of ents)) = map e_name ents.
Proof.
  unfold Tree.akeys. rewrite !map_map. apply map_ext. intro e. unfold tree_pm_kv. cbn [fst]. apply meta_of_name.
Qed.
Lemma keys_props ents : Tree.akeys (map tree_prop_kv (map sp_kv ents)) = map e_name ents.
Proof. unfold Tree.akeys. rewrite !map_map. reflexivity. Qed.

(* one written property against its metadata entry *)
Lemma prop_conformant_of count e : arr_wf count (e_arr e) ->
  Validate.prop_conformant count (tree_pmeta (meta_of e)) (prop_node (sprop_of (e_arr e))).
Proof.
  intros [Hlen [Hms [Hp _]]]. unfold Validate.prop_conformant, prop_node. eexists _, _. split; [reflexivity|].
  unfold meta_of, sprop_of.
  destruct (a_payload (e_arr e)) as [k|x y k|k|s k| |elems] eqn:Epl.
  6:{ destruct Hp as [Hne [Hu [_ [Hl _]]]].
      destruct (serialize_wf elems count Hne Hu Hl) as [rows [data [Hs Hr]]]. rewrite Hs.
      destruct elems as [|e0 r]; [contradiction|].
      cbn [sp_dt sp_len sp_tail sp_missing sp_data tree_pmeta Tree.pm_varlength Tree.pm_dtype pm_varlen pm_dt ser_dtype].
      destruct rows as [|r0 rows']; [cbn in Hr; cbn in Hl; lia|].
      split.
      - eexists. split; [reflexivity|]. cbn [zeros Tree.a_shape Tree.a_dt]. split; [eexists _, _; split; [reflexivity | exact Hr]|].
        split; [reflexivity|]. split; [eexists _, _; reflexivity|].
        destruct (a_missing (e_arr e)) as [ms|]; eexists; (split; [reflexivity|]); (split; [reflexivity|]); eexists; reflexivity.
      - destruct (a_missing (e_arr e)) as [ms|] eqn:Em; [right | left; reflexivity].
        eexists. split; [reflexivity|]. cbn [zeros Tree.a_shape Tree.a_dt]. rewrite (Hms ms eq_refl). split; reflexivity. }
  all: cbn [sp_dt sp_len sp_tail sp_missing sp_data tree_pmeta Tree.pm_varlength Tree.pm_dtype pm_varlen pm_dt];
    (split;
     [ eexists; split; [reflexivity|]; cbn [zeros Tree.a_shape Tree.a_dt];
       split; [eexists _, _; split; [reflexivity | exact Hlen]|];
       split; [reflexivity|]; destruct (a_missing (e_arr e)); reflexivity
     | destruct (a_missing (e_arr e)) as [ms|] eqn:Em; [right | left; reflexivity];
       eexists; split; [reflexivity|]; cbn [zeros Tree.a_shape Tree.a_dt]; rewrite (Hms ms eq_refl); split; reflexivity ]).
Qed.

Lemma props_conformant_of count ents :
  NoDup (map e_name ents) -> Forall (fun e => arr_wf count (e_arr e)) ents ->
  Validate.props_conformant count (map tree_pm_kv (map meta_of ents)) (props_node (map sp_kv ents)).
Proof.
  intros Hnd Hwf. unfold Validate.props_conformant, props_node. cbn [Tree.children].
  fold tree_prop_kv. split.
  - intro name. rewrite keys_metas, keys_props. tauto.
  - intros name node Hin. apply in_map_iff in Hin. destruct Hin as [kv [Hkv Hin]].
    apply in_map_iff in Hin. destruct Hin as [e [<- He]]. unfold tree_prop_kv, sp_kv in Hkv. cbn [fst snd] in Hkv.
    inversion Hkv; subst name node; clear Hkv.
    exists (tree_pmeta (meta_of e)). split.
    + apply TreeLemmas.alookup_in_nodup; [rewrite keys_metas; exact Hnd|].
      apply in_map_iff. exists (meta_of e). split; [unfold tree_pm_kv; rewrite meta_of_name; reflexivity | apply in_map; exact He].
    + apply prop_conformant_of. rewrite Forall_forall in Hwf. apply Hwf. exact He.
Qed.

Theorem spec_store_conformant p iddt :
  names_ok p -> accepted_params p iddt -> is_integer iddt = true ->
  Validate.conformant (store_tree (spec_store p iddt)).
Proof.
  intros [Hn He] Hacc Hint.
  pose proof (node_entries_names p iddt Hacc) as Hnn. pose proof (edge_entries_names p iddt Hacc) as Hen.
  pose proof (node_entries_wf p iddt Hacc) as Hnw. pose proof (edge_entries_wf p iddt Hacc) as Hew.
  assert (HndN : NoDup (map e_name (node_entries p))) by (rewrite Hnn; exact Hn).
  assert (HndE : NoDup (map e_name (edge_entries p))) by (rewrite Hen; exact He).
  assert (Hax : axes_dtypes_ok p (nn p)) by (destruct Hacc as [_ [_ [H _]]]; exact H).
  unfold Validate.conformant, store_tree. eexists. split; [reflexivity|].
  eexists _, _, _, _, _, _. split; [reflexivity|]. split; [reflexivity|]. split; [reflexivity|]. split; [reflexivity|].
  cbn [zeros Tree.a_dt Tree.a_shape spec_store s_iddt s_edt s_ids s_edges s_nprops s_eprops s_meta hd].
  split; [exact Hint|]. split; [eexists; reflexivity|]. split; [eexists; reflexivity|]. split; [reflexivity|].
  assert (Hlen : length (arange_ids (p_n p)) = nn p) by (unfold arange_ids; rewrite map_length, seq_length; reflexivity).
  rewrite Hlen. fold (ne p).
  change (Tree.alookup path_PROPS [(path_IDS, Tree.ZA (zeros iddt [nn p])); (path_PROPS, props_node (map sp_kv (node_entries p)))])
    with (Some (props_node (map sp_kv (node_entries p)))).
  change (Tree.alookup path_PROPS [(path_IDS, Tree.ZA (zeros iddt [ne p; 2%nat])); (path_PROPS, props_node (map sp_kv (edge_entries p)))])
    with (Some (props_node (map sp_kv (edge_entries p)))).
  cbn [tree_meta Tree.md_nprops Tree.md_eprops Tree.md_axes m_nprops m_eprops m_axes].
  fold tree_pm_kv.
  split; [split; [reflexivity | apply props_conformant_of; assumption]|].
  split; [split; [reflexivity | apply props_conformant_of; assumption]|].
  right. eexists. split; [reflexivity|]. split; [reflexivity|].
  intros ax Hin. apply in_map_iff in Hin. destruct Hin as [ax0 [<- Hin]].
  destruct (axis_recs_entry p (nn p) ax0 Hax Hin) as [e [H1 [H2 [[dt [pl [Hpl [_ H3]]]] _]]]].
  assert (HeN : In e (node_entries p)) by (unfold node_entries; apply in_or_app; left; exact H1).
  unfold Validate.axis_conformant, Tree.get, props_node. cbn [Tree.children tree_axis Tree.ax_name].
  fold tree_prop_kv. eexists _, _, _. split.
  - apply TreeLemmas.alookup_in_nodup; [rewrite keys_props; exact HndN|].
    apply in_map_iff. exists (sp_kv e). split; [|apply in_map; exact HeN].
    unfold tree_prop_kv, sp_kv, prop_node. cbn [fst snd]. rewrite H2. reflexivity.
  - rewrite H3. unfold sprop_of, mk_arr. cbn [a_payload]. destruct pl; try contradiction;
      (split; [reflexivity|]; split; [eexists; reflexivity | reflexivity]).
Qed.

(* what create_mock_geff writes is conformant *)
Theorem mock_conformant p st g : req_wf p -> 0 <= p_n p -> mock p = Ok (st, g) ->
  Validate.conformant (store_tree st).
Proof.
  intros Hw H0 H. destruct (mock_store p st g Hw H0 H) as [iddt [Hacc [Hn [Hint ->]]]].
  apply spec_store_conformant; assumption.
Qed.

(* ... hence the validator model of C04 accepts it, however the store is designated *)
Theorem mock_validates p st g k : req_wf p -> 0 <= p_n p -> mock p = Ok (st, g) ->
  Validate.validate_structure k (Some (store_tree st)) = Ok tt.
Proof.
  intros Hw H0 H. apply ValidateLemmas.validate_iff. apply (mock_conformant p st g); assumption.
Qed.
