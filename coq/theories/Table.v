(* Table.v -- model of geff.convert._dataframe (as repaired): geff_to_dataframes,
   geff_to_csv and the `geff convert-to-csv` command.  No proofs in this file.

   What is modelled, in the order the Python evaluates it:
     memory_geff = read_to_memory(store)            the input [graph] below (the in-memory arrays)
     for data_type in ["node", "edge"]:
        df_dict = {"id": ids}  /  {"source": edge_ids[:,0], "target": edge_ids[:,1]}
        for name, prop in props.items():            stored (listing) order
           values = prop["values"] reshaped: leading axis kept, singleton trailing axes dropped
           ndim == 2 : for i in range(shape[1]): df_dict[f"{name}_{i}"] = masked column values[:, i]
           ndim  > 2 : warnings.warn(...); continue
           else      : df_dict[name] = masked column values
        pd.DataFrame(df_dict)
   A python dict is an association list with update-in-place ([dict_set]): a later assignment to
   an existing key replaces the value and keeps the position -- this is how a property called
   "id" silently replaces the id column (open finding, see props/C17.v).

   Cells are [Val z | NaN]; payloads are opaque integers (ints as themselves, floats/strings as
   tokens chosen by the harness): the export moves values, it never computes with them.
   pd.Series.mask turns the entries flagged missing into NaN/NA cells; the repaired code switches
   bool/int columns to nullable dtypes first, so the other cells keep their exact value.

   geff_to_csv: the two output paths are the state; a file holds a table (the CSV text layer is
   pandas runtime and is tied on the implementation only). *)
From Geff Require Import Base.
From Coq Require Import DecimalString.
Open Scope list_scope.

Inductive cell := Val (z : Z) | NaN.

Record prop := mkProp {
  p_name : string;
  p_shape : list nat;            (* full numpy shape, leading node/edge axis first *)
  p_vals : list Z;               (* row-major (C order) flattening of the values array *)
  p_miss : option (list bool)    (* the missing array, if stored *)
}.

Definition column := (string * list cell)%type.
Definition table := list column.           (* python dict / DataFrame columns, insertion order *)

Definition cell_eqb (a b : cell) : bool :=
  match a, b with Val x, Val y => Z.eqb x y | NaN, NaN => true | _, _ => false end.

(* ---- python dict ---- *)
Fixpoint dict_set (d : table) (k : string) (v : list cell) : table :=
  match d with
  | [] => [(k, v)]
  | (k', v') :: r => if String.eqb k' k then (k', v) :: r else (k', v') :: dict_set r k v
  end.

Fixpoint lookup (d : table) (k : string) : option (list cell) :=
  match d with
  | [] => None
  | (k', v') :: r => if String.eqb k' k then Some v' else lookup r k
  end.

(* ---- one column ---- *)
(* series.mask(missing): entry i becomes NaN where missing[i] *)
Fixpoint mask_cells (m : list bool) (vs : list Z) : list cell :=
  match m, vs with
  | b :: m', v :: vs' => (if b then NaN else Val v) :: mask_cells m' vs'
  | _, _ => []
  end.

(* _masked_series(values, missing) *)
Definition masked_series (vs : list Z) (miss : option (list bool)) : list cell :=
  match miss with
  | Some m => if existsb (fun b => b) m then mask_cells m vs else map Val vs
  | None => map Val vs
  end.

(* values[:, j] of an (n, k) array given row-major *)
Definition col_of (n k j : nat) (vs : list Z) : list Z :=
  map (fun i => nth (i * k + j) vs 0%Z) (seq 0 n).

(* values.shape[:1] + tuple(d for d in values.shape[1:] if d != 1) *)
Definition keep_dim (d : nat) : bool := negb (Nat.eqb d 1).
Definition squeeze_trailing (shape : list nat) : list nat :=
  match shape with
  | [] => []
  | n :: t => n :: filter keep_dim t
  end.

(* f"{name}_{i}" *)
Definition decimal (j : nat) : string := NilEmpty.string_of_uint (Nat.to_uint j).
Definition colname (name : string) (j : nat) : string := (name ++ "_" ++ decimal j)%string.

(* body of `for name, prop in props.items()`; state = (df_dict, names warned about) *)
Definition export_prop (st : table * list string) (p : prop) : table * list string :=
  let (d, w) := st in
  match squeeze_trailing (p_shape p) with
  | [n; k] =>
      (fold_left (fun d' j => dict_set d' (colname (p_name p) j)
                                (masked_series (col_of n k j (p_vals p)) (p_miss p)))
                 (seq 0 k) d, w)
  | _ :: _ :: _ :: _ => (d, w ++ [p_name p])
  | _ => (dict_set d (p_name p) (masked_series (p_vals p) (p_miss p)), w)
  end.

(* df_dict built from the id assignments, then the property loop *)
Definition init_dict (idcols : table) : table :=
  fold_left (fun d c => dict_set d (fst c) (snd c)) idcols [].

Definition export (idcols : table) (props : list prop) : table * list string :=
  fold_left export_prop props (init_dict idcols, []).

(* ---- the in-memory graph ---- *)
Record graph := mkGraph {
  g_ids : list Z;
  g_nprops : list prop;
  g_edges : list (Z * Z);
  g_eprops : list prop
}.

Definition node_idcols (g : graph) : table := [("id"%string, map Val (g_ids g))].
Definition edge_idcols (g : graph) : table :=
  [("source"%string, map Val (map fst (g_edges g))); ("target"%string, map Val (map snd (g_edges g)))].

Definition node_frame (g : graph) : table * list string := export (node_idcols g) (g_nprops g).
Definition edge_frame (g : graph) : table * list string := export (edge_idcols g) (g_eprops g).

(* geff_to_dataframes: (node table, node warnings), (edge table, edge warnings) *)
Definition geff_to_dataframes (g : graph) : (table * list string) * (table * list string) :=
  (node_frame g, edge_frame g).

(* ---- geff_to_csv ---- *)
(* what is stored at "<outpath>-nodes.csv" and "<outpath>-edges.csv" *)
Record fstate := mkFs { fs_nodes : option table; fs_edges : option table }.

(* DataFrame.to_csv(path, mode = "w" if overwrite else "x") *)
Definition to_csv (cur : option table) (t : table) (overwrite : bool) : res (option table) :=
  if overwrite then Ok (Some t)
  else match cur with
       | Some _ => Err FileExistsError
       | None => Ok (Some t)
       end.

(* the check in front of the export (as repaired): without overwrite, neither output file may exist *)
Definition csv_occupied (s : fstate) : bool :=
  match fs_nodes s, fs_edges s with None, None => false | _, _ => true end.

Definition geff_to_csv (s : fstate) (g : graph) (overwrite : bool) : fstate * res unit :=
  let nt := fst (node_frame g) in
  let et := fst (edge_frame g) in
  if negb overwrite && csv_occupied s then (s, Err FileExistsError) else
  match to_csv (fs_nodes s) nt overwrite with
  | Err e => (s, Err e)
  | Ok n' =>
      match to_csv (fs_edges s) et overwrite with
      | Err e => (mkFs n' (fs_edges s), Err e)
      | Ok e' => (mkFs n' e', Ok tt)
      end
  end.

(* `geff convert-to-csv STORE OUTPATH` has no overwrite option *)
Definition cli_convert_to_csv (s : fstate) (g : graph) : fstate * res unit := geff_to_csv s g false.

(* ================= specification vocabulary (used by the theorems) ================= *)
Fixpoint prod_dims (l : list nat) : nat :=
  match l with [] => 1 | d :: r => d * prod_dims r end.

(* a stored property of a graph with N rows: leading axis N, as many values as the shape says,
   and a missing array (if any) with one flag per row *)
Definition wf_prop (N : nat) (p : prop) : Prop :=
  (exists t, p_shape p = N :: t) /\
  List.length (p_vals p) = prod_dims (p_shape p) /\
  (forall m, p_miss p = Some m -> List.length m = N).

(* trailing axes that are not singletons *)
Definition trailing (p : prop) : list nat := filter keep_dim (tl (p_shape p)).

(* names of the columns the property must produce; None = left out (rank > 2 after dropping
   singleton axes) *)
Definition cols_of (p : prop) : option (list string) :=
  match trailing p with
  | [] => Some [p_name p]
  | [k] => Some (map (colname (p_name p)) (seq 0 k))
  | _ => None
  end.

Definition is_missing (p : prop) (i : nat) : bool :=
  match p_miss p with Some m => nth i m false | None => false end.

(* the cell of row i, component j of a property with k components per row *)
Definition spec_cell (p : prop) (k i j : nat) : cell :=
  if is_missing p i then NaN else Val (nth (i * k + j) (p_vals p) 0%Z).

Definition all_colnames (idcols : table) (props : list prop) : list string :=
  map fst idcols ++ flat_map (fun p => match cols_of p with Some l => l | None => [] end) props.

Fixpoint nodupb (l : list string) : bool :=
  match l with
  | [] => true
  | x :: r => negb (smem x r) && nodupb r
  end.

(* guard of the partial theorems: no two sources claim the same column name *)
Definition names_distinct (idcols : table) (props : list prop) : bool :=
  nodupb (all_colnames idcols props).

(* the property text, for one of the two tables *)
Definition table_ok (idcols : table) (N : nat) (props : list prop) (out : table * list string) : Prop :=
  let (t, w) := out in
  (* one row per node / edge: every column has N cells *)
  (forall c, In c t -> List.length (snd c) = N) /\
  (* the id columns hold the ids in stored order *)
  (forall c, In c idcols -> lookup t (fst c) = Some (snd c)) /\
  (* 1-D => column "name"; (N,k) => name_0..name_{k-1}; row i holds the values of row i,
     NaN where flagged missing *)
  (forall p names, In p props -> cols_of p = Some names ->
     forall j, (j < List.length names)%nat ->
       lookup t (nth j names ""%string) =
         Some (map (fun i => spec_cell p (List.length names) i j) (seq 0 N))) /\
  (* higher rank => a warning naming it, and only then *)
  (forall n, In n w <-> exists p, In p props /\ p_name p = n /\ cols_of p = None) /\
  (* nothing else is in the table (higher-rank properties are left out) *)
  (forall n, In n (map fst t) -> In n (all_colnames idcols props)).

Definition wf_graph (g : graph) : Prop :=
  Forall (wf_prop (List.length (g_ids g))) (g_nprops g) /\
  Forall (wf_prop (List.length (g_edges g))) (g_eprops g).

Definition frames_ok (g : graph) : Prop :=
  table_ok (node_idcols g) (List.length (g_ids g)) (g_nprops g) (node_frame g) /\
  table_ok (edge_idcols g) (List.length (g_edges g)) (g_eprops g) (edge_frame g).
