(* C03Cross.v -- cross-library round trips as ONE statement: for every ordered pair (A, B) of
   {networkx, rustworkx, spatial-graph}, geff.write of a graph of library A onto a fresh store followed by
   geff.read(backend=B), seen through B's GraphAdapter, is the canonical graph of the input, on the
   intersection of the two domains.  Derived from the per-library round trips (BackendsMdLemmas.*_written_md,
   SgWriteLemmas.sg_write_read) and the agreement of the three constructs on one in-memory geff
   (SgLemmas.backends_agree). *)
From Geff Require Import Base Dtype DtypeLemmas Vlen VlenLemmas Tree TreeLemmas Validate Write Read RoundTrip WriteLemmas ReadLemmas
     ValidateLayout C01Lemmas C10Lemmas Dicts Backends BackendsLemmas DictsLemmas ListColLemmas C03Lemmas SgLemmas SgWriteLemmas
     BackendsMd BackendsMdLemmas.
From Coq Require Import Lia.
Open Scope string_scope.
Open Scope list_scope.

(* ---------- the two sides ---------- *)
Inductive lib_src :=
| SrcNx (d : bool) (g : dgraph) (mdc : option smeta) (axes : option (list (string * Z)))
| SrcRx (d : bool) (g : dgraph) (idmap : option (list (Z * Z))) (mdc : option smeta) (axes : option (list (string * Z)))
| SrcSg (s : sgc) (names : list string).
Inductive lib_rdr := RdrNx | RdrRx | RdrSg (pos : string).

(* geff.write(G, store, metadata=..., axis_names=..., ...) *)
Definition src_write (s : lib_src) (mdtok axtok : Z) : M unit :=
  match s with
  | SrcNx d g mdc axes => nx_write_md KObj d g mdc axes mdtok
  | SrcRx d g idmap mdc axes => rx_write_md KObj d g idmap mdc axes mdtok
  | SrcSg s names => sg_write KObj s None (Some names) mdtok axtok
  end.

(* ... onto a fresh store ; read_to_memory *)
Definition stored (s : lib_src) (mdtok axtok : Z) : res mgraph :=
  let (post, r) := run (api_write KObj (src_write s mdtok axtok)) None in
  match r with
  | Err e => Err e
  | Ok _ => read_to_memory KObj post true None None
  end.

Definition md_axis_names (md : smeta) : list string :=
  match md_axes md with Some axs => map ax_name axs | None => [] end.

(* Backend.construct of library B, seen through its GraphAdapter (rustworkx through graph.attrs["to_rx_id_map"]) *)
Definition rdr_view (r : lib_rdr) (mg : mgraph) : res cgraph :=
  match r with
  | RdrNx => nx_construct mg
  | RdrRx => match rx_construct mg with
             | Err e => Err e
             | Ok x => match canon_rx x with Some cg => Ok cg | None => Err OtherExn end
             end
  | RdrSg pos => match sg_construct mg pos with
                 | Err e => Err e
                 | Ok s' => canon_sg s' (md_axis_names (g_md mg)) (akeys (g_nprops mg)) (akeys (g_eprops mg))
                 end
  end.

(* write with A, read with B *)
Definition cross (s : lib_src) (r : lib_rdr) (mdtok axtok : Z) : res cgraph :=
  match stored s mdtok axtok with
  | Err e => Err e
  | Ok mg => rdr_view r mg
  end.

(* ---------- the domain of the writing library ---------- *)
Definition src_dom (s : lib_src) : Prop :=
  match s with
  | SrcNx d g mdc axes => dom_values d g /\ args_dom g mdc axes
  | SrcRx d g idmap mdc axes => exists g', rx_target idmap g = Ok g' /\ dom_values d g' /\ args_dom g' mdc axes
  | SrcSg s names => exists ids es P, sgc_dom s names ids es P
  end.

(* the property names of the geff a spatial graph is written to: its attributes without the position, then the axes *)
Definition sg_nnames (s : sgc) (names : list string) : list string := akeys (adel (sc_pos s) (sc_nattrs s)) ++ names.

(* ---------- the canonical graph of the input ---------- *)
Definition src_canon (s : lib_src) (cg : cgraph) : Prop :=
  match s with
  | SrcNx d g _ _ => same_graph cv_of_py d g cg
  | SrcRx d g idmap _ _ => exists g', rx_target idmap g = Ok g' /\ same_graph cv_of_py d g' cg
  | SrcSg s names => canon_sg s names (sg_nnames s names) (akeys (sc_eattrs s)) = Ok cg
  end.

(* ---------- the domain of the reading library, in terms of the input ---------- *)
(* a column spatial-graph can hold: present on every element, int64-range ints, ints of [2^63, 2^64) or floats *)
Definition sg_col (col : list (option pyval)) : Prop :=
  existsb is_none col = false /\ exists dc, col_dt col = Some dc /\ sg_dtype_ok dc = true.

(* a dict graph spatial-graph can read back: >= 1 axis (hence >= 1 node), distinct axis names, axis columns of ONE dtype,
   every node / edge property a complete numeric scalar column, no property called like position_attr *)
Record sg_dicts_dom (g : dgraph) (mdc : option smeta) (axes : option (list (string * Z))) (pos : string) : Prop := {
  sdd_axes : exists axs dt, eff_axes mdc axes = Some axs /\ axs <> [] /\ NoDup (map ax_name axs) /\
                            forall ax, In ax axs -> col_dt (column (map snd (d_nodes g)) (ax_name ax)) = Some dt;
  sdd_ncols : forall name, In name (keys_of (map snd (d_nodes g))) -> sg_col (column (map snd (d_nodes g)) name);
  sdd_ecols : forall name, In name (keys_of (map snd (d_edges g))) -> sg_col (column (map snd (d_edges g)) name);
  sdd_pos : ~ In pos (keys_of (map snd (d_nodes g)))
}.

Definition rdr_dom (s : lib_src) (r : lib_rdr) : Prop :=
  match r with
  | RdrNx | RdrRx => True
  | RdrSg pos =>
      match s with
      | SrcNx d g mdc axes => sg_dicts_dom g mdc axes pos
      | SrcRx d g idmap mdc axes => exists g', rx_target idmap g = Ok g' /\ sg_dicts_dom g' mdc axes pos
      | SrcSg s names => ~ In pos (sg_nnames s names)
      end
  end.

(* ---------- a geff written from dicts is in the spatial-graph domain ---------- *)
Lemma sg_col_prop data names ps name p : dict_props_to_arr data names = Ok ps -> In (name, p) ps -> data <> [] ->
  sg_col (column data name) -> sg_prop_ok (length data) p /\
  exists dc, col_dt (column data name) = Some dc /\
             p = mkprop (PFixed (mkarr dc [length data] (map scalar_payload (somes (column data name))))) None.
Proof.
  intros Hps Hin Hne [Hc [dc [Hdc Hok]]].
  pose proof (dict_props_in _ _ _ _ _ Hps Hin) as Hp.
  assert (Hcne : column data name <> []).
  { intro E. apply Hne. apply length_zero_iff_nil. rewrite <- (column_length data name), E. reflexivity. }
  destruct (scalar_column _ dc Hdc Hcne) as [p' [Hp' [_ Hv]]]. rewrite Hp in Hp'. inversion Hp'; subst p'; clear Hp'.
  pose proof (dict_prop_missing _ _ Hp) as Hm. rewrite (missing_arr_complete _ Hc) in Hm.
  rewrite (filled_complete _ Hc), column_length in Hv. destruct p as [pv pm]. cbn in Hv, Hm. subst pv pm.
  split; [|exists dc; split; [exact Hdc | reflexivity]].
  split; [reflexivity|]. eexists. split; [reflexivity|]. split; [exact Hok|]. left. cbn [a_shape a_flat]. split; [reflexivity|].
  rewrite map_length. rewrite <- (filled_complete _ Hc), filled_length, column_length. reflexivity.
Qed.

Lemma axis_stored_names data : forall axs axes', Forall2 (axis_stored data) axs axes' -> map ax_name axes' = map ax_name axs.
Proof. induction 1 as [|ax ax' l l' [Hn _] _ IH]; [reflexivity|]. cbn. rewrite Hn, IH. reflexivity. Qed.

(* numpy never discovers an 8-bit dtype for Python scalars *)
Lemma col_dt_not8 col d : col_dt col = Some d -> is_8bit d = false.
Proof. unfold col_dt. destruct (filled col) as [|v r]; [intro H; inversion H; reflexivity|].
  destruct (same_dt (scalar_dt v) v && forallb (same_dt (scalar_dt v)) r && negb (dtype_eqb (scalar_dt v) DObj)); [|discriminate].
  intro H. inversion H. destruct v; cbn [scalar_dt]; try reflexivity.
  repeat match goal with |- context [if ?c then _ else _] => destruct c end; reflexivity. Qed.

Lemma dicts_sg_dom cvf d g mdc axes mdtok post mg cg pos :
  written_ok cvf d g mdc axes mdtok post mg cg -> args_dom g mdc axes -> sg_dicts_dom g mdc axes pos ->
  exists names dt, md_axis_names (g_md mg) = names /\
    sg_dom mg pos (map fst (d_nodes g)) (map fst (d_edges g)) names dt.
Proof.
  intros Hok Hargs Hsd. destruct (sdd_axes _ _ _ _ Hsd) as [axs [dt [Hax [Hne [Hnd Hdt]]]]].
  destruct (wo_md _ _ _ _ _ _ _ _ _ Hok) as [_ [_ [_ [_ Hback]]]]. rewrite Hax in Hback. destruct Hback as [axes' [Ha' HF]].
  pose proof (axis_stored_names _ _ _ HF) as Hnames.
  set (ndata := map snd (d_nodes g)) in *. set (edata := map snd (d_edges g)) in *.
  assert (Hnodes : d_nodes g <> []).
  { destruct axs as [|ax r]; [contradiction|]. pose proof (ad_axes _ _ _ Hargs (ax :: r) ax Hax (or_introl eq_refl)) as Hc.
    intro E. apply (ac_nonempty _ Hc). unfold ndata. rewrite E. reflexivity. }
  assert (Hndne : ndata <> []) by (unfold ndata; intro E; apply map_eq_nil in E; contradiction).
  exists (map ax_name axs), dt. split; [unfold md_axis_names; rewrite Ha'; exact Hnames|].
  pose proof (wo_nprops _ _ _ _ _ _ _ _ _ Hok) as Hnps. pose proof (wo_eprops _ _ _ _ _ _ _ _ _ Hok) as Heps.
  pose proof (wo_nkeys _ _ _ _ _ _ _ _ _ Hok) as Hnk. pose proof (wo_ekeys _ _ _ _ _ _ _ _ _ Hok) as Hek.
  fold ndata in Hnps, Hnk. fold edata in Heps, Hek.
  constructor.
  - exact (wo_wf _ _ _ _ _ _ _ _ _ Hok).
  - intro E. apply map_eq_nil in E. contradiction.
  - rewrite Ha'. cbn. rewrite Hnames. reflexivity.
  - intro E. apply map_eq_nil in E. contradiction.
  - exact Hnd.
  - rewrite (wo_nids _ _ _ _ _ _ _ _ _ Hok). reflexivity.
  - rewrite Hnk. apply keys_of_nodup.
  - rewrite Hek. apply keys_of_nodup.
  - apply Forall_forall. intros [name p] Hin. cbn [snd].
    assert (Hkey : In name (keys_of ndata)) by (rewrite <- Hnk; apply in_map_iff; exists (name, p); auto).
    destruct (sg_col_prop ndata _ _ name p Hnps Hin Hndne (sdd_ncols _ _ _ _ Hsd name Hkey)) as [H _].
    unfold ndata in H. rewrite !map_length in *. exact H.
  - apply Forall_forall. intros [name p] Hin. cbn [snd].
    assert (Hkey : In name (keys_of edata)) by (rewrite <- Hek; apply in_map_iff; exists (name, p); auto).
    assert (Hedne : edata <> []) by (apply (keys_nonempty edata name Hkey)).
    destruct (sg_col_prop edata _ _ name p Heps Hin Hedne (sdd_ecols _ _ _ _ Hsd name Hkey)) as [H _].
    unfold edata in H. rewrite !map_length in *. exact H.
  - rewrite Hnk. exact (sdd_pos _ _ _ _ Hsd).
  - intros nm Hnm. apply in_map_iff in Hnm. destruct Hnm as [ax [<- Hin]].
    pose proof (ad_axes _ _ _ Hargs axs ax Hax Hin) as Hcol. fold ndata in Hcol.
    assert (Hkey : In (ax_name ax) (akeys (g_nprops mg))) by (rewrite Hnk; apply axis_col_key; exact Hcol).
    destruct (axis_prop ndata _ _ (ax_name ax) Hnps Hkey Hcol) as [dt' [Hdt' [_ Hinp]]].
    rewrite (Hdt ax Hin) in Hdt'. inversion Hdt'; subst dt'.
    eexists. split; [apply alookup_in_nodup; [rewrite Hnk; apply keys_of_nodup | exact Hinp]|].
    cbn [a_shape a_dt]. unfold ndata. rewrite !map_length. split; reflexivity.
  - destruct axs as [|ax0 r0]; [contradiction|]. exact (col_dt_not8 _ _ (Hdt ax0 (or_introl eq_refl))).
Qed.

(* sg_dom does not depend on position_attr beyond its freshness *)
Lemma sg_dom_pos g pos pos' ids es names dt : sg_dom g pos ids es names dt -> ~ In pos' (akeys (g_nprops g)) -> sg_dom g pos' ids es names dt.
Proof. intros H Hf. constructor; try apply H. exact Hf. Qed.

Lemma sg_props_fit n ps : Forall (fun kv : string * prop => sg_prop_ok n (snd kv)) ps -> props_fit n ps.
Proof. intro H. eapply Forall_impl; [|exact H]. cbn. intros [name p] [Hm [a [Hv [_ Hsh]]]]. cbn [snd] in *.
  unfold plen. rewrite Hv, Hm. split; [|exact I]. unfold len0. destruct Hsh as [[-> _]|[k [-> _]]]; reflexivity. Qed.

Lemma akeys_adel_mkp pos l : akeys (adel pos (map mkp l)) = akeys (adel pos l).
Proof. induction l as [|[k a] l IH]; [reflexivity|]. cbn [map mkp fst snd adel]. destruct (String.eqb pos k); [exact IH|].
  cbn [akeys map fst]. unfold akeys in IH. rewrite IH. reflexivity. Qed.

(* ---------- the views of ONE in-memory geff ---------- *)
Lemma rdr_view_agree mg ids es cg r :
  wf_geff mg ids es -> props_fit (length ids) (g_nprops mg) -> props_fit (length es) (g_eprops mg) -> canon_geff mg = Ok cg ->
  match r with
  | RdrSg pos => exists dt, sg_dom mg pos ids es (md_axis_names (g_md mg)) dt
  | _ => True
  end ->
  rdr_view r mg = Ok cg.
Proof.
  intros Hwf Hfn Hfe Hc Hr. destruct (backends_agree mg ids es cg Hwf Hfn Hfe Hc) as [Hnx [[x [Hx Hcx]] Hsg]].
  destruct r as [| |pos]; cbn [rdr_view].
  - exact Hnx.
  - rewrite Hx, Hcx. reflexivity.
  - destruct Hr as [dt Hd]. destruct (Hsg pos _ dt Hd) as [s' [Hs' Hv]]. rewrite Hs'. exact Hv.
Qed.

(* ================= the statement ================= *)
Theorem cross_roundtrip s r mdtok axtok : src_dom s -> rdr_dom s r ->
  exists cg, cross s r mdtok axtok = Ok cg /\ src_canon s cg.
Proof.
  intros Hs Hr. destruct s as [d g mdc axes | d g idmap mdc axes | sg names]; cbn [src_dom src_canon] in *.
  - (* networkx *)
    destruct Hs as [Hdv Hargs].
    destruct (nx_written_md cv_of_py d g mdc axes mdtok (dom_values_dicts d g Hdv) Hargs) as [post [mg [cg [Hw Hok]]]].
    exists cg. split; [|exact (wo_same _ _ _ _ _ _ _ _ _ Hok)].
    unfold cross, stored. cbn [src_write]. rewrite Hw, (wo_read _ _ _ _ _ _ _ _ _ Hok).
    pose proof (wo_nfit _ _ _ _ _ _ _ _ _ Hok) as Hfn. pose proof (wo_efit _ _ _ _ _ _ _ _ _ Hok) as Hfe.
    rewrite <- (map_length fst (d_nodes g)) in Hfn. rewrite <- (map_length fst (d_edges g)) in Hfe.
    apply (rdr_view_agree mg _ _ cg r (wo_wf _ _ _ _ _ _ _ _ _ Hok) Hfn Hfe (wo_canon _ _ _ _ _ _ _ _ _ Hok)).
    destruct r as [| |pos]; [exact I | exact I|]. cbn [rdr_dom] in Hr.
    destruct (dicts_sg_dom _ _ _ _ _ _ _ _ _ pos Hok Hargs Hr) as [names [dt [Hn Hd]]]. exists dt. rewrite Hn. exact Hd.
  - (* rustworkx *)
    destruct Hs as [g' [Htg [Hdv Hargs]]].
    destruct (rx_written_md cv_of_py d g idmap g' mdc axes mdtok Htg (dom_values_dicts d g' Hdv) Hargs) as [post [mg [cg [Hw Hok]]]].
    exists cg. split; [|exists g'; split; [exact Htg | exact (wo_same _ _ _ _ _ _ _ _ _ Hok)]].
    unfold cross, stored. cbn [src_write]. rewrite Hw, (wo_read _ _ _ _ _ _ _ _ _ Hok).
    pose proof (wo_nfit _ _ _ _ _ _ _ _ _ Hok) as Hfn. pose proof (wo_efit _ _ _ _ _ _ _ _ _ Hok) as Hfe.
    rewrite <- (map_length fst (d_nodes g')) in Hfn. rewrite <- (map_length fst (d_edges g')) in Hfe.
    apply (rdr_view_agree mg _ _ cg r (wo_wf _ _ _ _ _ _ _ _ _ Hok) Hfn Hfe (wo_canon _ _ _ _ _ _ _ _ _ Hok)).
    destruct r as [| |pos]; [exact I | exact I|]. cbn [rdr_dom] in Hr. destruct Hr as [g'' [Htg' Hsd]].
    rewrite Htg in Htg'. inversion Htg'; subst g''.
    destruct (dicts_sg_dom _ _ _ _ _ _ _ _ _ pos Hok Hargs Hsd) as [names [dt [Hn Hd]]]. exists dt. rewrite Hn. exact Hd.
  - (* spatial-graph *)
    destruct Hs as [ids [es [P Hd]]].
    destruct (sg_write_read KObj sg names ids es P mdtok axtok Hd) as [post [md' [Hw [Hval [Hrd [Hdir [Hdom [cg [Hcg Hcs]]]]]]]]].
    cbv zeta in *.
    set (mg := mkmg md' (sc_nodes sg) (sc_edges sg) (adel (sc_pos sg) (map mkp (sc_nattrs sg)) ++ axis_cols P names) (map mkp (sc_eattrs sg))) in *.
    exists cg. split.
    + unfold cross, stored. cbn [src_write]. rewrite Hw, Hrd.
      assert (Hax : md_axis_names (g_md mg) = names).
      { pose proof (sd_axes _ _ _ _ _ _ Hdom) as Ha. unfold md_axis_names. destruct (md_axes (g_md mg)); inversion Ha. reflexivity. }
      apply (rdr_view_agree mg ids es cg r (sd_wf _ _ _ _ _ _ Hdom)
               (sg_props_fit _ _ (sd_nprops _ _ _ _ _ _ Hdom)) (sg_props_fit _ _ (sd_eprops _ _ _ _ _ _ Hdom)) Hcg).
      destruct r as [| |pos]; [exact I | exact I|]. cbn [rdr_dom] in Hr. exists (a_dt P). rewrite Hax.
      apply (sg_dom_pos mg (sc_pos sg)); [exact Hdom|].
      unfold mg. cbn [g_nprops]. rewrite akeys_app, akeys_adel_mkp, akeys_axis_cols. exact Hr.
    + unfold sg_nnames. rewrite akeys_app, akeys_adel_mkp, akeys_axis_cols, akeys_mkp in Hcs. exact Hcs.
Qed.
