(* CtcObserved.v -- the C15 statements about the label volume / related object / declared tracklet property, stated about the
   very function the correspondence evaluates (Corr/C15.v `model`): whenever the model reports a successful conversion of a
   consistent dataset (onto a free target, or with overwrite=True onto a target that holds exactly a geff), the observation is
   the converted graph read back and `extra_of d`, whose fields are what CtcDecide.ctc_extras says. *)
From Geff Require Import Base Dtype Vlen Tree Validate Write Read GraphVal WriteLemmas C01Lemmas CrashLemmas OverwriteLemmas ConvOverwrite
  Ctc CtcLemmas CtcDecide.
From Geff.Corr Require C15.
From Geff.Gen Require Import Consts.
Open Scope string_scope.
Open Scope list_scope.
Open Scope Z_scope.

(* the targets the statement covers: free, or exactly a geff and overwrite=True *)
Definition target_ok (d : ctc) (pre : option znode) : Prop :=
  (pre = None /\ seg_free d) \/ (exists a ch, pre = Some (ZG a ch) /\ only_geff a ch /\ d_overwrite d = true).

Theorem ctc_observed d pre : consistent d -> target_ok d pre ->
  let ns := nodes_of (d_frames d) in
  exists es md',
    graph_edges ns (table_of d) = Ok es /\
    final_metadata (ctc_wgraph (d_is3d d) ns es) (ctc_md (d_is3d d)) = Ok md' /\
    C15.model (C15.IConv d pre)
    = C15.OOk (Ok (mkmg md' (mkarr DU64 [length ns] (map n_id ns)) (mkarr DU64 [length es; 2%nat] (flat_edges es))
                        (ctc_props (d_is3d d) ns) []))
              (extra_of d).
Proof.
  intros Hc [[-> Hseg]|[a [ch [-> [Hog Ho]]]]] ns.
  - destruct (ctc_pipeline d Hc Hseg) as [es [md' [tr [post [He [_ [Hmd [Hrun [_ [Hr _]]]]]]]]]].
    exists es, md'. split; [exact He|]. split; [exact Hmd|]. unfold C15.model, run. rewrite Hrun. cbn [s_root]. rewrite Hr. reflexivity.
  - destruct (ctc_overwrite d a ch Hc Ho Hog) as [es [md' [tr [post [He [Hmd [Hrun [_ [_ [Hr _]]]]]]]]]].
    exists es, md'. split; [exact He|]. split; [exact Hmd|]. unfold C15.model, run. rewrite Hrun. cbn [s_root]. rewrite Hr. reflexivity.
Qed.

(* the declared tracklet property is a column of the graph that is read back, and holds the labels *)
Lemma ctc_props_tracklet is3d ns : alookup "tracklet_id" (ctc_props is3d ns) = Some (col DI64 n_lab ns).
Proof. destruct is3d; reflexivity. Qed.
