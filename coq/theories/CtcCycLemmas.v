(* CtcCycLemmas.v -- the C15 x C13 composition for the validator WITH its cycle test (TracksCyc.validate_tracklets):
   the graph of a consistent CTC dataset is acyclic (every edge points strictly forward in time), so the cycle
   test never fires and the whole validator accepts the declared tracklet annotation iff no parent has a single child. *)
From Coq Require Import Relations.
From Geff Require Import Base GraphVal Reach Tracks TracksLemmas TracksCyc TracksCycLemmas Ctc CtcLemmas.
Open Scope list_scope.
Open Scope Z_scope.

Lemma ctc_tc_forward d es : consistent d -> graph_edges (nodes_of (d_frames d)) (table_of d) = Ok es ->
  forall u v, clos_trans Z (estep es) u v ->
  exists a b, In a (nodes_of (d_frames d)) /\ In b (nodes_of (d_frames d)) /\ u = n_id a /\ v = n_id b /\ n_t a < n_t b.
Proof.
  intros Hc He u v H. induction H as [x y Hxy | x y z _ IH1 _ IH2].
  - apply (ctc_forward d x y Hc). apply (graph_edges_spec _ _ _ He). exact Hxy.
  - destruct IH1 as [a [b [Ha [Hb [Hx [Hy Hlt]]]]]]. destruct IH2 as [b' [c [Hb' [Hcn [Hy' [Hz Hlt']]]]]].
    assert (b = b') by (apply (id_inj (nodes_of (d_frames d))); [apply nodes_ids_NoDup | exact Hb | exact Hb' | congruence]).
    subst b'. exists a, c. repeat split; try assumption. lia.
Qed.

Theorem ctc_acyclic d es : consistent d -> graph_edges (nodes_of (d_frames d)) (table_of d) = Ok es -> acyclic es.
Proof.
  intros Hc He [x Hx]. destruct (ctc_tc_forward d es Hc He x x Hx) as [a [b [Ha [Hb [Hxa [Hxb Hlt]]]]]].
  assert (a = b) by (apply (id_inj (nodes_of (d_frames d))); [apply nodes_ids_NoDup | exact Ha | exact Hb | congruence]).
  subst b. lia.
Qed.

(* the full validator (degree, cycle, connectivity, division/merge and maximality tests, in the order of the code)
   returns (True, []) on the written graph and the declared annotation iff no parent has a single child *)
Theorem ctc_full_validator_iff d es : consistent d -> graph_edges (nodes_of (d_frames d)) (table_of d) = Ok es ->
  (validate_tracklets es (labelled (nodes_of (d_frames d))) = Ok (true, []) <-> no_single_child (table_of d)).
Proof.
  intros Hc He.
  rewrite (tracklets_iff_acyclic es _ (ctc_acyclic d es Hc He) (ctc_wf_labelled d es Hc He)).
  rewrite (ctc_L_spec_iff d es Hc He). pose proof (ctc_C_spec d es Hc He). tauto.
Qed.
