(* TreeLemmas.v -- lemmas about association lists and paths in the abstract tree. *)
From Geff Require Import Base Dtype Vlen Tree.
Open Scope string_scope.
Open Scope list_scope.

Lemma seqb_refl s : String.eqb s s = true. Proof. apply String.eqb_refl. Qed.
Lemma seqb_neq a b : a <> b -> String.eqb a b = false.
Proof. intro H. destruct (String.eqb a b) eqn:E; [apply String.eqb_eq in E; contradiction | reflexivity]. Qed.

Section Assoc.
Context {V : Type}.
Implicit Types (l : list (string * V)) (k : string) (v : V).

Lemma alookup_aset_same k v l : alookup k (aset k v l) = Some v.
Proof. induction l as [|[k' v'] r IH]; cbn; [rewrite seqb_refl; reflexivity|].
  destruct (String.eqb k k') eqn:E; cbn; [rewrite seqb_refl | rewrite E]; auto. Qed.

Lemma alookup_aset_other k k' v l : k' <> k -> alookup k' (aset k v l) = alookup k' l.
Proof. intro Hn. induction l as [|[k2 v2] r IH]; cbn.
  - rewrite (seqb_neq _ _ Hn). reflexivity.
  - destruct (String.eqb k k2) eqn:E; cbn.
    + apply String.eqb_eq in E. subst k2. rewrite (seqb_neq _ _ Hn). reflexivity.
    + destruct (String.eqb k' k2); auto. Qed.

Lemma alookup_none_notin k l : alookup k l = None <-> ~ In k (akeys l).
Proof. induction l as [|[k' v'] r IH]; cbn; [tauto|].
  destruct (String.eqb k k') eqn:E.
  - apply String.eqb_eq in E. subst. split; [discriminate | intro H; exfalso; apply H; auto].
  - rewrite IH. split; intros H; [intros [H1|H1]; [subst; rewrite seqb_refl in E; discriminate | auto] | auto]. Qed.

Lemma alookup_some_in k v l : alookup k l = Some v -> In (k, v) l.
Proof. induction l as [|[k' v'] r IH]; cbn; [discriminate|].
  destruct (String.eqb k k') eqn:E; intro H.
  - apply String.eqb_eq in E. inversion H; subst. auto.
  - right. auto. Qed.

Lemma alookup_in_nodup k v l : NoDup (akeys l) -> In (k, v) l -> alookup k l = Some v.
Proof. induction l as [|[k' v'] r IH]; cbn; intros Hnd Hin; [destruct Hin|].
  inversion Hnd as [|? ? Hnotin Hnd']; subst.
  destruct Hin as [Heq|Hin].
  - inversion Heq; subst. rewrite seqb_refl. reflexivity.
  - destruct (String.eqb k k') eqn:E.
    + apply String.eqb_eq in E. subst. exfalso. apply Hnotin. unfold akeys. apply (in_map fst) in Hin. exact Hin.
    + auto. Qed.

Lemma aset_fresh k v l : alookup k l = None -> aset k v l = l ++ [(k, v)].
Proof. induction l as [|[k' v'] r IH]; cbn; [reflexivity|].
  destruct (String.eqb k k') eqn:E; [discriminate|]. intro H. rewrite IH; auto. Qed.

Lemma ahas_true k l : ahas k l = true <-> exists v, alookup k l = Some v.
Proof. unfold ahas. destruct (alookup k l); split; intros H; eauto; try discriminate. destruct H; discriminate. Qed.
Lemma ahas_false k l : ahas k l = false <-> alookup k l = None.
Proof. unfold ahas. destruct (alookup k l); split; intros H; auto; discriminate. Qed.
Lemma ahas_in k l : ahas k l = true <-> In k (akeys l).
Proof. destruct (ahas k l) eqn:E.
  - split; auto. intros _. destruct (alookup k l) eqn:E2.
    + apply alookup_some_in in E2. apply (in_map fst) in E2. exact E2.
    + unfold ahas in E. rewrite E2 in E. discriminate.
  - split; [discriminate|]. intro H. apply ahas_false in E. apply alookup_none_notin in E. contradiction. Qed.

Lemma akeys_app l l' : akeys (l ++ l') = akeys l ++ akeys l'.
Proof. unfold akeys. apply map_app. Qed.

Lemma alookup_app k l l' : alookup k (l ++ l') = match alookup k l with Some v => Some v | None => alookup k l' end.
Proof. induction l as [|[k' v'] r IH]; cbn; [reflexivity|]. destruct (String.eqb k k'); auto. Qed.

Lemma alookup_adel_same k l : alookup k (adel k l) = None.
Proof. induction l as [|[k' v'] r IH]; cbn; [reflexivity|].
  destruct (String.eqb k k') eqn:E; cbn; [auto | rewrite E; auto]. Qed.
Lemma alookup_adel_other k k' l : k' <> k -> alookup k' (adel k l) = alookup k' l.
Proof. intro Hn. induction l as [|[k2 v2] r IH]; cbn; [reflexivity|].
  destruct (String.eqb k k2) eqn:E; cbn.
  - apply String.eqb_eq in E. subst k2. rewrite (seqb_neq _ _ Hn). auto.
  - destruct (String.eqb k' k2); auto. Qed.

End Assoc.

Lemma alookup_map {V W} (f : V -> W) k (l : list (string * V)) :
  alookup k (map (fun kv => (fst kv, f (snd kv))) l) = option_map f (alookup k l).
Proof. induction l as [|[k' v'] r IH]; cbn; [reflexivity|]. destruct (String.eqb k k'); auto. Qed.

(* ---------- paths ---------- *)
Lemma get_path_app n p q : get_path n (p ++ q) = match get_path n p with Some c => get_path c q | None => None end.
Proof. revert n. induction p as [|k r IH]; intro n; cbn; [reflexivity|].
  destruct (get n k); auto. Qed.

Lemma put_path_nil n c : put_path n [] c = Some c. Proof. reflexivity. Qed.

(* writing below an existing group, then reading the same path *)
Lemma get_put_same p : forall n c n', put_path n p c = Some n' -> get_path n' p = Some c.
Proof. induction p as [|k r IH]; intros n c n' H; cbn in *.
  - inversion H; reflexivity.
  - destruct n as [a|a ch]; [discriminate|].
    destruct (put_path _ r c) as [sub'|] eqn:E; [|discriminate]. inversion H; subst. cbn.
    unfold get; cbn. rewrite alookup_aset_same. eapply IH; eauto. Qed.

(* a sibling at the first step is untouched *)
Lemma get_put_other_head n k r c n' k' q :
  put_path n (k :: r) c = Some n' -> k' <> k -> get_path n' (k' :: q) = get_path n (k' :: q).
Proof. intros H Hn. cbn in H. destruct n as [a|a ch]; [discriminate|].
  destruct (put_path _ r c) as [sub'|]; [|discriminate]. inversion H; subst. cbn. unfold get; cbn.
  rewrite alookup_aset_other; auto. Qed.

Lemma put_path_attrs n p c n' : p <> [] -> put_path n p c = Some n' -> attrs_of n' = attrs_of n.
Proof. intros Hp H. destruct p as [|k r]; [contradiction|]. cbn in H.
  destruct n as [a|a ch]; [discriminate|]. destruct (put_path _ r c); [|discriminate]. inversion H; reflexivity. Qed.

Lemma put_path_group n p c n' : p <> [] -> put_path n p c = Some n' -> is_group n' = true.
Proof. intros Hp H. destruct p as [|k r]; [contradiction|]. cbn in H.
  destruct n as [a|a ch]; [discriminate|]. destruct (put_path _ r c); [|discriminate]. inversion H; reflexivity. Qed.

(* putting below prefix p = rewriting the subtree found at p *)
Lemma put_path_app p : forall n q c sub, get_path n p = Some sub -> is_group sub = true \/ q = [] ->
  put_path n (p ++ q) c = match put_path sub q c with Some sub' => put_path n p sub' | None => None end.
Proof. induction p as [|k r IH]; intros n q c sub Hg Hq; cbn in *.
  - inversion Hg; subst. destruct (put_path sub q c); reflexivity.
  - destruct n as [a|a ch]; [cbn in Hg; discriminate|]. unfold get in Hg; cbn in Hg.
    destruct (alookup k ch) as [x|] eqn:E; [|discriminate].
    rewrite (IH x q c sub Hg Hq). destruct (put_path sub q c); reflexivity. Qed.

Lemma geff_attr_put n p c n' : p <> [] -> put_path n p c = Some n' -> geff_attr n' = geff_attr n.
Proof. intros Hp H. unfold geff_attr. rewrite (put_path_attrs _ _ _ _ Hp H). reflexivity. Qed.
