(* TracksLemmas.v -- proofs about Tracks.v used by props/C13.v and props/C14.v. *)
From Coq Require Import Relations.
From Geff Require Import Base GraphVal GraphValLemmas Reach Tracks.
Open Scope Z_scope.
Open Scope list_scope.

(* ---------- successors / predecessors / induced edges ---------- *)
Lemma succs_In E u v : In v (succs E u) <-> In (u, v) E.
Proof.
  unfold succs. rewrite (dedup_In Z.eqb Z.eqb_eq), in_map_iff. split.
  - intros [[a b] [Hb He]]. cbn [fst snd] in Hb. subst b. apply filter_In in He. destruct He as [He Ha].
    cbn [fst snd] in Ha. apply Z.eqb_eq in Ha. subst a. exact He.
  - intros H. exists (u, v). split; [reflexivity|]. apply filter_In. split; [exact H|]. cbn. apply Z.eqb_refl.
Qed.
Lemma preds_In E v p : In p (preds E v) <-> In (p, v) E.
Proof.
  unfold preds. rewrite (dedup_In Z.eqb Z.eqb_eq), in_map_iff. split.
  - intros [[a b] [Ha He]]. cbn [fst snd] in Ha. subst a. apply filter_In in He. destruct He as [He Hb].
    cbn [fst snd] in Hb. apply Z.eqb_eq in Hb. subst b. exact He.
  - intros H. exists (p, v). split; [reflexivity|]. apply filter_In. split; [exact H|]. cbn. apply Z.eqb_refl.
Qed.
Lemma succs_NoDup E u : NoDup (succs E u).
Proof. apply (dedup_NoDup Z.eqb Z.eqb_eq). Qed.
Lemma preds_NoDup E v : NoDup (preds E v).
Proof. apply (dedup_NoDup Z.eqb Z.eqb_eq). Qed.

Lemma induced_In E T e : In e (induced E T) <-> In e E /\ In (fst e) T /\ In (snd e) T.
Proof. unfold induced. rewrite filter_In, andb_true_iff, !zmem_In. tauto. Qed.

Lemma singleton_of_length1 (l : list Z) x : List.length l = 1%nat -> In x l -> l = [x].
Proof.
  destruct l as [|a [|b r]]; cbn; intros H Hx; try discriminate.
  destruct Hx as [->|[]]. reflexivity.
Qed.

(* ---------- labels and classes ---------- *)
Lemma class_In NL t u : In u (class_of NL t) <-> In (u, t) NL.
Proof.
  unfold class_of. rewrite in_map_iff. split.
  - intros [[a b] [Ha He]]. cbn [fst snd] in Ha. subst a. apply filter_In in He. destruct He as [He Hb].
    cbn [fst snd] in Hb. apply Z.eqb_eq in Hb. subst b. exact He.
  - intros H. exists (u, t). split; [reflexivity|]. apply filter_In. split; [exact H|]. cbn. apply Z.eqb_refl.
Qed.

Lemma label_of_In NL u t : label_of NL u = Some t -> In (u, t) NL.
Proof.
  induction NL as [|[n l] r IH]; cbn; [discriminate|].
  destruct (n =? u) eqn:E.
  - intros H. inversion H; subst. apply Z.eqb_eq in E. subst. left; reflexivity.
  - intros H. right. apply IH. exact H.
Qed.

Lemma In_label_of NL u t : NoDup (nodes_of NL) -> In (u, t) NL -> label_of NL u = Some t.
Proof.
  induction NL as [|[n l] r IH]; cbn; intros Hn Hin; [destruct Hin|].
  inversion Hn as [|? ? Hnot Hr]; subst.
  destruct Hin as [Heq|Hin].
  - inversion Heq; subst. rewrite Z.eqb_refl. reflexivity.
  - destruct (n =? u) eqn:E; [|apply IH; assumption].
    apply Z.eqb_eq in E. subst. exfalso. apply Hnot. unfold nodes_of. apply in_map_iff.
    exists (u, t). split; [reflexivity | exact Hin].
Qed.

Lemma node_has_label NL u : In u (nodes_of NL) -> exists t, label_of NL u = Some t.
Proof.
  induction NL as [|[n l] r IH]; cbn; [intros []|].
  intros [->|H].
  - rewrite Z.eqb_refl. eauto.
  - destruct (n =? u); [eauto | apply IH; exact H].
Qed.

Lemma class_sub_nodes NL t u : In u (class_of NL t) -> In u (nodes_of NL).
Proof. rewrite class_In. intros H. unfold nodes_of. apply in_map_iff. exists (u, t). split; [reflexivity|exact H]. Qed.

Lemma labels_of_In NL t : In t (labels_of NL) <-> exists u, In (u, t) NL.
Proof.
  unfold labels_of. rewrite <- in_rev, (dedup_In Z.eqb Z.eqb_eq), <- in_rev, in_map_iff. split.
  - intros [[a b] [Hb H]]. cbn [fst snd] in Hb. subst b. exists a. exact H.
  - intros [u H]. exists (u, t). split; [reflexivity | exact H].
Qed.

Lemma NoDup_map_filter {A B} (f : A -> B) (p : A -> bool) l : NoDup (map f l) -> NoDup (map f (filter p l)).
Proof.
  induction l as [|x r IH]; cbn; intros H; [constructor|].
  inversion H as [|? ? Hx Hr]; subst. destruct (p x); cbn.
  - constructor; [|apply IH; exact Hr]. intro Hin. apply Hx. apply in_map_iff in Hin.
    destruct Hin as [y [Hy Hin]]. apply filter_In in Hin. apply in_map_iff. exists y. tauto.
  - apply IH. exact Hr.
Qed.

Lemma class_NoDup NL t : NoDup (nodes_of NL) -> NoDup (class_of NL t).
Proof. intros H. unfold class_of. apply NoDup_map_filter. exact H. Qed.

(* ---------- connectivity test ---------- *)
Lemma connected_spec E r T' :
  NoDup (r :: T') ->
  (connected E (r :: T') = true <-> forall x, In x (r :: T') -> conn E (r :: T') r x).
Proof.
  intros Hn. unfold connected. rewrite forallb_forall. split.
  - intros H x Hx. apply reach_sound; [left; reflexivity|]. apply memb_In. apply H. exact Hx.
  - intros H x Hx. apply memb_In. apply reach_complete; [exact Hn | left; reflexivity | apply H; exact Hx].
Qed.

(* ---------- the per-class test decides the per-class definition ---------- *)
Definition linking (E : list (Z * Z)) (e : Z * Z) : Prop :=
  outdeg E (fst e) = 1%nat /\ indeg E (snd e) = 1%nat.

Definition class_ok (E : list (Z * Z)) (T : list Z) : Prop :=
  (forall x y, In x T -> In y T -> conn E T x y) /\
  (forall e, In e E -> In (fst e) T -> In (snd e) T -> linking E e) /\
  (forall e, In e E -> linking E e -> In (fst e) T -> In (snd e) T) /\
  (forall e, In e E -> linking E e -> In (snd e) T -> In (fst e) T).

Lemma extend_fwd_true E u v : In (u, v) E -> linking E (u, v) -> extend_fwd E u = true.
Proof.
  intros He [Ho Hi]. cbn [fst snd] in Ho, Hi. unfold extend_fwd.
  rewrite (singleton_of_length1 (succs E u) v Ho (proj2 (succs_In E u v) He)).
  apply Nat.eqb_eq. exact Hi.
Qed.
Lemma extend_back_true E u v : In (u, v) E -> linking E (u, v) -> extend_back E v = true.
Proof.
  intros He [Ho Hi]. cbn [fst snd] in Ho, Hi. unfold extend_back.
  rewrite (singleton_of_length1 (preds E v) u Hi (proj2 (preds_In E v u) He)).
  apply Nat.eqb_eq. exact Ho.
Qed.

Lemma extend_fwd_inv E u : extend_fwd E u = true -> exists v, In (u, v) E /\ linking E (u, v).
Proof.
  unfold extend_fwd. destruct (succs E u) as [|s [|s2 l]] eqn:Es; try discriminate.
  intros H. apply Nat.eqb_eq in H. exists s. split.
  - apply succs_In. rewrite Es. left; reflexivity.
  - split; cbn; [unfold outdeg; rewrite Es; reflexivity | exact H].
Qed.
Lemma extend_back_inv E v : extend_back E v = true -> exists u, In (u, v) E /\ linking E (u, v).
Proof.
  unfold extend_back. destruct (preds E v) as [|p [|p2 l]] eqn:Ep; try discriminate.
  intros H. apply Nat.eqb_eq in H. exists p. split.
  - apply preds_In. rewrite Ep. left; reflexivity.
  - split; cbn; [exact H | unfold indeg; rewrite Ep; reflexivity].
Qed.

Lemma check_class_sound E r T' :
  NoDup (r :: T') -> check_class E (r :: T') = true -> class_ok E (r :: T').
Proof.
  intros Hn H. set (T := r :: T') in *. unfold check_class in H.
  apply andb_true_iff in H. destruct H as [H H5].
  apply andb_true_iff in H. destruct H as [H H4].
  apply andb_true_iff in H. destruct H as [H H3].
  apply andb_true_iff in H. destruct H as [_ H2].
  rewrite forallb_forall in H3, H4, H5.
  pose proof (proj1 (connected_spec E r T' Hn) H2) as Hc.
  assert (Hintra : forall e, In e E -> In (fst e) T -> In (snd e) T -> linking E e).
  { intros e He Hf Hs. specialize (H3 e (proj2 (induced_In E T e) (conj He (conj Hf Hs)))).
    apply andb_true_iff in H3. destruct H3 as [Ha Hb]. apply Nat.eqb_eq in Ha, Hb. split; assumption. }
  split; [|split; [exact Hintra|split]].
  - intros x y Hx Hy. eapply conn_trans; [apply conn_sym; apply Hc; exact Hx | apply Hc; exact Hy].
  - intros [u v] He Hl Hu. cbn [fst snd] in Hu |- *.
    destruct (zmem v T) eqn:Ev; [apply zmem_In; exact Ev|]. exfalso.
    specialize (H5 u Hu). cbn beta in H5.
    destruct (succs (induced E T) u) as [|w l] eqn:Es.
    + rewrite (extend_fwd_true E u v He Hl) in H5. discriminate.
    + assert (Hw : In w (succs (induced E T) u)) by (rewrite Es; left; reflexivity).
      apply succs_In, induced_In in Hw. cbn [fst snd] in Hw. destruct Hw as [HwE [_ HwT]].
      destruct Hl as [Ho _]. cbn [fst snd] in Ho.
      pose proof (singleton_of_length1 _ v Ho (proj2 (succs_In E u v) He)) as Hsing.
      apply succs_In in HwE. rewrite Hsing in HwE. destruct HwE as [<-|[]].
      apply zmem_In in HwT. congruence.
  - intros [u v] He Hl Hv. cbn [fst snd] in Hv |- *.
    destruct (zmem u T) eqn:Eu; [apply zmem_In; exact Eu|]. exfalso.
    specialize (H4 v Hv). cbn beta in H4.
    destruct (preds (induced E T) v) as [|w l] eqn:Es.
    + rewrite (extend_back_true E u v He Hl) in H4. discriminate.
    + assert (Hw : In w (preds (induced E T) v)) by (rewrite Es; left; reflexivity).
      apply preds_In, induced_In in Hw. cbn [fst snd] in Hw. destruct Hw as [HwE [HwT _]].
      destruct Hl as [_ Hi]. cbn [fst snd] in Hi.
      pose proof (singleton_of_length1 _ u Hi (proj2 (preds_In E v u) He)) as Hsing.
      apply preds_In in HwE. rewrite Hsing in HwE. destruct HwE as [<-|[]].
      apply zmem_In in HwT. congruence.
Qed.

Lemma check_class_complete E r T' :
  NoDup (r :: T') -> class_ok E (r :: T') -> check_class E (r :: T') = true.
Proof.
  intros Hn [Hconn [Hintra [Hfwd Hbwd]]]. remember (r :: T') as T eqn:HT. unfold check_class.
  apply andb_true_iff; split; [apply andb_true_iff; split; [apply andb_true_iff; split; [apply andb_true_iff; split|]|]|].
  - apply forallb_forall. intros u Hu. apply andb_true_iff. split; apply Nat.leb_le.
    + destruct (succs (induced E T) u) as [|w l] eqn:Es; [cbn; lia|].
      assert (Hw : In w (succs (induced E T) u)) by (rewrite Es; left; reflexivity).
      apply succs_In, induced_In in Hw. cbn [fst snd] in Hw. destruct Hw as [HwE [HuT HwT]].
      destruct (Hintra (u, w) HwE HuT HwT) as [Ho _]. cbn [fst snd] in Ho. unfold outdeg in Ho. rewrite <- Ho, <- Es.
      apply NoDup_incl_length; [apply succs_NoDup|].
      intros x Hx. apply succs_In, induced_In in Hx. apply succs_In. tauto.
    + destruct (preds (induced E T) u) as [|w l] eqn:Es; [cbn; lia|].
      assert (Hw : In w (preds (induced E T) u)) by (rewrite Es; left; reflexivity).
      apply preds_In, induced_In in Hw. cbn [fst snd] in Hw. destruct Hw as [HwE [HwT HuT]].
      destruct (Hintra (w, u) HwE HwT HuT) as [_ Hi]. cbn [fst snd] in Hi. unfold indeg in Hi. rewrite <- Hi, <- Es.
      apply NoDup_incl_length; [apply preds_NoDup|].
      intros x Hx. apply preds_In, induced_In in Hx. apply preds_In. tauto.
  - subst T. apply (connected_spec E r T' Hn). intros x Hx. apply Hconn; [left; reflexivity | exact Hx].
  - apply forallb_forall. intros e He. apply induced_In in He. destruct He as [He [Hf Hs]].
    destruct (Hintra e He Hf Hs) as [Ho Hi]. apply andb_true_iff. split; apply Nat.eqb_eq; assumption.
  - apply forallb_forall. intros u Hu.
    destruct (preds (induced E T) u) as [|w l] eqn:Es; [|reflexivity].
    apply negb_true_iff. destruct (extend_back E u) eqn:Ex; [exfalso|reflexivity].
    destruct (extend_back_inv E u Ex) as [p [Hp Hl]].
    pose proof (Hbwd (p, u) Hp Hl Hu) as HpT. cbn [fst snd] in HpT.
    assert (Hin : In p (preds (induced E T) u)).
    { apply preds_In, induced_In. cbn. auto. }
    rewrite Es in Hin. destruct Hin.
  - apply forallb_forall. intros u Hu.
    destruct (succs (induced E T) u) as [|w l] eqn:Es; [|reflexivity].
    apply negb_true_iff. destruct (extend_fwd E u) eqn:Ex; [exfalso|reflexivity].
    destruct (extend_fwd_inv E u Ex) as [s [Hs Hl]].
    pose proof (Hfwd (u, s) Hs Hl Hu) as HsT. cbn [fst snd] in HsT.
    assert (Hin : In s (succs (induced E T) u)).
    { apply succs_In, induced_In. cbn. auto. }
    rewrite Es in Hin. destruct Hin.
Qed.

(* ---------- the documented definition ---------- *)
Definition wf_labelled (E : list (Z * Z)) (NL : nlabels) : Prop :=
  NoDup (nodes_of NL) /\ forall e, In e E -> In (fst e) (nodes_of NL) /\ In (snd e) (nodes_of NL).

(* (L): adjacent nodes share a tracklet id exactly when the edge is the only one leaving its
   source and the only one entering its target; (C): every tracklet is connected *)
Definition L_spec (E : list (Z * Z)) (NL : nlabels) : Prop :=
  forall e, In e E -> (label_of NL (fst e) = label_of NL (snd e) <-> linking E e).
Definition C_spec (E : list (Z * Z)) (NL : nlabels) : Prop :=
  forall t u v, In u (class_of NL t) -> In v (class_of NL t) -> conn E (class_of NL t) u v.

Lemma all_classes_ok_iff E NL : wf_labelled E NL ->
  ((forall t, In t (labels_of NL) -> class_ok E (class_of NL t)) <-> L_spec E NL /\ C_spec E NL).
Proof.
  intros [Hnd Hin]. split.
  - intros H. split.
    + intros [u v] He. cbn [fst snd]. destruct (Hin _ He) as [Hu Hv]. cbn [fst snd] in Hu, Hv.
      destruct (node_has_label NL u Hu) as [tu Htu]. destruct (node_has_label NL v Hv) as [tv Htv].
      assert (Hlu : In tu (labels_of NL)) by (apply labels_of_In; exists u; apply label_of_In; exact Htu).
      destruct (H tu Hlu) as [_ [Hintra [Hfwd _]]].
      pose proof (proj2 (class_In NL tu u) (label_of_In _ _ _ Htu)) as HuT.
      split.
      * intros Heq. rewrite Htu, Htv in Heq. inversion Heq; subst tv.
        apply (Hintra (u, v) He HuT). apply class_In. apply label_of_In. exact Htv.
      * intros Hl. pose proof (Hfwd (u, v) He Hl HuT) as HvT. cbn [fst snd] in HvT.
        apply class_In in HvT. rewrite Htu. symmetry. apply In_label_of; assumption.
    + intros t u v Hu Hv. assert (Ht : In t (labels_of NL)).
      { apply labels_of_In. exists u. apply class_In. exact Hu. }
      destruct (H t Ht) as [Hc _]. apply Hc; assumption.
  - intros [HL HC] t Ht. split; [|split; [|split]].
    + intros x y Hx Hy. apply HC; assumption.
    + intros [u v] He Hu Hv. cbn [fst snd] in Hu, Hv. apply (HL (u, v) He). cbn.
      apply class_In in Hu, Hv. rewrite (In_label_of NL u t Hnd Hu), (In_label_of NL v t Hnd Hv). reflexivity.
    + intros [u v] He Hl Hu. cbn [fst snd] in Hu |- *. apply (HL (u, v) He) in Hl. cbn [fst snd] in Hl.
      apply class_In in Hu. rewrite (In_label_of NL u t Hnd Hu) in Hl. symmetry in Hl.
      apply class_In. apply label_of_In. exact Hl.
    + intros [u v] He Hl Hv. cbn [fst snd] in Hv |- *. apply (HL (u, v) He) in Hl. cbn [fst snd] in Hl.
      apply class_In in Hv. rewrite (In_label_of NL v t Hnd Hv) in Hl.
      apply class_In. apply label_of_In. exact Hl.
Qed.

Lemma class_nonempty NL t : In t (labels_of NL) -> exists r T', class_of NL t = r :: T'.
Proof.
  intros H. apply labels_of_In in H. destruct H as [u Hu]. apply class_In in Hu.
  destruct (class_of NL t) as [|r T']; [destruct Hu | eauto].
Qed.

Theorem tracklets_iff E NL : wf_labelled E NL ->
  (invalid_tracklets E NL = [] <-> L_spec E NL /\ C_spec E NL).
Proof.
  intros Hwf. rewrite <- (all_classes_ok_iff E NL Hwf). destruct Hwf as [Hnd _].
  unfold invalid_tracklets. rewrite filter_nil_iff. split.
  - intros H t Ht. specialize (H t Ht). apply negb_false_iff in H.
    destruct (class_nonempty NL t Ht) as [r [T' Hc]].
    pose proof (class_NoDup NL t Hnd) as Hn. rewrite Hc in *. apply check_class_sound; assumption.
  - intros H t Ht. apply negb_false_iff. specialize (H t Ht).
    destruct (class_nonempty NL t Ht) as [r [T' Hc]].
    pose proof (class_NoDup NL t Hnd) as Hn. rewrite Hc in *. apply check_class_complete; assumption.
Qed.

(* what is named is exactly what is invalid, per class *)
Theorem tracklets_names E NL t : NoDup (nodes_of NL) ->
  (In t (invalid_tracklets E NL) <-> In t (labels_of NL) /\ ~ class_ok E (class_of NL t)).
Proof.
  intros Hnd. unfold invalid_tracklets. rewrite filter_In, negb_true_iff. split.
  - intros [Ht Hc]. split; [exact Ht|]. intros Hok.
    destruct (class_nonempty NL t Ht) as [r [T' Hcl]]. pose proof (class_NoDup NL t Hnd) as Hn.
    rewrite Hcl in *. rewrite (check_class_complete E r T' Hn Hok) in Hc. discriminate.
  - intros [Ht Hnok]. split; [exact Ht|].
    destruct (check_class E (class_of NL t)) eqn:Ec; [|reflexivity]. exfalso. apply Hnok.
    destruct (class_nonempty NL t Ht) as [r [T' Hcl]]. pose proof (class_NoDup NL t Hnd) as Hn.
    rewrite Hcl in *. apply check_class_sound; assumption.
Qed.

(* ============================ lineages ============================ *)
Lemma set_eqb_spec A B : set_eqb A B = true <-> (forall x, In x A <-> In x B).
Proof.
  unfold set_eqb. rewrite andb_true_iff, !forallb_forall. split.
  - intros [H1 H2] x. split; intro Hx; apply zmem_In; auto.
  - intros H. split; intros x Hx; apply zmem_In; apply H; exact Hx.
Qed.

Lemma all_nodes_In E NL x : In x (all_nodes E NL) <-> In x (nodes_of NL) \/ In x (mentioned E).
Proof. unfold all_nodes. rewrite (dedup_In Z.eqb Z.eqb_eq), in_app_iff. reflexivity. Qed.
Lemma all_nodes_NoDup E NL : NoDup (all_nodes E NL).
Proof. apply (dedup_NoDup Z.eqb Z.eqb_eq). Qed.

Definition lineage_spec (E : list (Z * Z)) (NL : nlabels) : Prop :=
  let V := all_nodes E NL in
  (forall u v, In u (nodes_of NL) -> In v (nodes_of NL) ->
     (label_of NL u = label_of NL v <-> conn E V u v)) /\
  (forall u x, In u (nodes_of NL) -> conn E V u x -> In x (nodes_of NL)).

Lemma check_lineage_spec E V r T' : NoDup V -> In r V ->
  (check_lineage E V (r :: T') = true <-> forall x, In x (r :: T') <-> conn E V r x).
Proof.
  intros Hn Hr. unfold check_lineage. rewrite set_eqb_spec. split; intros H x; rewrite H; split.
  - apply reach_sound. exact Hr.
  - apply reach_complete; assumption.
  - apply reach_complete; assumption.
  - apply reach_sound. exact Hr.
Qed.

Theorem lineages_iff E NL : NoDup (nodes_of NL) ->
  (invalid_lineages E NL = [] <-> lineage_spec E NL).
Proof.
  intros Hnd. set (V := all_nodes E NL).
  assert (HVn : NoDup V) by apply all_nodes_NoDup.
  assert (HNV : forall x, In x (nodes_of NL) -> In x V) by (intros x Hx; apply all_nodes_In; left; exact Hx).
  unfold invalid_lineages. rewrite filter_nil_iff. fold V. split.
  - intros H.
    assert (Hcls : forall t r T', class_of NL t = r :: T' -> forall x, In x (r :: T') <-> conn E V r x).
    { intros t r T' Hc. assert (Ht : In t (labels_of NL)).
      { apply labels_of_In. exists r. apply class_In. rewrite Hc. left; reflexivity. }
      specialize (H t Ht). apply negb_false_iff in H. rewrite Hc in H.
      apply (check_lineage_spec E V r T' HVn); [|exact H].
      apply HNV. apply (class_sub_nodes NL t). rewrite Hc. left; reflexivity. }
    assert (Hmem : forall u t, label_of NL u = Some t -> exists r T', class_of NL t = r :: T' /\ conn E V r u).
    { intros u t Hu. pose proof (proj2 (class_In NL t u) (label_of_In _ _ _ Hu)) as HuT.
      destruct (class_of NL t) as [|r T'] eqn:Hc; [destruct HuT|].
      exists r, T'. split; [reflexivity|]. apply (Hcls t r T' Hc). exact HuT. }
    split.
    + intros u v Hu Hv. destruct (node_has_label NL u Hu) as [tu Htu]. destruct (node_has_label NL v Hv) as [tv Htv].
      destruct (Hmem u tu Htu) as [r [T' [Hc Hru]]]. split.
      * intros Heq. rewrite Htu, Htv in Heq. inversion Heq; subst tv.
        destruct (Hmem v tu Htv) as [r2 [T2 [Hc2 Hrv]]]. rewrite Hc in Hc2. inversion Hc2; subst.
        eapply conn_trans; [apply conn_sym; exact Hru | exact Hrv].
      * intros Huv. assert (Hrv : conn E V r v) by (eapply conn_trans; eauto).
        apply (Hcls tu r T' Hc) in Hrv. rewrite <- Hc in Hrv. apply class_In in Hrv.
        rewrite Htu. symmetry. apply In_label_of; assumption.
    + intros u x Hu Hux. destruct (node_has_label NL u Hu) as [tu Htu].
      destruct (Hmem u tu Htu) as [r [T' [Hc Hru]]].
      assert (Hrx : conn E V r x) by (eapply conn_trans; eauto).
      apply (Hcls tu r T' Hc) in Hrx. rewrite <- Hc in Hrx. apply (class_sub_nodes NL tu). exact Hrx.
  - intros [H1 H2] t Ht. apply negb_false_iff.
    destruct (class_nonempty NL t Ht) as [r [T' Hc]]. rewrite Hc.
    assert (HrT : In r (class_of NL t)) by (rewrite Hc; left; reflexivity).
    pose proof (class_sub_nodes NL t r HrT) as HrN.
    apply (check_lineage_spec E V r T' HVn (HNV r HrN)). intros x. rewrite <- Hc. split.
    + intros Hx. pose proof (class_sub_nodes NL t x Hx) as HxN. apply (H1 r x HrN HxN).
      apply class_In in HrT, Hx. rewrite (In_label_of NL r t Hnd HrT), (In_label_of NL x t Hnd Hx). reflexivity.
    + intros Hrx. pose proof (H2 r x HrN Hrx) as HxN. apply (H1 r x HrN HxN) in Hrx.
      apply class_In in HrT. rewrite (In_label_of NL r t Hnd HrT) in Hrx. symmetry in Hrx.
      apply class_In. apply label_of_In. exact Hrx.
Qed.
