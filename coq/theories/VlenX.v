(* VlenX.v -- the model of geff.core_io._serialization and of
   _get_common_type_dims / construct_var_len_props at the level of numpy dtype
   IDENTITY (byte order, string width, object dtype) and with the `missing`
   array carried through.  Vlen.v speaks about dtype NAMES only (int32 is int32
   whatever its byte order, "str" whatever its width); numpy's `element.dtype !=
   dtype` (_serialization.py) does not.  VlenXLemmas.v proves that this model
   refines Vlen.v and coincides with it on numeric input.
   Model only (executable); no proofs here. *)
From Geff Require Import Base Dtype Vlen VlenCast.
Open Scope nat_scope.
Open Scope list_scope.

(* ---------------- numpy dtype descriptors ---------------- *)
(* x_swap: non-native byte order; x_width: number of characters of a U dtype /
   bytes of an S dtype.  Both are meaningless for some bases (|i1, bool, object
   have no byte order; numbers have no width): `canon` erases them there, and
   numpy's dtype equality is equality of the canonical descriptors. *)
Record xdt := { x_base : dtype; x_swap : bool; x_width : nat }.

Definition has_order (d : dtype) : bool :=
  match d with DStr => true | DBytes | DObj => false | _ => Nat.ltb 8 (bits d) end.
Definition has_width (d : dtype) : bool :=
  match d with DStr | DBytes => true | _ => false end.
Definition is_obj (d : dtype) : bool := match d with DObj => true | _ => false end.

Definition canon (d : xdt) : xdt :=
  {| x_base := x_base d;
     x_swap := x_swap d && has_order (x_base d);
     x_width := if has_width (x_base d) then x_width d else 0 |}.

Definition xdt_same (a b : xdt) : bool :=     (* structural *)
  dtype_eqb (x_base a) (x_base b) && Bool.eqb (x_swap a) (x_swap b) && Nat.eqb (x_width a) (x_width b).
Definition xdt_eqb (a b : xdt) : bool := xdt_same (canon a) (canon b).   (* numpy == *)

Definition native (d : dtype) : xdt := {| x_base := d; x_swap := false; x_width := 0 |}.
(* the same dtype in native byte order (what np.concatenate / np.result_type return) *)
Definition to_native (d : xdt) : xdt :=
  {| x_base := x_base d; x_swap := false; x_width := if has_width (x_base d) then x_width d else 0 |}.

Record xvarr := { xv_dt : xdt; xv_shape : list nat; xv_flat : list Z }.

Definition forget (a : xvarr) : varr :=
  {| v_dt := x_base (xv_dt a); v_shape := xv_shape a; v_flat := xv_flat a |}.
Definition embed (a : varr) : xvarr :=
  {| xv_dt := native (v_dt a); xv_shape := v_shape a; xv_flat := v_flat a |}.

Definition xwf (a : xvarr) : Prop := length (xv_flat a) = size (xv_shape a).
Definition xwfb (a : xvarr) : bool := Nat.eqb (length (xv_flat a)) (size (xv_shape a)).

(* ---------------- serialize_vlen_property_data ---------------- *)
(* ndim and dtype of the FIRST element are remembered (`if ndim is None: ... elif`);
   every later element is compared with them: rank first, dtype second. *)
Fixpoint xser_go (nd : option nat) (dt : option xdt) (off : nat) (vals : list xvarr)
  : res (list (list nat) * list Z) :=
  match vals with
  | [] => Ok ([], [])
  | a :: r =>
      if match nd with None => true | Some n => Nat.eqb (length (xv_shape a)) n end then
        if match dt with None => true | Some d => xdt_eqb (xv_dt a) d end then
          match xser_go (Some (match nd with None => length (xv_shape a) | Some n => n end))
                        (Some (match dt with None => xv_dt a | Some d => d end))
                        (off + size (xv_shape a)) r with
          | Ok (rows, data) => Ok ((off :: xv_shape a) :: rows, xv_flat a ++ data)
          | Err e => Err e
          end
        else Err ValueError
      else Err ValueError
  end.

(* dtype of the data array: np.concatenate answers in native byte order; int64 for no element *)
Definition xser_dtype (vals : list xvarr) : xdt :=
  match vals with [] => native DI64 | a :: _ => to_native (xv_dt a) end.

(* (values table, missing, data, dtype of data): `missing` is handed through untouched,
   whatever its length *)
Definition xserialize (vals : list xvarr) (missing : option (list bool))
  : res (list (list nat) * option (list bool) * list Z * xdt) :=
  match xser_go None None 0 vals with
  | Ok (rows, data) => Ok (rows, missing, data, xser_dtype vals)
  | Err e => Err e
  end.

(* ---------------- deserialize_vlen_property_data ---------------- *)
(* every decoded element is a reshaped slice of `data`, hence has the dtype of `data`;
   `missing` is handed through untouched *)
Definition xdeserialize (rows : list (list nat)) (missing : option (list bool)) (ddt : xdt) (data : list Z)
  : res (list xvarr * option (list bool)) :=
  match deserialize rows data with
  | Ok els => Ok (map (fun e => {| xv_dt := ddt; xv_shape := fst e; xv_flat := snd e |}) els, missing)
  | Err e => Err e
  end.

(* ---------------- _get_common_type_dims ---------------- *)
(* numpy's dtype.kind: b i u f U S O *)
Definition kcode (d : dtype) : nat :=
  match d with
  | DBool => 0
  | DI8 | DI16 | DI32 | DI64 => 1
  | DU8 | DU16 | DU32 | DU64 => 2
  | DF16 | DF32 | DF64 => 3
  | DStr => 4 | DBytes => 5 | DObj => 6
  end.

(* `len(kinds) > 1 and not kinds.isdisjoint({"U", "S"})` *)
Definition kinds_clash (bs : list dtype) : bool :=
  match bs with
  | [] => false
  | b :: _ => negb (forallb (fun e => Nat.eqb (kcode e) (kcode b)) bs) && existsb has_width bs
  end.

Fixpoint max_width (ds : list xdt) : nat :=
  match ds with [] => 0 | d :: r => Nat.max (x_width d) (max_width r) end.

(* np.result_type on the combinations that pass the guard above: numbers as in
   Vlen.result_type_num, an object dtype absorbs numbers, strings take the largest
   width; always native byte order.  Mixtures of strings with anything else never
   reach np.result_type (the guard has raised): None here. *)
Definition xresult_type (ds : list xdt) : option xdt :=
  let bs := map x_base ds in
  match bs with
  | [] => None
  | _ :: _ =>
      if forallb is_numeric bs then Some (native (result_type_num bs))
      else if forallb (fun b => is_numeric b || is_obj b) bs then Some (native DObj)
      else if forallb (dtype_eqb DStr) bs then Some {| x_base := DStr; x_swap := false; x_width := max_width ds |}
      else if forallb (dtype_eqb DBytes) bs then Some {| x_base := DBytes; x_swap := false; x_width := max_width ds |}
      else None
  end.

(* np.can_cast(a, b, "safe") on the pairs that can occur after the guard and
   np.result_type: byte order is irrelevant, a string fits a string at least as
   wide, everything fits object *)
Definition xcan_cast (a b : xdt) : bool :=
  match x_base b with
  | DObj => true
  | DStr => match x_base a with DStr => Nat.leb (x_width a) (x_width b) | _ => false end
  | DBytes => match x_base a with DBytes => Nat.leb (x_width a) (x_width b) | _ => false end
  | bb => if is_numeric (x_base a) then can_cast_safe (x_base a) bb else false
  end.

Fixpoint xmax_rank (l : list xvarr) : nat :=
  match l with [] => 0 | a :: r => Nat.max (length (xv_shape a)) (xmax_rank r) end.

Definition xcommon_type_dims (l : list (option xvarr)) : res (xdt * nat) :=
  match somes l with
  | [] => Ok (native DI64, 1)
  | elems =>
      let ds := map xv_dt elems in
      if kinds_clash (map x_base ds) then Err ValueError
      else match xresult_type ds with
           | None => Err ValueError
           | Some dt =>
               if forallb (fun d => xcan_cast d dt) ds
               then Ok (dt, xmax_rank elems) else Err ValueError
           end
  end.

(* ---------------- construct_var_len_props ---------------- *)
(* np.asarray(arr, dtype=dt): numbers as Dtype.cast_payload; a number stored in an
   object array becomes the Python int / float / bool of the same value, encoded
   as 8 * payload + tag (VlenCast.obj_tag); strings keep their token. *)
Definition xcast_payload (a b : xdt) (z : Z) : Z :=
  match x_base b with
  | DObj => if is_obj (x_base a) then z else (8 * z + obj_tag (x_base a))%Z
  | DStr | DBytes => z
  | bb => cast_payload (x_base a) bb z
  end.

Definition xnormalise_one (dt : xdt) (nd : nat) (o : option xvarr) : xvarr :=
  match o with
  | None => {| xv_dt := dt; xv_shape := repeat 0 nd; xv_flat := repeat 0%Z (size (repeat 0 nd)) |}
  | Some a => {| xv_dt := dt; xv_shape := pad_shape nd (xv_shape a);
                 xv_flat := map (xcast_payload (xv_dt a) dt) (xv_flat a) |}
  end.

Definition xconstruct (l : list (option xvarr)) : res (list xvarr * option (list bool)) :=
  match xcommon_type_dims l with
  | Err e => Err e
  | Ok (dt, nd) =>
      let miss := map is_none l in
      Ok (map (xnormalise_one dt nd) l, if existsb (fun b => b) miss then Some miss else None)
  end.

(* the whole path of a variable-length property from user input to the decoded value *)
Definition xpipeline (l : list (option xvarr)) : res (list xvarr * option (list bool)) :=
  match xconstruct l with
  | Err e => Err e
  | Ok (vals, miss) =>
      match xserialize vals miss with
      | Err e => Err e
      | Ok (rows, miss', data, ddt) => xdeserialize rows miss' ddt data
      end
  end.
