(* MetaKeysLemmas.v -- GeffMetadata.write on the keys of a store refines the attribute-map model of MetaJson.v:
   whatever the store holds (either zarr format, any other keys, any other attributes, consolidated metadata inside
   a format-3 group document), writing changes ONE document, inside it only the attribute `geff`, and the root group
   keeps its format; reading back gives the object.  (C08_attrs stated on the key-level store.) *)
From Geff Require Import Base Dtype Vlen Tree KeyStore KeyStoreLemmas MetaKeys.
From Geff Require Import Meta MetaLemmas Json Schema MetaJson MetaJsonLemmas.
Open Scope string_scope.
Open Scope list_scope.

Lemma klookup_kset_same k v ks : klookup k (kset k v ks) = Some v.
Proof.
  induction ks as [|[k' x] r IH]; cbn; [rewrite key_eqb_refl; reflexivity|].
  destruct (key_eqb k k') eqn:E; cbn; rewrite E; [reflexivity | exact IH].
Qed.

Lemma klookup_kset_other k k' v ks : k' <> k -> klookup k' (kset k v ks) = klookup k' ks.
Proof.
  intros Hne. induction ks as [|[k'' x] r IH]; cbn.
  - destruct (key_eqb k' k) eqn:E; [apply key_eqb_eq in E; contradiction | reflexivity].
  - destruct (key_eqb k k'') eqn:E; cbn.
    + apply key_eqb_eq in E. subst k''. destruct (key_eqb k' k) eqn:E'; [apply key_eqb_eq in E'; contradiction | reflexivity].
    + destruct (key_eqb k' k''); [reflexivity | exact IH].
Qed.

(* the one document GeffMetadata.write rewrites *)
Definition attr_doc_key (ks : kstore) : key :=
  match probe_root ks with RGroup V2 _ => [".zattrs"] | _ => ["zarr.json"] end.

Lemma node_doc_V3_lookup ks ks' : klookup ["zarr.json"] ks' = klookup ["zarr.json"] ks -> node_doc V3 ks' = node_doc V3 ks.
Proof. intros H. unfold node_doc. rewrite H. reflexivity. Qed.

Lemma node_doc_V3_none ks : node_doc V3 ks = NDNone -> klookup ["zarr.json"] ks = None.
Proof.
  unfold node_doc. destruct (klookup ["zarr.json"] ks) as [[d|c]|]; [|discriminate|reflexivity].
  destruct (is_fmt 3 d); [|discriminate]. destruct (jstr_is "group" (jfield "node_type" d)).
  - destruct (jfield "attributes" d) as [[]|]; discriminate.
  - destruct (jstr_is "array" (jfield "node_type" d)); [destruct (parse_v3_array d)|]; discriminate.
Qed.

Lemma probe_V2_facts ks a : probe_root ks = RGroup V2 a ->
  klookup ["zarr.json"] ks = None /\ klookup [".zarray"] ks = None /\
  exists d, klookup [".zgroup"] ks = Some (KDoc d) /\ is_fmt 2 d = true /\
            ((klookup [".zattrs"] ks = None /\ a = []) \/ klookup [".zattrs"] ks = Some (KDoc (JObj a))).
Proof.
  intros H. unfold probe_root in H. destruct (node_doc V3 ks) eqn:E3; try discriminate H.
  destruct (node_doc V2 ks) eqn:E2; try discriminate H. inversion H; subst. clear H.
  split; [apply node_doc_V3_none; exact E3|]. unfold node_doc in E2.
  destruct (klookup [".zarray"] ks) as [[d|c]|]; [destruct (parse_zarray d); discriminate E2 | discriminate E2|].
  split; [reflexivity|].
  destruct (klookup [".zgroup"] ks) as [[d|c]|]; [|discriminate E2|discriminate E2].
  exists d. split; [reflexivity|]. destruct (is_fmt 2 d); [|discriminate E2]. split; [reflexivity|].
  destruct (klookup [".zattrs"] ks) as [[za|c]|].
  - destruct za; try discriminate E2. inversion E2; subst. right. reflexivity.
  - discriminate E2.
  - inversion E2; subst. left. split; reflexivity.
Qed.

Lemma probe_V3_facts ks a : probe_root ks = RGroup V3 a ->
  exists d, klookup ["zarr.json"] ks = Some (KDoc d) /\ is_fmt 3 d = true /\ jstr_is "group" (jfield "node_type" d) = true /\
            ((jfield "attributes" d = None /\ a = []) \/ jfield "attributes" d = Some (JObj a)).
Proof.
  intros H. unfold probe_root in H. destruct (node_doc V3 ks) eqn:E3; try discriminate H;
    [destruct (node_doc V2 ks); discriminate H|].
  inversion H; subst. clear H. unfold node_doc in E3.
  destruct (klookup ["zarr.json"] ks) as [[d|c]|]; [|discriminate E3|discriminate E3].
  exists d. split; [reflexivity|]. destruct (is_fmt 3 d); [|discriminate E3]. split; [reflexivity|].
  destruct (jstr_is "group" (jfield "node_type" d)).
  - split; [reflexivity|]. destruct (jfield "attributes" d) as [[]|]; try discriminate E3.
    + inversion E3; subst. right. reflexivity.
    + inversion E3; subst. left. split; reflexivity.
  - destruct (jstr_is "array" (jfield "node_type" d)); [destruct (parse_v3_array d)|]; discriminate E3.
Qed.

Lemma probe_none_facts ks : probe_root ks = RNone -> klookup ["zarr.json"] ks = None.
Proof.
  intros H. unfold probe_root in H. destruct (node_doc V3 ks) eqn:E3; try discriminate H.
  apply node_doc_V3_none. exact E3.
Qed.

(* ---------------------------------------------------------------- the refinement *)
(* after a successful write the root is a group of the format it had (3 when there was none) and its attribute map is
   the attribute-map model's: jset "geff" dump on the old map *)
Lemma md_write_k_root m ks ks' : md_write_k m ks = Ok ks' ->
  exists f, probe_root ks' = RGroup f (match md_write m (root_attrs_any ks) with Some a => a | None => [] end)
            /\ (forall f0 a0, probe_root ks = RGroup f0 a0 -> f = f0) /\ (probe_root ks = RNone -> f = V3).
Proof.
  unfold md_write_k, root_attrs_any. destruct (probe_root ks) as [|f a|] eqn:Ep; [| |discriminate].
  - (* no root group: a format-3 group document is created *)
    intros H. inversion H; subst. clear H. exists V3. split; [|split; [intros; discriminate | reflexivity]].
    unfold probe_root, node_doc. rewrite klookup_kset_same. cbn. reflexivity.
  - destruct f.
    + (* format 2: .zattrs *)
      intros H. inversion H; subst. clear H. exists V2.
      split; [|split; [intros f0 a0 E; inversion E; reflexivity | discriminate]].
      destruct (probe_V2_facts ks a Ep) as [H3 [Hza [d [Hzg [Hf Hattr]]]]].
      unfold probe_root. unfold node_doc at 1. rewrite klookup_kset_other, H3; [|discriminate].
      unfold node_doc. rewrite klookup_kset_other, Hza; [|discriminate].
      rewrite klookup_kset_other, Hzg, Hf; [|discriminate]. rewrite klookup_kset_same. cbn [md_write]. reflexivity.
    + (* format 3: the member `attributes` of zarr.json *)
      destruct (probe_V3_facts ks a Ep) as [d [Hl [Hf [Hg Hattr]]]]. rewrite Hl.
      destruct d as [| | | | | |kvs]; try discriminate. destruct (v3_doc_known kvs); [|discriminate].
      intros H. inversion H; subst. clear H. exists V3.
      split; [|split; [intros f0 a0 E; inversion E; reflexivity | discriminate]].
      unfold probe_root, node_doc. rewrite klookup_kset_same.
      unfold is_fmt, jfield in *. rewrite jget_jset_other; [|discriminate]. 
      destruct (Meta.jget "zarr_format" kvs) as [[]|]; try discriminate. rewrite Hf.
      rewrite jget_jset_other; [|discriminate]. rewrite Hg. rewrite jget_jset_same. cbn [md_write]. reflexivity.
Qed.

(* every other key of the store is untouched: in particular every key below a member (the arrays of the graph) *)
Lemma md_write_k_frame m ks ks' : md_write_k m ks = Ok ks' ->
  forall k, k <> attr_doc_key ks -> klookup k ks' = klookup k ks.
Proof.
  unfold md_write_k, attr_doc_key. destruct (probe_root ks) as [|f a|] eqn:Ep; [| |discriminate].
  - intros H k Hk. inversion H; subst. apply klookup_kset_other. exact Hk.
  - destruct f.
    + intros H k Hk. inversion H; subst. apply klookup_kset_other. exact Hk.
    + destruct (klookup ["zarr.json"] ks) as [[d|c]|]; try discriminate.
      destruct d; try discriminate. destruct (v3_doc_known kvs); [|discriminate].
      intros H k Hk. inversion H; subst. apply klookup_kset_other. exact Hk.
Qed.

(* format 3: inside the rewritten group document every member but `attributes` is kept *)
Lemma md_write_k_v3_members m ks ks' a : md_write_k m ks = Ok ks' -> probe_root ks = RGroup V3 a ->
  exists d d', klookup ["zarr.json"] ks = Some (KDoc (JObj d)) /\ klookup ["zarr.json"] ks' = Some (KDoc (JObj d')) /\
               forall field, field <> "attributes" -> Meta.jget field d' = Meta.jget field d.
Proof.
  unfold md_write_k. intros H Ep. rewrite Ep in H.
  destruct (klookup ["zarr.json"] ks) as [[d|c]|] eqn:El; try discriminate.
  destruct d as [| | | | | |kvs]; try discriminate. destruct (v3_doc_known kvs); [|discriminate].
  inversion H; subst. clear H. exists kvs. eexists. split; [reflexivity|]. split; [apply klookup_kset_same|].
  intros field Hf. apply jget_jset_other. exact Hf.
Qed.

(* when the write succeeds: exactly when the root is absent or a group zarr accepts *)
Lemma md_write_k_total m ks :
  (probe_root ks = RNone \/ (exists a, probe_root ks = RGroup V2 a) \/
   (exists a d, probe_root ks = RGroup V3 a /\ klookup ["zarr.json"] ks = Some (KDoc (JObj d)) /\ v3_doc_known d = true))
  <-> exists ks', md_write_k m ks = Ok ks'.
Proof.
  unfold md_write_k. split.
  - intros [E|[[a E]|[a [d [E [El Hk]]]]]]; rewrite E; [eexists; reflexivity | eexists; reflexivity|].
    rewrite El, Hk. eexists. reflexivity.
  - intros [ks' H]. destruct (probe_root ks) as [|f a|] eqn:Ep; [left; reflexivity | | discriminate].
    destruct f; [right; left; exists a; reflexivity|]. right. right.
    destruct (klookup ["zarr.json"] ks) as [[d|c]|]; try discriminate. destruct d; try discriminate.
    destruct (v3_doc_known kvs) eqn:Ek; [|discriminate]. exists a, kvs. repeat split; assumption.
Qed.

(* ---------------------------------------------------------------- C08_attrs on the keys *)
Lemma md_read_k_root gv ks f a : probe_root ks = RGroup f a -> md_read_k gv ks = md_read gv (Some a).
Proof. intros E. unfold md_read_k. rewrite E. reflexivity. Qed.

Lemma attrs_keys_all gv m ks ks' : inv_md m = true -> md_write_k m ks = Ok ks' ->
  md_read_k gv ks' = Ok m
  /\ (exists a', root_attrs_any ks' = Some a' /\ Meta.jget "geff" a' = Some (to_json m)
                 /\ forall k, k <> "geff" -> Meta.jget k a' = attr_get k (root_attrs_any ks))
  /\ (forall k, k <> attr_doc_key ks -> klookup k ks' = klookup k ks).
Proof.
  intros Hm Hw. destruct (md_write_k_root m ks ks' Hw) as [f [Ep _]].
  destruct (attrs_all gv m (root_attrs_any ks) Hm) as [R [G F]].
  split; [|split; [|apply (md_write_k_frame m ks ks' Hw)]].
  - rewrite (md_read_k_root gv ks' f _ Ep). destruct (root_attrs_any ks); cbn [md_write] in *; exact R.
  - unfold root_attrs_any at 1. rewrite Ep. eexists. split; [reflexivity|].
    destruct (root_attrs_any ks); cbn [md_write attr_get] in *; split; assumption.
Qed.
