(* ReadMaskLemmas.v -- loading under a mask = masking the full load (C09). *)
From Geff Require Import Base Dtype DtypeLemmas Vlen VlenLemmas Tree TreeLemmas Validate Write Read RoundTrip WriteLemmas ReadLemmas.
Open Scope nat_scope.
Open Scope list_scope.

(* ---------- select / chunks algebra ---------- *)
Lemma select_map {A B} (f : A -> B) keep l : select keep (map f l) = map f (select keep l).
Proof. revert l. induction keep as [|b k IH]; intros [|x r]; cbn; try reflexivity.
  destruct b; cbn; rewrite IH; reflexivity. Qed.

Lemma select_Forall {A} (P : A -> Prop) keep l : Forall P l -> Forall P (select keep l).
Proof. revert l. induction keep as [|b k IH]; intros [|x r] H; cbn; try constructor.
  apply Forall_cons_iff in H. destruct H as [Hx Hr]. destruct b; [constructor; auto | auto]. Qed.

Lemma select_In {A} keep (l : list A) x : In x (select keep l) -> In x l.
Proof. revert l. induction keep as [|b k IH]; intros [|y r] H; cbn in *; try contradiction.
  destruct b; [destruct H as [<-|H]; auto | auto]. Qed.

Lemma mapM_select {A B} (f : A -> res B) keep : forall l r,
  mapM f l = Ok r -> mapM f (select keep l) = Ok (select keep r).
Proof. induction keep as [|b k IH]; intros [|x l] r H; cbn in *.
  - reflexivity.
  - reflexivity.
  - inversion H; subst. reflexivity.
  - destruct (f x) as [y|e] eqn:Ef; [|discriminate].
    destruct (mapM f l) as [ys|e] eqn:Em; [|discriminate]. inversion H; subst r.
    destruct b; cbn; [rewrite Ef, (IH _ _ Em); reflexivity | apply IH; exact Em]. Qed.

Lemma chunks_map {A B} (f : A -> B) k n l : chunks k n (map f l) = map (map f) (chunks k n l).
Proof. revert l. induction n as [|n IH]; intros l; cbn; [reflexivity|].
  rewrite firstn_map, skipn_map, IH. reflexivity. Qed.

Lemma chunks_length {A} k n (l : list A) : length l = n * k -> Forall (fun r => length r = k) (chunks k n l).
Proof. revert l. induction n as [|n IH]; intros l H; cbn; constructor.
  - rewrite firstn_length. lia.
  - apply IH. rewrite skipn_length. lia. Qed.

Lemma concat_map_map {A B} (f : A -> B) (ll : list (list A)) : List.concat (map (map f) ll) = map f (List.concat ll).
Proof. induction ll as [|l r IH]; cbn; [reflexivity|]. rewrite map_app, IH. reflexivity. Qed.

(* ---------- masking a loaded property ---------- *)
Definition mask_prop (mask : option (list bool)) (p : prop) : prop :=
  mkprop (match p_vals p with
          | PFixed a => PFixed (mask_rows mask a)
          | PVlen els => PVlen (match mask with None => els | Some keep => select keep els end)
          end)
         (option_map (mask_rows mask) (p_missing p)).

Lemma size_cons n sh : size (n :: sh) = n * size sh. Proof. reflexivity. Qed.

(* the offset table of a masked values array is the masked offset table *)
Lemma table_rows_mask keep v n rest :
  wf_arr v = true -> a_shape v = n :: rest ->
  table_rows (mask_rows (Some keep) v) = select keep (table_rows v).
Proof.
  intros Hwf Hsh. unfold table_rows, mask_rows. cbn [a_shape a_flat hd].
  unfold row_size. cbn [a_shape tl]. rewrite Hsh. cbn [hd tl].
  set (rs := size rest). set (rows := select keep (chunks rs n (a_flat v))).
  rewrite <- concat_map_map.
  assert (Hlen : length (a_flat v) = n * rs).
  { unfold wf_arr in Hwf. apply Nat.eqb_eq in Hwf. rewrite Hwf, Hsh. reflexivity. }
  assert (HF : Forall (fun r => length r = rs) rows).
  { unfold rows. apply select_Forall. apply chunks_length. exact Hlen. }
  replace (length rows) with (length (map (map Z.to_nat) rows)) by apply map_length.
  rewrite chunks_concat.
  - unfold rows. rewrite <- select_map, <- chunks_map. reflexivity.
  - apply Forall_forall. intros r Hr. apply in_map_iff in Hr. destruct Hr as [r0 [<- Hr0]]. rewrite map_length.
    rewrite Forall_forall in HF. apply HF. exact Hr0.
Qed.

Theorem load_prop_mask zp keep pm p :
  (pm_varlength pm = true -> wf_arr (zp_values zp) = true /\ exists n rest, a_shape (zp_values zp) = n :: rest) ->
  load_prop zp None pm = Ok p ->
  load_prop zp (Some keep) pm = Ok (mask_prop (Some keep) p).
Proof.
  intros Hwf H. unfold load_prop in *.
  destruct (negb (dtype_eqb (a_dt (zp_values zp)) (if pm_varlength pm then DU64 else pm_dtype pm))); [discriminate|].
  cbn [mask_rows] in H.
  destruct (zp_missing zp) as [m|] eqn:Em.
  - destruct (dtype_eqb (a_dt m) DBool); [|discriminate]. cbn [rbind] in *.
    destruct (pm_varlength pm) eqn:Evl.
    + destruct (zp_data zp) as [d|]; [|discriminate].
      destruct (negb (dtype_eqb (a_dt d) (pm_dtype pm))); [discriminate|].
      destruct (Hwf eq_refl) as [Hw [n [rest Hsh]]].
      rewrite (table_rows_mask keep _ n rest Hw Hsh).
      destruct (deserialize (table_rows (zp_values zp)) (a_flat d)) as [elems|e] eqn:Ed; [|discriminate].
      unfold deserialize in *. rewrite (mapM_select _ keep _ _ Ed).
      inversion H; subst p. unfold mask_prop. cbn [p_vals p_missing option_map]. rewrite select_map. reflexivity.
    + inversion H; subst p. reflexivity.
  - cbn [rbind] in *.
    destruct (pm_varlength pm) eqn:Evl.
    + destruct (zp_data zp) as [d|]; [|discriminate].
      destruct (negb (dtype_eqb (a_dt d) (pm_dtype pm))); [discriminate|].
      destruct (Hwf eq_refl) as [Hw [n [rest Hsh]]].
      rewrite (table_rows_mask keep _ n rest Hw Hsh).
      destruct (deserialize (table_rows (zp_values zp)) (a_flat d)) as [elems|e] eqn:Ed; [|discriminate].
      unfold deserialize in *. rewrite (mapM_select _ keep _ _ Ed).
      inversion H; subst p. unfold mask_prop. cbn [p_vals p_missing option_map]. rewrite select_map. reflexivity.
    + inversion H; subst p. reflexivity.
Qed.

Lemma mask_prop_none p : mask_prop None p = p.
Proof. destruct p as [v m]. unfold mask_prop. cbn. destruct v, m; reflexivity. Qed.

Definition zprop_ok (pm : pmeta) (zp : zprop) : Prop :=
  pm_varlength pm = true -> wf_arr (zp_values zp) = true /\ exists n rest, a_shape (zp_values zp) = n :: rest.

Definition mask_props (mask : option (list bool)) (ps : props) : props :=
  map (fun kv => (fst kv, mask_prop mask (snd kv))) ps.

Lemma load_props_mask root grp pmd mask : forall names ps,
  (forall name zp pm, In name names -> read_prop root grp name = Ok zp -> alookup name pmd = Some pm -> zprop_ok pm zp) ->
  load_props root grp names pmd None = Ok ps ->
  load_props root grp names pmd mask = Ok (mask_props mask ps).
Proof.
  destruct mask as [keep|].
  2:{ intros names ps _ H. rewrite H. f_equal. unfold mask_props. rewrite <- (map_id ps) at 1.
      apply map_ext. intros [k v]. cbn. rewrite mask_prop_none. reflexivity. }
  unfold load_props. induction names as [|name r IH]; intros ps Hok H; cbn [mapM] in *.
  - inversion H; subst. reflexivity.
  - destruct (read_prop root grp name) as [zp|e] eqn:Er; [|discriminate]. cbn [rbind] in *.
    destruct (alookup name pmd) as [pm|] eqn:El; [|discriminate].
    destruct (load_prop zp None pm) as [p|e] eqn:Elp; [|discriminate]. cbn [rbind] in H.
    rewrite (load_prop_mask zp keep pm p (Hok name zp pm (or_introl eq_refl) Er El) Elp). cbn [rbind].
    match type of H with match ?m with _ => _ end = _ => destruct m as [ps'|e] eqn:Em; [|discriminate] end.
    inversion H; subst ps.
    rewrite (IH ps'); [reflexivity | | reflexivity].
    intros n0 z0 p0 Hin. apply Hok. right. exact Hin.
Qed.

Lemma aset_map_val {V W} (g : V -> W) k v (l : list (string * V)) :
  aset k (g v) (map (fun kv => (fst kv, g (snd kv))) l) = map (fun kv => (fst kv, g (snd kv))) (aset k v l).
Proof. induction l as [|[k' v'] r IH]; cbn; [reflexivity|]. destruct (String.eqb k k'); cbn; [reflexivity | rewrite IH; reflexivity]. Qed.

Lemma dict_of_mask mask ps : dict_of (mask_props mask ps) = mask_props mask (dict_of ps).
Proof. unfold dict_of, mask_props.
  change (@nil (string * prop)) with (map (fun kv : string * prop => (fst kv, mask_prop mask (snd kv))) []) at 1.
  generalize (@nil (string * prop)) as acc. induction ps as [|[k v] r IH]; intros acc; cbn; [reflexivity|].
  rewrite (aset_map_val (mask_prop mask)). apply IH. Qed.

(* ---------- the restriction of a loaded graph ---------- *)
Definition edge_mask_of (nmask emask : option (list bool)) (eids : arr) (kept_nodes : list Z) : option (list bool) :=
  match nmask with
  | None => emask
  | Some _ => let k := edges_kept eids kept_nodes in
              match emask with Some em => Some (and_masks em k) | None => Some k end
  end.

(* keep the selected nodes in stored order; keep the selected edges whose two endpoints are both kept;
   select the rows of every loaded property (var-length elements whole); metadata unchanged *)
Definition restrict (g : mgraph) (nmask emask : option (list bool)) : mgraph :=
  let nodes := mask_rows nmask (g_nids g) in
  let em' := edge_mask_of nmask emask (g_eids g) (a_flat nodes) in
  mkmg (g_md g) nodes (mask_rows em' (g_eids g)) (mask_props nmask (g_nprops g)) (mask_props em' (g_eprops g)).

Definition store_ok (rd : reader) (nn en : list string) : Prop :=
  (forall name zp pm, In name nn -> read_prop (rd_root rd) Consts.path_NODES name = Ok zp ->
      alookup name (md_nprops (rd_md rd)) = Some pm -> zprop_ok pm zp) /\
  (forall name zp pm, In name en -> read_prop (rd_root rd) Consts.path_EDGES name = Ok zp ->
      alookup name (md_eprops (rd_md rd)) = Some pm -> zprop_ok pm zp).

Theorem build_restrict rd nnames enames nm em gfull :
  store_ok rd (match nnames with Some l => l | None => rd_nnames rd end)
              (match enames with Some l => l | None => rd_enames rd end) ->
  build rd nnames enames None None = Ok gfull ->
  build rd nnames enames nm em = Ok (restrict gfull nm em).
Proof.
  intros [Hokn Hoke] H. unfold build in *.
  set (nn := match nnames with Some l => l | None => rd_nnames rd end) in *.
  set (en := match enames with Some l => l | None => rd_enames rd end) in *.
  destruct (mapM (read_prop (rd_root rd) Consts.path_NODES) nn) as [zn|e]; [|discriminate].
  destruct (mapM (read_prop (rd_root rd) Consts.path_EDGES) en) as [ze|e]; [|discriminate]. cbn [rbind] in *.
  destruct (load_props (rd_root rd) Consts.path_NODES nn (md_nprops (rd_md rd)) None) as [nps|e] eqn:Enp; [|discriminate].
  cbn [rbind] in H. cbn [mask_rows] in H.
  destruct (load_props (rd_root rd) Consts.path_EDGES en (md_eprops (rd_md rd)) None) as [eps|e] eqn:Eep; [|discriminate].
  cbn [rbind] in H. inversion H; subst gfull; clear H.
  rewrite (load_props_mask _ _ _ nm nn nps Hokn Enp). cbn [rbind].
  unfold restrict. cbn [g_md g_nids g_eids g_nprops g_eprops].
  set (em' := edge_mask_of nm em (rd_eids rd) (a_flat (mask_rows nm (rd_nids rd)))).
  assert (Hem : match nm with
                | Some _ => match em with
                            | Some em0 => Some (and_masks em0 (edges_kept (rd_eids rd) (a_flat (mask_rows nm (rd_nids rd)))))
                            | None => Some (edges_kept (rd_eids rd) (a_flat (mask_rows nm (rd_nids rd))))
                            end
                | None => em end = em') by (unfold em', edge_mask_of; destruct nm; reflexivity).
  rewrite Hem.
  rewrite (load_props_mask _ _ _ em' en eps Hoke Eep). cbn [rbind].
  rewrite !dict_of_mask. reflexivity.
Qed.

(* ---------- no returned edge refers to a node that was not returned ---------- *)
Lemma select_and_pred {A} (P : A -> bool) : forall (em : list bool) (rows : list A) r,
  In r (select (and_masks em (map P rows)) rows) -> P r = true.
Proof. induction em as [|b em IH]; intros [|x rows] r H; cbn in *; try contradiction.
  destruct (b && P x) eqn:E.
  - destruct H as [<-|H]; [apply andb_true_iff in E; tauto | eapply IH; eauto].
  - eapply IH; eauto. Qed.
Lemma select_pred {A} (P : A -> bool) : forall (rows : list A) r, In r (select (map P rows) rows) -> P r = true.
Proof. induction rows as [|x rows IH]; intros r H; cbn in *; [contradiction|].
  destruct (P x) eqn:E; [destruct H as [<-|H]; auto | auto]. Qed.

Theorem restrict_closed g keep em x :
  In x (a_flat (g_eids (restrict g (Some keep) em))) -> In x (a_flat (g_nids (restrict g (Some keep) em))).
Proof.
  unfold restrict. cbn [g_eids g_nids]. set (nodes := mask_rows (Some keep) (g_nids g)).
  unfold edge_mask_of, edges_kept.
  set (rows := chunks (row_size (g_eids g)) (hd 0 (a_shape (g_eids g))) (a_flat (g_eids g))).
  set (P := fun row : list Z => forallb (fun x0 => zmem x0 (a_flat nodes)) row).
  intros Hin.
  assert (Hrow : exists r, In x r /\ P r = true).
  { destruct em as [em0|]; cbn [mask_rows a_flat] in Hin; apply in_concat in Hin; destruct Hin as [r [Hr Hx]];
      exists r; (split; [exact Hx|]).
    - eapply (select_and_pred P). exact Hr.
    - eapply (select_pred P). exact Hr. }
  destruct Hrow as [r [Hx HP]]. unfold P in HP. rewrite forallb_forall in HP. apply zmem_In. apply HP. exact Hx.
Qed.

(* ---------- property subsets: each loaded property depends on its own name only ---------- *)
Lemma load_props_spec root grp pmd mask : forall names ps,
  load_props root grp names pmd mask = Ok ps ->
  akeys ps = names /\
  forall name p, In (name, p) ps ->
    exists zp pm, read_prop root grp name = Ok zp /\ alookup name pmd = Some pm /\ load_prop zp mask pm = Ok p.
Proof.
  unfold load_props. induction names as [|name r IH]; intros ps H; cbn [mapM] in H.
  - inversion H; subst. split; [reflexivity | intros ? ? []].
  - destruct (read_prop root grp name) as [zp|e] eqn:Er; [|discriminate]. cbn [rbind] in H.
    destruct (alookup name pmd) as [pm|] eqn:El; [|discriminate].
    destruct (load_prop zp mask pm) as [p|e] eqn:Elp; [|discriminate]. cbn [rbind] in H.
    match type of H with match ?m with _ => _ end = _ => destruct m as [ps'|e] eqn:Em; [|discriminate] end.
    inversion H; subst ps. destruct (IH ps' eq_refl) as [Hk Hall]. split.
    + change (akeys ((name, p) :: ps')) with (name :: akeys ps'). rewrite Hk. reflexivity.
    + intros n0 p0 [Heq|Hin]; [inversion Heq; subst; eauto | apply Hall; exact Hin].
Qed.

Lemma prune_keys pmd loaded k : In k (akeys (prune pmd loaded)) <-> In k (akeys pmd) /\ In k loaded.
Proof. unfold prune, akeys. rewrite in_map_iff. split.
  - intros [[k' v] [<- Hin]]. apply filter_In in Hin. destruct Hin as [Hin Hs]. cbn in *.
    split; [apply (in_map fst) in Hin; exact Hin | apply smem_In; exact Hs].
  - intros [Hin Hl]. apply in_map_iff in Hin. destruct Hin as [[k' v] [<- Hin]]. exists (k', v). split; [reflexivity|].
    apply filter_In. split; [exact Hin | apply smem_In; exact Hl].
Qed.

Theorem build_names rd nn en nm em g :
  NoDup nn -> NoDup en ->
  build rd (Some nn) (Some en) nm em = Ok g ->
  akeys (g_nprops g) = nn /\ akeys (g_eprops g) = en /\
  (forall k, In k (akeys (md_nprops (g_md g))) <-> In k nn) /\
  (forall k, In k (akeys (md_eprops (g_md g))) <-> In k en) /\
  (forall name p, In (name, p) (g_nprops g) ->
     exists zp pm, read_prop (rd_root rd) Consts.path_NODES name = Ok zp /\ alookup name (md_nprops (rd_md rd)) = Some pm /\
                   load_prop zp nm pm = Ok p).
Proof.
  intros Hnn Hen H. unfold build in H.
  destruct (mapM (read_prop (rd_root rd) Consts.path_NODES) nn) as [zn|e]; [|discriminate].
  destruct (mapM (read_prop (rd_root rd) Consts.path_EDGES) en) as [ze|e]; [|discriminate]. cbn [rbind] in H.
  destruct (load_props (rd_root rd) Consts.path_NODES nn (md_nprops (rd_md rd)) nm) as [nps|e] eqn:Enp; [|discriminate].
  cbn [rbind] in H.
  match type of H with context [load_props _ Consts.path_EDGES en _ ?m] => set (em' := m) in * end.
  destruct (load_props (rd_root rd) Consts.path_EDGES en (md_eprops (rd_md rd)) em') as [eps|e] eqn:Eep; [|discriminate].
  cbn [rbind] in H. inversion H; subst g; clear H. cbn [g_nprops g_eprops g_md md_nprops md_eprops].
  destruct (load_props_spec _ _ _ _ _ _ Enp) as [Hkn Halln]. destruct (load_props_spec _ _ _ _ _ _ Eep) as [Hke Halle].
  assert (Hdn : dict_of nps = nps) by (apply ReadLemmas.dict_of_nodup; rewrite Hkn; exact Hnn).
  assert (Hde : dict_of eps = eps) by (apply ReadLemmas.dict_of_nodup; rewrite Hke; exact Hen).
  rewrite Hdn, Hde. repeat split; auto.
  - intro Hin. apply prune_keys in Hin. tauto.
  - intro Hin. apply prune_keys. split; [|exact Hin].
    rewrite <- Hkn in Hin. unfold akeys in Hin. apply in_map_iff in Hin. destruct Hin as [[k' p] [<- Hin]].
    destruct (Halln _ _ Hin) as [zp [pm [_ [Hl _]]]]. cbn. apply alookup_some_in in Hl. apply (in_map fst) in Hl. exact Hl.
  - intro Hin. apply prune_keys in Hin. tauto.
  - intro Hin. apply prune_keys. split; [|exact Hin].
    rewrite <- Hke in Hin. unfold akeys in Hin. apply in_map_iff in Hin. destruct Hin as [[k' p] [<- Hin]].
    destruct (Halle _ _ Hin) as [zp [pm [_ [Hl _]]]]. cbn. apply alookup_some_in in Hl. apply (in_map fst) in Hl. exact Hl.
Qed.
