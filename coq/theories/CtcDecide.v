(* CtcDecide.v -- `consistent` (CtcLemmas.v), the premise of every C15 theorem, is decidable: consistentb, proved equivalent.
   The harness evaluates consistentb on every generated dataset and compares it with its own predicate `consistent()`, the gate
   of the oracle (Corr/C15.v, IConvW).

   Then: the converter on an occupied target with overwrite=True (ctc_overwrite), and the parts of the result that Corr/C15.v
   observes beside the graph, stated about the conversion (ctc_extras). *)
From Coq Require Import Relations Sorting.Sorted Permutation.
From Geff Require Import Base Dtype DtypeLemmas Vlen VlenLemmas Tree TreeLemmas Validate Write Read RoundTrip WriteLemmas
  ReadLemmas ValidateLayout C01Lemmas GraphVal GraphValLemmas Reach Tracks TracksLemmas CrashLemmas OverwriteLemmas ConvOverwrite
  Ctc CtcLemmas.
From Geff.Gen Require Import Consts.
Open Scope string_scope.
Open Scope list_scope.
Open Scope Z_scope.

(* ================= 1. booleans for the clauses ================= *)
Fixpoint nodupz (l : list Z) : bool :=
  match l with [] => true | x :: r => negb (zmem x r) && nodupz r end.
Lemma nodupz_iff l : nodupz l = true <-> NoDup l.
Proof.
  induction l as [|x r IH]; cbn; [split; [constructor | reflexivity]|].
  rewrite andb_true_iff, negb_true_iff, IH. split.
  - intros [H1 H2]. constructor; [|exact H2]. intros Hin. apply zmem_In in Hin. congruence.
  - intros H. inversion H as [|? ? Hn Hr]; subst. split; [|exact Hr].
    destruct (zmem x r) eqn:E; [|reflexivity]. apply zmem_In in E. contradiction.
Qed.

Definition occursb (fs : list frame) (t l : Z) : bool :=
  (0 <=? t) && match nth_error fs (Z.to_nat t) with Some f => zmem l (map fst f) | None => false end.
Lemma occursb_iff fs t l : occursb fs t l = true <-> occurs fs t l.
Proof.
  unfold occursb, occurs. rewrite andb_true_iff, Z.leb_le. split.
  - intros [Ht H]. split; [exact Ht|]. destruct (nth_error fs (Z.to_nat t)) as [f|]; [|discriminate].
    exists f. split; [reflexivity | apply zmem_In; exact H].
  - intros [Ht [f [Hf Hl]]]. split; [exact Ht|]. rewrite Hf. apply zmem_In. exact Hl.
Qed.

(* every frame that shows label l lies in B..E; t is the index of the first frame of fs *)
Fixpoint span_okb (t : Z) (fs : list frame) (l B E : Z) : bool :=
  match fs with
  | [] => true
  | f :: r => (negb (zmem l (map fst f)) || ((B <=? t) && (t <=? E))) && span_okb (t + 1) r l B E
  end.
Lemma span_okb_iff fs l B E : forall t0,
  span_okb t0 fs l B E = true <->
  forall k f, nth_error fs k = Some f -> In l (map fst f) -> B <= t0 + Z.of_nat k <= E.
Proof.
  induction fs as [|f0 r IH]; intros t0; cbn [span_okb].
  - split; [intros _ k f Hk; destruct k; discriminate | reflexivity].
  - rewrite andb_true_iff, IH. split.
    + intros [H0 Hr] k f Hk Hl. destruct k as [|k]; cbn [nth_error] in Hk.
      * inversion Hk; subst f. apply orb_true_iff in H0. destruct H0 as [H0|H0].
        -- apply negb_true_iff in H0. apply zmem_In in Hl. congruence.
        -- apply andb_true_iff in H0. destruct H0 as [H1 H2]. apply Z.leb_le in H1, H2. lia.
      * specialize (Hr k f Hk Hl). lia.
    + intros H. split.
      * destruct (zmem l (map fst f0)) eqn:E0; cbn [negb orb]; [|reflexivity]. apply zmem_In in E0.
        specialize (H 0%nat f0 eq_refl E0). apply andb_true_iff. split; apply Z.leb_le; lia.
      * intros k f Hk Hl. specialize (H (S k) f Hk Hl). lia.
Qed.

Lemma span_okb_occurs fs l B E :
  span_okb 0 fs l B E = true <-> forall t, occurs fs t l -> B <= t <= E.
Proof.
  rewrite span_okb_iff. split.
  - intros H t [Ht [f [Hf Hl]]]. specialize (H (Z.to_nat t) f Hf Hl). lia.
  - intros H k f Hk Hl. assert (Ho : occurs fs (Z.of_nat k) l).
    { split; [lia|]. exists f. rewrite Nat2Z.id. auto. }
    specialize (H _ Ho). lia.
Qed.

Definition row_okb (fs : list frame) (r : row) : bool :=
  occursb fs (r_B r) (r_L r) && occursb fs (r_E r) (r_L r) && span_okb 0 fs (r_L r) (r_B r) (r_E r).
Definition parent_okb (rows : list row) (r : row) : bool :=
  (r_P r =? 0) || ((0 <? r_P r) && existsb (fun p => (r_L p =? r_P r) && (r_E p <? r_B r)) rows).
Definition nonemptyb (fs : list frame) : bool := existsb (fun f => match f with [] => false | _ => true end) fs.

Definition consistentb (d : ctc) : bool :=
  let fs := d_frames d in
  let rows := table_of d in
  d_dir d && (match d_table d with Some _ => true | None => false end) &&
  forallb (fun f => nodupz (map fst f)) fs &&
  nonemptyb fs &&
  nodupz (map r_L rows) &&
  forallb (fun f => forallb (fun l => zmem l (map r_L rows)) (map fst f)) fs &&
  forallb (row_okb fs) rows &&
  forallb (parent_okb rows) rows.

Lemma nonemptyb_iff fs : nonemptyb fs = true <-> exists t l, occurs fs t l.
Proof.
  unfold nonemptyb. rewrite existsb_exists. split.
  - intros [f [Hf Hne]]. destruct f as [|[l c] f']; [discriminate|].
    destruct (In_nth_error _ _ Hf) as [k Hk]. exists (Z.of_nat k), l. split; [lia|].
    exists ((l, c) :: f'). rewrite Nat2Z.id. split; [exact Hk | left; reflexivity].
  - intros [t [l [_ [f [Hf Hl]]]]]. exists f. split; [apply (nth_error_In _ _ Hf)|]. destruct f; [destruct Hl | reflexivity].
Qed.

Lemma labels_okb_iff fs Ls :
  forallb (fun f : frame => forallb (fun l => zmem l Ls) (map fst f)) fs = true <-> forall t l, occurs fs t l -> In l Ls.
Proof.
  rewrite forallb_forall. split.
  - intros H t l [_ [f [Hf Hl]]]. specialize (H f (nth_error_In _ _ Hf)). rewrite forallb_forall in H. apply zmem_In. apply H. exact Hl.
  - intros H f Hf. apply forallb_forall. intros l Hl. apply zmem_In. destruct (In_nth_error _ _ Hf) as [k Hk].
    apply (H (Z.of_nat k) l). split; [lia|]. exists f. rewrite Nat2Z.id. auto.
Qed.

Lemma row_okb_iff fs r : row_okb fs r = true <->
  occurs fs (r_B r) (r_L r) /\ occurs fs (r_E r) (r_L r) /\ forall t, occurs fs t (r_L r) -> r_B r <= t <= r_E r.
Proof. unfold row_okb. rewrite !andb_true_iff, !occursb_iff, span_okb_occurs. tauto. Qed.

Lemma parent_okb_iff rows r : parent_okb rows r = true <->
  (r_P r <> 0 -> 0 < r_P r /\ exists p, In p rows /\ r_L p = r_P r /\ r_E p < r_B r).
Proof.
  unfold parent_okb. rewrite orb_true_iff, andb_true_iff, Z.eqb_eq, Z.ltb_lt, existsb_exists. split.
  - intros [H|[H1 [p [Hp Hb]]]] Hn; [contradiction|]. split; [exact H1|]. apply andb_true_iff in Hb. destruct Hb as [Hb1 Hb2].
    apply Z.eqb_eq in Hb1. apply Z.ltb_lt in Hb2. exists p. auto.
  - intros H. destruct (Z.eq_dec (r_P r) 0) as [E|E]; [left; exact E|]. right. destruct (H E) as [H1 [p [Hp [HL HE]]]].
    split; [exact H1|]. exists p. split; [exact Hp|]. apply andb_true_iff. split; [apply Z.eqb_eq; exact HL | apply Z.ltb_lt; exact HE].
Qed.

(* ================= 2. consistentb decides consistent ================= *)
Theorem consistentb_iff d : consistentb d = true <-> consistent d.
Proof.
  unfold consistentb. rewrite !andb_true_iff. split.
  - intros [[[[[[[H1 H2] H3] H4] H5] H6] H7] H8]. constructor.
    + exact H1.
    + destruct (d_table d); [discriminate | discriminate H2].
    + intros f Hf. rewrite forallb_forall in H3. apply nodupz_iff. apply H3. exact Hf.
    + apply nonemptyb_iff. exact H4.
    + apply nodupz_iff. exact H5.
    + apply labels_okb_iff. exact H6.
    + intros r Hr. rewrite forallb_forall in H7. apply row_okb_iff. apply H7. exact Hr.
    + intros r Hr. rewrite forallb_forall in H8. apply parent_okb_iff. apply H8. exact Hr.
  - intros C. repeat split.
    + exact (cs_dir d C).
    + destruct (d_table d) eqn:E; [reflexivity|]. exfalso. apply (cs_table d C). exact E.
    + apply forallb_forall. intros f Hf. apply nodupz_iff. apply (cs_frames d C). exact Hf.
    + apply nonemptyb_iff. exact (cs_nonempty d C).
    + apply nodupz_iff. exact (cs_rows d C).
    + apply labels_okb_iff. exact (cs_labels d C).
    + apply forallb_forall. intros r Hr. apply row_okb_iff. apply (cs_span d C). exact Hr.
    + apply forallb_forall. intros r Hr. apply parent_okb_iff. apply (cs_parent d C). exact Hr.
Qed.

Corollary consistentb_sound d : consistentb d = true -> consistent d.
Proof. apply consistentb_iff. Qed.
Corollary consistent_dec d : {consistent d} + {~ consistent d}.
Proof. destruct (consistentb d) eqn:E; [left; apply consistentb_iff; exact E | right; intros C; apply consistentb_iff in C; congruence]. Qed.

(* ================= 3. occupied target, overwrite=True ================= *)
(* the run of the converter up to write_arrays *)
Lemma from_ctc_overwrite_eq d a ch es : consistent d -> d_overwrite d = true -> ahas "geff" a = true ->
  graph_edges (nodes_of (d_frames d)) (table_of d) = Ok es ->
  exists tr0, from_ctc_to_geff d (init (Some (ZG a ch)))
              = write_arrays KPath (ctc_wgraph (d_is3d d) (nodes_of (d_frames d)) es) (ctc_md (d_is3d d)) true false
                  (mkst (cleaned KPath a ch) tr0).
Proof.
  intros Hc Ho Hg He. unfold from_ctc_to_geff. rewrite (cs_dir d Hc). cbn [negb].
  pose proof (cs_nodes_nonempty d Hc) as Hne.
  assert (Hconv : convert d = Ok (ctc_wgraph (d_is3d d) (nodes_of (d_frames d)) es, ctc_md (d_is3d d))).
  { unfold convert. destruct (nodes_of (d_frames d)) as [|n0 r0] eqn:Ens; [contradiction|]. rewrite <- Ens in *.
    unfold table_of in He. destruct (d_table d) as [rows|] eqn:Et; [|exfalso; apply (cs_table d Hc); exact Et].
    rewrite He. reflexivity. }
  destruct (d_table d) as [rows|] eqn:Et; [|exfalso; apply (cs_table d Hc); exact Et].
  destruct (delete_geff_root KPath (init (Some (ZG a ch))) a ch eq_refl Hg) as [tr0 Hd]. exists tr0.
  unfold bind at 1. rewrite check_for_geff_spec. cbn [s_root init exists_geff]. rewrite Ho.
  unfold bind at 1. rewrite Hd. cbn [negb]. rewrite andb_false_r.
  unfold bind at 1. unfold ret at 1. unfold bind at 1. unfold lift at 1. rewrite Hconv. cbn [fst snd]. reflexivity.
Qed.

Lemma from_ctc_free_eq d es : consistent d -> seg_free d ->
  graph_edges (nodes_of (d_frames d)) (table_of d) = Ok es ->
  from_ctc_to_geff d (init None)
  = write_arrays KPath (ctc_wgraph (d_is3d d) (nodes_of (d_frames d)) es) (ctc_md (d_is3d d)) true false (init None).
Proof.
  intros Hc Hseg He. unfold from_ctc_to_geff. rewrite (cs_dir d Hc). cbn [negb].
  pose proof (cs_nodes_nonempty d Hc) as Hne.
  assert (Hconv : convert d = Ok (ctc_wgraph (d_is3d d) (nodes_of (d_frames d)) es, ctc_md (d_is3d d))).
  { unfold convert. destruct (nodes_of (d_frames d)) as [|n0 r0] eqn:Ens; [contradiction|]. rewrite <- Ens in *.
    unfold table_of in He. destruct (d_table d) as [rows|] eqn:Et; [|exfalso; apply (cs_table d Hc); exact Et].
    rewrite He. reflexivity. }
  destruct (d_table d) as [rows|] eqn:Et; [|exfalso; apply (cs_table d Hc); exact Et].
  unfold bind at 1. rewrite (check_for_geff_clean KPath None I). unfold bind at 1. unfold ret at 1.
  assert (Hg : seg_requested d && negb (match d_frames d with [] => true | _ => false end) && d_seg_exists d && negb (d_overwrite d) = false).
  { unfold seg_free in Hseg. destruct (seg_requested d), (d_seg_exists d), (d_overwrite d); cbn; try reflexivity; try (rewrite andb_false_r; reflexivity).
    specialize (Hseg eq_refl eq_refl). discriminate. }
  rewrite Hg. unfold bind at 1. unfold ret at 1. unfold bind at 1. unfold lift at 1. rewrite Hconv. cbn [fst snd]. reflexivity.
Qed.

(* overwriting a target that holds exactly a geff leaves the very tree that the conversion onto a free target leaves;
   it passes structural validation, reads back as the converted graph and passes graph validation *)
Theorem ctc_overwrite d a ch : consistent d -> d_overwrite d = true -> only_geff a ch ->
  let ns := nodes_of (d_frames d) in
  exists es md' tr post,
    graph_edges ns (table_of d) = Ok es /\
    final_metadata (ctc_wgraph (d_is3d d) ns es) (ctc_md (d_is3d d)) = Ok md' /\
    from_ctc_to_geff d (init (Some (ZG a ch))) = (mkst (Some post) tr, Ok tt) /\
    (exists tr', from_ctc_to_geff d (init None) = (mkst (Some post) tr', Ok tt)) /\
    validate_structure KPath (Some post) = Ok tt /\
    read_to_memory KPath (Some post) true None None =
      Ok (mkmg md' (mkarr DU64 [length ns] (map n_id ns)) (mkarr DU64 [length es; 2%nat] (flat_edges es))
               (ctc_props (d_is3d d) ns) []) /\
    graph_check true (map n_id ns) es = None.
Proof.
  intros Hc Ho Hog ns.
  assert (Hseg : seg_free d) by (intros _ _; exact Ho).
  destruct (ctc_pipeline d Hc Hseg) as [es [md' [tr' [post [He [Hconv [Hmd [Hrun [Hv [Hr Hg]]]]]]]]]]. fold ns in He, Hconv, Hmd, Hr, Hg.
  pose proof (cs_nodes_nonempty d Hc) as Hne. fold ns in Hne.
  pose proof (ctc_wf_input (d_is3d d) ns es Hne) as Hwf.
  assert (Hpost : post = layout None (ctc_wgraph (d_is3d d) ns es)
                           (backfill (w_nids (ctc_wgraph (d_is3d d) ns es)) (ctc_md (d_is3d d)) (w_nprops (ctc_wgraph (d_is3d d) ns es))) md').
  { rewrite (from_ctc_free_eq d es Hc Hseg He) in Hrun. apply (write_free_post _ _ _ _ _ _ _ Hwf Hmd Hrun). }
  destruct (from_ctc_overwrite_eq d a ch es Hc Ho (proj1 Hog) He) as [tr0 Heq]. fold ns in Heq.
  rewrite (cleaned_only_geff a ch Hog) in Heq.
  destruct (write_onto_empty _ _ md' _ _ tr0 Hwf Hmd) as [[tr Hw] _].
  exists es, md', tr, post. split; [exact He|]. split; [exact Hmd|]. split; [rewrite Heq, Hpost; exact Hw|].
  split; [exists tr'; exact Hrun|]. split; [exact Hv|]. split; [exact Hr | exact Hg].
Qed.

(* other members beside the geff: the geff is deleted, the conversion is refused by write_arrays *)
Theorem ctc_overwrite_beside d a ch : consistent d -> d_overwrite d = true -> ahas "geff" a = true ->
  adel path_EDGES (adel path_NODES ch) <> [] ->
  exists tr, from_ctc_to_geff d (init (Some (ZG a ch)))
             = (mkst (Some (ZG (adel "geff" a) (adel path_EDGES (adel path_NODES ch)))) tr, Err FileExistsError).
Proof.
  intros Hc Ho Hg Hne. destruct (cs_edges_exist d Hc) as [es He].
  destruct (from_ctc_overwrite_eq d a ch es Hc Ho Hg He) as [tr0 Heq]. exists tr0.
  rewrite Heq, (write_beside_refused a ch _ _ tr0 Hne). unfold cleaned.
  destruct (adel path_EDGES (adel path_NODES ch)) as [|kv r]; [contradiction | reflexivity].
Qed.

(* ================= 4. what the conversion records beside the graph ================= *)
(* the observation of Corr/C15.v on a successful run is (read_to_memory post, extra_of d); this is what it holds *)
Theorem ctc_extras d : consistent d ->
  let ns := nodes_of (d_frames d) in
  let x := extra_of d in
  (* the declared tracklet property names a column of the written graph, and that column holds the labels *)
  x_tracklet x = Some "tracklet_id" /\
  (forall g md, convert d = Ok (g, md) ->
     exists ps, w_nprops g = Some ps /\ alookup "tracklet_id" ps = Some (col DI64 n_lab ns)) /\
  (* no segmentation target: nothing recorded *)
  (d_seg d = SegNone -> x_related x = [] /\ x_seg_shape x = None) /\
  (* a target with a path: one labels object keyed by the tracklet column, whose recorded path, resolved against the geff
     directory, is the target *)
  (forall p, d_seg d = SegPath p \/ d_seg d = SegStore (Some p) ->
     exists r, x_related x = [("labels", r, Some "tracklet_id")] /\ (plain p -> resolve (d_geff d) r = p)) /\
  (* a store without a root directory: the volume is exported, nothing can be recorded *)
  (d_seg d = SegStore None -> x_related x = []) /\
  (* the exported volume: the frames stacked along a new leading axis, unit axes up to 5-D with tczyx *)
  (seg_requested d = true ->
     exists sh, x_seg_shape x = Some sh /\ hd_error sh = Some (length (d_frames d)) /\
       (d_tczyx d = false -> sh = length (d_frames d) :: d_fshape d) /\
       (d_tczyx d = true -> (length (d_fshape d) <= 4)%nat ->
          sh = length (d_frames d) :: repeat 1%nat (4 - length (d_fshape d)) ++ d_fshape d /\ length sh = 5%nat)).
Proof.
  intros Hc ns x. split; [reflexivity|]. split.
  { intros g md Hconv. destruct (ctc_nodes d g md Hc Hconv) as [_ [_ [_ [_ [ps [Hps [_ [_ [Hl _]]]]]]]]]. exists ps. auto. }
  split. { intros Hs. unfold x, extra_of, related, seg_requested. rewrite Hs. split; reflexivity. }
  split.
  { intros p [Hs|Hs]; unfold x, extra_of, related; rewrite Hs; cbn [x_related]; eexists; (split; [reflexivity|]);
      intros Hp; apply relpath_resolves; exact Hp. }
  split. { intros Hs. unfold x, extra_of, related. rewrite Hs. reflexivity. }
  intros Hs. unfold x, extra_of. rewrite Hs. cbn [x_seg_shape]. exists (seg_shape d). split; [reflexivity|].
  split; [reflexivity|]. split; [apply seg_shape_plain | apply seg_shape_tczyx].
Qed.
